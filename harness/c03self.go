package main

// C03, chain of one — the client certificate is itself the trust anchor (verified chain = [certificate]).  The mode
// table applies to it like to any other chain: a mechanism the mode enables is consulted and its failure or
// "revoked" rejects; `disabled` accepts.  The CRL side uses a configured CRL (signature_validation_mode none: a
// self-signed end entity has no CA that could sign its CRL), the OCSP side a responder that is down under
// ocsp_aia_strict.

import (
	"crypto/rand"
	"crypto/x509"
	"crypto/x509/pkix"
	"fmt"
	"math/big"
	"os"
	"path/filepath"
	"time"
)

func selfSignedLeaf(cn string, serial int64, ocspURL []string) *Leaf {
	key := newKey(false)
	tmpl := &x509.Certificate{
		SerialNumber: big.NewInt(serial), Subject: pkix.Name{CommonName: cn},
		NotBefore: time.Now().Add(-time.Hour), NotAfter: time.Now().Add(24 * time.Hour),
		KeyUsage: x509.KeyUsageDigitalSignature, ExtKeyUsage: []x509.ExtKeyUsage{x509.ExtKeyUsageClientAuth},
		OCSPServer: ocspURL, SubjectKeyId: ski(key.Public()),
	}
	der, err := x509.CreateCertificate(rand.Reader, tmpl, tmpl, key.Public(), key)
	mustNoErr(err)
	cert, err := x509.ParseCertificate(der)
	mustNoErr(err)
	return &Leaf{Cert: cert, Key: key}
}

func c03ChainOfOne(c *Ctx) int {
	n := 0
	for _, mode := range []string{"", "prefer_ocsp", "prefer_crl", "ocsp_only", "crl_only", "disabled"} {
		specOCSP := mode == "" || mode == "prefer_ocsp" || mode == "prefer_crl" || mode == "ocsp_only"
		specCRL := mode == "" || mode == "prefer_ocsp" || mode == "prefer_crl" || mode == "crl_only"
		for _, side := range []string{"crl-lists-it", "ocsp-down-strict", "nothing"} {
			n++
			wd := c.TempDir(fmt.Sprintf("c03self_%d", n))
			var aia []string
			if side == "ocsp-down-strict" {
				aia = []string{closedPortURL("/ocsp")}
			}
			leaf := selfSignedLeaf(fmt.Sprintf("pinned client %d", n), int64(770000+n), aia)
			cfg := VCfg{Mode: mode, WorkDir: wd, Storage: "memory", SigMode: "none", Interval: "1h", AIAStrict: true}
			if side == "crl-lists-it" {
				fake := &CA{Cert: leaf.Cert, Key: leaf.Key}
				p := filepath.Join(c.Work, fmt.Sprintf("c03self_%d.crl", n))
				mustNoErr(os.WriteFile(p, fake.MakeCRL(CRLOpts{Entries: []EntryOpts{{Serial: leaf.Cert.SerialNumber}, {Serial: big.NewInt(5)}}}), 0600))
				defer os.Remove(p)
				cfg.CRLFiles = []string{p}
			}
			rep := map[string]interface{}{"mode": mode, "scenario": side}
			v, err := NewValidator(cfg)
			if err != nil {
				c.Fail("", fmt.Sprintf("chain of one, mode %q, %s: provisioning failed: %v", mode, side, err), rep)
				continue
			}
			rejected := v.Verify(leaf.Cert) != nil
			v.Close()
			os.RemoveAll(wd)
			want := (side == "crl-lists-it" && specCRL) || (side == "ocsp-down-strict" && specOCSP)
			rep["rejected"] = rejected
			c.Count("chain-of-one")
			c.Nontrivial(fmt.Sprintf("chain-of-one|%s|%s", mode, side))
			if n%5 == 0 {
				c.Sample(rep)
			}
			if rejected != want {
				c.Fail("", fmt.Sprintf("directly trusted client certificate (verified chain of one), mode %q, %s: rejected=%v but the configured mode promises rejected=%v", mode, side, rejected, want), rep)
			}
		}
	}
	return n
}
