package main

// C17, component measurements — the two places where the whole CRL passes through memory-bounded code, each on
// its own (no LevelDB caches in the picture, so the tolerance can be small and the input large):
//   download: the URL loader fetching a 1 000 000-entry CRL into a file; copy-file: the file loader copying one;
//   read:     the streaming reader handing the entries of such a file (DER and PEM) to a consumer that keeps nothing.
// The child samples runtime.MemStats.HeapAlloc every millisecond (GC percent 20): a buffer that holds the
// document, or a slice that collects the entries, shows as a peak of the order of the input.

import (
	"encoding/json"
	"fmt"
	"net/http"
	"os"
	"os/exec"
	"path/filepath"
	"runtime"
	"runtime/debug"
	"strings"
	"sync/atomic"
	"time"

	"github.com/gr33nbl00d/caddy-revocation-validator/core"
	"github.com/gr33nbl00d/caddy-revocation-validator/crl/crlloader"
	"github.com/gr33nbl00d/caddy-revocation-validator/crl/crlreader"
	"go.uber.org/zap"
)

func init() { commands["c17comp"] = runC17CompChild }

type c17Comp struct {
	What     string `json:"what"` // download | read-der | read-pem
	Entries  int    `json:"entries"`
	Bytes    int    `json:"input_bytes"`
	BaseHeap uint64 `json:"heap_before"`
	PeakHeap uint64 `json:"peak_heap"`
	Events   int    `json:"entries_delivered"`
	Err      string `json:"err,omitempty"`
}

type keepNothing struct{ n int }

func (p *keepNothing) StartUpdateCrl(*crlreader.CRLMetaInfo) error { return nil }
func (p *keepNothing) InsertRevokedCertificate(*crlreader.CRLEntry) error {
	p.n++
	return nil
}
func (p *keepNothing) UpdateExtendedMetaInfo(*crlreader.ExtendedCRLMetaInfo) error  { return nil }
func (p *keepNothing) UpdateSignatureCertificate(*core.CertificateChainEntry) error { return nil }

func c17ComponentStage(c *Ctx, ca *CA) int {
	n := 1000000
	if c.Thorough() {
		n = 4000000
	}
	self, _ := os.Executable()
	count := 0
	for _, what := range []string{"download", "copy-file", "read-der", "read-pem"} {
		count++
		path := filepath.Join(c.Work, "c17comp_"+what+".crl")
		size, _ := writeBigCRL(path, ca, n, what == "read-pem")
		out, err := exec.Command(self, "c17comp", "--out", c.TempDir("c17comp_"+what), "--work", path+"|"+what).Output()
		var o c17Comp
		if err != nil || json.Unmarshal(out, &o) != nil {
			o.Err = fmt.Sprintf("child failed: %v %.300s", err, string(out))
		}
		o.What, o.Entries, o.Bytes = what, n, size
		os.Remove(path)
		c.Count("component=" + what)
		c.Nontrivial("component|" + what)
		c.Sample(o)
		switch {
		case o.Err != "":
			c.Fail("", "component measurement ("+what+") failed: "+o.Err, o)
		case what != "download" && what != "copy-file" && o.Events != n:
			c.Fail("", fmt.Sprintf("%s: %d of %d entries delivered", what, o.Events, n), o)
		case int64(o.PeakHeap)-int64(o.BaseHeap) > int64(size)/4:
			c.Fail("", fmt.Sprintf("%s of a %d-byte CRL (%d entries): heap rose from %d to %d bytes — memory in proportion to the document", what, size, n, o.BaseHeap, o.PeakHeap), o)
		}
	}
	return count
}

func runC17CompChild(c *Ctx) {
	parts := strings.Split(c.Work, "|")
	path, what := parts[0], parts[1]
	debug.SetGCPercent(20)
	var o c17Comp
	var job func() error
	proc := &keepNothing{}
	switch what {
	case "download":
		org := NewOrigin()
		defer org.Close()
		org.Route("/big", func(_ int, w http.ResponseWriter, r *http.Request) { http.ServeFile(w, r, path) })
		loader, err := crlloader.DefaultCRLLoaderFactory{}.CreatePreferredCrlLoader(&core.CRLLocations{CRLUrl: org.URL("/big")}, zap.NewNop())
		if err != nil {
			o.Err = err.Error()
		}
		target := filepath.Join(c.Out, "downloaded.crl")
		job = func() error { return loader.LoadCRL(target) }
	case "copy-file":
		loader, err := crlloader.DefaultCRLLoaderFactory{}.CreatePreferredCrlLoader(&core.CRLLocations{CRLFile: path}, zap.NewNop())
		if err != nil {
			o.Err = err.Error()
		}
		target := filepath.Join(c.Out, "copied.crl")
		job = func() error { return loader.LoadCRL(target) }
	default:
		job = func() error {
			_, err := crlreader.StreamingCRLFileReader{}.ReadCRL(proc, path)
			return err
		}
	}
	if o.Err == "" {
		runtime.GC()
		var m runtime.MemStats
		runtime.ReadMemStats(&m)
		o.BaseHeap = m.HeapAlloc
		o.PeakHeap = m.HeapAlloc
		var stop int32
		done := make(chan struct{})
		go func() {
			defer close(done)
			var ms runtime.MemStats
			for atomic.LoadInt32(&stop) == 0 {
				runtime.ReadMemStats(&ms)
				if ms.HeapAlloc > o.PeakHeap {
					o.PeakHeap = ms.HeapAlloc
				}
				time.Sleep(time.Millisecond)
			}
		}()
		if err := job(); err != nil {
			o.Err = err.Error()
		}
		atomic.StoreInt32(&stop, 1)
		<-done
		o.Events = proc.n
	}
	b, _ := json.Marshal(o)
	os.Stdout.Write(b)
}
