package main

// C11, key confusion — a certificate is reported revoked only if ITS issuer's list names ITS serial.
// Pairs (issuer A, serial a) on a list and (issuer B, serial b) presented, chosen so that every
// sloppier way of combining issuer and serial into one key identifies them: the separator moved
// into the name or into the serial's bytes, separator dropped, serial as raw bytes / hex /
// decimal, leading-zero and sign-bit forms.  Through real handshakes, both backends.

import (
	"crypto/x509/pkix"
	"fmt"
	"math/big"
)

type c11Pair struct {
	Name      string `json:"name"`
	IssuerA   string `json:"listing_issuer_cn"`
	SerialA   string `json:"listed_serial"`
	IssuerB   string `json:"presented_issuer_cn"`
	SerialB   string `json:"presented_serial"`
	SameKey   bool   `json:"issuers_share_one_key"`
	Storage   string `json:"storage"`
	Listed    string `json:"verdict_for_listed_control"`
	Presented string `json:"verdict_for_presented"`
}

func c11KeyStage(c *Ctx) int {
	bi := func(s string) *big.Int { n, _ := new(big.Int).SetString(s, 0); return n }
	pairs := []c11Pair{
		{Name: "separator in the name vs in the raw serial bytes", IssuerA: "Seed CA_", SerialA: "7", IssuerB: "Seed CA", SerialB: "0x5f07"},
		{Name: "separator in the name vs in the decimal serial (dropped separator)", IssuerA: "Seed CA1", SerialA: "2", IssuerB: "Seed CA", SerialB: "12"},
		{Name: "separator plus digits in the name", IssuerA: "Seed CA_1", SerialA: "2", IssuerB: "Seed CA", SerialB: "12"},
		{Name: "hex digits moved into the name", IssuerA: "Seed CAa", SerialA: "0xb", IssuerB: "Seed CA", SerialB: "0xab"},
		{Name: "same issuer, serial with the sign bit set vs without", IssuerA: "Seed CA", SerialA: "0x80", IssuerB: "Seed CA", SerialB: "0x0080ff"},
		{Name: "same issuer, decimal prefix", IssuerA: "Seed CA", SerialA: "123456", IssuerB: "Seed CA", SerialB: "12345"},
		{Name: "same issuer, decimal suffix", IssuerA: "Seed CA", SerialA: "123456", IssuerB: "Seed CA", SerialB: "23456"},
		{Name: "same issuer, byte-reversed serial", IssuerA: "Seed CA", SerialA: "0x0102", IssuerB: "Seed CA", SerialB: "0x0201"},
		{Name: "same issuer, serial differing in the last byte only", IssuerA: "Seed CA", SerialA: "123456", IssuerB: "Seed CA", SerialB: "123457"},
		{Name: "same issuer, 20-byte serials differing in the first byte", IssuerA: "Seed CA", SerialA: "0x7f0102030405060708090a0b0c0d0e0f10111213", IssuerB: "Seed CA", SerialB: "0x7e0102030405060708090a0b0c0d0e0f10111213"},
		{Name: "same serial, issuer names differing in the last character", IssuerA: "Seed CA", SerialA: "77", IssuerB: "Seed CB", SerialB: "77"},
		{Name: "same serial, issuer name a prefix of the other", IssuerA: "Seed CA", SerialA: "77", IssuerB: "Seed C", SerialB: "77"},
		{Name: "same serial, same CN under another organisation", IssuerA: "Seed CA", SerialA: "77", IssuerB: "Seed CA/O=other", SerialB: "77"},
		// a CA renamed without re-keying: two issuer names, one key and one key identifier; the listing issuer is seen first
		{Name: "same serial, renamed CA with the same key (one key identifier, two names)", IssuerA: "Seed CA", SerialA: "77", IssuerB: "Seed CA renamed", SerialB: "77", SameKey: true},
		{Name: "same serial, renamed CA with the same key, other organisation", IssuerA: "Seed CA", SerialA: "78", IssuerB: "Seed CA/O=other", SerialB: "78", SameKey: true},
	}
	n := 0
	for _, storage := range []string{"memory", "disk"} {
		for i := range pairs {
			p := pairs[i]
			p.Storage = storage
			n++
			w := NewWorld(c, fmt.Sprintf("c11key_%d", n))
			name := func(s string) pkix.Name {
				if len(s) > 8 && s[len(s)-8:] == "/O=other" {
					return pkix.Name{CommonName: s[:len(s)-8], Organization: []string{"other"}}
				}
				return pkix.Name{CommonName: s}
			}
			w.CA = newCert(w.Root, CAOpts{Name: name(p.IssuerA)})
			if p.IssuerB != p.IssuerA {
				o := CAOpts{Name: name(p.IssuerB)}
				if p.SameKey {
					o.Key = w.CA.Key
				}
				w.Other = newCert(w.Root, o)
			} else {
				w.Other = w.CA
			}
			a, b := bi(p.SerialA), bi(p.SerialB)
			w.Lists["LA"] = w.CA.MakeCRL(CRLOpts{Entries: []EntryOpts{{Serial: a}, {Serial: big.NewInt(999983)}}})
			w.Lists["LB"] = w.Other.MakeCRL(CRLOpts{Entries: []EntryOpts{{Serial: big.NewInt(999979)}}})
			w.Do(sv("/a", "LA"))
			w.Do(sv("/b", "LB"))
			w.Cfg = VCfg{Mode: "crl_only", Storage: storage, SigMode: "verify", CDPStrict: true, Interval: "1h"}
			if err := w.Provision(); err != nil {
				c.Fail("", "c11 key stage: provision: "+err.Error(), p)
				w.Close()
				continue
			}
			w.Certs["listed"] = w.CA.IssueLeaf(LeafOpts{CN: "listed", Serial: a, CDP: []string{w.Org.URL("/a")}})
			w.CertSp["listed"] = CertSpec{}
			cdpB := "/b"
			if p.IssuerB == p.IssuerA {
				cdpB = "/a"
			}
			w.Certs["presented"] = w.Other.IssueLeaf(LeafOpts{CN: "presented", Serial: b, CDP: []string{w.Org.URL(cdpB)}})
			w.CertSp["presented"] = CertSpec{Issuer: "other"}
			p.Listed = w.Do(hs("listed"))
			p.Presented = w.Do(hs("presented"))
			w.Close()
			c.Count("keypair=" + storage)
			c.Nontrivial("keypair|" + storage + "|" + p.Name)
			if i%4 == 0 {
				c.Sample(p)
			}
			if p.Listed != "revoked" {
				c.Fail("", fmt.Sprintf("key stage (%s, %s): the listed certificate itself answered %s", p.Name, storage, p.Listed), p)
			}
			if p.Presented != "accept" {
				c.Fail("", fmt.Sprintf("a certificate that is on no list answered %s: list of issuer %q names serial %s, presented issuer %q serial %s (%s, %s)", p.Presented, p.IssuerA, p.SerialA, p.IssuerB, p.SerialB, p.Name, storage), p)
			}
		}
	}
	return n
}
