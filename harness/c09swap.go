package main

// C09, swap failure — the final step of a refresh (the staged store replacing the live one) fails: the
// entry has no store any more.  A lookup that was waiting for the entry while the swap ran, one that
// arrives right afterwards, and later ones must fail closed or see a full list: never "not revoked" for
// a certificate that is on the list.

import (
	"errors"
	"fmt"
	"sync"
	"time"

	"github.com/gr33nbl00d/caddy-revocation-validator/crl/crlstore"
)

type failingSwapStore struct {
	crlstore.CRLStore
	during func()
}

func (s *failingSwapStore) Update(crlstore.CRLStore) error {
	if s.during != nil {
		s.during()
	}
	return errors.New("injected: the staged store could not replace the live one")
}

type c09Swap struct {
	Storage    string   `json:"storage"`
	Strict     bool     `json:"crl_cdp_strict"`
	Source     string   `json:"source"` // cdp | crl_urls
	Waiting    string   `json:"lookup_waiting_during_swap"`
	WaitingErr string   `json:"lookup_waiting_error,omitempty"`
	After      []string `json:"lookups_after"`
}

func c09SwapStage(c *Ctx) int {
	n := 0
	for _, storage := range []string{"memory", "disk"} {
		for _, strict := range []bool{false, true} {
			for _, source := range []string{"cdp", "crl_urls"} {
				n++
				res := &c09Swap{Storage: storage, Strict: strict, Source: source}
				w := NewWorld(c, fmt.Sprintf("c09swap_%d", n))
				w.AddList("L", ListSpec{Serials: []int64{101, 103}, Number: 1})
				w.Do(sv("/a", "L"))
				w.Cfg = VCfg{Mode: "crl_only", Storage: storage, SigMode: "verify", CDPStrict: strict, Interval: "1h"}
				cert := CertSpec{Serial: 103, CDP: []string{"/a"}}
				if source == "crl_urls" {
					// the list is a configured one; the certificate names no CDP of its own
					w.Cfg.CRLUrls = []string{w.Org.URL("/a")}
					w.Cfg.TrustedSigners = []string{writeCertPEM(c, w.CA.Cert)}
					cert.CDP = nil
				}
				if err := w.Provision(); err != nil {
					c.Fail("", "c09 swap stage: provision: "+err.Error(), res)
					w.Close()
					continue
				}
				w.AddCert("listed", cert)
				if v := w.Do(hs("listed")); v != "revoked" {
					c.Fail("", "c09 swap stage: healthy store answered "+v, res)
					w.Close()
					continue
				}
				repo := w.V.V.VerifCRLChecker().VerifRepository()
				var wg sync.WaitGroup
				for _, id := range repo.VerifIdentifiers() {
					e := repo.VerifEntry(id)
					if e == nil {
						continue
					}
					e.VerifLock()
					e.CRLStore = &failingSwapStore{CRLStore: e.CRLStore, during: func() {
						wg.Add(1)
						go func() {
							defer wg.Done()
							err := w.V.Verify(w.chainFor("listed")...)
							res.Waiting = classify(err)
							if err != nil {
								res.WaitingErr = err.Error()
							}
						}()
						time.Sleep(150 * time.Millisecond) // the lookup is now queued on the entry lock
					}}
					e.VerifUnlock()
				}
				w.Do(Step{Op: "refresh"})
				res.After = append(res.After, w.Do(hs("listed")))
				wg.Wait()
				res.After = append(res.After, w.Do(hs("listed")))
				w.Do(Step{Op: "refresh"})
				res.After = append(res.After, w.Do(hs("listed")))
				w.Close()
				c.Count("swapfail=" + storage)
				c.Nontrivial(fmt.Sprintf("swapfail|%s|%v|%s", storage, strict, source))
				c.Sample(res)
				// Judged: the lookup that meets the store-less entry must not answer "not revoked".  Once the entry has
				// been dropped the list is simply no longer in the repository: a CDP list comes back with the next
				// handshake (so later lookups are revoked or, while that fails, errors); a configured list stays away
				// until the next provisioning — recorded in the sample, not judged here (the property is about failures
				// at lookup time).  Without crl_cdp_strict a CDP list that cannot be used never denies (C10), so the
				// waiting lookup of the lenient CDP case may be accepted after the entry was dropped.
				okWaiting := res.Waiting == "error" || res.Waiting == "revoked" || (source == "cdp" && !strict && res.Waiting == "accept")
				okAfter := true
				for _, v := range res.After {
					if v == "panic" || v == "hang" || (source == "cdp" && v == "accept") {
						okAfter = false
					}
				}
				if !okWaiting || !okAfter {
					c.Fail("", fmt.Sprintf("failed swap of a refreshed store (%s, strict=%v, %s): lookup queued during the swap answered %q (%s), later lookups %v", storage, strict, source, res.Waiting, res.WaitingErr, res.After), res)
				}
			}
		}
	}
	return n
}
