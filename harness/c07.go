package main

// C07 — parser totality.  Hostile inputs run in child processes under an address-space
// limit and a watchdog, so that a panic, a fatal error, an OOM kill or a hang is an
// observation.

import (
	"bufio"
	"bytes"
	"encoding/json"
	"fmt"
	"math/rand"
	"os"
	"os/exec"
	"path/filepath"
	"runtime"
	"strings"
	"time"
)

func init() {
	commands["c07"] = runC07
	commands["c07child"] = runC07Child
}

type c07Input struct {
	Name string
	Kind string // random | truncation | length | tag | pem | nest | aki
	File []byte
}

type c07Obs struct {
	Idx     int    `json:"idx"`
	Class   string `json:"class"` // ok | err | panic | fatal | timeout
	Err     string `json:"err,omitempty"`
	Alloc   uint64 `json:"alloc"`
	Inserts int    `json:"inserts"`
	Millis  int64  `json:"ms"`
	Digest  string `json:"digest,omitempty"`
	Sig     string `json:"sig,omitempty"`
	Hash    string `json:"hash,omitempty"`
}

// tlvSites walks a DER document and returns the offsets of every tag byte and, per element,
// (offset of the length field, its size).
type tlvSite struct{ tagOff, lenOff, lenSize, valLen int }

func walkTLV(b []byte, base int, out *[]tlvSite, depth int) {
	off := 0
	for off < len(b) && depth < 12 {
		if off+2 > len(b) {
			return
		}
		tagOff := off
		l := int(b[off+1])
		lenSize := 1
		if l&0x80 != 0 {
			n := l & 0x7f
			if n == 0 || n > 4 || off+2+n > len(b) {
				return
			}
			l = 0
			for i := 0; i < n; i++ {
				l = l<<8 | int(b[off+2+i])
			}
			lenSize = 1 + n
		}
		valOff := off + 1 + lenSize
		if valOff+l > len(b) {
			return
		}
		*out = append(*out, tlvSite{base + tagOff, base + tagOff + 1, lenSize, l})
		if b[off]&0x20 != 0 { // constructed
			walkTLV(b[valOff:valOff+l], base+valOff, out, depth+1)
		} else if b[off] == 0x04 && l >= 2 && (b[valOff] == 0x30 || (b[valOff+1] < 0x80 && 2+int(b[valOff+1]) == l)) {
			// extension values wrap DER: a SEQUENCE (authorityKeyIdentifier) or one primitive element (cRLNumber's INTEGER)
			walkTLV(b[valOff:valOff+l], base+valOff, out, depth+1)
		}
		off = valOff + l
	}
}

func c07Inputs(c *Ctx) []c07Input {
	r := rand.New(rand.NewSource(c.Seed))
	ca := NewRootCA("C07 CA", false)
	var in []c07Input
	add := func(kind, name string, b []byte) { in = append(in, c07Input{name, kind, b}) }
	base := ca.MakeCRL(CRLOpts{Entries: []EntryOpts{{Serial: randSerial(r, 4)}, {Serial: randSerial(r, 9), Reason: 1}, {Serial: randSerial(r, 2), GenTime: true, When: time.Date(2051, 1, 1, 0, 0, 0, 0, time.UTC)}}})
	baseAKI := ca.MakeCRL(CRLOpts{AKIBoth: true, Entries: serials(5, 6)})
	v1 := ca.MakeCRL(CRLOpts{Version: 1, Entries: serials(5)})
	add("valid", "base", base)
	add("valid", "base-aki-both", baseAKI)
	add("valid", "v1", v1)
	add("pem", "empty-file", []byte{})
	// random bytes
	nRand := 150
	if c.Thorough() {
		nRand = 3000
	}
	for i := 0; i < nRand; i++ {
		b := make([]byte, r.Intn(120))
		r.Read(b)
		if i%3 == 0 && len(b) > 4 { // make it look like a SEQUENCE
			b[0] = 0x30
			b[1] = byte(r.Intn(256))
		}
		add("random", fmt.Sprintf("random-%d", i), b)
	}
	// every truncation
	step := 1
	for n := 0; n < len(base); n += step {
		add("truncation", fmt.Sprintf("trunc-%d", n), base[:n])
	}
	pem := PEMEncode(base, false)
	for n := 0; n < len(pem); n += 5 {
		add("truncation", fmt.Sprintf("pemtrunc-%d", n), pem[:n])
	}
	// length-field edits at every TLV site of two documents
	lenForms := func() [][]byte {
		f := [][]byte{{0x80}, {0x00}, {0x7f}, {0x81, 0x00}, {0x81, 0xff}, {0x82, 0xff, 0xff}, {0x83, 0x01, 0x40, 0x01}, {0x83, 0x01, 0x40, 0x00},
			{0x84, 0x7f, 0xff, 0xff, 0xff}, {0x84, 0x80, 0x00, 0x00, 0x00}, {0x84, 0xff, 0xff, 0xff, 0xff}, {0x85, 0x01, 0, 0, 0, 0},
			append([]byte{0x88}, 0x7f, 0xff, 0xff, 0xff, 0xff, 0xff, 0xff, 0xff), append([]byte{0x88}, 0x80, 0, 0, 0, 0, 0, 0, 0),
			append([]byte{0x88}, 0xff, 0xff, 0xff, 0xff, 0xff, 0xff, 0xff, 0xff), append([]byte{0x89}, 0x01, 0, 0, 0, 0, 0, 0, 0, 0x10),
			append([]byte{0x8f}, bytes.Repeat([]byte{0xff}, 15)...), append([]byte{0x9f}, bytes.Repeat([]byte{0x01}, 15)...), {0xff, 0x01}}
		return f
	}()
	for di, doc := range [][]byte{base, baseAKI, v1} {
		var sites []tlvSite
		walkTLV(doc, 0, &sites, 0)
		for si, s := range sites {
			for fi, f := range lenForms {
				m := append([]byte{}, doc[:s.lenOff]...)
				m = append(m, f...)
				m = append(m, doc[s.lenOff+s.lenSize:]...)
				add("length", fmt.Sprintf("len-d%d-s%d-f%d", di, si, fi), m)
			}
			for _, t := range []byte{0x30, 0x31, 0x02, 0x03, 0x04, 0x05, 0x06, 0x17, 0x18, 0xA0, 0xA1, 0x00, 0xFF, 0x80} {
				if doc[s.tagOff] == t {
					continue
				}
				m := append([]byte{}, doc...)
				m[s.tagOff] = t
				add("tag", fmt.Sprintf("tag-d%d-s%d-%02x", di, si, t), m)
			}
		}
	}
	// PEM framing
	b64 := string(PEMEncode(base, false))
	lines := strings.Split(strings.TrimSpace(b64), "\n")
	body := strings.Join(lines[1:len(lines)-1], "")
	add("pem", "no-final-newline", []byte(strings.TrimRight(b64, "\n")))
	add("pem", "no-end-armour", []byte(strings.Join(lines[:len(lines)-1], "\n")+"\n"))
	add("pem", "no-end-armour-no-newline", []byte(strings.Join(lines[:len(lines)-1], "\n")))
	add("pem", "one-long-line", []byte(lines[0]+"\n"+body+"\n"+lines[len(lines)-1]+"\n"))
	add("pem", "line-65", []byte(lines[0]+"\n"+body[:65]+"\n"+body[65:]+"\n"+lines[len(lines)-1]+"\n"))
	add("pem", "line-64-crlf-mix", []byte(lines[0]+"\r\n"+strings.Join(lines[1:len(lines)-1], "\r\n")+"\n"+lines[len(lines)-1]+"\n"))
	add("pem", "armour-only", []byte(lines[0]+"\n"+lines[len(lines)-1]+"\n"))
	add("pem", "begin-only", []byte(lines[0]+"\n"))
	add("pem", "lowercase-armour", []byte("-----begin x509 crl-----\n"+strings.Join(lines[1:], "\n")+"\n"))
	add("pem", "bad-base64", []byte(lines[0]+"\n"+"!!!!"+body[4:60]+"\n"+lines[len(lines)-1]+"\n"))
	add("pem", "interleaved-armour", []byte(lines[0]+"\n"+lines[1]+"\n"+lines[0]+"\n"+strings.Join(lines[2:], "\n")+"\n"))
	nArm := 5000
	if c.Thorough() {
		nArm = 100000
	}
	add("pem", "many-armour-lines", []byte(strings.Repeat(lines[0]+"\n", nArm)+strings.Join(lines[1:], "\n")+"\n"))
	add("pem", "blank-lines", []byte(lines[0]+"\n\n\n"+strings.Join(lines[1:], "\n\n")+"\n"))
	add("pem", "nul-bytes", append([]byte(lines[0]+"\n"), make([]byte, 300)...))
	add("pem", "huge-first-line", bytes.Repeat([]byte("-"), 70000))
	// what precedes the first line: nothing but a line end, blank lines before the armour or before DER, blanks, a BOM
	pemText := strings.Join(lines, "\n") + "\n"
	for name, prefix := range map[string]string{"lf": "\n", "crlf": "\r\n", "cr": "\r", "lf-lf": "\n\n", "space": " ", "tab-lf": "\t\n", "bom": "\xef\xbb\xbf", "dash": "-", "dash-lf": "-\n", "nul-lf": "\x00\n"} {
		add("pem", "only-"+name, []byte(prefix))
		add("pem", name+"-then-pem", []byte(prefix+pemText))
		add("pem", name+"-then-der", append([]byte(prefix), base...))
	}
	// nesting
	deep := []byte{}
	for i := 0; i < 300; i++ {
		deep = tlv(0x30, deep)
	}
	add("nest", "deep-seq", deep)
	deepCtx := []byte{}
	for i := 0; i < 3000; i++ {
		deepCtx = append([]byte{0xA0, 0x80}, deepCtx...)
	}
	add("nest", "deep-indefinite", deepCtx)
	add("nest", "seq-of-many-zero", tlv(0x30, tlv(0x30, bytes.Repeat([]byte{0x30, 0x00}, 30000))))
	return in
}

func runC07(c *Ctx) {
	inputs := c07Inputs(c)
	dir := c.TempDir("c07in")
	for i, in := range inputs {
		mustNoErr(os.WriteFile(filepath.Join(dir, fmt.Sprintf("%06d", i)), in.File, 0600))
	}
	obs := make([]c07Obs, len(inputs))
	self, _ := os.Executable()
	next := 0
	for next < len(inputs) {
		cmd := exec.Command("sh", "-c", fmt.Sprintf("ulimit -v 6000000; exec %s c07child --out %s --work %s --seed %d", self, dir, dir, next))
		var stderr bytes.Buffer
		cmd.Stderr = &stderr
		out, _ := cmd.StdoutPipe()
		mustNoErr(cmd.Start())
		sc := bufio.NewScanner(out)
		sc.Buffer(make([]byte, 1<<20), 1<<20)
		last := next - 1
		for sc.Scan() {
			var o c07Obs
			if json.Unmarshal(sc.Bytes(), &o) == nil && o.Idx >= next && o.Idx < len(inputs) {
				obs[o.Idx] = o
				last = o.Idx
			}
		}
		err := cmd.Wait()
		if last+1 < len(inputs) && (err != nil || last+1 < len(inputs)) {
			// the child died while working on input last+1
			cls := "fatal"
			if strings.Contains(stderr.String(), "WATCHDOG") {
				cls = "timeout"
			}
			tail := stderr.String()
			if len(tail) > 400 {
				tail = tail[:400]
			}
			obs[last+1] = c07Obs{Idx: last + 1, Class: cls, Err: tail}
			next = last + 2
		} else {
			next = len(inputs)
		}
	}
	const allocBound = 48 << 20
	for i, in := range inputs {
		o := obs[i]
		c.Count("kind=" + in.Kind)
		c.Count("class=" + o.Class)
		c.Count("alloc~" + bucket(int(o.Alloc)))
		if in.Kind != "valid" {
			c.Nontrivial(in.Kind + "|" + fmt.Sprintf("%x", sha(in.File)))
		}
		if i%211 == 0 {
			c.Sample(map[string]interface{}{"name": in.Name, "bytes": len(in.File), "class": o.Class, "alloc": o.Alloc})
		}
		rep := map[string]interface{}{"name": in.Name, "kind": in.Kind, "file_hex": hexTrunc(in.File, 3000), "observed": o}
		switch o.Class {
		case "panic", "fatal", "timeout":
			tag := ""
			if strings.Contains(o.Err, "makeslice") || strings.Contains(o.Err, "out of memory") || strings.Contains(o.Err, "cannot allocate") {
				tag = "C07-len-narrow"
			}
			c.Fail(tag, fmt.Sprintf("%s: reading %d hostile bytes ended in %s: %.160s", in.Name, len(in.File), o.Class, o.Err), rep)
		default:
			if o.Alloc > allocBound+uint64(64*len(in.File)) {
				c.Fail("C07-len-narrow", fmt.Sprintf("%s: reading %d bytes allocated %d bytes", in.Name, len(in.File), o.Alloc), rep)
			}
			if in.Kind == "valid" && o.Class != "ok" {
				c.Fail("", in.Name+": a valid CRL was not read", rep)
			}
		}
	}
	c07EmitCoq(c, inputs, obs)
	intake := c07IntakeStage(c)
	c.Rep.Extra["intake_cases"] = intake
	c.Rep.Cases = len(inputs) + intake
	c.Rep.Rule = "hostile byte strings: random bytes, every truncation of a valid CRL (DER) and every 5th of its PEM form, every TLV length field of three documents rewritten to 19 forms (0x80, 0x81..0x8F, 0x9F, negative/huge after narrowing), every tag byte swapped with 14 tags, PEM framing faults (missing newline/armour, long lines, 5000 armour lines, bad base64, NULs), deep nesting; each read by the real reader in a child process under ulimit -v with a watchdog; observables: outcome class and bytes allocated; distinct by content hash, non-trivial = not one of the three valid seeds; plus intake: documents without crlExtensions, with 17 malformed authorityKeyIdentifier values and 4 odd issuer names, signed by the CA or not, met by a real handshake and a forced refresh under verify and none (no panic, no hang)"
}

func hexTrunc(b []byte, n int) string {
	h := fmt.Sprintf("%x", b)
	if len(h) > n {
		return h[:n] + "...(truncated)"
	}
	return h
}

func sha(b []byte) []byte {
	h := hashOf(5, b) // crypto.SHA256
	return h[:8]
}

// child: reads inputs <seed>.. from --out dir, one JSON line per input
func runC07Child(c *Ctx) {
	dir := c.Out
	w := bufio.NewWriter(os.Stdout)
	for i := int(c.Seed); ; i++ {
		p := filepath.Join(dir, fmt.Sprintf("%06d", i))
		if _, err := os.Stat(p); err != nil {
			break
		}
		done := make(chan struct{})
		go func(i int) {
			select {
			case <-done:
			case <-time.After(30 * time.Second):
				fmt.Fprintf(os.Stderr, "WATCHDOG input %d\n", i)
				os.Exit(3)
			}
		}(i)
		var m0, m1 runtime.MemStats
		runtime.GC()
		runtime.ReadMemStats(&m0)
		t0 := time.Now()
		o := realRead(p)
		runtime.ReadMemStats(&m1)
		close(done)
		res := c07Obs{Idx: i, Class: o.Class, Err: o.Err, Alloc: m1.TotalAlloc - m0.TotalAlloc, Inserts: len(o.Proc.Entries), Millis: time.Since(t0).Milliseconds()}
		if o.Class == "ok" {
			res.Digest = fmt.Sprintf("%x", o.Result.CalculatedSignature)
			res.Sig = fmt.Sprintf("%x", o.Result.Signature.Bytes)
			res.Hash = hashName(o.Result.HashAndVerifyStrategy.HashStrategy)
		}
		if len(res.Err) > 300 {
			res.Err = res.Err[:300]
		}
		b, _ := json.Marshal(res)
		w.Write(b)
		w.WriteString("\n")
		w.Flush()
	}
	os.Exit(0)
}

func hashOfName(name string, b []byte) []byte {
	for _, a := range SigAlgs {
		if hashName(a.Hash) == name {
			return hashOf(a.Hash, b)
		}
	}
	return nil
}
