package main

// Scenario runner over the real validator: a small world with one PKI, scripted CRL
// locations, named CRLs and named client certificates.  Used by the repository-level
// properties (C01, C08, C10, C11, C12, C16).

import (
	"crypto/x509"
	"encoding/pem"
	"fmt"
	"math/big"
	"net/http"
	"os"
	"path/filepath"
	"strings"
	"sync/atomic"
	"time"

	"github.com/gr33nbl00d/caddy-revocation-validator/crl"
)

type Step struct {
	Op   string `json:"op"`             // serve | handshake | refresh | restart | cleanup
	Loc  string `json:"loc,omitempty"`  // location path, e.g. "/a"
	What string `json:"what,omitempty"` // serve: list name | garbage | down | http500 ; handshake: certificate name
}

type ListSpec struct {
	Serials []int64
	Issuer  string // "ca" (default) | "other" (same-name sibling) | "stranger"
	Signer  string // "ca" (default) | "other" | "stranger" | "leaf"
	BadSig  bool
	Crit    bool // unhandled critical extension
	NoExts  bool
	V1      bool
	PEM     bool
	Number  int64
}

type CertSpec struct {
	Serial int64
	Issuer string   // "ca" | "other"
	CDP    []string // location paths ("/a") or absolute URLs
	// LeafOnly: the verified chain consists of the client certificate alone (it is itself in the
	// server's trust pool)
	LeafOnly bool
}

type World struct {
	hung   bool // a call did not return: later steps are answered "hang" at once
	c      *Ctx
	Root   *CA
	CA     *CA // issuing CA (directly under Root)
	Other  *CA // CA with a different name
	Strang *CA // unrelated root
	Org    *Origin
	Dir    string
	Cfg    VCfg
	V      *Validator
	Lists  map[string][]byte
	Certs  map[string]*Leaf
	CertSp map[string]CertSpec
	Delay  time.Duration // response delay of the origin (background-mode histories)
	serve  map[string]string
	Log    []string
}

func NewWorld(c *Ctx, name string) *World {
	w := &World{c: c, Lists: map[string][]byte{}, Certs: map[string]*Leaf{}, CertSp: map[string]CertSpec{}, serve: map[string]string{}}
	w.Root = NewRootCA("World Root "+name, false)
	w.CA = w.Root.NewSubCA("World CA "+name, false)
	w.Other = w.Root.NewSubCA("World Other CA "+name, false)
	w.Strang = NewRootCA("World Stranger "+name, false)
	w.Org = NewOrigin()
	w.Dir = c.TempDir("world_" + name)
	return w
}

func (w *World) Close() {
	if w.V != nil && !w.hung && atomic.LoadInt32(&globalHung) == 0 {
		closeWithTimeout(w.V)
	}
	w.Org.Srv.CloseClientConnections()
	go w.Org.Close()
	os.RemoveAll(w.Dir)
}

// closeWithTimeout: a validator whose entry lock is stuck (deadlock finding) must not hang the harness
func closeWithTimeout(v *Validator) bool {
	done := make(chan struct{})
	go func() { defer close(done); v.Close() }()
	select {
	case <-done:
		return true
	case <-time.After(5 * time.Second):
		return false
	}
}

func (w *World) caBy(name string) *CA {
	switch name {
	case "other":
		return w.Other
	case "stranger":
		return w.Strang
	}
	return w.CA
}

func (w *World) AddList(name string, s ListSpec) {
	issuer := w.caBy(s.Issuer)
	signer := w.caBy(s.Signer)
	o := CRLOpts{NoExts: s.NoExts, BadSig: s.BadSig}
	for _, n := range s.Serials {
		o.Entries = append(o.Entries, EntryOpts{Serial: big.NewInt(n)})
	}
	if s.V1 {
		o.Version = 1
	}
	if s.Number > 0 {
		o.Number = big.NewInt(s.Number)
	}
	if s.Crit {
		o.CriticalExt = []int{2, 5, 29, 27}
	}
	if s.Signer != "" && s.Signer != s.Issuer && !(s.Signer == "ca" && s.Issuer == "") {
		o.SignKey = signer.Key
		o.AKIKeyId = signer.Cert.SubjectKeyId
	}
	d := issuer.MakeDoc(o)
	b := d.DER()
	if s.PEM {
		b = PEMEncode(b, false)
	}
	w.Lists[name] = b
}

func (w *World) url(loc string) string {
	if strings.Contains(loc, "://") {
		return loc
	}
	return w.Org.URL(loc)
}

func (w *World) AddCert(name string, s CertSpec) {
	var cdp []string
	for _, l := range s.CDP {
		cdp = append(cdp, w.url(l))
	}
	w.Certs[name] = w.caBy(s.Issuer).IssueLeaf(LeafOpts{CN: name, Serial: big.NewInt(s.Serial), CDP: cdp})
	w.CertSp[name] = s
}

func (w *World) route(loc string) {
	w.Org.Route(loc, func(_ int, rw http.ResponseWriter, _ *http.Request) {
		if w.Delay > 0 {
			time.Sleep(w.Delay)
		}
		w.Org.mu.Lock()
		what := w.serve[loc]
		w.Org.mu.Unlock()
		switch what {
		case "", "down", "http500":
			http.Error(rw, "unavailable", http.StatusServiceUnavailable)
		case "garbage":
			rw.Write([]byte("<html>this is not a CRL</html>"))
		default:
			rw.Write(w.Lists[what])
		}
	})
}

func (w *World) Provision() error {
	w.Cfg.WorkDir = w.Dir
	v, err := NewValidator(w.Cfg)
	if err != nil {
		return err
	}
	w.V = v
	w.settle() // the start-up pass of the ticker goroutine has run before anything else happens
	return nil
}

func (w *World) chainFor(cert string) []*x509.Certificate {
	l := w.Certs[cert]
	if w.CertSp[cert].LeafOnly {
		return []*x509.Certificate{l.Cert}
	}
	iss := w.caBy(w.CertSp[cert].Issuer)
	return []*x509.Certificate{l.Cert, iss.Cert, w.Root.Cert}
}

func classify(err error) string {
	switch {
	case err == nil:
		return "accept"
	case isPanic(err):
		return "panic"
	case strings.Contains(err.Error(), "client certificate was revoked"):
		return "revoked"
	}
	return "error"
}

// globalHung: some world of this process met a call that never returned.  The implementation has process-wide
// locks (the update mutex), so the other worlds cannot be trusted to make progress: they stop with "aborted".
var globalHung int32

// Do runs one step and returns its observation ("" for steps without one).
func (w *World) Do(st Step) string {
	if !w.hung && atomic.LoadInt32(&globalHung) == 1 && st.Op != "serve" {
		return "aborted"
	}
	switch st.Op {
	case "serve":
		w.Org.mu.Lock()
		w.serve[st.Loc] = st.What
		_, known := w.Org.routes[st.Loc]
		w.Org.mu.Unlock()
		if !known {
			w.route(st.Loc)
		}
		return ""
	case "handshake":
		if w.hung {
			return "hang" // a call that never returned holds its locks: everything after it is stuck as well
		}
		// does this handshake create an entry in background mode?  Then a forced background pass is started by a
		// goroutine nothing waits for: the next step must not begin before that pass has fetched and finished
		idsBefore, hitsBefore := -1, 0
		if w.Cfg.FetchMode == "fetch_background" && w.V.V.VerifCRLChecker() != nil {
			idsBefore = len(w.V.V.VerifCRLChecker().VerifRepository().VerifIdentifiers())
			hitsBefore = w.Org.TotalHits()
		}
		done := make(chan string, 1)
		go func() { done <- classify(w.V.Verify(w.chainFor(st.What)...)) }()
		select {
		case r := <-done:
			if idsBefore >= 0 && len(w.V.V.VerifCRLChecker().VerifRepository().VerifIdentifiers()) > idsBefore {
				for k := 0; k < 500 && w.Org.TotalHits() == hitsBefore; k++ { // the pass has reached the origin (up to 5 s)
					time.Sleep(10 * time.Millisecond)
				}
			}
			w.settle()
			return r
		case <-time.After(20 * time.Second):
			w.hung = true
			atomic.StoreInt32(&globalHung, 1)
			return "hang"
		}
	case "refresh":
		if w.hung {
			return "hang"
		}
		if st.What != "" {
			what := st.What
			st.What = ""
			return w.refreshWithFault(what)
		}
		done := make(chan string, 1)
		go func() {
			defer func() {
				if r := recover(); r != nil {
					done <- fmt.Sprintf("panic: %v", r)
					return
				}
				done <- ""
			}()
			w.V.V.VerifCRLChecker().VerifUpdateCRLs(true)
		}()
		select {
		case r := <-done:
			return r
		case <-time.After(60 * time.Second):
			w.hung = true
			atomic.StoreInt32(&globalHung, 1)
			return "hang"
		}
	case "restart":
		if w.hung {
			return "hang"
		}
		if w.V != nil {
			if !closeWithTimeout(w.V) {
				w.V = nil
				return "hang"
			}
			w.V = nil
		}
		if err := w.Provision(); err != nil {
			return "provision-error"
		}
		return "provisioned"
	}
	panic("unknown op " + st.Op)
}

// settle waits until background refresh goroutines (ticker start-up pass, background first
// loads) have finished: they serialise on the package-level update mutex.
func (w *World) settle() {
	if w.V == nil || w.hung || atomic.LoadInt32(&globalHung) == 1 || w.V.V.VerifCRLChecker() == nil {
		return
	}
	time.Sleep(w.Delay + 15*time.Millisecond)
	done := make(chan struct{})
	go func() {
		defer func() { recover(); close(done) }()
		w.V.V.VerifCRLChecker().VerifUpdateCRLs(false) // returns once the mutex is free; a no-op when recently finished
	}()
	select {
	case <-done:
	case <-time.After(30 * time.Second):
	}
}

// primeGlobalStamp resets the process-global bookkeeping (work dir registry) before a batch of worlds.
func primeGlobalStamp(c *Ctx) {
	crl.VerifResetGlobals()
}

func (w *World) Run(steps []Step) []string {
	var obs []string
	for _, st := range steps {
		obs = append(obs, w.Do(st))
	}
	return obs
}

func (w *World) Files() []string {
	var out []string
	entries, _ := os.ReadDir(w.Dir)
	for _, e := range entries {
		out = append(out, e.Name())
	}
	return out
}

func writeCertPEM(c *Ctx, cert *x509.Certificate) string {
	p := filepath.Join(c.Work, fmt.Sprintf("trusted_%x.pem", cert.SerialNumber))
	mustNoErr(os.WriteFile(p, pem.EncodeToMemory(&pem.Block{Type: "CERTIFICATE", Bytes: cert.Raw}), 0600))
	return p
}

var _ = filepath.Join
var _ = fmt.Sprint
