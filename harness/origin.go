package main

// Scripted HTTP origins: a CRL server (body per path, per attempt) and an OCSP responder
// (behaviour per path).  Every request is counted.

import (
	"sync/atomic"
	"crypto"
	"io"
	"net"
	"net/http"
	"net/http/httptest"
	"sync"
	"time"

	"golang.org/x/crypto/ocsp"
)

type Origin struct {
	Srv  *httptest.Server
	mu   sync.Mutex
	hits map[string]int
	// handler per path; receives the 0-based attempt number
	routes map[string]func(attempt int, w http.ResponseWriter, r *http.Request)
}

func NewOrigin() *Origin {
	o := &Origin{hits: map[string]int{}, routes: map[string]func(int, http.ResponseWriter, *http.Request){}}
	o.Srv = httptest.NewServer(http.HandlerFunc(func(w http.ResponseWriter, r *http.Request) {
		o.mu.Lock()
		n := o.hits[r.URL.Path]
		o.hits[r.URL.Path] = n + 1
		h := o.routes[r.URL.Path]
		o.mu.Unlock()
		if h == nil {
			http.NotFound(w, r)
			return
		}
		h(n, w, r)
	}))
	return o
}

func (o *Origin) Close()                 { o.Srv.Close() }
func (o *Origin) URL(path string) string { return o.Srv.URL + path }
func (o *Origin) Hits(path string) int {
	o.mu.Lock()
	defer o.mu.Unlock()
	return o.hits[path]
}
func (o *Origin) TotalHits() int {
	o.mu.Lock()
	defer o.mu.Unlock()
	n := 0
	for _, v := range o.hits {
		n += v
	}
	return n
}
func (o *Origin) Route(path string, h func(attempt int, w http.ResponseWriter, r *http.Request)) {
	o.mu.Lock()
	defer o.mu.Unlock()
	o.routes[path] = h
}

// ServeBytes serves a fixed body (a CRL).
func (o *Origin) ServeBytes(path string, body func() []byte) {
	o.Route(path, func(_ int, w http.ResponseWriter, _ *http.Request) {
		b := body()
		if b == nil {
			http.Error(w, "unavailable", http.StatusServiceUnavailable)
			return
		}
		w.Write(b)
	})
}

// closedPortURL returns a URL on which connections are refused.
func closedPortURL(path string) string {
	l, err := net.Listen("tcp", "127.0.0.1:0")
	mustNoErr(err)
	addr := l.Addr().String()
	l.Close()
	return "http://" + addr + path
}

// OCSP responder behaviours
type OCSPBehaviour int

const (
	OCSPGood OCSPBehaviour = iota
	OCSPRevoked
	OCSPUnknown
	OCSPHTTP500
	OCSPGarbage
	OCSPWrongContent // a syntactically valid response about another serial, signed by a stranger
	OCSPErrorStatus  // OCSP error response (tryLater)
)

type OCSPSigner struct {
	Issuer    *x509Cert // certificate named as issuer in CreateResponse
	Responder *x509Cert // certificate embedded (nil: none, signed by Issuer key directly)
	Key       crypto.Signer
}

var chunkToggle int32

// writeBody writes an HTTP body; every second call flushes the headers first, so that the response carries no
// Content-Length (chunked transfer coding) — how the body is framed must not matter to the client.
func writeBody(w http.ResponseWriter, b []byte) {
	if atomic.AddInt32(&chunkToggle, 1)%2 == 0 {
		if f, ok := w.(http.Flusher); ok {
			f.Flush()
		}
	}
	w.Write(b)
}

// ServeOCSP answers every request on path with the given behaviour for (issuer, leaf serial).
func (o *Origin) ServeOCSP(path string, ca *CA, behave func(attempt int) OCSPBehaviour, nextUpdate func() time.Time) {
	o.Route(path, func(attempt int, w http.ResponseWriter, r *http.Request) {
		body, _ := io.ReadAll(r.Body)
		req, err := ocsp.ParseRequest(body)
		b := behave(attempt)
		if b == OCSPHTTP500 {
			http.Error(w, "boom", http.StatusInternalServerError)
			return
		}
		if b == OCSPGarbage || err != nil {
			w.Write([]byte("this is not an ocsp response at all"))
			return
		}
		if b == OCSPErrorStatus {
			w.Write(ocsp.TryLaterErrorResponse)
			return
		}
		tmpl := ocsp.Response{SerialNumber: req.SerialNumber, ThisUpdate: time.Now().Add(-time.Minute), Status: ocsp.Good}
		if nextUpdate != nil {
			tmpl.NextUpdate = nextUpdate()
		}
		switch b {
		case OCSPRevoked:
			tmpl.Status = ocsp.Revoked
			tmpl.RevokedAt = time.Now().Add(-time.Hour)
		case OCSPUnknown:
			tmpl.Status = ocsp.Unknown
		}
		resp, err := ocsp.CreateResponse(ca.Cert, ca.Cert, tmpl, ca.Key)
		mustNoErr(err)
		w.Header().Set("Content-Type", "application/ocsp-response")
		writeBody(w, resp)
	})
}
