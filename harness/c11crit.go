package main

// C11, rejected lists — "a CRL that is rejected leaves no trace": every critical extension the reader does not
// implement makes it reject the list, so no serial on it may ever be reported revoked.  One list per extension
// (the standard CRL extensions of RFC 5280 except cRLNumber and authorityKeyIdentifier, and a private one).

import (
	"encoding/asn1"
	"fmt"
	"math/big"
)

func c11CriticalStage(c *Ctx) int {
	exts := []struct {
		name string
		oid  asn1.ObjectIdentifier
	}{
		{"deltaCRLIndicator", asn1.ObjectIdentifier{2, 5, 29, 27}},
		{"issuingDistributionPoint", asn1.ObjectIdentifier{2, 5, 29, 28}},
		{"freshestCRL", asn1.ObjectIdentifier{2, 5, 29, 46}},
		{"issuerAltName", asn1.ObjectIdentifier{2, 5, 29, 18}},
		{"authorityInfoAccess", asn1.ObjectIdentifier{1, 3, 6, 1, 5, 5, 7, 1, 1}},
		{"certificateIssuer (entry extension used as list extension)", asn1.ObjectIdentifier{2, 5, 29, 29}},
		{"private", asn1.ObjectIdentifier{1, 3, 6, 1, 4, 1, 99999, 7}},
	}
	n := 0
	for _, storage := range []string{"memory", "disk"} {
		for _, e := range exts {
			n++
			w := NewWorld(c, fmt.Sprintf("c11crit_%d", n))
			w.Lists["X"] = w.CA.MakeCRL(CRLOpts{CriticalExt: e.oid, Entries: []EntryOpts{{Serial: big.NewInt(7)}, {Serial: big.NewInt(8)}}})
			w.Do(sv("/a", "X"))
			w.Cfg = VCfg{Mode: "crl_only", Storage: storage, SigMode: "verify", Interval: "1h"} // lenient: a list that is not in force does not deny
			rep := map[string]string{"extension": e.name, "oid": e.oid.String(), "storage": storage}
			if err := w.Provision(); err != nil {
				c.Fail("", "c11 critical stage: provision: "+err.Error(), rep)
				w.Close()
				continue
			}
			w.AddCert("seven", CertSpec{Serial: 7, CDP: []string{"/a"}})
			v1 := w.Do(hs("seven"))
			w.Do(refreshStep)
			v2 := w.Do(hs("seven"))
			w.Close()
			rep["verdicts"] = v1 + "," + v2
			c.Count("critical-extension")
			c.Nontrivial("critical|" + e.name + "|" + storage)
			if v1 != "accept" || v2 != "accept" {
				c.Fail("", fmt.Sprintf("a CRL carrying the critical extension %s (%s), which the reader does not implement, revokes: handshakes %s,%s (%s)", e.name, e.oid, v1, v2, storage), rep)
			}
		}
	}
	return n
}
