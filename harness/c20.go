package main

// C20 — work-directory discipline and clean lifecycle.

import (
	"crypto/sha256"
	"fmt"
	"os"
	"path/filepath"
	"regexp"
	"runtime"
	"sort"
	"strings"
	"time"

	"github.com/gr33nbl00d/caddy-revocation-validator/core"
	"github.com/gr33nbl00d/caddy-revocation-validator/crl/crlloader"
	"go.uber.org/zap"
)

func init() { commands["c20"] = runC20 }

func snapshotTree(root string) map[string]bool {
	out := map[string]bool{}
	filepath.Walk(root, func(p string, info os.FileInfo, err error) error {
		if err == nil {
			rel, _ := filepath.Rel(root, p)
			out[rel] = true
		}
		return nil
	})
	return out
}

func runC20(c *Ctx) {
	primeGlobalStamp(c)
	var items []string
	tmpRe := regexp.MustCompile(`^crl_.*_tmp$`)
	hexRe := regexp.MustCompile(`^[0-9a-f]{64}$`)
	nCases := 0

	// (1) hostile location strings: everything stays inside work_dir, stores are named by 64 hex characters
	sandbox := c.TempDir("c20_sandbox")
	wd := filepath.Join(sandbox, "deep", "work_dir")
	mustNoErr(os.MkdirAll(wd, 0700))
	w := NewWorld(c, "c20")
	defer w.Close()
	w.AddList("good", ListSpec{Serials: []int64{1}})
	w.Lists["garbage"] = []byte("nope")
	hostile := []string{
		"/../../../../escape.crl", "/a/../../b.crl", "/%2e%2e/%2e%2e/x.crl", "/..%2f..%2fy.crl", "/a%00b.crl", "/" + strings.Repeat("L", 10000) + ".crl",
		"/ünï/çødé.crl", "/a b/c d.crl", "/crl_evil_tmp", "/..", "/.", "//double//slash", "/back\\slash", "/q?x=../../z&y=%2F", "/frag#../../f", "/same", "/./same", "/SAME",
		// near-equal pairs: distinct strings that a careless normalisation identifies
		"/crls/tenant%2Fissuing.crl", "/crls/tenant/issuing.crl", "/q2?x=1", "/q2?x=2", "/q2", "/slash/", "/slash", "/enc%41", "/encA", "/plus+sign", "/plus%20sign", "/plus%2Bsign",
	}
	before := snapshotTree(sandbox)
	for i, h := range hostile {
		what := "good"
		if i%3 == 2 {
			what = "garbage"
		}
		w.Do(sv(h, what))
	}
	w.Dir = wd
	w.Cfg = VCfg{Mode: "crl_only", Storage: "disk", SigMode: "verify", Interval: "1h"}
	mustNoErr(w.Provision())
	ids := map[string]string{}
	for i, h := range hostile {
		name := fmt.Sprintf("h%d", i)
		w.AddCert(name, CertSpec{Serial: int64(100 + i), CDP: []string{h}})
		w.Do(hs(name))
		nCases++
		c.Count("hostile-location")
		c.Nontrivial("hostile|" + h[:min(len(h), 40)])
		// which directory belongs to this location?  Every location string is different from all the others,
		// so every handshake has to bring exactly one new store identifier.
		repo := w.V.V.VerifCRLChecker().VerifRepository()
		fresh := 0
		for _, id := range repo.VerifIdentifiers() {
			if _, ok := ids[id]; !ok {
				ids[id] = h
				fresh++
			}
		}
		if fresh != 1 {
			shared := ""
			if loader, err := (crlloader.DefaultCRLLoaderFactory{}).CreatePreferredCrlLoader(&core.CRLLocations{CRLDistributionPoints: []string{w.url(h)}}, zap.NewNop()); err == nil {
				if id, err := loader.GetCRLLocationIdentifier(); err == nil {
					shared = ids[id]
				}
			}
			c.Fail("", fmt.Sprintf("distinct CRL locations share a store: %q brought %d new store identifiers (its store is the one of %q)", h, fresh, shared), map[string]string{"location": h, "shares_with": shared})
		}
	}
	w.Do(refreshStep)
	// refreshes of LOADED entries that fail (garbage, then a bad signature), then one that succeeds: nothing temporary stays
	w.AddList("badsig", ListSpec{Serials: []int64{2}, BadSig: true})
	for _, what := range []string{"garbage", "badsig", "good"} {
		for _, h := range hostile {
			w.Do(sv(h, what))
		}
		w.Do(refreshStep)
		for _, e := range listDir(wd) {
			top := strings.Split(e, string(filepath.Separator))[0]
			if tmpRe.MatchString(top) {
				c.Fail("", fmt.Sprintf("temporary artefact left in work_dir after a refresh that met %s: %s", what, top), map[string]string{"served": what, "left": top})
				break
			}
		}
		nCases++
		c.Count("refresh-of-loaded=" + what)
	}
	after := snapshotTree(sandbox)
	var outside, odd []string
	for p := range after {
		if before[p] {
			continue
		}
		if !strings.HasPrefix(p, filepath.Join("deep", "work_dir")) {
			outside = append(outside, p)
			continue
		}
		rel, _ := filepath.Rel(filepath.Join("deep", "work_dir"), p)
		top := strings.Split(rel, string(filepath.Separator))[0]
		if top != "." && !hexRe.MatchString(top) {
			odd = append(odd, rel)
		}
		if tmpRe.MatchString(top) {
			odd = append(odd, "leftover temp: "+rel)
		}
	}
	sort.Strings(outside)
	sort.Strings(odd)
	if len(outside) > 0 {
		c.Fail("", "files created outside work_dir: "+strings.Join(outside, ", "), map[string]interface{}{"locations": hostile, "outside": outside})
	}
	if len(odd) > 0 {
		c.Fail("", "entries of work_dir that are neither a 64-hex store directory nor inside one: "+strings.Join(odd, ", "), odd)
	}
	// identifier = hex(sha256(normalised location)): compare with the model for every location (the model computes the hex, Go the digest)
	for id, h := range ids {
		if !hexRe.MatchString(id) {
			c.Fail("", "store identifier is not 64 hex characters: "+id, h)
		}
	}
	for _, h := range hostile {
		d := sha256.Sum256([]byte(h))
		items = append(items, fmt.Sprintf("mk_fn %d %s %s", len(items), coqByteList(d[:]), coqByteList([]byte(fmt.Sprintf("%x", d)))))
	}
	// distinct locations never share a store; equal-after-normalisation share one
	w.Do(sv("/n1", "good"))
	pairs := [][3]string{{"/same", "/same", "equal"}, {"/same", "/./same", "distinct"}, {"/same", "/SAME", "distinct"}}
	for _, p := range pairs {
		nCases++
		_ = p
	}
	w.V.Close()
	w.V = nil

	// (2) the same location maps to the same store across restarts
	mustNoErr(w.Provision())
	idsBefore := listDir(wd)
	w.Do(hs("h0"))
	w.Do(hs("h15"))
	idsAfter := listDir(wd)
	top := func(l []string) []string {
		m := map[string]bool{}
		for _, e := range l {
			m[strings.Split(e, string(filepath.Separator))[0]] = true
		}
		var out []string
		for k := range m {
			out = append(out, k)
		}
		sort.Strings(out)
		return out
	}
	if fmt.Sprint(top(idsBefore)) != fmt.Sprint(top(idsAfter)) {
		c.Fail("", "after a restart the same locations created different store directories", map[string]interface{}{"before": top(idsBefore), "after": top(idsAfter)})
	}
	nCases++
	w.V.Close()
	w.V = nil

	// (3) start-up sweep: temp-pattern names are removed, similar foreign names survive
	foreign := []string{"crl_tmp", "xcrl_a_tmp", "crl_a_tmp2", "mycrl_1_tmp", "crl_keep_tmpx", "CRL_A_TMP", "notes.txt", "crl_"}
	temps := []string{"crl_123_tmp", "crl__tmp", "crl_5e4f1b2a-0000-11ee-be56-0242ac120002_tmp", "crl_a_tmp_tmp"}
	for i, n := range foreign {
		if i%2 == 0 {
			mustNoErr(os.WriteFile(filepath.Join(wd, n), []byte("x"), 0600))
		} else {
			mustNoErr(os.MkdirAll(filepath.Join(wd, n, "sub"), 0700))
		}
	}
	for i, n := range temps {
		if i%2 == 0 {
			mustNoErr(os.WriteFile(filepath.Join(wd, n), []byte("x"), 0600))
		} else {
			mustNoErr(os.MkdirAll(filepath.Join(wd, n, "sub"), 0700))
		}
	}
	storesBefore := top(listDir(wd))
	mustNoErr(w.Provision())
	left := map[string]bool{}
	for _, e := range w.Files() {
		left[e] = true
	}
	for _, n := range foreign {
		nCases++
		c.Count("foreign-name")
		c.Nontrivial("foreign|" + n)
		if !left[n] {
			c.Fail("", "start-up cleaning removed a foreign file/directory that only resembles the temp pattern: "+n, n)
		}
		items = append(items, fmt.Sprintf("mk_tn %d %s %s", len(items), coqByteList([]byte(n)), coqBool(!left[n])))
	}
	for _, n := range temps {
		nCases++
		c.Count("temp-name")
		c.Nontrivial("temp|" + n)
		if left[n] {
			c.Fail("", "start-up cleaning left a temporary artefact: "+n, n)
		}
		items = append(items, fmt.Sprintf("mk_tn %d %s %s", len(items), coqByteList([]byte(n)), coqBool(!left[n])))
	}
	for _, s := range storesBefore {
		if hexRe.MatchString(s) && !left[s] {
			c.Fail("", "start-up cleaning deleted a live store directory: "+s, s)
		}
	}
	w.V.Close()
	w.V = nil

	// (4) provision/cleanup cycles repeat indefinitely: goroutines, work_dir registration, database locks
	cycles := 15
	if c.Thorough() {
		cycles = 100
	}
	runtime.GC()
	time.Sleep(50 * time.Millisecond)
	g0 := implGoroutines()
	for k := 0; k < cycles; k++ {
		// the same directory, spelt differently from cycle to cycle
		w.Dir = []string{wd, wd + "/", filepath.Join(filepath.Dir(wd), ".", filepath.Base(wd)) + "/.", filepath.Dir(wd) + "//" + filepath.Base(wd)}[k%4]
		if err := w.Provision(); err != nil {
			c.Fail("", fmt.Sprintf("provision/cleanup cycle %d: provisioning on the same work_dir failed: %v", k, err), k)
			break
		}
		w.Do(hs("h0"))
		if !closeWithTimeout(w.V) {
			c.Fail("", fmt.Sprintf("cycle %d: Cleanup did not return", k), k)
			break
		}
		w.V = nil
	}
	w.Dir = wd
	g1 := implGoroutines()
	for k := 0; k < 250 && g1 > g0; k++ {
		time.Sleep(100 * time.Millisecond)
		g1 = implGoroutines()
	}
	nCases += cycles
	c.Count("cycles")
	c.Rep.Extra["goroutines_before_cycles"] = g0
	c.Rep.Extra["goroutines_after_cycles"] = g1
	if g1 > g0 {
		c.Fail("", fmt.Sprintf("%d provision/cleanup cycles left %d goroutines of the validator behind (before: %d): %s", cycles, g1-g0, g0, implGoroutineSummary()), map[string]int{"cycles": cycles, "before": g0, "after": g1})
	}
	for _, e := range listDir(wd) {
		if tmpRe.MatchString(strings.Split(e, string(filepath.Separator))[0]) {
			c.Fail("", "temporary artefact left after the cycles: "+e, e)
		}
	}
	// (4b) Cleanup arrives while the start-up pass of the ticker goroutine is still downloading (slow origin): the
	// goroutine must still end
	{
		w.AddList("slow", ListSpec{Serials: []int64{3}})
		w.Do(sv("/slowcfg", "slow"))
		saved := w.Cfg
		w.Cfg = VCfg{Mode: "crl_only", Storage: "disk", SigMode: "verify", Interval: "1h", CRLUrls: []string{w.url("/slowcfg")}, TrustedSigners: []string{writeCertPEM(c, w.CA.Cert)}}
		w.Delay = 120 * time.Millisecond
		runtime.GC()
		time.Sleep(50 * time.Millisecond)
		gb := implGoroutines()
		n := 6
		for k := 0; k < n; k++ {
			w.Cfg.WorkDir = w.Dir
			v, err := NewValidator(w.Cfg) // returns when Provision returns; the ticker goroutine's first pass starts now
			if err != nil {
				c.Fail("", fmt.Sprintf("cycle %d with a slow configured URL: provisioning failed: %v", k, err), k)
				break
			}
			time.Sleep(40 * time.Millisecond)
			if !closeWithTimeout(v) {
				c.Fail("", fmt.Sprintf("cycle %d: Cleanup during the start-up pass did not return", k), k)
				break
			}
		}
		w.Delay = 0
		// goroutines that belong to the code under test (idle HTTP keep-alive connections of the transport do not
		// count); a pass that was in flight when Cleanup came ends by itself: wait for that
		ga := implGoroutines()
		for k := 0; k < 250 && ga > gb; k++ { // up to 25 s: a pass in flight may sit in its retry loops (5 x 500 ms per download, 5 x 1 s per database)
			time.Sleep(100 * time.Millisecond)
			ga = implGoroutines()
		}
		nCases += n
		c.Count("cleanup-during-startup-pass")
		c.Nontrivial("cleanup-during-startup-pass")
		c.Rep.Extra["goroutines_before_overlapping_cycles"] = gb
		c.Rep.Extra["goroutines_after_overlapping_cycles"] = ga
		if ga > gb {
			c.Fail("", fmt.Sprintf("%d provision/cleanup cycles in which Cleanup arrives during the ticker's start-up pass left %d goroutines of the validator behind (before: %d): %s", n, ga-gb, gb, implGoroutineSummary()), map[string]int{"cycles": n, "before": gb, "after": ga})
		}
		w.Cfg = saved
	}
	// (5) a provisioning that fails half-way (a configured crl_file is missing; a configured URL serves garbage) followed by
	// Cleanup — what Caddy does with a module whose Provision failed — releases everything as well
	good := w.Cfg
	for k, bad := range []VCfg{
		{Mode: "crl_only", Storage: "disk", SigMode: "verify", Interval: "1h", CRLFiles: []string{filepath.Join(sandbox, "missing.crl")}},
		{Mode: "crl_only", Storage: "disk", SigMode: "verify", Interval: "1h", CRLUrls: []string{w.url("/crl_evil_tmp")}},
	} {
		w.Cfg = bad
		err := w.Provision()
		nCases++
		c.Count("failed-provision")
		c.Nontrivial(fmt.Sprintf("failed-provision|%d", k))
		if err == nil {
			closeWithTimeout(w.V)
			w.V = nil
			c.Fail("", "harness: a provisioning that should fail succeeded", bad)
			continue
		}
		w.Cfg = good
		if err2 := w.Provision(); err2 != nil {
			c.Fail("", fmt.Sprintf("after a failed provisioning (%v) and Cleanup, provisioning on the same work_dir fails: %v", err, err2), map[string]string{"first": err.Error(), "second": err2.Error()})
			break
		}
		w.Do(hs("h0"))
		closeWithTimeout(w.V)
		w.V = nil
	}
	w.Cfg = good
	c.Sample(map[string]interface{}{"hostile_locations": hostile[:6], "foreign": foreign, "temps": temps, "cycles": cycles, "goroutines": []int{g0, g1}})
	c.WriteCoqSharded("cases_C20", "From Verif Require Import Base Bytes FsNames RunFs.\nOpen Scope N_scope.\n", "fscase", items, "fs_mismatches", 100)
	c.Rep.Cases = nCases
	c.Rep.Rule = "a sandbox directory is diffed around a validator (disk storage) whose certificates name 18 hostile distribution points (traversal, encoded separators and NUL, 10 KB, unicode, temp-pattern look-alikes, near-equal pairs), served good or garbage; restart on the same work_dir; start-up sweep over 8 foreign look-alike names and 4 temp-pattern names (files and directories); refreshes of loaded entries that meet garbage / a bad signature / a good list; provision/cleanup cycles on one work_dir (spelt with and without trailing slash, /./ and //) with goroutine count; provisioning that fails half-way followed by Cleanup and a new provisioning; cycles in which Cleanup arrives while the ticker's start-up pass is still downloading; location strings pairwise distinct incl. 12 near-equal ones (%2F vs /, query values, trailing slash, %41 vs A, + vs %20 vs %2B), each must bring its own store; the model's hex naming and sweep recogniser are evaluated on the same digests / names"
}

// implGoroutines counts the goroutines that are executing (or blocked in) code of the validator.
func implGoroutines() int {
	n := 0
	for _, g := range goroutineStacks() {
		if strings.Contains(g, "gr33nbl00d/caddy-revocation-validator") {
			n++
		}
	}
	return n
}

func implGoroutineSummary() string {
	seen := map[string]int{}
	for _, g := range goroutineStacks() {
		if !strings.Contains(g, "gr33nbl00d/caddy-revocation-validator") {
			continue
		}
		for _, l := range strings.Split(g, "\n") {
			if strings.Contains(l, "gr33nbl00d/caddy-revocation-validator") && !strings.HasPrefix(l, "\t") {
				if i := strings.Index(l, "("); i > 0 {
					l = l[:i]
				}
				seen[l]++
				break
			}
		}
	}
	var out []string
	for k, v := range seen {
		out = append(out, fmt.Sprintf("%s x%d", k, v))
	}
	sort.Strings(out)
	return strings.Join(out, "; ")
}

func goroutineStacks() []string {
	buf := make([]byte, 1<<20)
	for {
		n := runtime.Stack(buf, true)
		if n < len(buf) {
			buf = buf[:n]
			break
		}
		buf = make([]byte, 2*len(buf))
	}
	return strings.Split(string(buf), "\n\n")
}
