package main

// C10, distribution points that differ only in their spelling — strict mode denies a certificate until the CRL of
// ITS distribution point is in force.  Two certificates name URLs on one host and path that differ only inside the
// query (pairs separated by ';' or '&', an escaped character, letter case of the path): the first one's list is
// loaded, the second one's location is down and was never loaded.  The second certificate is denied under strict
// and accepted under lenient.

import (
	"fmt"
	"math/big"
	"net/http"
	"sync"
)

type c10URL struct {
	Name    string `json:"name"`
	A       string `json:"loaded_distribution_point"`
	B       string `json:"unavailable_distribution_point"`
	Strict  bool   `json:"crl_cdp_strict"`
	Storage string `json:"storage"`
	First   string `json:"verdict_first_certificate"`
	Second  string `json:"verdict_second_certificate"`
}

func c10URLStage(c *Ctx) int {
	pairs := []c10URL{
		{Name: "query pairs separated by ';'", A: "/crl?ca=issuing1;format=der", B: "/crl?ca=issuing2;format=der"},
		{Name: "query pairs separated by '&'", A: "/crl?ca=issuing1&format=der", B: "/crl?ca=issuing2&format=der"},
		{Name: "query value with an invalid percent escape", A: "/crl?ca=100%zz1", B: "/crl?ca=100%zz2"},
		{Name: "query present vs absent", A: "/crl?ca=1", B: "/crl"},
		{Name: "letter case of the path", A: "/crl/Issuing.crl", B: "/crl/issuing.crl"},
		{Name: "trailing slash", A: "/crl/x", B: "/crl/x/"},
	}
	n := 0
	var wg sync.WaitGroup
	var mu sync.Mutex
	sem := make(chan struct{}, 12)
	for _, storage := range []string{"memory", "disk"} {
		for _, strict := range []bool{true, false} {
			for _, p := range pairs {
				p.Strict, p.Storage = strict, storage
				n++
				wg.Add(1)
				sem <- struct{}{}
				go func(p c10URL, n int, strict bool, storage string) {
					defer wg.Done()
					defer func() { <-sem }()
					root := NewRootCA(fmt.Sprintf("C10 url root %d", n), false)
					ca := root.NewSubCA(fmt.Sprintf("C10 url CA %d", n), false)
					crl := ca.MakeCRL(CRLOpts{Entries: serials(900)})
					org := NewOrigin()
					good := p.A
					h := func(_ int, w http.ResponseWriter, r *http.Request) {
						if r.URL.RequestURI() == good {
							w.Write(crl)
							return
						}
						http.Error(w, "unavailable", 503)
					}
					org.Route("/crl", h)
					org.Route("/crl/x", h)
					org.Route("/crl/x/", h)
					org.Route("/crl/Issuing.crl", h)
					org.Route("/crl/issuing.crl", h)
					la := ca.IssueLeaf(LeafOpts{CN: "first", Serial: big.NewInt(101), CDP: []string{org.Srv.URL + p.A}})
					lb := ca.IssueLeaf(LeafOpts{CN: "second", Serial: big.NewInt(102), CDP: []string{org.Srv.URL + p.B}})
					v, err := NewValidator(VCfg{Mode: "crl_only", Storage: storage, SigMode: "verify", CDPStrict: strict, Interval: "1h",
						FetchMode: "fetch_actively", WorkDir: c.TempDir(fmt.Sprintf("c10url_%d", n))})
					mustNoErr(err)
					p.First = classify(v.Verify(la.Cert, ca.Cert, root.Cert))
					p.Second = classify(v.Verify(lb.Cert, ca.Cert, root.Cert))
					closeWithTimeout(v)
					org.Close()
					mu.Lock()
					defer mu.Unlock()
					c.Count("cdp-url-spelling")
					c.Nontrivial(fmt.Sprintf("cdp-url|%s|%v|%s", p.Name, strict, storage))
					if n%5 == 0 {
						c.Sample(p)
					}
					if p.First != "accept" {
						c.Fail("", fmt.Sprintf("cdp url stage (%s, strict=%v, %s): the certificate whose distribution point is available answered %s", p.Name, strict, storage, p.First), p)
					}
					want := map[bool]string{true: "error", false: "accept"}[strict]
					if p.Second != want {
						c.Fail("", fmt.Sprintf("crl_cdp_strict=%v (%s): certificate whose distribution point %q is unavailable and was never loaded answered %s after another certificate's distribution point %q had been loaded (%s); the property demands %s", strict, storage, p.B, p.Second, p.A, p.Name, want), p)
					}
				}(p, n, strict, storage)
			}
		}
	}
	wg.Wait()
	return n
}
