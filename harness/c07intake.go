package main

// C07, second part — "neither a handshake nor a scheduled refresh can take the server process down
// because of what a CRL location returned": documents that the reader accepts travel on to the
// chain matcher and the signature verifier.  Attacker-influenced there: absence of crlExtensions,
// the authorityKeyIdentifier value, the issuer name.  Each document is served at a CDP and met by a
// real handshake and a forced refresh under signature_validation_mode verify (and none).

import (
	"encoding/asn1"
	"fmt"
	"math/big"
	"math/rand"
	"sync"
)

type c07Intake struct {
	Name      string `json:"name"`
	SigMode   string `json:"signature_validation_mode"`
	Handshake string `json:"handshake"`
	Refresh   string `json:"refresh"`
}

func c07IntakeStage(c *Ctx) int {
	r := rand.New(rand.NewSource(c.Seed + 7))
	akiOID := asn1.ObjectIdentifier{2, 5, 29, 35}
	ext := func(oid asn1.ObjectIdentifier, critical bool, value []byte) []byte {
		o, _ := asn1.Marshal(oid)
		b := o
		if critical {
			b = append(b, 0x01, 0x01, 0xff)
		}
		b = append(b, tlv(0x04, value)...)
		return tlv(0x30, b)
	}
	rnd := func(n int) []byte { b := make([]byte, n); r.Read(b); return b }
	type variant struct {
		name string
		mod  func(w *World, d *Doc)
	}
	keyid := func(w *World) []byte { return w.CA.Cert.SubjectKeyId }
	akiVal := func(name string, f func(w *World) []byte) variant {
		return variant{"aki=" + name, func(w *World, d *Doc) { d.Exts = tlv(0x30, ext(akiOID, false, f(w))) }}
	}
	variants := []variant{
		{"v1-no-extensions", func(w *World, d *Doc) { d.Version = 1; d.Exts = nil }},
		{"v2-no-extensions", func(w *World, d *Doc) { d.Exts = nil }},
		{"v2-empty-extension-list", func(w *World, d *Doc) { d.Exts = tlv(0x30, nil) }},
		{"no-aki-other-extension-only", func(w *World, d *Doc) {
			d.Exts = tlv(0x30, ext(asn1.ObjectIdentifier{1, 3, 6, 1, 4, 1, 99999, 3}, false, []byte{0x05, 0x00}))
		}},
		akiVal("empty-value", func(*World) []byte { return nil }),
		akiVal("empty-sequence", func(*World) []byte { return []byte{0x30, 0x00} }),
		akiVal("keyid-empty", func(*World) []byte { return []byte{0x30, 0x02, 0x80, 0x00} }),
		akiVal("keyid-truncated", func(w *World) []byte { return append([]byte{0x30, 0x16, 0x80, 0x14}, keyid(w)[:10]...) }),
		akiVal("keyid-length-beyond-value", func(w *World) []byte { return append([]byte{0x30, 0x16, 0x80, 0x7f}, keyid(w)...) }),
		akiVal("sequence-huge-length", func(*World) []byte { return []byte{0x30, 0x84, 0xff, 0xff, 0xff, 0xff} }),
		akiVal("sequence-length-15-bytes", func(*World) []byte { return append([]byte{0x30, 0x8f}, rnd(15)...) }),
		akiVal("indefinite-length", func(*World) []byte { return []byte{0x30, 0x80, 0x80, 0x01, 0x01, 0x00, 0x00} }),
		akiVal("octet-string-instead", func(w *World) []byte { return tlv(0x04, keyid(w)) }),
		akiVal("keyid-with-trailing-garbage", func(w *World) []byte {
			return append(tlv(0x30, tlv(0x80, keyid(w))), rnd(9)...)
		}),
		akiVal("issuer-and-serial-malformed", func(*World) []byte {
			return tlv(0x30, append(tlv(0xa1, []byte{0xa4, 0x03, 0x30, 0x01}), tlv(0x82, nil)...))
		}),
		akiVal("issuer-without-serial", func(*World) []byte { return tlv(0x30, tlv(0xa1, tlv(0xa4, tlv(0x30, nil)))) }),
		akiVal("serial-huge", func(*World) []byte { return tlv(0x30, tlv(0x82, rnd(400))) }),
		akiVal("random-40", func(*World) []byte { return rnd(40) }),
		akiVal("keyid-of-another-length", func(*World) []byte { return tlv(0x30, tlv(0x80, rnd(3))) }),
		akiVal("correct", func(w *World) []byte { return tlv(0x30, tlv(0x80, keyid(w))) }),
		{"aki-twice", func(w *World, d *Doc) {
			e := ext(akiOID, false, tlv(0x30, tlv(0x80, keyid(w))))
			d.Exts = tlv(0x30, append(append([]byte{}, e...), e...))
		}},
		{"issuer-empty-name", func(w *World, d *Doc) { d.Issuer = tlv(0x30, nil) }},
		{"issuer-rdn-with-empty-set", func(w *World, d *Doc) { d.Issuer = tlv(0x30, tlv(0x31, nil)) }},
		{"issuer-attribute-without-value", func(w *World, d *Doc) {
			d.Issuer = tlv(0x30, tlv(0x31, tlv(0x30, []byte{0x06, 0x03, 0x55, 0x04, 0x03})))
		}},
		{"issuer-200-rdns", func(w *World, d *Doc) {
			var b []byte
			for i := 0; i < 200; i++ {
				b = append(b, tlv(0x31, tlv(0x30, append([]byte{0x06, 0x03, 0x55, 0x04, 0x03}, tlv(0x0c, []byte("x"))...)))...)
			}
			d.Issuer = tlv(0x30, b)
		}},
	}
	var mu sync.Mutex
	var results []*c07Intake
	var wg sync.WaitGroup
	sem := make(chan struct{}, 16)
	idx := 0
	for _, v := range variants {
		for _, sigmode := range []string{"verify", "none"} {
			for _, resign := range []bool{true, false} {
				if !resign && sigmode == "none" {
					continue
				}
				v, sigmode, resign := v, sigmode, resign
				idx++
				k := idx
				wg.Add(1)
				sem <- struct{}{}
				go func() {
					defer wg.Done()
					defer func() { <-sem }()
					w := NewWorld(c, fmt.Sprintf("c07i_%d", k))
					defer w.Close()
					d := w.CA.MakeDoc(CRLOpts{Entries: serials(4242, 5)})
					v.mod(w, d)
					if resign { // the issuing CA itself produces the odd document: verification reaches the matcher's success paths
						d.SigBits = signDigest(w.CA.Key, defaultAlgFor(w.CA.Key).Hash, d.TBS())
					}
					w.Lists["L"] = d.DER()
					w.Do(sv("/a", "L"))
					w.Cfg = VCfg{Mode: "crl_only", Storage: "memory", SigMode: sigmode, CDPStrict: true, Interval: "1h"}
					res := &c07Intake{Name: fmt.Sprintf("%s resigned=%v", v.name, resign), SigMode: sigmode}
					if err := w.Provision(); err != nil {
						res.Handshake = "provision: " + err.Error()
					} else {
						w.Certs["probe"] = w.CA.IssueLeaf(LeafOpts{CN: "probe", Serial: big.NewInt(4242), CDP: []string{w.Org.URL("/a")}})
						w.CertSp["probe"] = CertSpec{}
						res.Handshake = w.Do(hs("probe"))
						res.Refresh = w.Do(Step{Op: "refresh"})
						res.Handshake += "," + w.Do(hs("probe"))
					}
					mu.Lock()
					results = append(results, res)
					mu.Unlock()
				}()
			}
		}
	}
	wg.Wait()
	for i, res := range results {
		c.Count("intake=" + res.SigMode)
		c.Nontrivial("intake|" + res.Name + "|" + res.SigMode)
		if i%17 == 0 {
			c.Sample(res)
		}
		for _, o := range []string{res.Handshake, res.Refresh} {
			if containsAny(o, "panic", "hang") {
				c.Fail("", fmt.Sprintf("intake of a CRL with %s under %s: %s (handshake) / %s (refresh)", res.Name, res.SigMode, res.Handshake, res.Refresh), res)
				break
			}
		}
	}
	return len(results)
}

func containsAny(s string, subs ...string) bool {
	for _, x := range subs {
		if len(x) > 0 && len(s) >= len(x) {
			for i := 0; i+len(x) <= len(s); i++ {
				if s[i:i+len(x)] == x {
					return true
				}
			}
		}
	}
	return false
}
