package main

// C09, damaged table blocks — the CRL sits in a LevelDB table file (the database was closed and reopened once), then
// single bytes of that file are damaged on disk: inside the key of a listed certificate's record, and at offsets
// spread over the file.  Every listed certificate is then looked up: the answer is "revoked" or an error, never
// "not revoked".  (Faults injected through the API — closed handle, garbage value — do not reach this path: the
// block checksum is verified by the library only if the database is opened that way.)

import (
	"bytes"
	"crypto/x509/pkix"
	"fmt"
	"math/big"
	"os"
	"path/filepath"
	"sync"
	"time"

	"github.com/gr33nbl00d/caddy-revocation-validator/core/hashing"
	"github.com/gr33nbl00d/caddy-revocation-validator/crl/crlreader"
	"github.com/gr33nbl00d/caddy-revocation-validator/crl/crlstore"
	"go.uber.org/zap"
)

type c09Damage struct {
	Where      string `json:"damage"`
	Offset     int    `json:"offset"`
	OpenErr    string `json:"open_error,omitempty"`
	Revoked    int    `json:"lookups_revoked"`
	Errors     int    `json:"lookups_error"`
	NotRevoked int    `json:"lookups_not_revoked_without_error"`
	Example    string `json:"example,omitempty"`
}

func c09DamageStage(c *Ctx) int {
	const n = 300
	issuer := pkix.Name{CommonName: "C09 Damage CA"}.ToRDNSequence()
	base := c.TempDir("c09_damage_src")
	open := func(dir string) (crlstore.CRLStore, error) {
		f, err := crlstore.CreateStoreFactory(crlstore.LevelDB, dir, zap.NewNop())
		if err != nil {
			return nil, err
		}
		return f.CreateStore("id", false)
	}
	s, err := open(base)
	mustNoErr(err)
	mustNoErr(s.StartUpdateCrl(&crlreader.CRLMetaInfo{}))
	for i := 0; i < n; i++ {
		e := pkix.RevokedCertificate{SerialNumber: big.NewInt(int64(100000 + i)), RevocationTime: time.Date(2024, 1, 1, 0, 0, 0, 0, time.UTC)}
		mustNoErr(s.InsertRevokedCert(&crlreader.CRLEntry{Issuer: &issuer, RevokedCertificate: &e}))
	}
	s.Close()
	s, err = open(base) // recovery moves the journal into a table file
	mustNoErr(err)
	s.Close()
	tables, _ := filepath.Glob(filepath.Join(base, "id", "*.ldb"))
	if len(tables) == 0 {
		c.Fail("", "c09 damage stage: precondition: no table file after reopening the database", nil)
		return 0
	}
	table := tables[0]
	content, err := os.ReadFile(table)
	mustNoErr(err)
	type plan struct {
		where string
		off   int
	}
	var plans []plan
	for k := 0; k < 16; k++ {
		j := k * n / 16
		key := hashing.Sum64(issuer.String() + "_" + big.NewInt(int64(100000+j)).String())
		// keys inside a block are prefix-compressed against their predecessor: look for the tail of the key
		for skip := 0; skip <= 4; skip++ {
			if i := bytes.Index(content, key[skip:]); i >= 0 {
				plans = append(plans, plan{fmt.Sprintf("inside the key of the record of listed serial %d", 100000+j), i + len(key[skip:]) - 2})
				break
			}
		}
	}
	for k := 1; k <= 8; k++ {
		plans = append(plans, plan{"offset spread over the table file", len(content) * k / 10})
	}
	res := make([]c09Damage, len(plans))
	var wg sync.WaitGroup
	for pi, pl := range plans {
		wg.Add(1)
		go func(pi int, pl plan) {
			defer wg.Done()
			d := c09Damage{Where: pl.where, Offset: pl.off}
			dir := c.TempDir(fmt.Sprintf("c09_damage_%d", pi))
			defer os.RemoveAll(dir)
			mustNoErr(os.MkdirAll(filepath.Join(dir, "id"), 0700))
			files, _ := filepath.Glob(filepath.Join(base, "id", "*"))
			for _, f := range files {
				b, err := os.ReadFile(f)
				mustNoErr(err)
				if f == table {
					b = append([]byte(nil), b...)
					b[pl.off] ^= 0x40
				}
				mustNoErr(os.WriteFile(filepath.Join(dir, "id", filepath.Base(f)), b, 0600))
			}
			st, err := open(dir)
			if err != nil {
				d.OpenErr = err.Error() // refusing to open is failing closed
				res[pi] = d
				return
			}
			for i := 0; i < n; i++ {
				ser := big.NewInt(int64(100000 + i))
				status, err := func() (r *crlstoreStatus, err error) {
					defer func() {
						if p := recover(); p != nil {
							err = fmt.Errorf("panic: %v", p)
						}
					}()
					x, err := st.GetCertRevocationStatus(&issuer, ser)
					if err != nil {
						return nil, err
					}
					return &crlstoreStatus{Revoked: x != nil && x.Revoked}, nil
				}()
				switch {
				case err != nil:
					d.Errors++
				case status.Revoked:
					d.Revoked++
				default:
					d.NotRevoked++
					if d.Example == "" {
						d.Example = ser.String()
					}
				}
			}
			st.Close()
			res[pi] = d
		}(pi, pl)
	}
	wg.Wait()
	os.RemoveAll(base)
	for i, d := range res {
		c.Count("fault=blockdamage")
		c.Nontrivial(fmt.Sprintf("blockdamage|%d", i))
		if i%4 == 0 {
			c.Sample(d)
		}
		if d.NotRevoked > 0 {
			c.Fail("", fmt.Sprintf("disk store with one damaged byte in its table file (%s, offset %d): %d of %d listed certificates answered 'not revoked' without an error (e.g. serial %s)", d.Where, d.Offset, d.NotRevoked, n, d.Example), d)
		}
	}
	return len(res)
}

type crlstoreStatus struct{ Revoked bool }
