package main

import (
	"crypto/rand"
	"crypto/x509"
	"encoding/base64"
	"io"
)

func nil2rand() io.Reader { return rand.Reader }

func parseCert(b []byte) (*x509.Certificate, error) { return x509.ParseCertificate(b) }

// pemWriter base64-encodes what is written to it into 64-column lines
type pemWriter struct {
	w   io.Writer
	buf []byte
}

func (p *pemWriter) Write(b []byte) (int, error) {
	p.buf = append(p.buf, b...)
	for len(p.buf) >= 48 {
		line := base64.StdEncoding.EncodeToString(p.buf[:48])
		p.w.Write([]byte(line + "\n"))
		p.buf = p.buf[48:]
	}
	return len(b), nil
}

func (p *pemWriter) Close() {
	if len(p.buf) > 0 {
		p.w.Write([]byte(base64.StdEncoding.EncodeToString(p.buf) + "\n"))
		p.buf = nil
	}
}
