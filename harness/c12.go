package main

// C12 — crash consistency of disk storage.  Copies of the work directory taken at every
// store write of a first load / refresh and at every step of the directory swap; a fresh
// validator is started on each copy with all origins down.

import (
	"fmt"
	"io"
	"net/http"
	"os"
	"path/filepath"
	"regexp"
	"strings"
	"sync"
	"time"

	"github.com/gr33nbl00d/caddy-revocation-validator/core/verifhook"
	"github.com/gr33nbl00d/caddy-revocation-validator/crl/crlreader"
)

func init() { commands["c12"] = runC12 }

func copyTree(src, dst string) {
	filepath.Walk(src, func(p string, info os.FileInfo, err error) error {
		if err != nil {
			return nil
		}
		rel, _ := filepath.Rel(src, p)
		t := filepath.Join(dst, rel)
		if info.IsDir() {
			os.MkdirAll(t, 0700)
			return nil
		}
		in, err := os.Open(p)
		if err != nil {
			return nil
		}
		defer in.Close()
		out, err := os.Create(t)
		if err != nil {
			return nil
		}
		defer out.Close()
		io.Copy(out, in)
		return nil
	})
}

type snapProc struct {
	crlreader.CRLProcessor
	n    int
	snap func(phase string)
}

func (p *snapProc) StartUpdateCrl(m *crlreader.CRLMetaInfo) error {
	err := p.CRLProcessor.StartUpdateCrl(m)
	p.n++
	p.snap(fmt.Sprintf("PStaging %d", p.n))
	return err
}
func (p *snapProc) InsertRevokedCertificate(e *crlreader.CRLEntry) error {
	err := p.CRLProcessor.InsertRevokedCertificate(e)
	p.n++
	p.snap(fmt.Sprintf("PStaging %d", p.n))
	return err
}
func (p *snapProc) UpdateExtendedMetaInfo(i *crlreader.ExtendedCRLMetaInfo) error {
	err := p.CRLProcessor.UpdateExtendedMetaInfo(i)
	p.n++
	p.snap(fmt.Sprintf("PStaging %d", p.n))
	return err
}

type snapReader struct {
	snap func(phase string)
}

func (r snapReader) ReadCRL(p crlreader.CRLProcessor, path string) (*crlreader.CRLReadResult, error) {
	r.snap("PFetched")
	res, err := crlreader.StreamingCRLFileReader{}.ReadCRL(&snapProc{CRLProcessor: p, snap: r.snap}, path)
	if err == nil {
		r.snap("PAccepted") // parsed; verification follows, the image is the same until the swap starts
	}
	return res, err
}

type crashImage struct {
	Scenario string `json:"scenario"`
	Phase    string `json:"phase"`
	Dir      string `json:"-"`
	// observations after restart on the image
	Loaded   bool     `json:"loaded"`
	Verdicts []string `json:"verdicts"` // probes: old-only, new-only, common, unlisted
	Temps    []string `json:"temp_artefacts_after_startup"`
	Odd      []string `json:"other_leftovers_after_startup"`
	After    []string `json:"probes_after_origin_back_and_refresh"`
	Err      string   `json:"err,omitempty"`
	probes   []string
}

var c12Mu sync.Mutex // the hook handler is process global: scenarios run one at a time

func runC12(c *Ctx) {
	primeGlobalStamp(c)
	type scenario struct {
		name     string
		old, new string // list names ("" = none)
		sig      string
	}
	scs := []scenario{
		{"first-load-accepted", "", "old", "verify"},
		{"first-load-rejected", "", "badsig", "verify"},
		{"refresh-accepted", "old", "new", "verify"},
		{"refresh-rejected", "old", "badsig", "verify"},
		{"refresh-accepted-none", "old", "new", "none"},
		{"first-load-v1", "", "v1", "verify"},
		// without signature verification nothing but the staging discipline keeps a partial or rejected list out
		{"first-load-accepted-none", "", "old", "none"},
		{"first-load-rejected-none", "", "critical", "none"},
		{"first-load-accepted-verify_log", "", "old", "verify_log"},
	}
	var images []*crashImage
	var items []string
	tmpRe := regexp.MustCompile(`^crl_.*_tmp$`)
	hexRe := regexp.MustCompile(`^[0-9a-f]{64}$`)
	for si, sc := range scs {
		w := NewWorld(c, fmt.Sprintf("c12_%d", si))
		for n, s := range histLists {
			w.AddList(n, s)
		}
		for n, s := range histCerts {
			w.AddCert(n, s)
		}
		w.Cfg = VCfg{Mode: "crl_only", Storage: "disk", SigMode: sc.sig, CDPStrict: true, Interval: "1h"}
		mustNoErr(w.Provision())
		if sc.old != "" {
			w.Do(sv("/a", sc.old))
			w.Do(hs("c104"))
		}
		// instrument
		var local []*crashImage
		snap := func(phase string) {
			// every second image lives in a work_dir whose name has characters that are special to glob patterns and
			// regular expressions: a legal directory name, which the start-up sweep must treat as a plain path
			odd := ""
			if len(local)%2 == 1 {
				odd = "[tenant-a]+(x)"
			}
			img := &crashImage{Scenario: sc.name, Phase: phase, Dir: c.TempDir(fmt.Sprintf("img_%d_%d%s", si, len(local), odd))}
			copyTree(w.Dir, img.Dir)
			local = append(local, img)
		}
		repo := w.V.V.VerifCRLChecker().VerifRepository()
		repo.VerifSetReader(snapReader{snap})
		verifhook.SetHandler(func(name string) {
			if strings.HasPrefix(name, "leveldb.update:") {
				snap(map[string]string{"closed": "PSwapClosed", "aside": "PSwapAside", "in": "PSwapIn", "deleted": "PSwapDeleted", "reopened": "PSwapReopened"}[strings.TrimPrefix(name, "leveldb.update:")])
			}
		})
		w.Do(sv("/a", sc.new))
		// a crash in the middle of the download: the origin sends half of the body, the work directory is copied, then
		// the rest follows (only the first download of the instrumented intake)
		midDone := false
		w.Org.Route("/a", func(_ int, rw http.ResponseWriter, _ *http.Request) {
			w.Org.mu.Lock()
			what := w.serve["/a"]
			w.Org.mu.Unlock()
			body, ok := w.Lists[what]
			if !ok {
				http.Error(rw, "unavailable", http.StatusServiceUnavailable)
				return
			}
			if midDone || len(body) < 8 {
				rw.Write(body)
				return
			}
			midDone = true
			rw.Header().Set("Content-Length", fmt.Sprint(len(body)))
			rw.Write(body[:len(body)/2])
			if f, ok := rw.(http.Flusher); ok {
				f.Flush()
			}
			time.Sleep(60 * time.Millisecond) // the client has written what it received
			snap("PFetched")
			rw.Write(body[len(body)/2:])
		})
		if sc.old == "" {
			w.Do(hs("c104")) // first load
		} else {
			w.Do(refreshStep)
		}
		verifhook.SetHandler(nil)
		w.route("/a")
		w.Do(sv("/a", "down"))
		// restart on every image, origins down
		for _, img := range local {
			w2 := &World{c: c, Root: w.Root, CA: w.CA, Other: w.Other, Strang: w.Strang, Org: w.Org, Dir: img.Dir,
				Lists: w.Lists, Certs: w.Certs, CertSp: w.CertSp, serve: w.serve, Cfg: w.Cfg}
			if err := w2.Provision(); err != nil {
				img.Err = err.Error()
			} else {
				for _, f := range w2.Files() {
					if tmpRe.MatchString(f) {
						img.Temps = append(img.Temps, f)
					}
				}
				probes := []string{"c101", "c102", "c103", "c104"}
				if sc.new == "v1" {
					probes = []string{"c105", "c102", "c105", "c104"}
				}
				if sc.new == "badsig" && sc.old == "" {
					probes = []string{"c500", "c102", "c500", "c104"}
				}
				img.probes = probes
				for _, p := range probes {
					img.Verdicts = append(img.Verdicts, w2.Do(hs(p)))
				}
				img.Loaded = img.Verdicts[3] == "accept"
				// nothing but store directories may be left in the work_dir, whatever a leftover is called
				seenTop := map[string]bool{}
				for _, f := range w2.Files() {
					top := strings.Split(f, string(filepath.Separator))[0]
					if !seenTop[top] && !hexRe.MatchString(top) {
						img.Odd = append(img.Odd, top)
					}
					seenTop[top] = true
				}
				// and the location must be able to load and refresh again once the origin is back
				w2.Do(sv("/a", "new"))
				w2.Do(refreshStep)
				for _, p := range []string{"c101", "c102", "c103", "c104"} {
					img.After = append(img.After, w2.Do(hs(p)))
				}
				w2.Do(sv("/a", "down"))
				closeWithTimeout(w2.V)
			}
			os.RemoveAll(img.Dir)
		}
		// oracle + Coq
		for _, img := range local {
			idx := len(images)
			images = append(images, img)
			c.Count("scenario=" + img.Scenario)
			c.Count("phase=" + strings.Fields(img.Phase)[0])
			c.Nontrivial(img.Scenario + "|" + img.Phase)
			if img.Err != "" {
				c.Fail("", "restart on a crash image failed: "+img.Err, img)
				continue
			}
			if len(img.Temps) > 0 {
				c.Fail("", "temporary artefacts survive start-up: "+strings.Join(img.Temps, ","), img)
			} else if len(img.Odd) > 0 {
				c.Fail("", "after start-up the work_dir holds entries that are neither store directories nor swept: "+strings.Join(img.Odd, ","), img)
			}
			if got := strings.Join(img.After, ","); got != "accept,revoked,revoked,accept" {
				c.Fail("", "after the restart the location cannot take in a newly published list any more: origin back with list {102,103}, refresh, probes 101..104 -> "+got, img)
			}
			v := strings.Join(img.Verdicts, ",")
			pattern := func(list string) string {
				if list == "" {
					return "-"
				}
				var out []string
				for _, p := range img.probes {
					verdict := "accept"
					for _, s := range histLists[list].Serials {
						if s == histCerts[p].Serial {
							verdict = "revoked"
						}
					}
					out = append(out, verdict)
				}
				return strings.Join(out, ",")
			}
			isOld := v == pattern(sc.old)
			isNew := v == pattern(sc.new)
			content := "None"
			accepted := sc.new != "badsig"
			switch {
			case !img.Loaded:
				// every probe must be denied by strictness (nothing consulted)
				if strings.Contains(v, "revoked") || strings.Contains(v, "accept") {
					c.Fail("", "location not loaded after restart, yet its data answers lookups: "+v, img)
				}
			case isOld && sc.old != "":
				content = "(Some 1)"
			case isNew && accepted:
				content = "(Some 2)"
			default:
				c.Fail("", "after restart the location counts as loaded but does not hold one complete accepted CRL: "+v, img)
				content = "(Some 9)"
			}
			if idx%7 == 0 {
				c.Sample(img)
			}
			if !accepted {
				// a rejected intake never reaches the swap: the model's image is `old` at every phase seen
				if strings.HasPrefix(img.Phase, "PSwap") {
					c.Fail("", "a rejected CRL reached the directory swap", img)
				}
			}
			old := "None"
			if sc.old != "" {
				old = "(Some 1)"
			}
			items = append(items, fmt.Sprintf("mk_cc %d %s 2 (%s) %s %s %d", idx, old, img.Phase, coqBool(img.Loaded), content, len(img.Temps)))
		}
		w.Close()
	}
	c.WriteCoqSharded("cases_C12", "From Verif Require Import Base Repo RepoProps RunRepo.\nOpen Scope N_scope.\n", "ccase", items, "crash_mismatches", 100)
	c.Rep.Cases = len(images)
	c.Rep.Rule = "copies of the work directory taken in the middle of the download, after the download, after every store write into the staging store, after acceptance and after each of the five steps of LevelDbStore.Update (hook sites), for first load and refresh, accepted and rejected lists; a fresh validator is provisioned on each copy with all origins down and crl_cdp_strict on, probes old-only/new-only/common/unlisted; then the work_dir must hold store directories only, and with the origin back a refresh must bring the new list into force; distinct by (scenario, phase)"
	c.Rep.Extra["exhaustive"] = true
}
