package main

import (
	"context"
	"crypto/x509"
	"encoding/json"
	"fmt"
	"os"
	"path/filepath"
	"sort"

	"github.com/caddyserver/caddy/v2"
	revocation "github.com/gr33nbl00d/caddy-revocation-validator"
)

type x509Cert = x509.Certificate

type VCfg struct {
	Mode              string   `json:"mode,omitempty"`
	WorkDir           string   `json:"-"`
	Storage           string   `json:"-"`
	SigMode           string   `json:"-"`
	FetchMode         string   `json:"-"`
	CDPStrict         bool     `json:"-"`
	CRLFiles          []string `json:"-"`
	CRLUrls           []string `json:"-"`
	TrustedSigners    []string `json:"-"`
	Interval          string   `json:"-"`
	AIAStrict         bool     `json:"-"`
	CacheDuration     string   `json:"-"`
	NoCRLConfig       bool     `json:"-"`
	TrustedResponders []string `json:"-"`
}

func (c VCfg) JSON() []byte {
	m := map[string]interface{}{}
	if c.Mode != "" {
		m["mode"] = c.Mode
	}
	if !c.NoCRLConfig {
		crl := map[string]interface{}{"work_dir": c.WorkDir}
		if c.Storage != "" {
			crl["storage_type"] = c.Storage
		}
		if c.SigMode != "" {
			crl["signature_validation_mode"] = c.SigMode
		}
		if c.Interval != "" {
			crl["update_interval"] = c.Interval
		}
		if len(c.CRLFiles) > 0 {
			crl["crl_files"] = c.CRLFiles
		}
		if len(c.CRLUrls) > 0 {
			crl["crl_urls"] = c.CRLUrls
		}
		if len(c.TrustedSigners) > 0 {
			crl["trusted_signature_certs_files"] = c.TrustedSigners
		}
		cdp := map[string]interface{}{}
		if c.FetchMode != "" {
			cdp["crl_fetch_mode"] = c.FetchMode
		}
		if c.CDPStrict {
			cdp["crl_cdp_strict"] = true
		}
		if len(cdp) > 0 {
			crl["cdp_config"] = cdp
		}
		m["crl_config"] = crl
	}
	oc := map[string]interface{}{}
	if c.AIAStrict {
		oc["ocsp_aia_strict"] = true
	}
	if c.CacheDuration != "" {
		oc["default_cache_duration"] = c.CacheDuration
	}
	if len(c.TrustedResponders) > 0 {
		oc["trusted_responder_certs_files"] = c.TrustedResponders
	}
	if len(oc) > 0 {
		m["ocsp_config"] = oc
	}
	b, _ := json.Marshal(m)
	return b
}

type Validator struct {
	V      *revocation.CertRevocationValidator
	cancel context.CancelFunc
}

// NewValidator builds the real module from JSON and provisions it.
func NewValidatorJSON(cfg []byte) (*Validator, error) {
	v := new(revocation.CertRevocationValidator)
	if err := caddy.StrictUnmarshalJSON(cfg, v); err != nil {
		return nil, err
	}
	ctx, cancel := caddy.NewContext(caddy.Context{Context: context.Background()})
	if err := safeProvision(v, ctx); err != nil {
		cancel()
		// release what a failed Provision may have registered
		_ = safeCleanup(v)
		return nil, err
	}
	return &Validator{V: v, cancel: cancel}, nil
}

func NewValidator(c VCfg) (*Validator, error) { return NewValidatorJSON(c.JSON()) }

// PanicError marks a run-time panic of the implementation observed by the harness.
type PanicError struct{ Val interface{} }

func (p PanicError) Error() string { return fmt.Sprintf("PANIC: %v", p.Val) }

func isPanic(err error) bool { _, ok := err.(PanicError); return ok }

func safeProvision(v *revocation.CertRevocationValidator, ctx caddy.Context) (err error) {
	defer func() {
		if r := recover(); r != nil {
			err = PanicError{r}
		}
	}()
	return v.Provision(ctx)
}

func safeCleanup(v *revocation.CertRevocationValidator) (err error) {
	defer func() {
		if r := recover(); r != nil {
			err = nil
		}
	}()
	return v.Cleanup()
}

func (v *Validator) Close() {
	_ = safeCleanup(v.V)
	v.cancel()
}

// Verify runs the handshake hook with the given verified chain (leaf first).
func (v *Validator) Verify(chain ...*x509.Certificate) (err error) {
	defer func() {
		if r := recover(); r != nil {
			err = PanicError{r}
		}
	}()
	return v.V.VerifyClientCertificate(nil, [][]*x509.Certificate{chain})
}

func listDir(dir string) []string {
	var out []string
	filepath.Walk(dir, func(p string, info os.FileInfo, err error) error {
		if err == nil && p != dir {
			rel, _ := filepath.Rel(dir, p)
			out = append(out, rel)
		}
		return nil
	})
	sort.Strings(out)
	return out
}
