package main

// C02, C05, C14 — OCSP: responder lists, authenticity of answers, cache.

import (
	"crypto"
	"crypto/x509"
	"crypto/x509/pkix"
	"fmt"
	"io"
	"math/big"
	"net/http"
	"os"
	"sort"
	"strings"
	"sync"
	"sync/atomic"
	"time"

	"golang.org/x/crypto/ocsp"
)

func init() {
	commands["c02"] = runC02
	commands["c05"] = runC05
	commands["c14"] = runC14
}

var ocspSerial int64 = 9000000

func nextOCSPSerial() *big.Int { return big.NewInt(atomic.AddInt64(&ocspSerial, 1)) }

// ocspPKI: issuing CA, a delegated responder with and without the OCSPSigning EKU, a sibling CA, a stranger
type ocspPKI struct {
	Root, CA, Sibling, Stranger *CA
	Delegate, DelegateNoEKU     *CA
	Rekeyed                     *CA // same distinguished name as CA, another key
}

func newOCSPPKI(name string) *ocspPKI {
	p := &ocspPKI{}
	p.Root = NewRootCA("OCSP Root "+name, false)
	p.CA = p.Root.NewSubCA("OCSP CA "+name, false)
	p.Sibling = p.Root.NewSubCA("OCSP Sibling "+name, false)
	p.Stranger = NewRootCA("OCSP Stranger "+name, false)
	p.Delegate = newCert(p.CA, CAOpts{Name: pkix.Name{CommonName: "OCSP Delegate " + name}, NotCA: true, KeyUsage: x509.KeyUsageDigitalSignature, OCSPSign: true})
	p.DelegateNoEKU = newCert(p.CA, CAOpts{Name: pkix.Name{CommonName: "OCSP NoEKU " + name}, NotCA: true, KeyUsage: x509.KeyUsageDigitalSignature})
	p.Rekeyed = newCert(p.Root, CAOpts{Name: p.CA.Cert.Subject})
	return p
}

type respSpec struct {
	Signer     string // issuer | delegate | delegate-noeku | leaf | stranger | stranger-embedded | sibling
	Status     string // good | revoked | unknown
	Serial     string // this | other
	RespStatus string // successful | malformed | internal | trylater | unauthorized
	NextUpdate time.Duration
}

func (p *ocspPKI) makeResponse(s respSpec, leaf *Leaf, serial *big.Int) []byte {
	switch s.RespStatus {
	case "malformed":
		return ocsp.MalformedRequestErrorResponse
	case "internal":
		return ocsp.InternalErrorErrorResponse
	case "trylater":
		return ocsp.TryLaterErrorResponse
	case "unauthorized":
		return ocsp.UnauthorizedErrorResponse
	}
	ser := serial
	if s.Serial == "other" {
		ser = new(big.Int).Add(serial, big.NewInt(1))
	}
	tmpl := ocsp.Response{SerialNumber: ser, ThisUpdate: time.Now().Add(-time.Minute), Status: ocsp.Good}
	if s.NextUpdate != 0 {
		tmpl.NextUpdate = time.Now().Add(s.NextUpdate)
	}
	switch s.Status {
	case "revoked":
		tmpl.Status = ocsp.Revoked
		tmpl.RevokedAt = time.Now().Add(-time.Hour)
	case "unknown":
		tmpl.Status = ocsp.Unknown
	}
	var issuer, responder *x509.Certificate
	var key crypto.Signer
	// "<signer>-bare": the CertID names the real issuer, the signature is the signer's, and no
	// responder certificate is embedded (the verifier has to find the key among its candidates)
	bare := strings.HasSuffix(s.Signer, "-bare")
	switch strings.TrimSuffix(s.Signer, "-bare") {
	case "issuer", "":
		issuer, responder, key = p.CA.Cert, p.CA.Cert, p.CA.Key
	case "delegate":
		issuer, responder, key = p.CA.Cert, p.Delegate.Cert, p.Delegate.Key
	case "delegate-noeku":
		issuer, responder, key = p.CA.Cert, p.DelegateNoEKU.Cert, p.DelegateNoEKU.Key
	case "leaf":
		issuer, responder, key = p.CA.Cert, leaf.Cert, leaf.Key
	case "stranger":
		issuer, responder, key = p.Stranger.Cert, p.Stranger.Cert, p.Stranger.Key
	case "stranger-embedded":
		d := newCert(p.Stranger, CAOpts{Name: pkix.Name{CommonName: "stranger responder"}, NotCA: true, OCSPSign: true, KeyUsage: x509.KeyUsageDigitalSignature})
		issuer, responder, key = p.Stranger.Cert, d.Cert, d.Key
	case "sibling":
		issuer, responder, key = p.Sibling.Cert, p.Sibling.Cert, p.Sibling.Key
	case "rekeyed-trusted":
		// a certificate with the issuer's name and another key, configured as trusted responder certificate
		issuer, responder, key = p.Rekeyed.Cert, p.Rekeyed.Cert, p.Rekeyed.Key
	}
	if bare {
		issuer = p.CA.Cert
	} else if !responder.Equal(issuer) {
		tmpl.Certificate = responder // embedded responder certificate
	}
	b, err := ocsp.CreateResponse(issuer, responder, tmpl, key)
	mustNoErr(err)
	return b
}

func (s respSpec) authentic() bool {
	return (s.RespStatus == "" || s.RespStatus == "successful") && (s.Signer == "" || s.Signer == "issuer" || s.Signer == "delegate") && s.Serial != "other"
}

// serveSpec installs a responder that answers with the response described by spec (built per request)
func serveSpec(org *Origin, path string, p *ocspPKI, leaf *Leaf, spec func(attempt int) (respSpec, bool)) {
	org.Route(path, func(attempt int, w http.ResponseWriter, r *http.Request) {
		body, _ := io.ReadAll(r.Body)
		req, err := ocsp.ParseRequest(body)
		s, ok := spec(attempt)
		if !ok {
			http.Error(w, "boom", http.StatusInternalServerError)
			return
		}
		serial := leaf.Cert.SerialNumber
		if err == nil {
			serial = req.SerialNumber
		}
		w.Header().Set("Content-Type", "application/ocsp-response")
		// HTTP caching headers (RFC 5019 §6) are not signed: whatever a responder or an intermediary puts there, the
		// lifetime of a cached answer is bounded by the signed nextUpdate or the configured default duration
		w.Header().Set("Cache-Control", "max-age=86400, public, no-transform, must-revalidate")
		w.Header().Set("Expires", time.Now().Add(24*time.Hour).UTC().Format(http.TimeFormat))
		writeBody(w, p.makeResponse(s, leaf, serial))
	})
}

var deferred struct {
	sync.Mutex
	vs []*Validator
}

func deferClose(v *Validator) {
	deferred.Lock()
	deferred.vs = append(deferred.vs, v)
	deferred.Unlock()
}
func closeDeferred() {
	deferred.Lock()
	defer deferred.Unlock()
	for _, v := range deferred.vs {
		v.Close()
	}
	deferred.vs = nil
}

// ---------------------------------------------------------------- C02
var c02Behaviours = []string{"good", "revoked", "unknown", "http500", "garbage", "refused", "wrongcontent", "nonhttp", "stranger", "errorstatus"}

type c02Case struct {
	Responders []string `json:"responders"`
	Strict     bool     `json:"strict"`
	Cache      string   `json:"cache"`
	Chain      string   `json:"chain"`
	Upper      bool     `json:"scheme_in_upper_case"` // responder URLs written HTTP://...
	First      string   `json:"first"`                // verdict of the first handshake
	Second     string   `json:"second"`               // verdict of a second handshake with every responder down
	Hits       []int    `json:"hits"`
	WantFirst  string   `json:"want_first"`
	WantSecond string   `json:"want_second"`
}

func behaviourSpec(b string) (respSpec, bool) {
	switch b {
	case "good":
		return respSpec{Status: "good"}, true
	case "revoked":
		return respSpec{Status: "revoked"}, true
	case "unknown":
		return respSpec{Status: "unknown"}, true
	case "wrongcontent":
		return respSpec{Status: "revoked", Serial: "other"}, true
	case "stranger":
		return respSpec{Status: "good", Signer: "stranger"}, true
	case "errorstatus":
		return respSpec{RespStatus: "trylater"}, true
	}
	return respSpec{}, false
}

func c02Reference(cs *c02Case) {
	anyHTTP := false
	decided := ""
	for _, b := range cs.Responders {
		if b != "nonhttp" {
			anyHTTP = true
		}
		if decided == "" {
			if s, ok := behaviourSpec(b); ok && s.authentic() {
				if s.Status == "revoked" {
					decided = "revoked"
				} else {
					decided = "accept"
				}
			}
		}
	}
	silent := "accept"
	if cs.Strict && anyHTTP {
		silent = "error"
	}
	cs.WantFirst = decided
	if decided == "" {
		cs.WantFirst = silent
	}
	// second handshake: every responder down; a cached answer (cache duration > 0) still counts
	if decided != "" && cs.Cache != "" {
		cs.WantSecond = decided
	} else {
		cs.WantSecond = silent
	}
}

func runC02(c *Ctx) {
	p := newOCSPPKI("c02")
	var cases []*c02Case
	var lists [][]string
	lists = append(lists, []string{})
	for _, a := range c02Behaviours {
		lists = append(lists, []string{a})
		for _, b := range c02Behaviours {
			lists = append(lists, []string{a, b})
		}
	}
	if c.Thorough() {
		for _, a := range c02Behaviours {
			for _, b := range c02Behaviours {
				for _, d := range c02Behaviours {
					lists = append(lists, []string{a, b, d})
				}
			}
		}
	} else {
		for i := 0; i < 60; i++ {
			lists = append(lists, []string{c02Behaviours[(i*7)%10], c02Behaviours[(i*3+1)%10], c02Behaviours[(i+5)%10]})
		}
	}
	for _, l := range lists {
		for _, strict := range []bool{false, true} {
			for _, cache := range []string{"", "1h"} {
				cases = append(cases, &c02Case{Responders: l, Strict: strict, Cache: cache, Chain: []string{"sub", "sub"}[len(cases)%2]})
			}
		}
	}
	// the scheme of a responder URL is case-insensitive (RFC 3986): the same single-responder cases with HTTP://
	for _, b := range c02Behaviours {
		for _, strict := range []bool{false, true} {
			cases = append(cases, &c02Case{Responders: []string{b}, Strict: strict, Cache: "", Chain: "sub", Upper: true})
		}
	}
	var wg sync.WaitGroup
	sem := make(chan struct{}, 32)
	refusedURL := closedPortURL("/ocsp")
	for i, cs := range cases {
		wg.Add(1)
		sem <- struct{}{}
		go func(i int, cs *c02Case) {
			defer wg.Done()
			defer func() { <-sem }()
			org := NewOrigin()
			defer org.Close()
			var urls []string
			var down int32
			for k, b := range cs.Responders {
				path := fmt.Sprintf("/r%d", k)
				switch b {
				case "nonhttp":
					urls = append(urls, "ldap://dir.example/ocsp")
				case "refused":
					urls = append(urls, refusedURL)
				default:
					urls = append(urls, org.URL(path))
				}
			}
			if cs.Upper {
				for k := range urls {
					if strings.HasPrefix(urls[k], "http://") {
						urls[k] = "HTTP://" + strings.TrimPrefix(urls[k], "http://")
					}
				}
			}
			leaf := p.CA.IssueLeaf(LeafOpts{CN: fmt.Sprintf("c02-%d", i), Serial: nextOCSPSerial(), OCSP: urls})
			for k, b := range cs.Responders {
				b := b
				path := fmt.Sprintf("/r%d", k)
				if b == "garbage" {
					org.Route(path, func(_ int, w http.ResponseWriter, _ *http.Request) {
						if atomic.LoadInt32(&down) == 1 {
							http.Error(w, "down", 503)
							return
						}
						w.Write([]byte("certainly not DER"))
					})
					continue
				}
				serveSpec(org, path, p, leaf, func(int) (respSpec, bool) {
					if atomic.LoadInt32(&down) == 1 {
						return respSpec{}, false
					}
					return behaviourSpec(b)
				})
			}
			v, err := NewValidator(VCfg{Mode: "ocsp_only", AIAStrict: cs.Strict, CacheDuration: cs.Cache, NoCRLConfig: true})
			mustNoErr(err)
			deferClose(v) // Cleanup flushes the process-wide cache table: closed after all cases
			cs.First = classify(v.Verify(leaf.Cert, p.CA.Cert, p.Root.Cert))
			for k := range cs.Responders {
				cs.Hits = append(cs.Hits, org.Hits(fmt.Sprintf("/r%d", k)))
			}
			atomic.StoreInt32(&down, 1)
			cs.Second = classify(v.Verify(leaf.Cert, p.CA.Cert, p.Root.Cert))
			c02Reference(cs)
		}(i, cs)
	}
	wg.Wait()
	// every mode that enables OCSP, with CRL checking configured alongside (the CRL does not list
	// the certificate): an authentic "revoked" must reject, whatever the CRL side concludes
	for mi, mode := range []string{"", "prefer_ocsp", "prefer_crl", "ocsp_only"} {
		for _, cache := range []string{"", "1h"} {
			org := NewOrigin()
			leaf := p.CA.IssueLeaf(LeafOpts{CN: fmt.Sprintf("c02-mode-%d", mi), Serial: nextOCSPSerial(), OCSP: []string{org.URL("/r")}, CDP: []string{org.URL("/crl")}})
			serveSpec(org, "/r", p, leaf, func(int) (respSpec, bool) { return respSpec{Status: "revoked"}, true })
			crl := p.CA.MakeCRL(CRLOpts{Entries: serials(7, 8, 9)})
			org.ServeBytes("/crl", func() []byte { return crl })
			wd := c.TempDir(fmt.Sprintf("c02_mode_%d_%s", mi, cache))
			v, err := NewValidator(VCfg{Mode: mode, WorkDir: wd, Interval: "1h", CacheDuration: cache})
			mustNoErr(err)
			deferClose(v)
			got := classify(v.Verify(leaf.Cert, p.CA.Cert, p.Root.Cert))
			c.Count("mode=" + mode + "/revoked")
			c.Nontrivial("mode|" + mode + "|" + cache)
			if got != "revoked" {
				c.Fail("", fmt.Sprintf("mode %q cache=%q with CRL checking configured (certificate not on the CRL): OCSP answers revoked, handshake %s", mode, cache, got), map[string]string{"mode": mode, "cache": cache, "verdict": got})
			}
			org.Close()
			os.RemoveAll(wd)
		}
	}
	closeDeferred()
	var items []string
	for i, cs := range cases {
		c.Count(fmt.Sprintf("len=%d", len(cs.Responders)))
		for _, b := range cs.Responders {
			c.Count("beh=" + b)
		}
		c.Count("first=" + cs.First)
		if cs.First != cs.WantFirst {
			tag := ""
			c.Fail(tag, fmt.Sprintf("responders %v strict=%v (scheme in upper case: %v): handshake %s, property demands %s", cs.Responders, cs.Strict, cs.Upper, cs.First, cs.WantFirst), cs)
		} else if cs.Second != cs.WantSecond {
			c.Fail("", fmt.Sprintf("responders %v strict=%v cache=%q: second handshake (all responders down) %s, expected %s", cs.Responders, cs.Strict, cs.Cache, cs.Second, cs.WantSecond), cs)
		}
		// responders after the deciding one must not be contacted
		if len(cs.Responders) > 0 {
			c.Nontrivial(fmt.Sprintf("%v|%v|%s|%v", cs.Responders, cs.Strict, cs.Cache, cs.Upper))
		}
		if i%97 == 0 {
			c.Sample(cs)
		}
		items = append(items, c02Coq(i, cs))
	}
	c.WriteCoqSharded("cases_C02", "From Verif Require Import Base Ocsp RunOcsp.\nOpen Scope N_scope.\n", "ocase", items, "ocsp_mismatches", 120)
	c.Rep.Cases = len(cases)
	c.Rep.Rule = "every responder list of length <= 2 (and a sample / all of length 3) over {good, revoked, unknown, HTTP 500, garbage, connection refused, answer for another serial, non-HTTP URL, stranger-signed, OCSP error status} x ocsp_aia_strict x default_cache_duration {0, 1h}: a real handshake, then a second one with every responder down (cache); distinct by the tuple, non-trivial = at least one responder"
}

func behaviourCoq(b string) string {
	switch b {
	case "good":
		return "(Answer SGood true)"
	case "revoked":
		return "(Answer SRevoked true)"
	case "unknown":
		return "(Answer SUnknown true)"
	case "wrongcontent", "stranger":
		return "(Answer SRevoked false)"
	case "nonhttp":
		return "NonHTTP"
	}
	return "Silent"
}

func verdictCode(v string) int {
	return map[string]int{"accept": 1, "revoked": 2, "error": 3}[v]
}

func c02Coq(i int, cs *c02Case) string {
	var bs []string
	for _, b := range cs.Responders {
		bs = append(bs, behaviourCoq(b))
	}
	cache := "0%Z"
	if cs.Cache != "" {
		cache = "3600000000000%Z"
	}
	return fmt.Sprintf("mk_oc %d [%s] %s %s %d %d", i, strings.Join(bs, "; "), coqBool(cs.Strict), cache, verdictCode(cs.First), verdictCode(cs.Second))
}

// ---------------------------------------------------------------- C05
type c05Case struct {
	Spec     respSpec `json:"response"`
	Mutation string   `json:"mutation,omitempty"`
	Strict   bool     `json:"strict"`
	NoSKI    bool     `json:"leaf_without_subject_key_id"`
	First    string   `json:"first"`
	Second   string   `json:"second"`
}

func runC05(c *Ctx) {
	p := newOCSPPKI("c05")
	rekeyedPEM := writeCertPEM(c, p.Rekeyed.Cert)
	var cases []*c05Case
	for _, signer := range []string{"issuer", "delegate", "delegate-noeku", "leaf", "stranger", "stranger-embedded", "sibling", "leaf-bare", "delegate-noeku-bare", "stranger-bare", "sibling-bare", "rekeyed-trusted", "rekeyed-trusted-bare"} {
		for _, serial := range []string{"this", "other"} {
			for _, status := range []string{"good", "revoked", "unknown"} {
				cases = append(cases, &c05Case{Spec: respSpec{Signer: signer, Status: status, Serial: serial}, Strict: true})
				// the same with a presented certificate that has no subjectKeyIdentifier of its own
				cases = append(cases, &c05Case{Spec: respSpec{Signer: signer, Status: status, Serial: serial}, Strict: true, NoSKI: true})
			}
		}
	}
	for _, rs := range []string{"malformed", "internal", "trylater", "unauthorized"} {
		cases = append(cases, &c05Case{Spec: respSpec{RespStatus: rs}, Strict: true})
	}
	run := func(cs *c05Case, mutate func([]byte) []byte) {
		org := NewOrigin()
		defer org.Close()
		leaf := p.CA.IssueLeaf(LeafOpts{CN: "c05", Serial: nextOCSPSerial(), OCSP: []string{org.URL("/r")}, NoSKI: cs.NoSKI})
		var down int32
		org.Route("/r", func(_ int, w http.ResponseWriter, r *http.Request) {
			if atomic.LoadInt32(&down) == 1 {
				http.Error(w, "down", 503)
				return
			}
			b := p.makeResponse(cs.Spec, leaf, leaf.Cert.SerialNumber)
			if mutate != nil {
				b = mutate(b)
			}
			w.Write(b)
		})
		vc := VCfg{Mode: "ocsp_only", AIAStrict: cs.Strict, CacheDuration: "1h", NoCRLConfig: true}
		if strings.HasPrefix(cs.Spec.Signer, "rekeyed-trusted") {
			vc.TrustedResponders = []string{rekeyedPEM}
		}
		v, err := NewValidator(vc)
		mustNoErr(err)
		deferClose(v)
		cs.First = classify(v.Verify(leaf.Cert, p.CA.Cert, p.Root.Cert))
		atomic.StoreInt32(&down, 1)
		cs.Second = classify(v.Verify(leaf.Cert, p.CA.Cert, p.Root.Cert))
	}
	var wg sync.WaitGroup
	sem := make(chan struct{}, 32)
	for _, cs := range cases {
		wg.Add(1)
		sem <- struct{}{}
		go func(cs *c05Case) { defer wg.Done(); defer func() { <-sem }(); run(cs, nil) }(cs)
	}
	wg.Wait()
	// byte mutations of an authentic "good" and an authentic "revoked" response
	var muts []*c05Case
	for _, status := range []string{"good", "revoked"} {
		probeLeaf := p.CA.IssueLeaf(LeafOpts{CN: "len", Serial: big.NewInt(77)})
		n := len(p.makeResponse(respSpec{Status: status}, probeLeaf, big.NewInt(9000000)))
		step := 3
		if c.Thorough() {
			step = 1
		}
		for off := 0; off < n; off += step {
			off := off
			cs := &c05Case{Spec: respSpec{Status: status}, Mutation: fmt.Sprintf("byte %d ^= 0x20", off), Strict: true}
			muts = append(muts, cs)
			wg.Add(1)
			sem <- struct{}{}
			go func() {
				defer wg.Done()
				defer func() { <-sem }()
				run(cs, func(b []byte) []byte {
					if off < len(b) {
						b[off] ^= 0x20
					}
					return b
				})
			}()
		}
	}
	wg.Wait()
	closeDeferred()
	var items []string
	for i, cs := range cases {
		c.Count("signer=" + cs.Spec.Signer)
		c.Count("status=" + cs.Spec.Status + cs.Spec.RespStatus)
		want := "error" // strict: an answer that does not count is no answer
		if cs.Spec.authentic() {
			want = "accept"
			if cs.Spec.Status == "revoked" {
				want = "revoked"
			}
		}
		if cs.First != want {
			tag := ""
			c.Fail(tag, fmt.Sprintf("response signed by %s for serial %s, status %s%s (presented certificate without SKI: %v): verdict %s, expected %s", cs.Spec.Signer, cs.Spec.Serial, cs.Spec.Status, cs.Spec.RespStatus, cs.NoSKI, cs.First, want), cs)
		}
		if cs.Second != want {
			c.Fail("", fmt.Sprintf("response signed by %s for serial %s, status %s%s: second handshake with the responder down %s, expected %s (only answers that count may be cached)", cs.Spec.Signer, cs.Spec.Serial, cs.Spec.Status, cs.Spec.RespStatus, cs.Second, want), cs)
		}
		c.Nontrivial(fmt.Sprintf("%v %v", cs.Spec, cs.NoSKI))
		if i%9 == 0 {
			c.Sample(cs)
		}
		ans := "Silent"
		if cs.Spec.RespStatus == "" {
			st := map[string]string{"good": "SGood", "revoked": "SRevoked", "unknown": "SUnknown"}[cs.Spec.Status]
			ans = fmt.Sprintf("(Answer %s %s)", st, coqBool(cs.Spec.authentic()))
		}
		items = append(items, fmt.Sprintf("mk_oc %d [%s] true 3600000000000%%Z %d %d", i, ans, verdictCode(cs.First), verdictCode(cs.Second)))
	}
	for i, cs := range muts {
		c.Count("mutation")
		// a mutated response either is still the authentic answer (verdict unchanged) or does not count
		orig := "accept"
		if cs.Spec.Status == "revoked" {
			orig = "revoked"
		}
		if cs.First != orig && cs.First != "error" {
			c.Fail("", fmt.Sprintf("authentic %s response with %s: verdict %s", cs.Spec.Status, cs.Mutation, cs.First), cs)
		}
		if cs.Second != cs.First {
			c.Fail("", fmt.Sprintf("authentic %s response with %s: first %s, second (cache) %s", cs.Spec.Status, cs.Mutation, cs.First, cs.Second), cs)
		}
		c.Nontrivial(cs.Spec.Status + cs.Mutation)
		if i%150 == 0 {
			c.Sample(cs)
		}
	}
	for _, shape := range []string{"", " (certificates without AKI)", " (certificates without SKI)"} {
		cs := twoIssuerCase(p, shape)
		c.Count("two-issuers")
		c.Nontrivial("two-issuers" + shape)
		for k := range cs.Obs {
			if cs.Obs[k] != cs.Want[k] {
				c.Fail("", fmt.Sprintf("%s: %s -> %s, expected %s (an answer for another issuer's certificate was used)", cs.Name, cs.Events[k], cs.Obs[k], cs.Want[k]), cs)
			}
		}
	}
	// key rollover on ONE checker instance: two trusted CA certificates with the same name and different keys; a
	// certificate under one key is checked first, then a certificate under the other key is answered with a response
	// signed by the FIRST key for exactly its serial.  Whatever the checker remembers about "the issuer with this
	// name", only the key of the certificate's own issuer authenticates an answer for it.  Both orders.
	for _, order := range []string{"old key first", "new key first"} {
		first, second := p.CA, p.Rekeyed
		if order == "new key first" {
			first, second = p.Rekeyed, p.CA
		}
		cs := &c14Case{Name: "same-named issuers with different keys on one checker, " + order}
		org := NewOrigin()
		var body atomic.Value
		var down int32
		org.Route("/r", func(_ int, w http.ResponseWriter, r *http.Request) {
			if atomic.LoadInt32(&down) == 1 {
				http.Error(w, "down", 503)
				return
			}
			w.Header().Set("Content-Type", "application/ocsp-response")
			w.Write(body.Load().([]byte))
		})
		signed := func(by *CA, serial *big.Int, status int) []byte {
			tmpl := ocsp.Response{SerialNumber: serial, ThisUpdate: time.Now().Add(-time.Minute), NextUpdate: time.Now().Add(time.Hour), Status: status}
			if status == ocsp.Revoked {
				tmpl.RevokedAt = time.Now().Add(-time.Hour)
			}
			b, err := ocsp.CreateResponse(by.Cert, by.Cert, tmpl, by.Key)
			mustNoErr(err)
			return b
		}
		l1 := first.IssueLeaf(LeafOpts{CN: "c05-roll-1", Serial: nextOCSPSerial(), OCSP: []string{org.URL("/r")}})
		l2 := second.IssueLeaf(LeafOpts{CN: "c05-roll-2", Serial: nextOCSPSerial(), OCSP: []string{org.URL("/r")}})
		v, err := NewValidator(VCfg{Mode: "ocsp_only", AIAStrict: true, CacheDuration: "1h", NoCRLConfig: true})
		mustNoErr(err)
		step := func(ev, want, got string) {
			cs.Events = append(cs.Events, ev)
			cs.Want = append(cs.Want, want)
			cs.Obs = append(cs.Obs, got)
		}
		body.Store(signed(first, l1.Cert.SerialNumber, ocsp.Good))
		step("certificate 1 (issuer key K1), authentic good signed by K1", "accept", classify(v.Verify(l1.Cert, first.Cert, p.Root.Cert)))
		body.Store(signed(first, l2.Cert.SerialNumber, ocsp.Good))
		step("certificate 2 (issuer key K2, same issuer name), 'good' for its serial signed by K1", "error", classify(v.Verify(l2.Cert, second.Cert, p.Root.Cert)))
		atomic.StoreInt32(&down, 1)
		step("certificate 2 again, responder down (shows what was cached)", "error", classify(v.Verify(l2.Cert, second.Cert, p.Root.Cert)))
		atomic.StoreInt32(&down, 0)
		body.Store(signed(second, l2.Cert.SerialNumber, ocsp.Revoked))
		step("certificate 2, authentic revoked signed by K2", "revoked", classify(v.Verify(l2.Cert, second.Cert, p.Root.Cert)))
		v.Close()
		org.Close()
		c.Count("rollover-sequence")
		c.Nontrivial("rollover|" + order)
		c.Sample(cs)
		for k := range cs.Obs {
			if cs.Obs[k] != cs.Want[k] {
				c.Fail("", fmt.Sprintf("%s: %s -> %s, expected %s", cs.Name, cs.Events[k], cs.Obs[k], cs.Want[k]), cs)
			}
		}
	}
	closeDeferred()
	c.WriteCoqSharded("cases_C05", "From Verif Require Import Base Ocsp RunOcsp.\nOpen Scope N_scope.\n", "ocase", items, "ocsp_mismatches", 120)
	c.Rep.Cases = len(cases) + len(muts)
	c.Rep.Rule = "one responder, ocsp_aia_strict on, cache 1h: signer {issuer, delegate with/without OCSPSigning EKU, the client's own certificate, stranger with/without embedded certificate, sibling CA; the non-issuer signers also without embedded certificate under the real issuer's CertID} x serial {this, other} x status {good, revoked, unknown}; the four OCSP error statuses; every 3rd (thorough: every) single-byte mutation of an authentic good and an authentic revoked response; second handshake with the responder down shows what was cached"
}

// twoIssuerCase: two certificates with the same subject and serial number under two issuers; the first is good, the
// second revoked.  Whatever the cache is keyed by must tell them apart.
func twoIssuerCase(p *ocspPKI, shape string) *c14Case {
	cs := &c14Case{Name: "same-subject-and-serial-under-two-issuers" + shape}
	org := NewOrigin()
	defer org.Close()
	name := pkix.Name{CommonName: "alice", Organization: []string{"shared"}}
	serial := nextOCSPSerial()
	o1 := LeafOpts{Name: &name, Serial: serial, OCSP: []string{org.URL("/ca")}}
	o2 := LeafOpts{Name: &name, Serial: serial, OCSP: []string{org.URL("/sib")}}
	switch shape {
	case " (certificates without AKI)":
		o1.NoAKI, o2.NoAKI = true, true
	case " (certificates without SKI)":
		o1.NoSKI, o2.NoSKI = true, true
	}
	l1 := p.CA.IssueLeaf(o1)
	l2 := p.Sibling.IssueLeaf(o2)
	org.ServeOCSP("/ca", p.CA, func(int) OCSPBehaviour { return OCSPGood }, nil)
	org.ServeOCSP("/sib", p.Sibling, func(int) OCSPBehaviour { return OCSPRevoked }, nil)
	v, err := NewValidator(VCfg{Mode: "ocsp_only", AIAStrict: true, CacheDuration: "1h", NoCRLConfig: true})
	mustNoErr(err)
	deferClose(v) // Cleanup flushes the process-wide cache table: closed when no other case is running
	cs.Events = []string{"handshake alice/CA (responder: good)", "handshake alice/Sibling (responder: revoked)"}
	cs.Obs = []string{classify(v.Verify(l1.Cert, p.CA.Cert, p.Root.Cert)), classify(v.Verify(l2.Cert, p.Sibling.Cert, p.Root.Cert))}
	cs.Want = []string{"accept", "revoked"}
	return cs
}

// ---------------------------------------------------------------- C14
type c14Case struct {
	Name   string   `json:"name"`
	Events []string `json:"events"`
	Obs    []string `json:"observations"`
	Want   []string `json:"expected"`
}

func runC14(c *Ctx) {
	p := newOCSPPKI("c14")
	var cases []*c14Case
	var items []string
	var mu sync.Mutex
	var wg sync.WaitGroup
	add := func(cs *c14Case) { mu.Lock(); cases = append(cases, cs); mu.Unlock() }

	var keep2 []*Validator
	var keep []*Validator // Cleanup flushes the process-wide table: validators of the timed cases are closed at the end
	var keepMu sync.Mutex
	others := func() {
		// (1) key: two issuers, same subject and serial — with the usual key identifiers, without an authority key
		// identifier in the certificates, and without a subject key identifier in the certificates
		for _, shape := range []string{"", " (certificates without AKI)", " (certificates without SKI)"} {
			shape := shape
			wg.Add(1)
			go func() {
				defer wg.Done()
				cs := twoIssuerCase(p, shape)
				add(cs)
			}()
		}
	}
	// (2) lifetime: reads more often than the lifetime must not keep the entry alive
	for _, life := range []time.Duration{400 * time.Millisecond, 700 * time.Millisecond} {
		for _, src := range []string{"default_cache_duration"} {
			life, src := life, src
			wg.Add(1)
			go func() {
				defer wg.Done()
				cs := &c14Case{Name: fmt.Sprintf("lifetime %v from %s, read every %v", life, src, life*3/8)}
				org := NewOrigin()
				defer org.Close()
				leaf := p.CA.IssueLeaf(LeafOpts{CN: "c14-life", Serial: nextOCSPSerial(), OCSP: []string{org.URL("/r")}})
				var revoked int32
				nu := time.Duration(0)
				cfg := VCfg{Mode: "ocsp_only", AIAStrict: true, NoCRLConfig: true}
				if src == "nextUpdate" {
					nu = life - 900*time.Second // eviction = nextUpdate - now + 900s
				} else {
					cfg.CacheDuration = life.String()
				}
				serveSpec(org, "/r", p, leaf, func(int) (respSpec, bool) {
					s := respSpec{Status: "good", NextUpdate: nu}
					if atomic.LoadInt32(&revoked) == 1 {
						s.Status = "revoked"
					}
					return s, true
				})
				v, err := NewValidator(cfg)
				mustNoErr(err)
				keepMu.Lock()
				keep = append(keep, v)
				keepMu.Unlock()
				t0 := time.Now()
				cs.Events = append(cs.Events, "t=0 handshake (good, cached)")
				cs.Obs = append(cs.Obs, classify(v.Verify(leaf.Cert, p.CA.Cert, p.Root.Cert)))
				cs.Want = append(cs.Want, "accept")
				atomic.StoreInt32(&revoked, 1) // the responder flips to revoked
				step := life * 3 / 8
				for k := 1; k <= 8; k++ {
					time.Sleep(time.Until(t0.Add(time.Duration(k) * step)))
					el := time.Since(t0)
					v1 := classify(v.Verify(leaf.Cert, p.CA.Cert, p.Root.Cert))
					cs.Events = append(cs.Events, fmt.Sprintf("t=%.2fL handshake", float64(el)/float64(life)))
					cs.Obs = append(cs.Obs, v1)
					switch {
					case el < life*8/10:
						cs.Want = append(cs.Want, "accept") // still within the lifetime: cached good
					case el > life*12/10:
						cs.Want = append(cs.Want, "revoked") // lifetime over: must have re-queried
					default:
						cs.Want = append(cs.Want, "*")
					}
				}
				add(cs)
			}()
		}
	}

	wg.Wait()
	for _, v := range keep {
		v.Close()
	}
	others()
	// (2b) nextUpdate: a response with a future nextUpdate is cached although the default duration is zero;
	// one whose nextUpdate is already past falls back to the default (zero: not cached)
	for _, fut := range []bool{true, false} {
		fut := fut
		wg.Add(1)
		go func() {
			defer wg.Done()
			cs := &c14Case{Name: fmt.Sprintf("nextUpdate-future=%v-default-zero", fut)}
			org := NewOrigin()
			defer org.Close()
			leaf := p.CA.IssueLeaf(LeafOpts{CN: "c14-nu", Serial: nextOCSPSerial(), OCSP: []string{org.URL("/r")}})
			var down int32
			nu := time.Hour
			if !fut {
				nu = -time.Hour
			}
			serveSpec(org, "/r", p, leaf, func(int) (respSpec, bool) {
				if atomic.LoadInt32(&down) == 1 {
					return respSpec{}, false
				}
				return respSpec{Status: "good", NextUpdate: nu}, true
			})
			v, err := NewValidator(VCfg{Mode: "ocsp_only", AIAStrict: true, NoCRLConfig: true})
			mustNoErr(err)
			keepMu.Lock()
			keep2 = append(keep2, v)
			keepMu.Unlock()
			cs.Obs = append(cs.Obs, classify(v.Verify(leaf.Cert, p.CA.Cert, p.Root.Cert)))
			atomic.StoreInt32(&down, 1)
			cs.Obs = append(cs.Obs, classify(v.Verify(leaf.Cert, p.CA.Cert, p.Root.Cert)))
			cs.Events = []string{"handshake (good)", "handshake with the responder down"}
			cs.Want = []string{"accept", map[bool]string{true: "accept", false: "error"}[fut]}
			add(cs)
		}()
	}
	wg.Wait()
	for _, v := range keep2 {
		v.Close()
	}
	// (3) nothing cached with zero duration and no nextUpdate; failed queries never cached
	wg.Add(1)
	go func() {
		defer wg.Done()
		cs := &c14Case{Name: "zero-duration-caches-nothing"}
		org := NewOrigin()
		defer org.Close()
		leaf := p.CA.IssueLeaf(LeafOpts{CN: "c14-zero", Serial: nextOCSPSerial(), OCSP: []string{org.URL("/r")}})
		org.ServeOCSP("/r", p.CA, func(int) OCSPBehaviour { return OCSPGood }, nil)
		v, err := NewValidator(VCfg{Mode: "ocsp_only", AIAStrict: true, NoCRLConfig: true})
		mustNoErr(err)
		defer v.Close()
		for k := 0; k < 3; k++ {
			cs.Obs = append(cs.Obs, classify(v.Verify(leaf.Cert, p.CA.Cert, p.Root.Cert)))
			cs.Want = append(cs.Want, "accept")
		}
		cs.Events = []string{"3 handshakes, responder good, no cache"}
		cs.Obs = append(cs.Obs, fmt.Sprintf("hits=%d", org.Hits("/r")))
		cs.Want = append(cs.Want, "hits=3")
		add(cs)
	}()
	// (3b) more additions than the prune interval of the timer-less cache (every 256th addition removes the expired
	// items): 300 certificates cached for 1h, then the responder goes down — every one of them is still answered from
	// the cache, and an item that HAD expired before the pruning addition is not answered (C14_pruned_cache_refines:
	// pruning is invisible).  Alone: every Cleanup of another validator flushes the process-wide table.
	wg.Wait()
	wg.Add(1)
	go func() {
		defer wg.Done()
		cs := &c14Case{Name: "prune-interval-crossed"}
		org := NewOrigin()
		defer org.Close()
		var down int32
		var leaves []*Leaf
		for i := 0; i < 300; i++ {
			leaves = append(leaves, p.CA.IssueLeaf(LeafOpts{CN: fmt.Sprintf("c14-prune-%d", i), Serial: nextOCSPSerial(), OCSP: []string{org.URL("/r")}}))
		}
		short := p.CA.IssueLeaf(LeafOpts{CN: "c14-prune-short", Serial: nextOCSPSerial(), OCSP: []string{org.URL("/r")}})
		serveSpec(org, "/r", p, leaves[0], func(int) (respSpec, bool) {
			if atomic.LoadInt32(&down) == 1 {
				return respSpec{}, false
			}
			return respSpec{Status: "good"}, true
		})
		vShort, err := NewValidator(VCfg{Mode: "ocsp_only", AIAStrict: true, CacheDuration: "300ms", NoCRLConfig: true})
		mustNoErr(err)
		defer vShort.Close()
		v, err := NewValidator(VCfg{Mode: "ocsp_only", AIAStrict: true, CacheDuration: "1h", NoCRLConfig: true})
		mustNoErr(err)
		defer v.Close()
		// the two validators share the process-wide table; the short-lived item expires before the 256th addition
		first := classify(vShort.Verify(short.Cert, p.CA.Cert, p.Root.Cert))
		time.Sleep(450 * time.Millisecond)
		ok1 := 0
		for _, l := range leaves {
			if classify(v.Verify(l.Cert, p.CA.Cert, p.Root.Cert)) == "accept" {
				ok1++
			}
		}
		atomic.StoreInt32(&down, 1)
		ok2 := 0
		for _, l := range leaves {
			if classify(v.Verify(l.Cert, p.CA.Cert, p.Root.Cert)) == "accept" {
				ok2++
			}
		}
		cs.Events = []string{"short-lived answer cached (300ms)", "300 certificates checked after it expired (good, cached 1h)", "responder down: the 300 again", "responder down: the expired one again"}
		cs.Obs = []string{first, fmt.Sprintf("accepted=%d", ok1), fmt.Sprintf("accepted=%d", ok2), classify(vShort.Verify(short.Cert, p.CA.Cert, p.Root.Cert))}
		// a cache that forgets early is sound: how many of the 300 are still cached is recorded, not judged
		cs.Want = []string{"accept", "accepted=300", "*", "error"}
		add(cs)
	}()
	wg.Wait()
	wg.Add(1)
	go func() {
		defer wg.Done()
		cs := &c14Case{Name: "failed-queries-not-cached"}
		org := NewOrigin()
		defer org.Close()
		leaf := p.CA.IssueLeaf(LeafOpts{CN: "c14-fail", Serial: nextOCSPSerial(), OCSP: []string{org.URL("/r")}})
		var ok int32
		serveSpec(org, "/r", p, leaf, func(int) (respSpec, bool) {
			if atomic.LoadInt32(&ok) == 0 {
				return respSpec{}, false
			}
			return respSpec{Status: "revoked"}, true
		})
		v, err := NewValidator(VCfg{Mode: "ocsp_only", AIAStrict: false, CacheDuration: "1h", NoCRLConfig: true})
		mustNoErr(err)
		defer v.Close()
		cs.Obs = append(cs.Obs, classify(v.Verify(leaf.Cert, p.CA.Cert, p.Root.Cert)))
		atomic.StoreInt32(&ok, 1)
		cs.Obs = append(cs.Obs, classify(v.Verify(leaf.Cert, p.CA.Cert, p.Root.Cert)))
		cs.Events = []string{"handshake (responder HTTP 500, lenient)", "handshake (responder answers revoked)"}
		cs.Want = []string{"accept", "revoked"}
		add(cs)
	}()
	// (4) two validator instances share the table but only same-key values (alone: every Cleanup flushes the table)
	wg.Wait()
	closeDeferred()
	wg.Add(1)
	go func() {
		defer wg.Done()
		cs := &c14Case{Name: "two-instances"}
		org := NewOrigin()
		defer org.Close()
		la := p.CA.IssueLeaf(LeafOpts{CN: "c14-a", Serial: nextOCSPSerial(), OCSP: []string{org.URL("/r")}})
		lb := p.CA.IssueLeaf(LeafOpts{CN: "c14-b", Serial: nextOCSPSerial(), OCSP: []string{org.URL("/r")}})
		var down int32
		serveSpec(org, "/r", p, la, func(int) (respSpec, bool) {
			if atomic.LoadInt32(&down) == 1 {
				return respSpec{}, false
			}
			return respSpec{Status: "good"}, true
		})
		v1, err := NewValidator(VCfg{Mode: "ocsp_only", AIAStrict: true, CacheDuration: "1h", NoCRLConfig: true})
		mustNoErr(err)
		v2, err := NewValidator(VCfg{Mode: "ocsp_only", AIAStrict: true, CacheDuration: "1h", NoCRLConfig: true})
		mustNoErr(err)
		cs.Obs = append(cs.Obs, classify(v1.Verify(la.Cert, p.CA.Cert, p.Root.Cert)))
		atomic.StoreInt32(&down, 1)
		cs.Obs = append(cs.Obs, classify(v2.Verify(la.Cert, p.CA.Cert, p.Root.Cert)), classify(v2.Verify(lb.Cert, p.CA.Cert, p.Root.Cert)))
		cs.Events = []string{"instance 1: handshake a (good)", "responder down; instance 2: handshake a", "instance 2: handshake b"}
		cs.Want = []string{"accept", "accept", "error"}
		v2.Close()
		// Cleanup of one instance flushes the shared table: afterwards instance 1 must re-query
		cs.Obs = append(cs.Obs, classify(v1.Verify(la.Cert, p.CA.Cert, p.Root.Cert)))
		cs.Events = append(cs.Events, "instance 2 cleaned up; instance 1: handshake a (responder still down)")
		cs.Want = append(cs.Want, "*")
		v1.Close()
		add(cs)
	}()
	wg.Wait()
	closeDeferred()
	sort.Slice(cases, func(i, j int) bool { return cases[i].Name < cases[j].Name })
	for i, cs := range cases {
		c.Count("case=" + strings.Fields(cs.Name)[0])
		c.Sample(cs)
		c.Nontrivial(cs.Name)
		for k := range cs.Want {
			if cs.Want[k] != "*" && cs.Obs[k] != cs.Want[k] {
				tag := ""
				c.Fail(tag, fmt.Sprintf("%s: %s -> %s, expected %s", cs.Name, cs.Events[min(k, len(cs.Events)-1)], cs.Obs[k], cs.Want[k]), cs)
				break
			}
		}
		_ = i
	}
	// timed read patterns for the model: (lifetime, read times as fractions) -> hit/miss, evaluated in Coq
	for i, cs := range cases {
		if !strings.HasPrefix(cs.Name, "lifetime") {
			continue
		}
		var reads []string
		for k := 1; k < len(cs.Obs); k++ {
			// time of read k in units of L/8: k*3
			hit := "2"
			if cs.Obs[k] == "accept" {
				hit = "1"
			}
			if cs.Want[k] == "*" {
				hit = "0"
			}
			reads = append(reads, fmt.Sprintf("(%d, %s%%N)", k*3, hit))
		}
		items = append(items, fmt.Sprintf("mk_tc %d 8 [%s]", i, strings.Join(reads, "; ")))
	}
	c.WriteCoqSharded("cases_C14", "From Verif Require Import Base Ocsp RunOcsp.\nOpen Scope Z_scope.\n", "tcase", items, "cache_mismatches", 100)
	c.Rep.Cases = len(cases)
	c.Rep.Rule = "scripted responders that flip from good to revoked; lifetimes of 400/700 ms from default_cache_duration and from nextUpdate, read every 3/8 of the lifetime (observations within 20% of the boundary are not judged); two issuers with identical subject and serial; zero duration; failed queries; two validator instances sharing the process-wide table"
}
