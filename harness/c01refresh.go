package main

// C01, refreshed lists without a cRLNumber — a list in force is whatever the source delivered last and was accepted:
// X.509 v1 lists and v2 lists without the cRLNumber extension carry nothing but thisUpdate to tell two issues apart.
// History: the list is loaded, the CA publishes a newer issue that adds the client's serial, a refresh runs, the
// client connects — rejected.  Both backends, CDP and configured URL.

import (
	"fmt"
	"math/big"
	"time"
)

type c01Refresh struct {
	Kind    string `json:"list_kind"`
	Storage string `json:"storage"`
	Source  string `json:"source"`
	Before  string `json:"verdict_before_the_new_issue"`
	After   string `json:"verdict_after_refresh"`
}

func c01UnnumberedStage(c *Ctx) int {
	n := 0
	for _, storage := range []string{"memory", "disk"} {
		for _, kind := range []string{"v1", "v2 without cRLNumber", "v2 with cRLNumber"} {
			for _, source := range []string{"cdp", "crl_urls"} {
				n++
				cs := c01Refresh{Kind: kind, Storage: storage, Source: source}
				w := NewWorld(c, fmt.Sprintf("c01refresh_%d", n))
				mk := func(issue int, serials ...int64) []byte {
					o := CRLOpts{ThisUpdate: time.Now().Add(time.Duration(issue-10) * time.Minute)}
					for _, s := range serials {
						o.Entries = append(o.Entries, EntryOpts{Serial: big.NewInt(s)})
					}
					switch kind {
					case "v1":
						o.Version, o.NoExts = 1, true
					case "v2 without cRLNumber":
						o.NoNumber = true
					default:
						o.Number = big.NewInt(int64(issue))
					}
					return w.CA.MakeCRL(o)
				}
				w.Lists["U1"] = mk(1, 900)
				w.Lists["U2"] = mk(2, 900, 4711)
				w.Do(sv("/a", "U1"))
				w.Cfg = VCfg{Mode: "crl_only", Storage: storage, SigMode: "verify", CDPStrict: true, Interval: "1h"}
				spec := CertSpec{Serial: 4711, CDP: []string{"/a"}}
				if source == "crl_urls" {
					w.Cfg.CRLUrls = []string{w.Org.URL("/a")}
					w.Cfg.TrustedSigners = []string{writeCertPEM(c, w.CA.Cert)}
					spec.CDP = nil
				}
				if err := w.Provision(); err != nil {
					c.Fail("", "c01 refresh stage: provision: "+err.Error(), cs)
					w.Close()
					continue
				}
				w.AddCert("x", spec)
				cs.Before = w.Do(hs("x"))
				w.Do(sv("/a", "U2"))
				w.Do(refreshStep)
				cs.After = w.Do(hs("x"))
				w.Close()
				c.Count("refresh-of-unnumbered-list")
				c.Nontrivial(fmt.Sprintf("refresh|%s|%s|%s", kind, storage, source))
				if n%3 == 0 {
					c.Sample(cs)
				}
				if cs.Before != "accept" {
					c.Fail("", fmt.Sprintf("refresh stage (%s, %s, %s): before the new issue the unlisted certificate answered %s", kind, storage, source, cs.Before), cs)
				}
				if cs.After != "revoked" {
					c.Fail("", fmt.Sprintf("certificate listed in the CRL in force was %s: the source (%s) delivered a newer issue of a %s list naming its serial and a refresh ran (%s)", cs.After, source, kind, storage), cs)
				}
			}
		}
	}
	return n
}
