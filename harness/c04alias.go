package main

// C04, chains of other connections — the certificates entitled to sign the CRL of a distribution point are the CAs
// above the end-entity in the chain presented FOR THAT distribution point, and the configured trusted signers;
// never a CA that only appears in the chain of another client's connection.  History: client 1 (issuer A) names a
// CDP whose first (background) fetch fails, so the CRL stays pending with the chain of connection 1; client 2 —
// issued by a CA with A's name and another key — connects with its own CDP; then the first CDP delivers a CRL
// signed by that other CA, and refreshes run.  The list must never come into force.  Swept over the number of
// configured trusted signers (what is remembered per connection must not depend on it).

import (
	"fmt"
	"math/big"
	"net/http"
	"sync"
	"sync/atomic"
	"time"
)

type c04AliasCase struct {
	Trusted int      `json:"trusted_signers_configured"`
	Mode    string   `json:"crl_fetch_mode"`
	Events  []string `json:"events"`
	Obs     []string `json:"observations"`
	Fetches int      `json:"fetches_of_first_cdp"`
}

func c04ChainIsolationStage(c *Ctx) int {
	var wg sync.WaitGroup
	var mu sync.Mutex
	var cases []*c04AliasCase
	for _, nt := range []int{0, 1, 2, 3, 5, 6} {
		nt := nt
		wg.Add(1)
		go func() {
			defer wg.Done()
			cs := &c04AliasCase{Trusted: nt, Mode: "fetch_background"}
			root := NewRootCA(fmt.Sprintf("C04 alias root %d", nt), false)
			a := root.NewSubCA(fmt.Sprintf("C04 alias CA %d", nt), false)
			sibling := newCert(root, CAOpts{Name: a.Cert.Subject}) // same name, another key
			var trusted []string
			for i := 0; i < nt; i++ {
				trusted = append(trusted, writeCertPEM(c, NewRootCA(fmt.Sprintf("C04 alias trusted %d/%d", i, nt), false).Cert))
			}
			const probeSerial = 4242
			forged := sibling.MakeCRL(CRLOpts{Entries: []EntryOpts{{Serial: big.NewInt(probeSerial)}}})
			org := NewOrigin()
			defer org.Close()
			var serveForged int32
			org.Route("/u1", func(_ int, w http.ResponseWriter, r *http.Request) {
				if atomic.LoadInt32(&serveForged) == 1 {
					w.Write(forged)
					return
				}
				http.Error(w, "temporarily unavailable", 503)
			})
			org.Route("/u2", func(_ int, w http.ResponseWriter, r *http.Request) { http.Error(w, "temporarily unavailable", 503) })
			ee1 := a.IssueLeaf(LeafOpts{CN: "client one", Serial: big.NewInt(1001), CDP: []string{org.URL("/u1")}})
			ee2 := sibling.IssueLeaf(LeafOpts{CN: "client two", Serial: big.NewInt(2002), CDP: []string{org.URL("/u2")}})
			probe := a.IssueLeaf(LeafOpts{CN: "probe", Serial: big.NewInt(probeSerial)})
			v, err := NewValidator(VCfg{Mode: "crl_only", Storage: "memory", SigMode: "verify", CDPStrict: true, Interval: "1h",
				FetchMode: "fetch_background", TrustedSigners: trusted, WorkDir: c.TempDir(fmt.Sprintf("c04alias_%d", nt))})
			mustNoErr(err)
			defer closeWithTimeout(v)
			step := func(ev, got string) { cs.Events = append(cs.Events, ev); cs.Obs = append(cs.Obs, got) }
			quiet := func(path string) { // wait until the origin has been reached and the retries of that load are over
				deadline := time.Now().Add(8 * time.Second)
				last, since := -1, time.Now()
				for time.Now().Before(deadline) {
					h := org.Hits(path)
					if h != last {
						last, since = h, time.Now()
					} else if h > 0 && time.Since(since) > 900*time.Millisecond {
						return
					}
					time.Sleep(30 * time.Millisecond)
				}
			}
			step("connection 1: client of CA A, CDP /u1 unavailable", classify(v.Verify(ee1.Cert, a.Cert, root.Cert)))
			quiet("/u1")
			atomic.StoreInt32(&serveForged, 1)
			step("connection 2: client of the same-named CA with another key, CDP /u2", classify(v.Verify(ee2.Cert, sibling.Cert, root.Cert)))
			quiet("/u2")
			verdict := "accept"
			for round := 0; round < 3; round++ {
				v.V.VerifCRLChecker().VerifUpdateCRLs(true)
				if r := classify(v.Verify(probe.Cert, a.Cert, root.Cert)); r == "revoked" {
					verdict = r
				}
				// connection 1 again: its own chain is presented once more
				if r := classify(v.Verify(ee1.Cert, a.Cert, root.Cert)); r == "accept" {
					verdict = "list in force (connection 1 accepted under cdp strict)"
				}
			}
			step("/u1 now serves a list signed by the other CA naming the probe serial; 3 forced refreshes, probe of CA A presented after each", verdict)
			cs.Fetches = org.Hits("/u1")
			mu.Lock()
			cases = append(cases, cs)
			mu.Unlock()
		}()
	}
	wg.Wait()
	for _, cs := range cases {
		c.Count("chain-isolation")
		c.Nontrivial(fmt.Sprintf("chain-isolation|%d", cs.Trusted))
		c.Sample(cs)
		if got := cs.Obs[len(cs.Obs)-1]; got != "accept" {
			c.Fail("", fmt.Sprintf("a CRL signed by a CA that appears only in ANOTHER client's chain (same name, other key; %d trusted signers configured, fetch_background) came into force under verify: %s", cs.Trusted, got), cs)
		}
	}
	return len(cases)
}
