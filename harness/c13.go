package main

// C13 — concurrency safety.  The stress part runs in a race-detector build of this harness
// (bin/harness-race): concurrent handshakes over shared and distinct distribution points,
// forced and periodic refreshes, updates of configured CRLs, OCSP lookups around cache expiry
// and Cleanup — with a watchdog on every call.

import (
	"encoding/json"
	"fmt"
	"os"
	"os/exec"
	"path/filepath"
	"strings"
	"sync"
	"sync/atomic"
	"time"
)

func init() {
	commands["c13"] = runC13
	commands["c13stress"] = runC13Stress
}

type c13Result struct {
	Scenario string `json:"scenario"`
	Calls    int64  `json:"calls"`
	Hangs    int64  `json:"hangs"`
	Panics   int64  `json:"panics"`
	Wrong    int64  `json:"wrong_verdicts"`
	FirstBad string `json:"first_bad,omitempty"`
}

func runC13(c *Ctx) {
	race := filepath.Join(os.Getenv("VERIF_DIR"), "bin", "harness-race")
	if _, err := os.Stat(race); err != nil {
		c.Fail("", "race-detector build of the harness is missing: "+race, nil)
		return
	}
	logPrefix := filepath.Join(c.Out, "race")
	cmd := exec.Command(race, "c13stress", "--out", c.Out, "--work", c.Work, "--seed", fmt.Sprint(c.Seed), "--tier", c.Tier)
	cmd.Env = append(os.Environ(), "GORACE=halt_on_error=0 exitcode=0 log_path="+logPrefix)
	out, err := runWithDeadline(cmd, map[bool]time.Duration{false: 4 * time.Minute, true: 12 * time.Minute}[c.Thorough()])
	if err != nil {
		txt := string(out)
		// of a goroutine dump, the frames inside the code under test and its libraries' locks are what matters
		var keep []string
		for _, l := range strings.Split(txt, "\n") {
			if strings.Contains(l, "caddy-revocation-validator") || strings.Contains(l, "cache2go") || strings.Contains(l, "sync.(*RWMutex)") || strings.Contains(l, "sync.(*Mutex)") {
				keep = append(keep, strings.TrimSpace(l))
			}
		}
		seen := map[string]int{}
		var summary []string
		for _, l := range keep {
			if i := strings.Index(l, "("); i > 0 {
				l = l[:i]
			}
			seen[l]++
			if seen[l] == 1 && len(summary) < 25 {
				summary = append(summary, l)
			}
		}
		c.Fail("", "stress run did not finish or crashed: "+err.Error()+"; frames: "+strings.Join(summary, " | ")+" ... "+tail(txt, 600), map[string]string{"output_tail": tail(txt, 6000)})
	}
	var results []c13Result
	if b, e := os.ReadFile(filepath.Join(c.Out, "c13stress.json")); e == nil {
		json.Unmarshal(b, &results)
	}
	for _, r := range results {
		c.Count("scenario=" + r.Scenario)
		c.Rep.Cases += int(r.Calls)
		c.Nontrivial(r.Scenario)
		c.Sample(r)
		if r.Hangs > 0 {
			c.Fail("", fmt.Sprintf("%s: %d calls did not return (deadlock): %s", r.Scenario, r.Hangs, r.FirstBad), r)
		}
		if r.Panics > 0 {
			c.Fail("", fmt.Sprintf("%s: %d calls panicked: %s", r.Scenario, r.Panics, r.FirstBad), r)
		}
		if r.Wrong > 0 {
			c.Fail("", fmt.Sprintf("%s: %d verdicts that no sequential order of the operations produces: %s", r.Scenario, r.Wrong, r.FirstBad), r)
		}
	}
	if len(results) == 0 {
		c.Fail("", "stress run produced no results: "+tail(string(out), 800), nil)
	}
	logs, _ := filepath.Glob(logPrefix + ".*")
	for _, l := range logs {
		b, _ := os.ReadFile(l)
		txt := string(b)
		if strings.Contains(txt, "DATA RACE") {
			// only races that involve the code under test
			if strings.Contains(txt, "caddy-revocation-validator") {
				c.Fail("", "data race reported by the race detector: "+raceSummary(txt), map[string]string{"report": tail(txt, 3000)})
			}
		}
	}
	c.Rep.Extra["race_detector_logs"] = len(logs)
	c.Rep.Rule = "race-detector build: 24..64 goroutines of handshakes over shared and distinct CDPs, against forced refreshes, ticker refreshes (50 ms interval), updates of a configured CRL, served lists that alternate between two versions (one of them failing signature verification), both backends and both fetch modes; OCSP lookups with a 30 ms cache lifetime; Cleanup at the end; every call under a watchdog; verdicts checked against the set any sequential order allows; distinct by scenario"
}

func raceSummary(txt string) string {
	var out []string
	for _, l := range strings.Split(txt, "\n") {
		if strings.Contains(l, "caddy-revocation-validator") && len(out) < 4 {
			out = append(out, strings.TrimSpace(l))
		}
	}
	return strings.Join(out, " | ")
}

func tail(s string, n int) string {
	if len(s) > n {
		return s[len(s)-n:]
	}
	return s
}

func runC13Stress(c *Ctx) {
	dur := 1500 * time.Millisecond
	workers := 24
	if c.Thorough() {
		dur = 8 * time.Second
		workers = 64
	}
	var results []c13Result
	for _, storage := range []string{"memory", "disk"} {
		for _, fetch := range []string{"fetch_actively", "fetch_background"} {
			results = append(results, c13CRLScenario(c, storage, fetch, dur, workers))
		}
	}
	// the OCSP cache (a third-party table with its own locks and expiry timers) needs many readers around many expiries
	ocspDur := dur
	if ocspDur < 5*time.Second {
		ocspDur = 5 * time.Second
	}
	results = append(results, c13OCSPScenario(c, ocspDur, 64))
	results = append(results, c13FirstUseStorm(c))
	// the state "last refresh failed signature verification" and the handshake that repairs it
	for _, storage := range []string{"memory", "disk"} {
		r := rolloverScenario(c, storage)
		rr := c13Result{Scenario: "rollover/" + storage, Calls: int64(len(r.Obs))}
		for i, o := range r.Obs {
			switch {
			case o == "hang" || o == "aborted":
				rr.Hangs++
				if rr.FirstBad == "" {
					rr.FirstBad = r.Steps[i]
				}
			case len(o) >= 5 && o[:5] == "panic":
				rr.Panics++
				if rr.FirstBad == "" {
					rr.FirstBad = r.Steps[i] + ": " + o
				}
			}
		}
		results = append(results, rr)
	}
	b, _ := json.Marshal(results)
	os.WriteFile(filepath.Join(c.Out, "c13stress.json"), b, 0644)
}

// watchdog runs f and reports whether it returned in time
func watchdog(f func()) (ok bool, panicked string) {
	done := make(chan string, 1)
	go func() {
		defer func() {
			if r := recover(); r != nil {
				done <- fmt.Sprint(r)
				return
			}
			done <- ""
		}()
		f()
	}()
	select {
	case p := <-done:
		return true, p
	case <-time.After(20 * time.Second):
		return false, ""
	}
}

func c13CRLScenario(c *Ctx, storage, fetch string, dur time.Duration, workers int) c13Result {
	res := c13Result{Scenario: fmt.Sprintf("crl/%s/%s", storage, fetch)}
	w := NewWorld(c, "c13_"+storage+"_"+fetch)
	defer w.Close()
	// lists: A = {101,103}, B = {102,103}, BAD = bad signature; the served list alternates
	w.AddList("A", ListSpec{Serials: []int64{101, 103}, Number: 1})
	w.AddList("B", ListSpec{Serials: []int64{102, 103}, Number: 2})
	w.AddList("BAD", ListSpec{Serials: []int64{500}, BadSig: true, Number: 3})
	w.AddList("CFG", ListSpec{Serials: []int64{900}, Number: 4})
	for _, loc := range []string{"/s", "/d1", "/d2", "/d3"} {
		w.Do(sv(loc, "A"))
	}
	w.Do(sv("/cfg", "CFG"))
	w.Cfg = VCfg{Mode: "crl_only", Storage: storage, SigMode: "verify", FetchMode: fetch, Interval: "50ms",
		CRLUrls: []string{w.Org.URL("/cfg")}, TrustedSigners: []string{writeCertPEM(c, w.CA.Cert)}}
	if err := w.Provision(); err != nil {
		res.FirstBad = "provision: " + err.Error()
		res.Panics = 1
		return res
	}
	certs := []string{}
	add := func(name string, serial int64, cdp string) {
		var cd []string
		if cdp != "" {
			cd = []string{cdp}
		}
		w.AddCert(name, CertSpec{Serial: serial, CDP: cd})
		certs = append(certs, name)
	}
	add("s103", 103, "/s") // always revoked once /s is in force (both versions list 103)
	add("s104", 104, "/s") // never revoked
	add("s101", 101, "/s") // revoked under A, not under B: either is fine
	add("d1", 103, "/d1")
	add("d2", 104, "/d2")
	add("d3", 103, "/d3")
	add("cfg900", 900, "") // revoked by the configured list from the start
	add("n104", 104, "")
	var stop int32
	var wg sync.WaitGroup
	bad := func(kind *int64, msg string) {
		if atomic.AddInt64(kind, 1) == 1 {
			res.FirstBad = msg
		}
	}
	for g := 0; g < workers; g++ {
		wg.Add(1)
		go func(g int) {
			defer wg.Done()
			for k := 0; atomic.LoadInt32(&stop) == 0; k++ {
				name := certs[(g+k)%len(certs)]
				var v string
				ok, p := watchdog(func() { v = classify(w.V.Verify(w.chainFor(name)...)) })
				atomic.AddInt64(&res.Calls, 1)
				if !ok {
					bad(&res.Hangs, "handshake "+name)
					return
				}
				if p != "" || v == "panic" {
					bad(&res.Panics, "handshake "+name+": "+p)
					continue
				}
				// verdicts some sequential order allows
				switch name {
				case "cfg900":
					if v != "revoked" {
						bad(&res.Wrong, "cfg900 "+v)
					}
				case "s104", "d2", "n104":
					if v != "accept" {
						bad(&res.Wrong, name+" "+v)
					}
				case "s103", "d1", "d3":
					if v != "revoked" && !(fetch == "fetch_background" && v == "accept") {
						bad(&res.Wrong, name+" "+v)
					}
				}
			}
		}(g)
	}
	// refreshers: forced passes, the ticker (50 ms), updates of the configured CRL, alternating served lists
	for g := 0; g < 3; g++ {
		wg.Add(1)
		go func(g int) {
			defer wg.Done()
			chk := w.V.V.VerifCRLChecker()
			for k := 0; atomic.LoadInt32(&stop) == 0; k++ {
				w.Do(sv("/s", []string{"A", "B", "BAD", "B", "A"}[(k+g)%5]))
				ok, p := watchdog(func() { chk.VerifUpdateCRLs(g == 0) })
				atomic.AddInt64(&res.Calls, 1)
				if !ok {
					bad(&res.Hangs, "refresh")
					return
				}
				if p != "" {
					bad(&res.Panics, "refresh: "+p)
				}
				time.Sleep(3 * time.Millisecond)
			}
		}(g)
	}
	time.Sleep(dur)
	atomic.StoreInt32(&stop, 1)
	wg.Wait()
	// shutdown concurrently with a last round of handshakes
	var wg2 sync.WaitGroup
	vv0 := w.V
	for g := 0; g < 8; g++ {
		wg2.Add(1)
		go func(g int) {
			defer wg2.Done()
			ok, p := watchdog(func() { vv0.Verify(w.chainFor(certs[g%len(certs)])...) })
			if !ok {
				bad(&res.Hangs, "handshake during cleanup")
			}
			if p != "" {
				bad(&res.Panics, "handshake during cleanup: "+p)
			}
		}(g)
	}
	vv := w.V
	ok, p := watchdog(func() { vv.Close() })
	if !ok {
		bad(&res.Hangs, "Cleanup")
	}
	if p != "" {
		bad(&res.Panics, "Cleanup: "+p)
	}
	wg2.Wait()
	w.V = nil
	return res
}

func c13OCSPScenario(c *Ctx, dur time.Duration, workers int) c13Result {
	res := c13Result{Scenario: "ocsp/cache-expiry"}
	p := newOCSPPKI("c13")
	org := NewOrigin()
	defer org.Close()
	var leaves []*Leaf
	for i := 0; i < 6; i++ {
		l := p.CA.IssueLeaf(LeafOpts{CN: fmt.Sprintf("c13-%d", i), Serial: nextOCSPSerial(), OCSP: []string{org.URL("/r")}})
		leaves = append(leaves, l)
	}
	revoked := leaves[0].Cert.SerialNumber
	org.Route("/r", nil)
	serveSpec(org, "/r", p, leaves[0], func(int) (respSpec, bool) { return respSpec{Status: "good"}, true })
	_ = revoked
	v1, err := NewValidator(VCfg{Mode: "ocsp_only", AIAStrict: true, CacheDuration: "30ms", NoCRLConfig: true})
	mustNoErr(err)
	v2, err := NewValidator(VCfg{Mode: "ocsp_only", AIAStrict: true, CacheDuration: "30ms", NoCRLConfig: true})
	mustNoErr(err)
	var stop int32
	var wg sync.WaitGroup
	bad := func(kind *int64, msg string) {
		if atomic.AddInt64(kind, 1) == 1 {
			res.FirstBad = msg
		}
	}
	for g := 0; g < workers; g++ {
		wg.Add(1)
		go func(g int) {
			defer wg.Done()
			v := v1
			if g%2 == 1 {
				v = v2
			}
			for k := 0; atomic.LoadInt32(&stop) == 0; k++ {
				l := leaves[(g+k)%len(leaves)]
				var verdict string
				ok, pn := watchdog(func() { verdict = classify(v.Verify(l.Cert, p.CA.Cert, p.Root.Cert)) })
				atomic.AddInt64(&res.Calls, 1)
				if !ok {
					bad(&res.Hangs, "ocsp handshake")
					return
				}
				if pn != "" || verdict == "panic" {
					bad(&res.Panics, "ocsp handshake: "+pn)
				} else if verdict != "accept" {
					bad(&res.Wrong, "ocsp good answered "+verdict)
				}
				if k%7 == 0 {
					time.Sleep(10 * time.Millisecond)
				}
			}
		}(g)
	}
	time.Sleep(dur)
	atomic.StoreInt32(&stop, 1)
	wg.Wait()
	v1.Close()
	v2.Close()
	return res
}

// c13FirstUseStorm: many goroutines present, at the same instant, certificates that name the same distribution point
// nobody has used yet — round after round with a new distribution point (entry creation, storing the locations and the
// first load race with each other).
func c13FirstUseStorm(c *Ctx) c13Result {
	res := c13Result{Scenario: "first-use-storm/memory/fetch_actively"}
	w := NewWorld(c, "c13_storm")
	defer w.Close()
	w.AddList("A", ListSpec{Serials: []int64{103}, Number: 1})
	w.Cfg = VCfg{Mode: "crl_only", Storage: "memory", SigMode: "verify", FetchMode: "fetch_actively", Interval: "1h"}
	if err := w.Provision(); err != nil {
		res.Panics, res.FirstBad = 1, "provision: "+err.Error()
		return res
	}
	rounds := 40
	if c.Thorough() {
		rounds = 300
	}
	for r := 0; r < rounds; r++ {
		loc := fmt.Sprintf("/storm%d", r)
		w.Do(sv(loc, "A"))
		name := fmt.Sprintf("storm%d", r)
		w.AddCert(name, CertSpec{Serial: 103, CDP: []string{loc}})
		var wg sync.WaitGroup
		start := make(chan struct{})
		for g := 0; g < 8; g++ {
			wg.Add(1)
			go func() {
				defer wg.Done()
				<-start
				var v string
				ok, p := watchdog(func() { v = classify(w.V.Verify(w.chainFor(name)...)) })
				atomic.AddInt64(&res.Calls, 1)
				switch {
				case !ok:
					if atomic.AddInt64(&res.Hangs, 1) == 1 {
						res.FirstBad = "handshake " + name
					}
				case p != "" || v == "panic":
					if atomic.AddInt64(&res.Panics, 1) == 1 {
						res.FirstBad = "handshake " + name + ": " + p
					}
				case v != "revoked":
					if atomic.AddInt64(&res.Wrong, 1) == 1 {
						res.FirstBad = name + " " + v
					}
				}
			}()
		}
		close(start)
		wg.Wait()
	}
	return res
}
