package main

// C18 — both storage backends implement the same abstract map.  The same operation
// sequences run on MapStore, LevelDbStore and (in Coq) on the model and the abstract map.

import (
	"bytes"
	"crypto/x509/pkix"
	"encoding/asn1"
	"encoding/binary"
	"errors"
	"fmt"
	"math/big"
	"math/rand"
	"os"
	"reflect"
	"sort"
	"strings"
	"sync"
	"time"

	"github.com/gr33nbl00d/caddy-revocation-validator/core"
	"github.com/gr33nbl00d/caddy-revocation-validator/crl/crlreader"
	"github.com/gr33nbl00d/caddy-revocation-validator/crl/crlstore"
	"github.com/syndtr/goleveldb/leveldb"
	"go.uber.org/zap"
)

func init() { commands["c18"] = runC18 }

type storePools struct {
	issuers []pkix.RDNSequence
	serials []*big.Int
	entries []pkix.RevokedCertificate // id = index+1
	metas   []crlreader.CRLMetaInfo
	exts    []crlreader.ExtendedCRLMetaInfo
	signers []*core.CertificateChainEntry
	locs    []core.CRLLocations
}

func newStorePools() *storePools {
	p := &storePools{}
	names := []pkix.Name{
		{CommonName: "CA"},
		{CommonName: "CA_1", Organization: []string{"verif"}},
		{CommonName: "Ünï çødé", Organization: []string{"Ö_5"}},
		{CommonName: "a_5"},
	}
	for _, n := range names {
		p.issuers = append(p.issuers, n.ToRDNSequence())
	}
	big159, _ := new(big.Int).SetString("1461501637330902918203684832716283019655932542975", 10)
	p.serials = []*big.Int{big.NewInt(1), big.NewInt(5), big.NewInt(-5), big.NewInt(127), big.NewInt(128),
		new(big.Int).Lsh(big.NewInt(1), 64), big159, big.NewInt(0), big.NewInt(15), big.NewInt(51)}
	t0 := time.Date(2024, 3, 4, 5, 6, 7, 0, time.UTC)
	reason, _ := asn1.Marshal(asn1.Enumerated(1))
	for i, s := range p.serials {
		p.entries = append(p.entries, pkix.RevokedCertificate{SerialNumber: s, RevocationTime: t0.Add(time.Duration(i) * time.Hour)})
		p.entries = append(p.entries, pkix.RevokedCertificate{SerialNumber: s, RevocationTime: time.Date(2051, 1, 1, 0, 0, i, 0, time.UTC),
			Extensions: []pkix.Extension{{Id: asn1.ObjectIdentifier{2, 5, 29, 21}, Value: reason}, {Id: asn1.ObjectIdentifier{1, 2, 3, 4}, Critical: true, Value: []byte{}}}})
	}
	p.metas = []crlreader.CRLMetaInfo{
		{Issuer: p.issuers[0], ThisUpdate: t0, NextUpdate: t0.Add(time.Hour)},
		{Issuer: p.issuers[2], ThisUpdate: t0.Add(time.Minute)},
		{Issuer: p.issuers[1], ThisUpdate: t0.Add(2 * time.Minute), NextUpdate: time.Date(2049, 12, 31, 23, 59, 59, 0, time.UTC)},
	}
	p.exts = []crlreader.ExtendedCRLMetaInfo{{}, {CRLNumber: big.NewInt(5)}, {CRLNumber: new(big.Int).Lsh(big.NewInt(1), 70)}}
	for _, cn := range []string{"signer one", "signer two"} {
		ca := NewRootCA(cn, false)
		p.signers = append(p.signers, &core.CertificateChainEntry{RawCertificate: ca.Cert.Raw, Certificate: ca.Cert})
	}
	p.locs = []core.CRLLocations{
		{CRLDistributionPoints: []string{"http://a.example/x.crl", "http://b.example/ü.crl"}},
		{CRLUrl: "https://c.example/crl?x=1&y=_"},
		{CRLFile: "/tmp/some dir/ä.crl"},
	}
	return p
}

type sop struct {
	Kind   string `json:"k"`
	Tgt    int    `json:"t,omitempty"` // 0 live, 1 staging
	Issuer int    `json:"i,omitempty"`
	Serial int    `json:"s,omitempty"`
	ID     int    `json:"id,omitempty"`
}

func (o sop) coq(p *storePools) string {
	t := "Live"
	if o.Tgt == 1 {
		t = "Staging"
	}
	switch o.Kind {
	case "start":
		return fmt.Sprintf("OStart %s %d", t, o.ID)
	case "insert":
		return fmt.Sprintf("OInsert %s (iss %d) (%s)%%Z %d", t, o.Issuer, p.serials[o.Serial].String(), o.ID)
	case "ext":
		return fmt.Sprintf("OExt %s %d", t, o.ID)
	case "signer":
		return fmt.Sprintf("OSigner %s %d", t, o.ID)
	case "loc":
		return fmt.Sprintf("OLoc %s %d", t, o.ID)
	case "lookup":
		return fmt.Sprintf("OLookup (iss %d) (%s)%%Z", o.Issuer, p.serials[o.Serial].String())
	case "getmeta":
		return "OGetMeta"
	case "getext":
		return "OGetExt"
	case "getsigner":
		return "OGetSigner"
	case "getloc":
		return "OGetLoc"
	case "swap":
		return "OSwap"
	case "reopen":
		return "OReopen"
	}
	panic(o.Kind)
}

func errClass(err error) int {
	if err == nil {
		return 0
	}
	s := err.Error()
	switch {
	case errors.Is(err, leveldb.ErrNotFound), strings.Contains(s, "entry not found"), strings.Contains(s, "not found"), strings.Contains(s, "could not find"):
		return 22
	case strings.Contains(s, "deserialize"), strings.Contains(s, "asn1"):
		return 21
	}
	return 20
}

func (p *storePools) entryID(e *pkix.RevokedCertificate) int {
	if e == nil {
		return 998
	}
	for i, c := range p.entries {
		if c.SerialNumber.Cmp(e.SerialNumber) == 0 && c.RevocationTime.Equal(e.RevocationTime) && len(c.Extensions) == len(e.Extensions) {
			same := true
			for j := range c.Extensions {
				a, b := c.Extensions[j], e.Extensions[j]
				if !a.Id.Equal(b.Id) || a.Critical != b.Critical || !bytes.Equal(a.Value, b.Value) {
					same = false
				}
			}
			if same {
				return i + 1
			}
		}
	}
	return 999
}

type storeRun struct {
	Backend string   `json:"backend"`
	Ops     []sop    `json:"ops"`
	Obs     []string `json:"obs"`
	Raw     []uint64 `json:"raw_keys"`
	Panic   string   `json:"panic,omitempty"`
}

// runStoreOps drives one real backend through the operation sequence.
func runStoreOps(p *storePools, backend string, ops []sop, dir string) (res storeRun) {
	res = storeRun{Backend: backend, Ops: ops}
	defer func() {
		if r := recover(); r != nil {
			res.Panic = fmt.Sprint(r)
		}
	}()
	st := crlstore.Map
	if backend == "LevelB" {
		st = crlstore.LevelDB
	}
	f, err := crlstore.CreateStoreFactory(st, dir, zap.NewNop())
	mustNoErr(err)
	live, err := f.CreateStore("liveid", false)
	mustNoErr(err)
	staging, err := f.CreateStore("liveid", true)
	mustNoErr(err)
	sel := func(t int) crlstore.CRLStore {
		if t == 1 {
			return staging
		}
		return live
	}
	unit := func(err error) string {
		if err != nil {
			return fmt.Sprintf("BGet (Err %d)", errClass(err)) // a write that fails is reported as a mismatch
		}
		return "BUnit"
	}
	get := func(id int, err error) string {
		if err != nil {
			return fmt.Sprintf("BGet (Err %d)", errClass(err))
		}
		return fmt.Sprintf("BGet (Ok %d)", id)
	}
	for _, o := range ops {
		var ob string
		switch o.Kind {
		case "start":
			m := p.metas[o.ID-1]
			ob = unit(sel(o.Tgt).StartUpdateCrl(&m))
		case "insert":
			e := p.entries[o.ID-1]
			iss := p.issuers[o.Issuer]
			ob = unit(sel(o.Tgt).InsertRevokedCert(&crlreader.CRLEntry{Issuer: &iss, RevokedCertificate: &e}))
		case "ext":
			x := p.exts[o.ID-1]
			ob = unit(sel(o.Tgt).UpdateExtendedMetaInfo(&x))
		case "signer":
			ob = unit(sel(o.Tgt).UpdateSignatureCertificate(p.signers[o.ID-1]))
		case "loc":
			l := p.locs[o.ID-1]
			ob = unit(sel(o.Tgt).UpdateCRLLocations(&l))
		case "lookup":
			iss := p.issuers[o.Issuer]
			stt, err := live.GetCertRevocationStatus(&iss, p.serials[o.Serial])
			switch {
			case err != nil:
				ob = fmt.Sprintf("BLookup (Err %d)", errClass(err))
			case !stt.Revoked:
				ob = "BLookup (Ok None)"
			default:
				ob = fmt.Sprintf("BLookup (Ok (Some %d))", p.entryID(stt.CRLRevokedCertEntry))
			}
		case "getmeta":
			m, err := live.GetCRLMetaInfo()
			id := 999
			if err == nil {
				for i, c := range p.metas {
					if c.Issuer.String() == m.Issuer.String() && c.ThisUpdate.Equal(m.ThisUpdate) && c.NextUpdate.Equal(m.NextUpdate) {
						id = i + 1
					}
				}
			}
			ob = get(id, err)
		case "getext":
			m, err := live.GetCRLExtMetaInfo()
			id := 999
			if err == nil {
				for i, c := range p.exts {
					if (c.CRLNumber == nil) == (m.CRLNumber == nil) && (c.CRLNumber == nil || c.CRLNumber.Cmp(m.CRLNumber) == 0) {
						id = i + 1
					}
				}
			}
			ob = get(id, err)
		case "getsigner":
			m, err := live.GetCRLSignatureCert()
			id := 999
			if err == nil {
				for i, c := range p.signers {
					if bytes.Equal(c.RawCertificate, m.RawCertificate) && m.Certificate != nil && bytes.Equal(m.Certificate.Raw, c.RawCertificate) {
						id = i + 1
					}
				}
			}
			ob = get(id, err)
		case "getloc":
			m, err := live.GetCRLLocations()
			id := 999
			if err == nil {
				for i, c := range p.locs {
					if c.CRLUrl == m.CRLUrl && c.CRLFile == m.CRLFile && (len(c.CRLDistributionPoints) == 0 && len(m.CRLDistributionPoints) == 0 || reflect.DeepEqual(c.CRLDistributionPoints, m.CRLDistributionPoints)) {
						id = i + 1
					}
				}
			}
			ob = get(id, err)
		case "swap":
			ob = unit(live.Update(staging))
			staging, err = f.CreateStore("liveid", true)
			mustNoErr(err)
		case "reopen":
			if backend == "LevelB" {
				live.Close()
				live, err = f.CreateStore("liveid", false)
				mustNoErr(err)
			}
			ob = "BUnit"
		}
		res.Obs = append(res.Obs, ob)
	}
	// raw keys of the live store
	switch s := live.(type) {
	case *crlstore.MapStore:
		for k := range s.Map {
			res.Raw = append(res.Raw, binary.LittleEndian.Uint64([]byte(k)))
		}
	case *crlstore.LevelDbStore:
		it := s.Db.NewIterator(nil, nil)
		for it.Next() {
			res.Raw = append(res.Raw, binary.LittleEndian.Uint64(it.Key()))
		}
		it.Release()
	}
	sort.Slice(res.Raw, func(i, j int) bool { return res.Raw[i] < res.Raw[j] })
	live.Close()
	staging.Close()
	staging.Delete()
	return res
}

func (p *storePools) randomOp(r *rand.Rand) sop {
	tgt := 0
	if r.Intn(3) == 0 {
		tgt = 1
	}
	// small issuer/serial sub-pool most of the time so that overwrites and hits happen
	iss := r.Intn(2)
	ser := r.Intn(3)
	if r.Intn(4) == 0 {
		iss = r.Intn(len(p.issuers))
		ser = r.Intn(len(p.serials))
	}
	switch k := r.Intn(20); {
	case k < 6:
		return sop{Kind: "insert", Tgt: tgt, Issuer: iss, Serial: ser, ID: 2*ser + 1 + r.Intn(2)}
	case k < 11:
		return sop{Kind: "lookup", Issuer: iss, Serial: ser}
	case k == 11:
		return sop{Kind: "start", Tgt: tgt, ID: 1 + r.Intn(len(p.metas))}
	case k == 12:
		return sop{Kind: "ext", Tgt: tgt, ID: 1 + r.Intn(len(p.exts))}
	case k == 13:
		return sop{Kind: "signer", Tgt: tgt, ID: 1 + r.Intn(len(p.signers))}
	case k == 14:
		return sop{Kind: "loc", Tgt: tgt, ID: 1 + r.Intn(len(p.locs))}
	case k == 15:
		return sop{Kind: []string{"getmeta", "getext", "getsigner", "getloc"}[r.Intn(4)]}
	case k == 16:
		return sop{Kind: "swap"}
	case k == 17:
		return sop{Kind: "reopen"}
	default:
		return sop{Kind: []string{"getmeta", "getext", "getsigner", "getloc", "lookup"}[r.Intn(5)], Issuer: iss, Serial: ser}
	}
}

func storeHeader(p *storePools) string {
	var sb strings.Builder
	sb.WriteString("From Verif Require Import Base Bytes Store RunStore.\nOpen Scope N_scope.\n")
	sb.WriteString("Definition iss (n : nat) : bytes := nth n [")
	for i, is := range p.issuers {
		if i > 0 {
			sb.WriteString("; ")
		}
		sb.WriteString(coqByteList([]byte(is.String())))
	}
	sb.WriteString("] [].\n")
	return sb.String()
}

func coqByteList(b []byte) string {
	var sb strings.Builder
	sb.WriteString("[")
	for i, x := range b {
		if i > 0 {
			sb.WriteString(";")
		}
		fmt.Fprintf(&sb, "%d", x)
	}
	sb.WriteString("]")
	return sb.String()
}

func runC18(c *Ctx) {
	p := newStorePools()
	r := rand.New(rand.NewSource(c.Seed))
	var seqs [][]sop
	// corpus: the shapes the property names explicitly
	seqs = append(seqs,
		[]sop{{Kind: "start", ID: 1}, {Kind: "insert", Issuer: 0, Serial: 1, ID: 3}, {Kind: "insert", Issuer: 1, Serial: 1, ID: 4}, {Kind: "lookup", Issuer: 0, Serial: 1}, {Kind: "lookup", Issuer: 1, Serial: 1}, {Kind: "lookup", Issuer: 2, Serial: 1}, {Kind: "lookup", Issuer: 0, Serial: 2}},
		[]sop{{Kind: "insert", Issuer: 0, Serial: 1, ID: 3}, {Kind: "insert", Tgt: 1, Issuer: 0, Serial: 8, ID: 17}, {Kind: "loc", Tgt: 1, ID: 1}, {Kind: "swap"}, {Kind: "lookup", Issuer: 0, Serial: 1}, {Kind: "lookup", Issuer: 0, Serial: 8}, {Kind: "getloc"}, {Kind: "getmeta"}},
		[]sop{{Kind: "start", ID: 2}, {Kind: "ext", ID: 1}, {Kind: "signer", ID: 2}, {Kind: "loc", ID: 3}, {Kind: "reopen"}, {Kind: "getmeta"}, {Kind: "getext"}, {Kind: "getsigner"}, {Kind: "getloc"}},
		[]sop{{Kind: "insert", Issuer: 3, Serial: 6, ID: 13}, {Kind: "insert", Issuer: 2, Serial: 5, ID: 12}, {Kind: "reopen"}, {Kind: "lookup", Issuer: 3, Serial: 6}, {Kind: "lookup", Issuer: 2, Serial: 5}, {Kind: "lookup", Issuer: 2, Serial: 6}},
	)
	// exhaustive short sequences over a small alphabet
	alpha := []sop{
		{Kind: "insert", Issuer: 0, Serial: 1, ID: 3}, {Kind: "insert", Issuer: 1, Serial: 1, ID: 4}, {Kind: "insert", Tgt: 1, Issuer: 0, Serial: 1, ID: 4},
		{Kind: "insert", Tgt: 1, Issuer: 0, Serial: 2, ID: 5}, {Kind: "lookup", Issuer: 0, Serial: 1}, {Kind: "lookup", Issuer: 1, Serial: 1}, {Kind: "lookup", Issuer: 0, Serial: 2},
		{Kind: "start", ID: 1}, {Kind: "start", Tgt: 1, ID: 2}, {Kind: "getmeta"}, {Kind: "swap"}, {Kind: "reopen"}, {Kind: "loc", Tgt: 1, ID: 2}, {Kind: "getloc"},
	}
	depth := 2
	if c.Thorough() {
		depth = 3
	}
	var rec func(prefix []sop, d int)
	rec = func(prefix []sop, d int) {
		if d == 0 {
			seqs = append(seqs, append([]sop{}, prefix...))
			return
		}
		for _, a := range alpha {
			rec(append(prefix, a), d-1)
		}
	}
	// every sequence ends with the three lookups and a getter so that its effect is observed
	tail := []sop{{Kind: "lookup", Issuer: 0, Serial: 1}, {Kind: "lookup", Issuer: 1, Serial: 1}, {Kind: "lookup", Issuer: 0, Serial: 2}, {Kind: "getmeta"}, {Kind: "getloc"}}
	nBefore := len(seqs)
	rec(nil, depth)
	for i := nBefore; i < len(seqs); i++ {
		seqs[i] = append(seqs[i], tail...)
	}
	nRandom := 150
	if c.Thorough() {
		nRandom = 2000
	}
	for i := 0; i < nRandom; i++ {
		n := 3 + r.Intn(38)
		var s []sop
		for j := 0; j < n; j++ {
			s = append(s, p.randomOp(r))
		}
		seqs = append(seqs, s)
	}
	type job struct {
		idx     int
		backend string
		ops     []sop
	}
	var jobs []job
	for i, s := range seqs {
		jobs = append(jobs, job{2 * i, "MapB", s}, job{2*i + 1, "LevelB", s})
	}
	results := make([]storeRun, len(jobs))
	var wg sync.WaitGroup
	sem := make(chan struct{}, 16)
	for _, j := range jobs {
		wg.Add(1)
		sem <- struct{}{}
		go func(j job) {
			defer wg.Done()
			defer func() { <-sem }()
			dir := c.TempDir(fmt.Sprintf("c18_%d", j.idx))
			results[j.idx] = runStoreOps(p, j.backend, j.ops, dir)
			os.RemoveAll(dir)
		}(j)
	}
	wg.Wait()
	var items []string
	for idx, rr := range results {
		c.Count("backend=" + rr.Backend)
		c.Count(fmt.Sprintf("len=%02d-%02d", len(rr.Ops)/10*10, len(rr.Ops)/10*10+9))
		for _, o := range rr.Ops {
			c.Count("op=" + o.Kind)
		}
		for _, ob := range rr.Obs {
			c.Count("obs=" + strings.Fields(strings.NewReplacer("(", " ", ")", " ").Replace(ob))[0] + ob[strings.Index(ob, " ")+1:min(len(ob), strings.Index(ob, " ")+8)])
		}
		if rr.Panic != "" {
			c.Fail("", "store operation panicked: "+rr.Panic, rr)
			continue
		}
		// direct oracles, independent of the model: (1) both backends agree, (2) reference map semantics
		if idx%2 == 1 {
			m := results[idx-1]
			if !reflect.DeepEqual(m.Obs, rr.Obs) {
				c.Fail("", "memory and disk backends disagree on the same operation sequence", map[string]interface{}{"ops": rr.Ops, "map": m.Obs, "leveldb": rr.Obs})
			}
		}
		if want := refStoreObs(p, rr.Ops); !reflect.DeepEqual(want, rr.Obs) {
			c.Fail("", "backend "+rr.Backend+" deviates from the reference map keyed by (issuer, serial)", map[string]interface{}{"ops": rr.Ops, "got": rr.Obs, "want": want})
		}
		// non-trivial: at least one insert and one lookup that hits
		hit := false
		for _, ob := range rr.Obs {
			if strings.HasPrefix(ob, "BLookup (Ok (Some") {
				hit = true
			}
		}
		if hit {
			c.Nontrivial(fmt.Sprintf("%s|%v", rr.Backend, rr.Ops))
		}
		if idx%97 == 0 {
			c.Sample(rr)
		}
		var ops []string
		for _, o := range rr.Ops {
			ops = append(ops, o.coq(p))
		}
		var raw []string
		for _, k := range rr.Raw {
			raw = append(raw, fmt.Sprint(k))
		}
		items = append(items, fmt.Sprintf("mk_sc %d %s [%s] [%s] (Some [%s])", idx, rr.Backend, strings.Join(ops, "; "), strings.Join(rr.Obs, "; "), strings.Join(raw, "; ")))
	}
	c.WriteCoqSharded("cases_C18", storeHeader(p), "store_case", items, "store_mismatches", 60)
	c.Rep.Cases = len(results)
	c.Rep.Rule = fmt.Sprintf("corpus + every sequence of length %d over a 14-letter operation alphabet (followed by probe lookups) + %d random sequences of length 3..40, each on both backends; values: serials incl. negative/0/2^64/159-bit, entries with and without extensions and post-2049 dates, unicode issuers, issuers containing the separator; non-trivial = some lookup hits an inserted entry; distinct by (backend, sequence)", depth, nRandom)
}

// refStoreObs is the harness's own reference: a Go map keyed by (issuer string, serial string).
func refStoreObs(p *storePools, ops []sop) []string {
	type st struct {
		ents                   map[string]int
		meta, ext, signer, loc int
	}
	newSt := func() *st { return &st{ents: map[string]int{}} }
	live, staging := newSt(), newSt()
	sel := func(t int) *st {
		if t == 1 {
			return staging
		}
		return live
	}
	get := func(v int) string {
		if v == 0 {
			return "BGet (Err 22)"
		}
		return fmt.Sprintf("BGet (Ok %d)", v)
	}
	var out []string
	for _, o := range ops {
		ob := "BUnit"
		switch o.Kind {
		case "start":
			sel(o.Tgt).meta = o.ID
		case "insert":
			sel(o.Tgt).ents[p.issuers[o.Issuer].String()+"\x00"+p.serials[o.Serial].String()] = o.ID
		case "ext":
			sel(o.Tgt).ext = o.ID
		case "signer":
			sel(o.Tgt).signer = o.ID
		case "loc":
			sel(o.Tgt).loc = o.ID
		case "lookup":
			if id, ok := live.ents[p.issuers[o.Issuer].String()+"\x00"+p.serials[o.Serial].String()]; ok {
				ob = fmt.Sprintf("BLookup (Ok (Some %d))", id)
			} else {
				ob = "BLookup (Ok None)"
			}
		case "getmeta":
			ob = get(live.meta)
		case "getext":
			ob = get(live.ext)
		case "getsigner":
			ob = get(live.signer)
		case "getloc":
			ob = get(live.loc)
		case "swap":
			live, staging = staging, newSt()
		}
		out = append(out, ob)
	}
	return out
}
