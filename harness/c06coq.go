package main

// Coq case emission for the reader properties (C06, C07) and the library-oracle tables.

import (
	"bufio"
	"bytes"
	"crypto/x509/pkix"
	"encoding/asn1"
	"encoding/base64"
	"fmt"
	"io"
	"math/big"
	"os"
	"strings"

	"github.com/gr33nbl00d/caddy-revocation-validator/core/asn1parser"
	"github.com/gr33nbl00d/caddy-revocation-validator/core/pemreader"
)

// realStream returns the byte stream the ASN.1 parser is given for a file: the file itself,
// or what the real PemReader + base64 decoder deliver (up to the first error).
func realStream(c *Ctx, file []byte) (stream []byte, isPem bool) {
	p := c.Work + "/stream.tmp"
	mustNoErr(os.WriteFile(p, file, 0600))
	defer os.Remove(p)
	f, err := os.Open(p)
	mustNoErr(err)
	defer f.Close()
	func() {
		defer func() {
			if r := recover(); r != nil {
				isPem = false // the implementation's own sniffing panicked; the child-process observation reports that
			}
		}()
		_, isPem = pemreader.IsPemFile(f)
	}()
	if !isPem {
		return file, false
	}
	f.Seek(0, 0)
	pr := pemreader.NewPemReader(bufio.NewReader(f))
	dec := base64.NewDecoder(base64.StdEncoding, &pr)
	stream, _ = io.ReadAll(bufio.NewReader(dec))
	return stream, true
}

type libTables struct {
	lib  []string // "(kind, hex, bool)"
	exts []string
	algs []string
	seen map[string]bool
}

func hashName(h fmt.Stringer) string { return strings.ReplaceAll(h.String(), "-", "") }

func coqExtList(xs []pkix.Extension) string {
	var parts []string
	for _, x := range xs {
		parts = append(parts, fmt.Sprintf("(%s, %s, %s)", coqStr(x.Id.String()), coqBool(x.Critical), coqPk(x.Value)))
	}
	return "[" + strings.Join(parts, "; ") + "]"
}

// modelLength replicates asn1parser.ReadLength on a byte slice (used only to enumerate the
// TLV candidates the library could be asked about).
func modelLength(b []byte) (val *big.Int, lsize int, ok bool) {
	if len(b) < 1 {
		return nil, 0, false
	}
	if b[0]&0x80 == 0 {
		return big.NewInt(int64(b[0])), 1, true
	}
	n := int(b[0] & 0x0F)
	if len(b) < 1+n {
		return nil, 0, false
	}
	return new(big.Int).SetBytes(b[1 : 1+n]), 1 + n, true
}

func (t *libTables) scan(stream []byte) {
	if t.seen == nil {
		t.seen = map[string]bool{}
	}
	limit := big.NewInt(81920)
	for off := 0; off < len(stream); off++ {
		tag := stream[off]
		if tag != 0x30 && tag != 0x17 {
			continue
		}
		l, ls, ok := modelLength(stream[off+1:])
		if !ok || l.Cmp(limit) > 0 {
			continue
		}
		end := off + 1 + ls + int(l.Int64())
		if end > len(stream) {
			continue
		}
		if tag == 0x17 {
			val := stream[off+1+ls : end]
			key := "u" + string(val)
			if t.seen[key] {
				continue
			}
			t.seen[key] = true
			if _, err := asn1parser.ParseUTCTime(val); err == nil {
				t.lib = append(t.lib, fmt.Sprintf("(4%%N, %s, true)", coqPk(val)))
			}
			continue
		}
		tl := stream[off:end]
		key := "s" + string(tl)
		if t.seen[key] {
			continue
		}
		t.seen[key] = true
		full := func(rest []byte, err error) bool { return err == nil && len(rest) == 0 }
		var rdn pkix.RDNSequence
		if full(asn1.Unmarshal(tl, &rdn)) {
			t.lib = append(t.lib, fmt.Sprintf("(0%%N, %s, true)", coqPk(tl)))
		}
		var alg pkix.AlgorithmIdentifier
		if full(asn1.Unmarshal(tl, &alg)) {
			t.lib = append(t.lib, fmt.Sprintf("(1%%N, %s, true)", coqPk(tl)))
			t.algs = append(t.algs, fmt.Sprintf("(%s, %s)", coqPk(tl), coqStr(alg.Algorithm.String())))
		}
		var rc pkix.RevokedCertificate
		if full(asn1.Unmarshal(tl, &rc)) {
			t.lib = append(t.lib, fmt.Sprintf("(2%%N, %s, true)", coqPk(tl)))
		}
		var xs []pkix.Extension
		if full(asn1.Unmarshal(tl, &xs)) {
			t.lib = append(t.lib, fmt.Sprintf("(3%%N, %s, true)", coqPk(tl)))
			t.exts = append(t.exts, fmt.Sprintf("(%s, %s)", coqPk(tl), coqExtList(xs)))
		}
	}
}

func tbsRange(stream []byte) (start, ln int, ok bool) {
	if len(stream) < 2 {
		return 0, 0, false
	}
	_, ls, ok1 := modelLength(stream[1:])
	if !ok1 || 1+ls >= len(stream) {
		return 0, 0, false
	}
	start = 1 + ls
	l, ls2, ok2 := modelLength(stream[start+1:])
	if !ok2 || !l.IsInt64() {
		return 0, 0, false
	}
	ln = 1 + ls2 + int(l.Int64())
	if start+ln > len(stream) || ln < 0 {
		return 0, 0, false
	}
	return start, ln, true
}

const readerHeader = "From Verif Require Import Base Bytes Reader Asn1Parser Pem CrlReader RunReader.\nFrom Coq Require Import Uint63.\nOpen Scope string_scope.\nOpen Scope uint63_scope.\nOpen Scope list_scope.\n"

func c06EmitCoq(c *Ctx, cases []*c06Case) {
	var items, pems []string
	for i, cs := range cases {
		if len(cs.file) > 400000 && !c.Thorough() {
			continue
		}
		o := realReadBytes(c, fmt.Sprintf("c06e_%d.crl", i), cs.file)
		d := cs.doc
		ref, _ := refDecode(d.DER())
		var exts, algs []string
		if d.Exts != nil && ref != nil {
			exts = append(exts, fmt.Sprintf("(%s, %s)", coqPk(d.Exts), coqExtList(ref.List.TBSCertList.Extensions)))
		}
		algs = append(algs, fmt.Sprintf("(%s, %s)", coqPk(d.OuterAlg), coqStr(cs.alg.OID.String())))
		// observed events, projected back to the raw elements of the document
		var evs []string
		p := o.Proc
		ei := 0
		for _, k := range p.order {
			switch k {
			case "start":
				m := p.Starts[0]
				bad := coqPk([]byte{0})
				iss, tu, nu := bad, bad, "None"
				if ref != nil && m.Issuer.String() == ref.List.TBSCertList.Issuer.String() {
					iss = coqPk(d.Issuer)
				}
				if ref != nil && m.ThisUpdate.Equal(ref.List.TBSCertList.ThisUpdate) {
					tu = coqPk(d.ThisUpdate[2:])
				}
				if d.NextUpdate != nil {
					if ref != nil && m.NextUpdate.Equal(ref.List.TBSCertList.NextUpdate) {
						nu = "(Some " + coqPk(d.NextUpdate[2:]) + ")"
					} else {
						nu = "(Some " + bad + ")"
					}
				} else if !m.NextUpdate.IsZero() {
					nu = "(Some " + bad + ")"
				}
				evs = append(evs, fmt.Sprintf("OStart %s %s %s", iss, tu, nu))
			case "insert":
				raw := coqPk([]byte{0})
				if ref != nil && ei < len(ref.List.TBSCertList.RevokedCertificates) && sameEntry(p.Entries[ei], ref.List.TBSCertList.RevokedCertificates[ei]) {
					raw = coqPk(d.Entries[ei])
				}
				evs = append(evs, "OInsert "+raw)
				ei++
			case "ext":
				n := p.ExtMeta[0]
				if n == nil {
					evs = append(evs, "OExt None")
				} else {
					evs = append(evs, fmt.Sprintf("OExt (Some (%s)%%Z)", n.String()))
				}
			}
		}
		class := map[string]int{"ok": 0, "err": 1, "panic": 2}[o.Class]
		dig, sig, hn := "None", coqPk(nil), ""
		stream, isPem := realStream(c, cs.file)
		if o.Class == "ok" {
			if st, ln, ok := tbsRange(stream); ok && bytes.Equal(hashOf(o.Result.HashAndVerifyStrategy.HashStrategy, stream[st:st+ln]), o.Result.CalculatedSignature) {
				dig = fmt.Sprintf("(Some (%d, %d)%%nat)", st, ln)
			}
			sig = coqPk(o.Result.Signature.Bytes)
			hn = hashName(o.Result.HashAndVerifyStrategy.HashStrategy)
		}
		items = append(items, fmt.Sprintf("mk_rc %d %s true [] [%s] [%s] None (mk_ro %d %d true [%s] %s %s \"%s\")",
			i, coqPk(cs.file), strings.Join(exts, "; "), strings.Join(algs, "; "), class, len(p.Entries), strings.Join(evs, "; "), dig, sig, hn))
		if cs.Format != "der" && len(cs.file) < 60000 {
			pems = append(pems, fmt.Sprintf("mk_pc %d %s %s %s", i, coqPk(cs.file), coqBool(isPem), coqPk(stream)))
		}
	}
	c.WriteCoqSharded("cases_C06", readerHeader, "rcase", items, "reader_mismatches", 28)
	c.WriteCoqSharded("cases_C06pem", readerHeader, "pemcase", pems, "pem_mismatches", 40)
}

func c07EmitCoq(c *Ctx, inputs []c07Input, obs []c07Obs) {
	var items, pems []string
	for i, in := range inputs {
		o := obs[i]
		// quick tier: evaluate a deterministic subset in the model; the direct oracles ran on all
		if !c.Thorough() && (in.Kind == "length" || in.Kind == "tag" || in.Kind == "truncation") && i%5 != 0 {
			continue
		}
		if len(in.File) > 200000 && !c.Thorough() {
			continue
		}
		if o.Class == "fatal" || o.Class == "timeout" {
			continue // already reported by the direct oracle
		}
		stream, isPem := realStream(c, in.File)
		var t libTables
		t.scan(stream)
		class := map[string]int{"ok": 0, "err": 1, "panic": 2}[o.Class]
		dig := "None"
		if o.Class == "ok" {
			if st, ln, ok := tbsRange(stream); ok && fmt.Sprintf("%x", hashOfName(o.Hash, stream[st:st+ln])) == o.Digest {
				dig = fmt.Sprintf("(Some (%d, %d)%%nat)", st, ln)
			}
		}
		items = append(items, fmt.Sprintf("mk_rc %d %s false [%s] [%s] [%s] None (mk_ro %d %d false [] %s %s \"%s\")",
			i, coqPk(in.File), strings.Join(t.lib, "; "), strings.Join(t.exts, "; "), strings.Join(t.algs, "; "), class, o.Inserts, dig, coqPk(unhex(o.Sig)), o.Hash))
		if in.Kind == "pem" && len(in.File) < 200000 {
			pems = append(pems, fmt.Sprintf("mk_pc %d %s %s %s", i, coqPk(in.File), coqBool(isPem), coqPk(stream)))
		}
	}
	c.WriteCoqSharded("cases_C07", readerHeader, "rcase", items, "reader_mismatches", 80)
	c.WriteCoqSharded("cases_C07pem", readerHeader, "pemcase", pems, "pem_mismatches", 40)
	c.Rep.Extra["model_evaluated_cases"] = len(items)
}

func unhex(s string) []byte {
	b := make([]byte, len(s)/2)
	fmt.Sscanf(s, "%x", &b)
	return b
}
