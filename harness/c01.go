package main

// C01 — end-to-end soundness through VerifyClientCertificate: reader -> store -> repository ->
// verifier, for every source, encoding, list size, entry position, serial width, backend, mode
// and OCSP answer.

import (
	"crypto/x509/pkix"
	"encoding/asn1"
	"fmt"
	"math/big"
	"math/rand"
	"os"
	"path/filepath"
	"strings"
	"sync"
	"time"
)

func init() { commands["c01"] = runC01 }

type c01Case struct {
	Source    string `json:"source"`   // cdp | crl_urls | crl_files
	Encoding  string `json:"encoding"` // der | pemlf | pemcrlf
	N         int    `json:"entries"`
	Width     int    `json:"serial_bytes"`
	EntryExt  bool   `json:"entry_extensions"`
	V1        bool   `json:"v1"`
	Storage   string `json:"storage"`
	Mode      string `json:"mode"`
	OCSP      string `json:"ocsp"` // none | good | unavailable
	Issuer    string `json:"issuer_name_shape,omitempty"`
	Fetch     string `json:"fetch_mode,omitempty"`
	Immediate string `json:"first_handshake_right_after_provision,omitempty"` // configured sources, fetch_background: verdict for a listed certificate presented the moment Provision returns
	OwnCDP    string `json:"own_cdp"`                                         // configured sources: the certificate's own CDP: none | ldap | down | other (an empty list elsewhere)
	// observations
	Positions []int    `json:"positions"`
	Verdicts  []string `json:"verdicts"`
	Control   string   `json:"control"`
	Err       string   `json:"err,omitempty"`
	serials   []*big.Int
}

func runC01(c *Ctx) {
	r := rand.New(rand.NewSource(c.Seed))
	primeGlobalStamp(c)
	var cases []*c01Case
	sizes := []int{1, 2, 3, 40, 400}
	if c.Thorough() {
		sizes = append(sizes, 5000, 50000)
	}
	modes := []string{"", "prefer_ocsp", "prefer_crl", "crl_only"}
	i := 0
	for _, src := range []string{"cdp", "crl_urls", "crl_files"} {
		for _, enc := range []string{"der", "pemlf", "pemcrlf"} {
			for _, n := range sizes {
				for _, st := range []string{"memory", "disk"} {
					// the remaining dimensions rotate so that every value meets every source/encoding/size
					i++
					cs := &c01Case{Source: src, Encoding: enc, N: n, Storage: st,
						Width: 1 + (i*7)%20, EntryExt: i%2 == 0, V1: i%5 == 0,
						Mode: modes[i%4], OCSP: []string{"none", "good", "unavailable"}[i%3]}
					if src != "cdp" {
						cs.OwnCDP = []string{"none", "ldap", "down", "other"}[(i/2)%4]
					}
					cases = append(cases, cs)
				}
			}
		}
	}
	// issuer names that a decode / re-encode round trip does not preserve: attribute order other than C,O,CN, domain
	// components, e-mail address, a multi-valued RDN, a teletex string
	for si, shape := range []string{"cn-o-c", "dc-dc-cn", "email", "multi-valued", "t61"} {
		for _, st := range []string{"memory", "disk"} {
			cases = append(cases, &c01Case{Source: []string{"cdp", "crl_files"}[si%2], Encoding: "der", N: 3, Width: 8, Storage: st, Mode: "crl_only", OCSP: "none", Issuer: shape})
		}
	}
	// serial widths 1..20 explicitly (CDP, DER, 3 entries)
	for w := 1; w <= 20; w++ {
		cases = append(cases, &c01Case{Source: "cdp", Encoding: "der", N: 3, Width: w, Storage: []string{"memory", "disk"}[w%2], Mode: modes[w%4], OCSP: "none", EntryExt: w%3 == 0})
	}
	var wg sync.WaitGroup
	sem := make(chan struct{}, 16)
	for k, cs := range cases {
		wg.Add(1)
		sem <- struct{}{}
		seed := r.Int63()
		go func(k int, cs *c01Case, seed int64) {
			defer wg.Done()
			defer func() { <-sem }()
			c01Run(c, k, cs, rand.New(rand.NewSource(seed)))
		}(k, cs, seed)
	}
	wg.Wait()
	for k, cs := range cases {
		c.Count("source=" + cs.Source)
		c.Count("encoding=" + cs.Encoding)
		c.Count("storage=" + cs.Storage)
		c.Count("mode=" + cs.Mode)
		c.Count("ocsp=" + cs.OCSP)
		c.Count("entries~" + bucket(cs.N))
		c.Count(fmt.Sprintf("v1=%v", cs.V1))
		if cs.Err != "" {
			c.Fail("", "setup failed: "+cs.Err, cs)
			continue
		}
		if cs.Control != "accept" {
			c.Fail("", "control: an unlisted certificate was not accepted under strict (list not in force?): "+cs.Control, cs)
			continue
		}
		if cs.Immediate != "" && cs.Immediate != "revoked" && cs.Immediate != "error" {
			c.Fail("", fmt.Sprintf("configured list (%s, %s, fetch_background, own CDP %q): a listed certificate presented right after Provision returned was %s", cs.Source, cs.Storage, cs.OwnCDP, cs.Immediate), cs)
		}
		for j, v := range cs.Verdicts {
			if v == "accept" || v == "panic" || v == "hang" {
				c.Fail("", fmt.Sprintf("certificate listed at position %d of %d (serial width %d, %s, %s, %s, mode %q, ocsp %s, own CDP %q, issuer name shape %q) was %s", cs.Positions[j], cs.N, cs.Width, cs.Source, cs.Encoding, cs.Storage, cs.Mode, cs.OCSP, cs.OwnCDP, cs.Issuer, v), cs)
			}
		}
		c.Count("own_cdp=" + cs.OwnCDP)
		c.Nontrivial(fmt.Sprintf("%s|%s|%d|%d|%s|%s|%s|%v|%v|%s|%s", cs.Source, cs.Encoding, cs.N, cs.Width, cs.Storage, cs.Mode, cs.OCSP, cs.EntryExt, cs.V1, cs.OwnCDP, cs.Issuer))
		if k%23 == 0 {
			c.Sample(cs)
		}
	}
	// the CDP cases, as histories of the repository model
	var items []string
	for k, cs := range cases {
		if cs.Source != "cdp" || cs.N > 400 || cs.Err != "" || len(cs.serials) == 0 {
			continue
		}
		var ser []string
		for _, s := range cs.serials {
			ser = append(ser, s.String())
		}
		list := fmt.Sprintf("{| l_issuer := 1; l_serials := [%s]%%Z; l_signer := 1; l_sig_ok := true; l_parse_ok := true |}", strings.Join(ser, "; "))
		steps := []string{fmt.Sprintf("SServe 1 (Serve %s)", list),
			"SHandshake {| c_issuer := 1; c_serial := 1496577676626844588240573268701473812127674924007424%Z; c_cdps := [(1, true)]; c_chain := [1; 9] |}"}
		obs := []string{"0", map[string]string{"accept": "1", "revoked": "2", "error": "3"}[cs.Control]}
		for j, p := range cs.Positions {
			steps = append(steps, fmt.Sprintf("SHandshake {| c_issuer := 1; c_serial := (%s)%%Z; c_cdps := [(1, true)]; c_chain := [1; 9] |}", cs.serials[p].String()))
			obs = append(obs, map[string]string{"accept": "1", "revoked": "2", "error": "3"}[cs.Verdicts[j]])
		}
		st := map[string]string{"memory": "Memory", "disk": "Disk"}[cs.Storage]
		items = append(items, fmt.Sprintf("mk_hc %d {| r_storage := %s; r_sigmode := SigVerify; r_fetch := Active; r_strict := true |} [%s] [%s]", k, st, strings.Join(steps, "; "), strings.Join(obs, "; ")))
	}
	c.WriteCoqSharded("cases_C01", "From Verif Require Import Base Repo RunRepo.\nOpen Scope N_scope.\n", "hcase", items, "repo_mismatches", 12)
	c.Rep.Cases = len(cases) + c01UnnumberedStage(c)
	// a list in force keeps rejecting its serials WHILE it is being refreshed (observers concurrent with refreshes, in a
	// child process; shared with C08) and across a key rollover
	c08Concurrent(c)
	c.Rep.Rule = "real handshakes through VerifyClientCertificate: source {CDP, crl_urls, crl_files} x encoding {DER, PEM-LF, PEM-CRLF} x entries {1,2,3,40,400(,5000,50000)} x storage, with serial width 1..20, entry extensions, v1/v2, mode {unset, prefer_ocsp, prefer_crl, crl_only} and OCSP answer {none, good, unavailable} rotating; listed serial probed at first / last / middle / entries straddling each 4096-byte boundary; for the configured sources the certificate's own CDP rotates over {none, ldap-only, connection refused, another (empty) list}; control = an unlisted certificate is accepted (under crl_cdp_strict where the CDP is usable, so the list is in force); distinct by the full tuple; plus 16 observers shaking hands during 36 refreshes (a serial on every version is always rejected) on both backends"
}

func c01Run(c *Ctx, k int, cs *c01Case, r *rand.Rand) {
	w := NewWorld(c, fmt.Sprintf("c01_%d", k))
	defer w.Close()
	if cs.Issuer != "" {
		w.CA = newCert(w.Root, CAOpts{Name: pkix.Name{CommonName: "shape " + cs.Issuer}, RawSubject: issuerShape(cs.Issuer)})
	}
	// entries
	var es []EntryOpts
	seen := map[string]bool{}
	for len(es) < cs.N {
		s := randSerial(r, cs.Width)
		if seen[s.String()] || s.Sign() == 0 {
			if cs.Width == 1 && len(seen) > 200 {
				break
			}
			continue
		}
		seen[s.String()] = true
		e := EntryOpts{Serial: s, When: time.Date(2020, 1, 1, 0, 0, len(es)%60, 0, time.UTC)}
		if cs.EntryExt {
			e.Reason = 1 + len(es)%4
		}
		es = append(es, e)
	}
	cs.N = len(es)
	for _, e := range es {
		cs.serials = append(cs.serials, e.Serial)
	}
	o := CRLOpts{Entries: es}
	if cs.V1 {
		o.Version = 1
	}
	d := w.CA.MakeDoc(o)
	file := d.DER()
	switch cs.Encoding {
	case "pemlf":
		file = PEMEncode(file, false)
	case "pemcrlf":
		file = PEMEncode(file, true)
	}
	// positions: first, last, middle, and entries around each 4096-byte boundary of the DER stream
	pos := map[int]bool{0: true, cs.N - 1: true, cs.N / 2: true}
	off := len(d.DER()) - len(d.TBS()) // rough header; entry offsets are computed below
	_ = off
	cur := 0
	for i, e := range d.Entries {
		start := cur
		cur += len(e)
		if start/4096 != cur/4096 || (start+60)/4096 != start/4096 {
			pos[i] = true
		}
		if len(pos) > 12 {
			break
		}
	}
	w.Lists["L"] = file
	w.Do(sv("/a", "L"))
	w.Cfg = VCfg{Mode: cs.Mode, Storage: cs.Storage, Interval: "1h", CDPStrict: true}
	var cdp []string
	switch cs.Source {
	case "cdp":
		cdp = []string{w.Org.URL("/a")}
	case "crl_urls":
		w.Cfg.CRLUrls = []string{w.Org.URL("/a")}
		w.Cfg.TrustedSigners = []string{writeCertPEM(c, w.CA.Cert)}
	case "crl_files":
		p := filepath.Join(c.Work, fmt.Sprintf("c01_%d.crl", k))
		mustNoErr(os.WriteFile(p, file, 0600))
		defer os.Remove(p)
		w.Cfg.CRLFiles = []string{p}
		w.Cfg.TrustedSigners = []string{writeCertPEM(c, w.CA.Cert)}
	}
	// configured sources: the certificate may carry a CDP of its own that is unusable or names another
	// (empty) list; the configured list is in force all the same
	switch cs.OwnCDP {
	case "ldap":
		cdp = []string{"ldap://dir.example/cn=crl"}
		w.Cfg.CDPStrict = false
	case "down":
		cdp = []string{closedPortURL("/gone.crl")}
		w.Cfg.CDPStrict = false
	case "other":
		w.Lists["E"] = w.CA.MakeDoc(CRLOpts{Entries: []EntryOpts{{Serial: big.NewInt(5)}}}).DER()
		w.Do(sv("/b", "E"))
		cdp = []string{w.Org.URL("/b")}
	}
	// OCSP
	var ocspURL []string
	switch cs.OCSP {
	case "good":
		w.Org.ServeOCSP("/ocsp", w.CA, func(int) OCSPBehaviour { return OCSPGood }, nil)
		ocspURL = []string{w.Org.URL("/ocsp")}
	case "unavailable":
		w.Org.ServeOCSP("/ocsp", w.CA, func(int) OCSPBehaviour { return OCSPHTTP500 }, nil)
		ocspURL = []string{w.Org.URL("/ocsp")}
	}
	mk := func(name string, serial *big.Int) {
		w.Certs[name] = w.CA.IssueLeaf(LeafOpts{CN: name, Serial: serial, CDP: cdp, OCSP: ocspURL})
		w.CertSp[name] = CertSpec{}
	}
	if cs.Source != "cdp" && k%2 == 1 {
		// configured list, background fetch mode: the list is in force when Provision returns, so a listed certificate
		// presented at that very moment is rejected (no waiting for the ticker goroutine's start-up pass)
		cs.Fetch = "fetch_background"
		w.Cfg.FetchMode = "fetch_background"
		w.Cfg.WorkDir = w.Dir
		v, err := NewValidator(w.Cfg)
		if err != nil {
			cs.Err = err.Error()
			return
		}
		w.V = v
		mk("immediate", es[0].Serial)
		cs.Immediate = classify(w.V.Verify(w.chainFor("immediate")...))
		w.settle()
	} else if err := w.Provision(); err != nil {
		cs.Err = err.Error()
		return
	}
	unl := new(big.Int).Lsh(big.NewInt(1), 170) // never generated: wider than 20 bytes
	mk("control", unl)
	cs.Control = w.Do(hs("control"))
	for p := range pos {
		if p < 0 || p >= cs.N {
			continue
		}
		name := fmt.Sprintf("listed%d", p)
		mk(name, es[p].Serial)
		cs.Positions = append(cs.Positions, p)
		cs.Verdicts = append(cs.Verdicts, w.Do(hs(name)))
	}
	_ = strings.Join
}

// issuerShape builds a DER Name whose decode/re-encode round trip through crypto/x509/pkix is not the identity.
func issuerShape(shape string) []byte {
	atv := func(oid asn1.ObjectIdentifier, tag int, v string) pkix.AttributeTypeAndValue {
		return pkix.AttributeTypeAndValue{Type: oid, Value: asn1.RawValue{Class: 0, Tag: tag, Bytes: []byte(v)}}
	}
	cn, o, cc := asn1.ObjectIdentifier{2, 5, 4, 3}, asn1.ObjectIdentifier{2, 5, 4, 10}, asn1.ObjectIdentifier{2, 5, 4, 6}
	dc, email := asn1.ObjectIdentifier{0, 9, 2342, 19200300, 100, 1, 25}, asn1.ObjectIdentifier{1, 2, 840, 113549, 1, 9, 1}
	set := func(a ...pkix.AttributeTypeAndValue) pkix.RelativeDistinguishedNameSET { return a }
	var seq pkix.RDNSequence
	switch shape {
	case "cn-o-c":
		seq = pkix.RDNSequence{set(atv(cn, 12, "Shape CA")), set(atv(o, 12, "Shape Org")), set(atv(cc, 19, "DE"))}
	case "dc-dc-cn":
		seq = pkix.RDNSequence{set(atv(dc, 22, "com")), set(atv(dc, 22, "example")), set(atv(cn, 12, "Shape CA"))}
	case "email":
		seq = pkix.RDNSequence{set(atv(cc, 19, "DE")), set(atv(cn, 12, "Shape CA")), set(atv(email, 22, "ca@example.com"))}
	case "multi-valued":
		seq = pkix.RDNSequence{set(atv(cc, 19, "DE")), set(atv(o, 12, "Shape Org"), atv(cn, 12, "Shape CA"))}
	case "t61":
		seq = pkix.RDNSequence{set(atv(cc, 19, "DE")), set(atv(cn, 20, "Shape CA"))}
	}
	b, err := asn1.Marshal(seq)
	mustNoErr(err)
	return b
}
