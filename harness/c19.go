package main

// C19 — configuration faithfulness: Caddyfile = JSON, documented defaults, nothing ignored,
// every valid combination provisions.

import (
	"context"
	"encoding/json"
	"fmt"
	"github.com/gr33nbl00d/caddy-revocation-validator/config"
	"math/rand"
	"os"
	"path/filepath"
	"sort"
	"strings"
	"time"

	"github.com/caddyserver/caddy/v2"
	"github.com/caddyserver/caddy/v2/caddyconfig/caddyfile"
	revocation "github.com/gr33nbl00d/caddy-revocation-validator"
)

func init() { commands["c19"] = runC19 }

// an assignment of the twelve documented options (absent = not set)
type assignment struct {
	Mode, WorkDir, Storage, Interval, SigMode, FetchMode, CacheDur *string
	CDPStrict, AIAStrict                                           *bool
	CDPStrictText, AIAStrictText                                   string // Caddyfile spelling of the boolean (default: true / false)
	CRLUrls, CRLFiles, TrustedSig, TrustedResp                     []string
	// deliberately wrong additions
	BadKey   string // "", "top", "crl", "cdp", "ocsp"
	BadValue string // "", "mode", "storage", "sig", "fetch", "interval", "cache", "strict"
}

func (a assignment) JSON() []byte {
	m := map[string]interface{}{}
	if a.Mode != nil {
		m["mode"] = *a.Mode
	}
	crl := map[string]interface{}{}
	cdp := map[string]interface{}{}
	oc := map[string]interface{}{}
	if a.WorkDir != nil {
		crl["work_dir"] = *a.WorkDir
	}
	if a.Storage != nil {
		crl["storage_type"] = *a.Storage
	}
	if a.Interval != nil {
		crl["update_interval"] = *a.Interval
	}
	if a.SigMode != nil {
		crl["signature_validation_mode"] = *a.SigMode
	}
	if a.CRLUrls != nil {
		crl["crl_urls"] = a.CRLUrls
	}
	if a.CRLFiles != nil {
		crl["crl_files"] = a.CRLFiles
	}
	if a.TrustedSig != nil {
		crl["trusted_signature_certs_files"] = a.TrustedSig
	}
	if a.FetchMode != nil {
		cdp["crl_fetch_mode"] = *a.FetchMode
	}
	if a.CDPStrict != nil {
		cdp["crl_cdp_strict"] = *a.CDPStrict
	}
	if a.CacheDur != nil {
		oc["default_cache_duration"] = *a.CacheDur
	}
	if a.TrustedResp != nil {
		oc["trusted_responder_certs_files"] = a.TrustedResp
	}
	if a.AIAStrict != nil {
		oc["ocsp_aia_strict"] = *a.AIAStrict
	}
	switch a.BadKey {
	case "top":
		m["mdoe"] = "crl_only"
	case "crl":
		crl["work_dri"] = "/tmp"
	case "cdp":
		cdp["crl_cdp_strcit"] = true
	case "ocsp":
		oc["ocsp_aia_stritc"] = true
	}
	if len(cdp) > 0 {
		crl["cdp_config"] = cdp
	}
	if len(crl) > 0 {
		m["crl_config"] = crl
	}
	if len(oc) > 0 {
		m["ocsp_config"] = oc
	}
	b, _ := json.Marshal(m)
	return b
}

func q(s string) string { return "\"" + strings.ReplaceAll(s, "\"", "\\\"") + "\"" }

func (a assignment) Caddyfile() string {
	var sb strings.Builder
	sb.WriteString("revocation {\n")
	if a.Mode != nil {
		fmt.Fprintf(&sb, "  mode %s\n", q(*a.Mode))
	}
	if a.BadKey == "top" {
		sb.WriteString("  mdoe crl_only\n")
	}
	crlLines, cdpLines, ocLines := []string{}, []string{}, []string{}
	if a.WorkDir != nil {
		crlLines = append(crlLines, "work_dir "+q(*a.WorkDir))
	}
	if a.Storage != nil {
		crlLines = append(crlLines, "storage_type "+q(*a.Storage))
	}
	if a.Interval != nil {
		crlLines = append(crlLines, "update_interval "+q(*a.Interval))
	}
	if a.SigMode != nil {
		crlLines = append(crlLines, "signature_validation_mode "+q(*a.SigMode))
	}
	for _, u := range a.CRLUrls {
		crlLines = append(crlLines, "crl_url "+q(u))
	}
	for _, u := range a.CRLFiles {
		crlLines = append(crlLines, "crl_file "+q(u))
	}
	for _, u := range a.TrustedSig {
		crlLines = append(crlLines, "trusted_signature_cert_file "+q(u))
	}
	if a.BadKey == "crl" {
		crlLines = append(crlLines, "work_dri /tmp")
	}
	if a.FetchMode != nil {
		cdpLines = append(cdpLines, "crl_fetch_mode "+q(*a.FetchMode))
	}
	if a.CDPStrict != nil {
		if a.CDPStrictText != "" {
			cdpLines = append(cdpLines, "crl_cdp_strict "+a.CDPStrictText)
		} else {
			cdpLines = append(cdpLines, fmt.Sprintf("crl_cdp_strict %v", *a.CDPStrict))
		}
	}
	if a.BadKey == "cdp" {
		cdpLines = append(cdpLines, "crl_cdp_strcit true")
	}
	if a.CacheDur != nil {
		ocLines = append(ocLines, "default_cache_duration "+q(*a.CacheDur))
	}
	for _, u := range a.TrustedResp {
		ocLines = append(ocLines, "trusted_responder_cert_file "+q(u))
	}
	if a.AIAStrict != nil {
		if a.AIAStrictText != "" {
			ocLines = append(ocLines, "ocsp_aia_strict "+a.AIAStrictText)
		} else {
			ocLines = append(ocLines, fmt.Sprintf("ocsp_aia_strict %v", *a.AIAStrict))
		}
	}
	if a.BadKey == "ocsp" {
		ocLines = append(ocLines, "ocsp_aia_stritc true")
	}
	if len(crlLines)+len(cdpLines) > 0 {
		sb.WriteString("  crl_config {\n")
		for _, l := range crlLines {
			sb.WriteString("    " + l + "\n")
		}
		if len(cdpLines) > 0 {
			sb.WriteString("    cdp_config {\n")
			for _, l := range cdpLines {
				sb.WriteString("      " + l + "\n")
			}
			sb.WriteString("    }\n")
		}
		sb.WriteString("  }\n")
	}
	if len(ocLines) > 0 {
		sb.WriteString("  ocsp_config {\n")
		for _, l := range ocLines {
			sb.WriteString("    " + l + "\n")
		}
		sb.WriteString("  }\n")
	}
	sb.WriteString("}\n")
	return sb.String()
}

// effective configuration after adapter + Provision, projected to comparable values
type effective struct {
	LoadErr      string   `json:"load_err,omitempty"`
	ProvisionErr string   `json:"provision_err,omitempty"`
	Mode         int      `json:"mode"`
	WorkDir      string   `json:"work_dir"`
	Storage      int      `json:"storage"`
	IntervalNs   int64    `json:"interval_ns"`
	SigMode      int      `json:"sigmode"`
	FetchMode    int      `json:"fetch"`
	CDPStrict    bool     `json:"cdp_strict"`
	CRLUrls      []string `json:"crl_urls"`
	CRLFiles     []string `json:"crl_files"`
	TrustedSig   int      `json:"trusted_sig_certs"`
	CacheNs      int64    `json:"cache_ns"`
	AIAStrict    bool     `json:"aia_strict"`
	TrustedResp  int      `json:"trusted_resp_certs"`
	HasCRLCfg    bool     `json:"has_crl_config"`
}

func errClassCfg(err error) string {
	if err == nil {
		return ""
	}
	if isPanic(err) {
		return "panic"
	}
	return "error"
}

func loadAndProvision(v *revocation.CertRevocationValidator, loadErr error) effective {
	var e effective
	if loadErr != nil {
		e.LoadErr = errClassCfg(loadErr)
		return e
	}
	ctx, cancel := caddy.NewContext(caddy.Context{Context: context.Background()})
	defer cancel()
	err := safeProvision(v, ctx)
	defer safeCleanup(v)
	if err != nil {
		e.ProvisionErr = errClassCfg(err)
		return e
	}
	e.Mode = int(v.ModeParsed)
	// the CRL block is only observable when the mode enables CRL checking (modes 3 = ocsp_only, 4 = disabled do not)
	if v.CRLConfig != nil && e.Mode != 3 && e.Mode != 4 {
		c := v.CRLConfig
		e.HasCRLCfg = true
		e.WorkDir, e.Storage, e.IntervalNs, e.SigMode = c.WorkDir, int(c.StorageTypeParsed), int64(c.UpdateIntervalParsed), int(c.SignatureValidationModeParsed)
		e.CRLUrls, e.CRLFiles, e.TrustedSig = append([]string{}, c.CRLUrls...), append([]string{}, c.CRLFiles...), len(c.TrustedSignatureCerts)
		if c.CDPConfig != nil {
			e.FetchMode, e.CDPStrict = int(c.CDPConfig.CRLFetchModeParsed), c.CDPConfig.CRLCDPStrict
		}
	}
	if v.OCSPConfig != nil {
		e.CacheNs, e.AIAStrict, e.TrustedResp = int64(v.OCSPConfig.DefaultCacheDurationParsed), v.OCSPConfig.OCSPAIAStrict, len(v.OCSPConfig.TrustedResponderCerts)
	}
	return e
}

func viaJSON(a assignment) effective {
	v := new(revocation.CertRevocationValidator)
	err := caddy.StrictUnmarshalJSON(a.JSON(), v)
	return loadAndProvision(v, err)
}

func viaCaddyfile(a assignment) (e effective) {
	v := new(revocation.CertRevocationValidator)
	var err error
	func() {
		defer func() {
			if r := recover(); r != nil {
				err = PanicError{r}
			}
		}()
		err = v.UnmarshalCaddyfile(caddyfile.NewTestDispenser(a.Caddyfile()))
	}()
	return loadAndProvision(v, err)
}

func sp(s string) *string { return &s }
func bp(b bool) *bool     { return &b }

func runC19(c *Ctx) {
	r := rand.New(rand.NewSource(c.Seed))
	primeGlobalStamp(c)
	// fixtures: a CA, an acceptable CRL file / URL, a trusted signer file
	w := NewWorld(c, "c19")
	defer w.Close()
	w.AddList("good", ListSpec{Serials: []int64{1, 2}})
	w.Do(sv("/crl", "good"))
	crlFile := filepath.Join(c.Work, "c19.crl")
	mustNoErr(os.WriteFile(crlFile, w.Lists["good"], 0600))
	signer := writeCertPEM(c, w.CA.Cert)
	wdN := 0
	newWD := func() string {
		wdN++
		return c.TempDir(fmt.Sprintf("c19wd_%d", wdN))
	}
	type tc struct {
		Name string     `json:"name"`
		A    assignment `json:"-"`
		J    effective  `json:"json"`
		C    effective  `json:"caddyfile"`
		Text string     `json:"caddyfile_text"`
	}
	var cases []*tc
	values := map[string][]string{
		"mode": {"prefer_ocsp", "prefer_crl", "ocsp_only", "crl_only", "disabled"}, "storage": {"memory", "disk"},
		"interval": {"45m", "1h30m", "90s"}, "sig": {"verify", "verify_log", "none"}, "fetch": {"fetch_actively", "fetch_background"},
		"cache": {"0s", "10m", "1h"},
	}
	// presence subsets: every option alone, all options, all-but-one, and random subsets (pairwise over values)
	mk := func(present map[string]bool, pick func(string) string) assignment {
		var a assignment
		if present["mode"] {
			a.Mode = sp(pick("mode"))
		}
		if present["work_dir"] {
			a.WorkDir = sp(newWD())
		}
		if present["storage"] {
			a.Storage = sp(pick("storage"))
		}
		if present["interval"] {
			a.Interval = sp(pick("interval"))
		}
		if present["sig"] {
			a.SigMode = sp(pick("sig"))
		}
		if present["fetch"] {
			a.FetchMode = sp(pick("fetch"))
		}
		if present["cache"] {
			a.CacheDur = sp(pick("cache"))
		}
		if present["cdp_strict"] {
			a.CDPStrict = bp(r.Intn(2) == 0)
		}
		if present["aia_strict"] {
			a.AIAStrict = bp(r.Intn(2) == 0)
		}
		if present["crl_urls"] {
			a.CRLUrls = []string{w.Org.URL("/crl")}
		}
		if present["crl_files"] {
			a.CRLFiles = []string{crlFile}
		}
		if present["trusted_sig"] {
			a.TrustedSig = []string{signer}
		}
		if present["trusted_resp"] {
			a.TrustedResp = []string{signer}
		}
		return a
	}
	opts := []string{"mode", "work_dir", "storage", "interval", "sig", "fetch", "cache", "cdp_strict", "aia_strict", "crl_urls", "crl_files", "trusted_sig", "trusted_resp"}
	rnd := func(k string) string { return values[k][r.Intn(len(values[k]))] }
	add := func(name string, a assignment) { cases = append(cases, &tc{Name: name, A: a}) }
	add("nothing", mk(map[string]bool{}, rnd))
	add("work_dir only", mk(map[string]bool{"work_dir": true}, rnd))
	for _, o := range opts {
		if o != "work_dir" {
			p := map[string]bool{"work_dir": true, o: true}
			if o == "crl_urls" || o == "crl_files" {
				p["trusted_sig"] = true // acceptable under the default 'verify' only with the signer trusted
			}
			add("work_dir+"+o, mk(p, rnd))
		}
	}
	for _, m := range values["mode"] {
		m := m
		add("mode "+m+" without crl_config", mk(map[string]bool{"mode": true}, func(string) string { return m }))
		add("mode "+m+" with everything", mk(func() map[string]bool {
			p := map[string]bool{}
			for _, o := range opts {
				p[o] = true
			}
			return p
		}(), func(k string) string {
			if k == "mode" {
				return m
			}
			return rnd(k)
		}))
	}
	// every pair (sig mode x fetch mode x storage) with configured CRLs and the signer trusted
	for _, sg := range values["sig"] {
		for _, f := range values["fetch"] {
			for _, st := range values["storage"] {
				sg, f, st := sg, f, st
				for _, src := range []string{"crl_urls", "crl_files"} {
					add(fmt.Sprintf("configured %s under %s/%s/%s", src, sg, f, st), mk(map[string]bool{"work_dir": true, "sig": true, "fetch": true, "storage": true, src: true, "trusted_sig": true},
						func(k string) string { return map[string]string{"sig": sg, "fetch": f, "storage": st}[k] }))
				}
			}
		}
	}
	nRandom := 40
	if c.Thorough() {
		nRandom = 600
	}
	for i := 0; i < nRandom; i++ {
		p := map[string]bool{"work_dir": r.Intn(8) != 0}
		for _, o := range opts {
			if o != "work_dir" && r.Intn(2) == 0 {
				p[o] = true
			}
		}
		if p["crl_urls"] || p["crl_files"] {
			p["trusted_sig"] = true
		}
		add(fmt.Sprintf("random-%d", i), mk(p, rnd))
	}
	// misspelt keys and invalid values at every level
	for _, bk := range []string{"top", "crl", "cdp", "ocsp"} {
		a := mk(map[string]bool{"work_dir": true, "mode": true}, rnd)
		a.BadKey = bk
		add("misspelt key at "+bk, a)
	}
	for _, bv := range []struct{ k, v string }{{"mode", "prefer_oscp"}, {"storage", "ssd"}, {"sig", "verfy"}, {"fetch", "fetch_lazily"}, {"interval", "soon"}, {"cache", "forever"}} {
		bv := bv
		p := map[string]bool{"work_dir": true, bv.k: true}
		a := mk(p, func(string) string { return bv.v })
		a.BadValue = bv.k
		add("invalid value for "+bv.k, a)
	}
	// spellings of the boolean options in the Caddyfile: whatever is accepted must mean what it says
	type spelling struct {
		text    string
		meaning int // 1 true, 0 false, -1 not a boolean: must be rejected
	}
	spellings := []spelling{{"true", 1}, {"false", 0}, {"True", 1}, {"TRUE", 1}, {"t", 1}, {"T", 1}, {"1", 1}, {"False", 0}, {"FALSE", 0}, {"f", 0}, {"F", 0}, {"0", 0},
		{"yes", -1}, {"no", -1}, {"on", -1}, {"off", -1}, {"maybe", -1}, {"2", -1}, {"tru", -1}, {"truee", -1}, {"\"\"", -1}}
	for _, opt := range []string{"cdp_strict", "aia_strict"} {
		for _, sp := range spellings {
			a := mk(map[string]bool{"work_dir": true}, rnd)
			tv := true
			if opt == "cdp_strict" {
				a.CDPStrict, a.CDPStrictText = &tv, sp.text
			} else {
				a.AIAStrict, a.AIAStrictText = &tv, sp.text
			}
			e := viaCaddyfile(a)
			ok := e.LoadErr == "" && e.ProvisionErr == ""
			got := e.CDPStrict
			if opt == "aia_strict" {
				got = e.AIAStrict
			}
			c.Count("bool-spelling")
			c.Nontrivial("bool|" + opt + "|" + sp.text)
			c.Rep.Cases++
			rep := map[string]interface{}{"option": opt, "caddyfile_value": sp.text, "accepted": ok, "effective": got, "caddyfile": a.Caddyfile()}
			switch {
			case sp.meaning == -1 && ok:
				c.Fail("", fmt.Sprintf("Caddyfile %s %s: not a boolean, but accepted (effective value %v)", opt, sp.text, got), rep)
			case sp.meaning >= 0 && ok && got != (sp.meaning == 1):
				c.Fail("", fmt.Sprintf("Caddyfile %s %s: accepted, but the effective value is %v", opt, sp.text, got), rep)
			case (sp.text == "true" || sp.text == "false") && !ok:
				c.Fail("", fmt.Sprintf("Caddyfile %s %s: rejected: %s%s", opt, sp.text, e.LoadErr, e.ProvisionErr), rep)
			}
		}
	}
	var items []string
	for i, t := range cases {
		t.Text = t.A.Caddyfile()
		t.J = viaJSON(t.A)
		t.C = viaCaddyfile(t.A)
		c.Count(fmt.Sprintf("json_ok=%v", t.J.LoadErr == "" && t.J.ProvisionErr == ""))
		c.Count(fmt.Sprintf("caddyfile_ok=%v", t.C.LoadErr == "" && t.C.ProvisionErr == ""))
		jb, _ := json.Marshal(t.J)
		cb, _ := json.Marshal(t.C)
		bad := t.A.BadKey != "" || t.A.BadValue != ""
		jOK := t.J.LoadErr == "" && t.J.ProvisionErr == ""
		cOK := t.C.LoadErr == "" && t.C.ProvisionErr == ""
		switch {
		case bad:
			if jOK {
				c.Fail("", t.Name+": accepted in JSON", t)
			}
			if cOK {
				tag := ""
				c.Fail(tag, t.Name+": accepted in the Caddyfile", t)
			}
		default:
			if jOK != cOK || (jOK && string(jb) != string(cb)) {
				c.Fail("", fmt.Sprintf("%s: Caddyfile and JSON disagree: json=%s caddyfile=%s", t.Name, jb, cb), t)
			}
			// valid combinations provision (CRL checking needs a work_dir)
			crlOn := t.A.Mode == nil || *t.A.Mode == "prefer_ocsp" || *t.A.Mode == "prefer_crl" || *t.A.Mode == "crl_only"
			valid := !crlOn || t.A.WorkDir != nil
			if valid && !jOK {
				c.Fail("", t.Name+": a valid combination does not provision (JSON): "+t.J.LoadErr+t.J.ProvisionErr, t)
			}
			if !valid && jOK {
				c.Fail("", t.Name+": CRL checking enabled without work_dir was accepted", t)
			}
			// faithfulness: every option that was set has exactly the value it was given (both syntaxes agree, so JSON is judged)
			if jOK {
				wantMode := map[string]int{"prefer_ocsp": int(config.RevocationCheckModePreferOCSP), "prefer_crl": int(config.RevocationCheckModePreferCRL), "crl_only": int(config.RevocationCheckModeCRLOnly), "ocsp_only": int(config.RevocationCheckModeOCSPOnly), "disabled": int(config.RevocationCheckModeDisabled)}
				wantStorage := map[string]int{"memory": int(config.Memory), "disk": int(config.Disk)}
				wantSig := map[string]int{"none": int(config.SignatureValidationModeNone), "verify_log": int(config.SignatureValidationModeVerifyLog), "verify": int(config.SignatureValidationModeVerify)}
				wantFetch := map[string]int{"fetch_actively": int(config.CRLFetchModeActively), "fetch_background": int(config.CRLFetchModeBackground)}
				unfaithful := func(opt string, given, got interface{}) {
					c.Fail("", fmt.Sprintf("%s: option %s was configured as %v but the effective value is %v", t.Name, opt, given, got), t)
				}
				if t.A.Mode != nil && t.J.Mode != wantMode[*t.A.Mode] {
					unfaithful("mode", *t.A.Mode, t.J.Mode)
				}
				if t.J.HasCRLCfg {
					if t.A.Storage != nil && t.J.Storage != wantStorage[*t.A.Storage] {
						unfaithful("storage_type", *t.A.Storage, t.J.Storage)
					}
					if t.A.SigMode != nil && t.J.SigMode != wantSig[*t.A.SigMode] {
						unfaithful("signature_validation_mode", *t.A.SigMode, t.J.SigMode)
					}
					if t.A.FetchMode != nil && t.J.FetchMode != wantFetch[*t.A.FetchMode] {
						unfaithful("crl_fetch_mode", *t.A.FetchMode, t.J.FetchMode)
					}
					if t.A.CDPStrict != nil && t.J.CDPStrict != *t.A.CDPStrict {
						unfaithful("crl_cdp_strict", *t.A.CDPStrict, t.J.CDPStrict)
					}
					if t.A.Interval != nil {
						if d, err := time.ParseDuration(*t.A.Interval); err == nil && t.J.IntervalNs != int64(d) {
							unfaithful("update_interval", *t.A.Interval, t.J.IntervalNs)
						}
					}
					if t.A.WorkDir != nil && t.J.WorkDir != *t.A.WorkDir {
						unfaithful("work_dir", *t.A.WorkDir, t.J.WorkDir)
					}
					if len(t.A.CRLUrls) != len(t.J.CRLUrls) || len(t.A.CRLFiles) != len(t.J.CRLFiles) || len(t.A.TrustedSig) != t.J.TrustedSig {
						unfaithful("crl_urls/crl_files/trusted_signature_certs_files", fmt.Sprint(len(t.A.CRLUrls), len(t.A.CRLFiles), len(t.A.TrustedSig)), fmt.Sprint(len(t.J.CRLUrls), len(t.J.CRLFiles), t.J.TrustedSig))
					}
				}
				if t.A.AIAStrict != nil && t.J.AIAStrict != *t.A.AIAStrict {
					unfaithful("ocsp_aia_strict", *t.A.AIAStrict, t.J.AIAStrict)
				}
				if t.A.CacheDur != nil {
					if d, err := time.ParseDuration(*t.A.CacheDur); err == nil && t.J.CacheNs != int64(d) {
						unfaithful("default_cache_duration", *t.A.CacheDur, t.J.CacheNs)
					}
				}
				if len(t.A.TrustedResp) != t.J.TrustedResp {
					unfaithful("trusted_responder_certs_files", len(t.A.TrustedResp), t.J.TrustedResp)
				}
			}
			// documented defaults
			if jOK {
				if t.A.Mode == nil && t.J.Mode != int(config.RevocationCheckModePreferOCSP) {
					c.Fail("", "default mode is not prefer_ocsp", t)
				}
				if t.J.HasCRLCfg {
					if t.A.Storage == nil && t.J.Storage != int(config.Disk) {
						c.Fail("", "default storage is not disk", t)
					}
					if t.A.Interval == nil && t.J.IntervalNs != 30*60*1e9 {
						c.Fail("", "default update_interval is not 30m", t)
					}
					if t.A.SigMode == nil && t.J.SigMode != int(config.SignatureValidationModeVerify) {
						c.Fail("", "default signature_validation_mode is not verify", t)
					}
					if t.A.FetchMode == nil && t.J.FetchMode != int(config.CRLFetchModeActively) {
						c.Fail("", "default crl_fetch_mode is not fetch_actively", t)
					}
					if t.A.CDPStrict == nil && t.J.CDPStrict {
						c.Fail("", "default crl_cdp_strict is not false", t)
					}
				}
				if t.A.CacheDur == nil && t.J.CacheNs != 0 {
					c.Fail("", "default cache duration is not 0", t)
				}
				if t.A.AIAStrict == nil && t.J.AIAStrict {
					c.Fail("", "default ocsp_aia_strict is not false", t)
				}
			}
		}
		c.Nontrivial(t.Name)
		if i%17 == 0 {
			c.Sample(t)
		}
		if !bad && jOK {
			items = append(items, c19Coq(i, t.A, t.J))
		}
	}
	sort.Strings(items)
	c.WriteCoqSharded("cases_C19", "From Verif Require Import Base Config RunConfig.\nOpen Scope string_scope.\n", "cfcase", items, "config_mismatches", 100)
	c.Rep.Cases += len(cases)
	c.Rep.Rule = "option assignments rendered as JSON and as Caddyfile, loaded (StrictUnmarshalJSON / UnmarshalCaddyfile) and provisioned: nothing, each option alone, each mode with and without everything, configured CRLs under every signature x fetch x storage combination, random subsets with random values; misspelt keys at the four nesting levels and invalid values for six options; compared: effective parsed configuration, error class; distinct by assignment"
}

func optS(p *string) string {
	if p == nil {
		return "None"
	}
	return "(Some " + coqStr(*p) + ")"
}
func optB(p *bool) string {
	if p == nil {
		return "None"
	}
	return "(Some " + coqBool(*p) + ")"
}

func c19Coq(i int, a assignment, e effective) string {
	return fmt.Sprintf("mk_cf %d %s %s %s %s %s %s %s %s (%d, %d, %d, %d, %d, %s, %d, %s)%%Z", i,
		optS(a.Mode), optS(a.Storage), optS(a.Interval), optS(a.SigMode), optS(a.FetchMode), optB(a.CDPStrict), optS(a.CacheDur), optB(a.AIAStrict),
		e.Mode, e.Storage, e.IntervalNs, e.SigMode, e.FetchMode, coqBool(e.CDPStrict), e.CacheNs, coqBool(e.AIAStrict))
}
