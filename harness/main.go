package main

import (
	"encoding/json"
	"flag"
	"fmt"
	"log"
	"os"
	"path/filepath"
	"runtime/debug"
	"sort"
	"strings"
)

// Report is what every sub-command writes to <out>/<id>.json; the Python driver combines it
// with the result of evaluating the Coq case file.
type Report struct {
	Property   string         `json:"property"`
	Seed       int64          `json:"seed"`
	Tier       string         `json:"tier"`
	Cases      int            `json:"cases"`
	Nontrivial int            `json:"distinct_nontrivial"`
	Rule       string         `json:"rule"`
	Dist       map[string]int `json:"distribution"`
	Samples    []interface{}  `json:"samples"`
	// failures of direct property oracles on the implementation
	OracleFailures []OracleFailure        `json:"oracle_failures"`
	CoqCases       []string               `json:"coq_case_files"`
	Extra          map[string]interface{} `json:"extra,omitempty"`
}

type OracleFailure struct {
	Tag    string      `json:"tag"` // cause tag; "" when unexplained
	What   string      `json:"what"`
	Replay interface{} `json:"replay"` // concrete input / history
}

type Ctx struct {
	ID    string
	Seed  int64
	Tier  string
	Out   string // output directory for report and case files
	Work  string // scratch directory (wiped by the driver)
	Rep   *Report
	dist  map[string]int
	nontr map[string]bool
}

func (c *Ctx) Thorough() bool        { return c.Tier == "thorough" }
func (c *Ctx) Count(k string)        { c.Rep.Dist[k]++ }
func (c *Ctx) Nontrivial(key string) { c.nontr[key] = true }
func (c *Ctx) Sample(s interface{}) {
	if len(c.Rep.Samples) < 6 {
		c.Rep.Samples = append(c.Rep.Samples, s)
	}
}
func (c *Ctx) Fail(tag, what string, replay interface{}) {
	c.Rep.OracleFailures = append(c.Rep.OracleFailures, OracleFailure{tag, what, replay})
}
func (c *Ctx) TempDir(name string) string {
	d := filepath.Join(c.Work, name)
	os.RemoveAll(d)
	mustNoErr(os.MkdirAll(d, 0700))
	return d
}

// WriteCoq writes a Coq case file and registers it.
func (c *Ctx) WriteCoq(name string, body string) {
	p := filepath.Join(c.Out, name)
	mustNoErr(os.WriteFile(p, []byte(body), 0644))
	c.Rep.CoqCases = append(c.Rep.CoqCases, name)
}

var commands = map[string]func(*Ctx){}

func main() {
	log.SetOutput(os.Stderr)
	if len(os.Args) < 2 {
		var ids []string
		for k := range commands {
			ids = append(ids, k)
		}
		sort.Strings(ids)
		fmt.Fprintln(os.Stderr, "usage: harness <id> --out dir --work dir --seed n --tier quick|thorough; ids:", strings.Join(ids, " "))
		os.Exit(2)
	}
	id := os.Args[1]
	fs := flag.NewFlagSet(id, flag.ExitOnError)
	out := fs.String("out", ".", "")
	work := fs.String("work", "", "")
	seed := fs.Int64("seed", 1, "")
	tier := fs.String("tier", "quick", "")
	fs.Parse(os.Args[2:])
	cmd, ok := commands[strings.ToLower(id)]
	if !ok {
		fmt.Fprintln(os.Stderr, "unknown id", id)
		os.Exit(2)
	}
	if *work == "" {
		*work = filepath.Join(*out, "work")
	}
	mustNoErr(os.MkdirAll(*out, 0755))
	mustNoErr(os.MkdirAll(*work, 0755))
	c := &Ctx{ID: strings.ToUpper(id), Seed: *seed, Tier: *tier, Out: *out, Work: *work,
		Rep:   &Report{Property: strings.ToUpper(id), Seed: *seed, Tier: *tier, Dist: map[string]int{}, OracleFailures: []OracleFailure{}, Extra: map[string]interface{}{}},
		nontr: map[string]bool{}}
	func() {
		// a panic on the main goroutine while the implementation is being driven is an observation, not a reason
		// to lose the report: it is recorded as a failure of the check
		defer func() {
			if r := recover(); r != nil {
				c.Fail("", fmt.Sprintf("the run stopped with a panic (harness main goroutine): %v\n%s", r, tail(string(debug.Stack()), 1800)), nil)
			}
		}()
		cmd(c)
	}()
	c.Rep.Nontrivial = len(c.nontr)
	b, _ := json.MarshalIndent(c.Rep, "", " ")
	mustNoErr(os.WriteFile(filepath.Join(*out, c.ID+".json"), b, 0644))
}

// ---- helpers to print Coq literals
func coqStr(s string) string { return "\"" + strings.ReplaceAll(s, "\"", "\"\"") + "\"" }
func coqBool(b bool) string {
	if b {
		return "true"
	}
	return "false"
}
func coqHex(b []byte) string { return fmt.Sprintf("\"%x\"", b) }

// coqPk writes a byte string as (pk <len> [7-byte words as primitive ints]).
func coqPk(b []byte) string {
	var sb strings.Builder
	fmt.Fprintf(&sb, "(pk %d [", len(b))
	for i := 0; i < len(b); i += 7 {
		var w uint64
		for j := 0; j < 7; j++ {
			w <<= 8
			if i+j < len(b) {
				w |= uint64(b[i+j])
			}
		}
		if i > 0 {
			sb.WriteString(";")
		}
		fmt.Fprintf(&sb, "0x%x", w)
	}
	sb.WriteString("])")
	return sb.String()
}

// coqChunkedList emits `Definition <name> : list <typ> := chunk0 ++ chunk1 ++ ...` with the
// items spread over small definitions (Coq's list notation parses super-linearly).
func coqChunkedList(name, typ string, items []string) string {
	var sb strings.Builder
	const chunk = 64
	n := 0
	for i := 0; i < len(items); i += chunk {
		j := i + chunk
		if j > len(items) {
			j = len(items)
		}
		fmt.Fprintf(&sb, "Definition %s_%d : list (%s) := [\n %s\n].\n", name, n, typ, strings.Join(items[i:j], ";\n "))
		n++
	}
	fmt.Fprintf(&sb, "Definition %s : list (%s) := List.concat [", name, typ)
	for k := 0; k < n; k++ {
		if k > 0 {
			sb.WriteString("; ")
		}
		fmt.Fprintf(&sb, "%s_%d", name, k)
	}
	sb.WriteString("].\n")
	return sb.String()
}

// WriteCoqSharded spreads the items over several self-contained case files, each ending with
// `Definition M := Eval vm_compute in <eval> cases. Print M.`; the driver runs them in parallel.
func (c *Ctx) WriteCoqSharded(prefix, header, typ string, items []string, eval string, perShard int) {
	if perShard <= 0 {
		perShard = 100
	}
	n := 0
	for i := 0; i < len(items) || (i == 0 && len(items) == 0); i += perShard {
		j := i + perShard
		if j > len(items) {
			j = len(items)
		}
		var sb strings.Builder
		sb.WriteString(header)
		sb.WriteString(coqChunkedList("cases", typ, items[i:j]))
		fmt.Fprintf(&sb, "Definition M := Eval vm_compute in %s cases.\nPrint M.\n", eval)
		c.WriteCoq(fmt.Sprintf("%s_%02d.v", prefix, n), sb.String())
		n++
		if len(items) == 0 {
			break
		}
	}
}
