package main

// Test PKI: CAs, leaves, CRLs assembled by hand from an abstract document (so that v1 lists,
// lists without extensions, GeneralizedTime dates, arbitrary entry shapes and every
// signature algorithm can be produced), OCSP responses.

import (
	"crypto"
	"crypto/ecdsa"
	"crypto/elliptic"
	"crypto/rand"
	"crypto/rsa"
	"crypto/sha1"
	"crypto/x509"
	"crypto/x509/pkix"
	"encoding/asn1"
	"encoding/base64"
	"fmt"
	"math/big"
	"sync"
	"time"
)

type CA struct {
	Cert *x509.Certificate
	Key  crypto.Signer
}

type Leaf struct {
	Cert *x509.Certificate
	Key  crypto.Signer
}

var rsaPool struct {
	sync.Mutex
	keys []*rsa.PrivateKey
	next int
}

// RSA keys are expensive: keep a small pool and hand them out round-robin.
func rsaKey() *rsa.PrivateKey {
	rsaPool.Lock()
	defer rsaPool.Unlock()
	if len(rsaPool.keys) < 3 {
		k, err := rsa.GenerateKey(rand.Reader, 2048)
		if err != nil {
			panic(err)
		}
		rsaPool.keys = append(rsaPool.keys, k)
		return k
	}
	rsaPool.next++
	return rsaPool.keys[rsaPool.next%len(rsaPool.keys)]
}

func ecKey() *ecdsa.PrivateKey {
	k, err := ecdsa.GenerateKey(elliptic.P256(), rand.Reader)
	if err != nil {
		panic(err)
	}
	return k
}

func newKey(rsaAlg bool) crypto.Signer {
	if rsaAlg {
		return rsaKey()
	}
	return ecKey()
}

var serialCounter int64 = 1000
var serialMu sync.Mutex

func nextSerial() *big.Int {
	serialMu.Lock()
	defer serialMu.Unlock()
	serialCounter++
	return big.NewInt(serialCounter)
}

func ski(pub crypto.PublicKey) []byte {
	b, _ := x509.MarshalPKIXPublicKey(pub)
	h := sha1.Sum(b)
	return h[:]
}

type CAOpts struct {
	Name       pkix.Name
	RSA        bool
	KeyUsage   x509.KeyUsage // 0 => CertSign|CRLSign
	NoKU       bool
	Serial     *big.Int
	RawSubject []byte // DER Name used verbatim as the subject (attribute order and types as given)
	OCSPSign   bool   // EKU OCSPSigning (for delegated responders)
	NotCA      bool
	Key        crypto.Signer // default: a fresh key (a renamed CA keeps its key: same key identifier, other name)
}

func NewRootCA(cn string, rsaAlg bool) *CA {
	return newCert(nil, CAOpts{Name: pkix.Name{CommonName: cn, Organization: []string{"verif"}}, RSA: rsaAlg})
}

func (parent *CA) NewSubCA(cn string, rsaAlg bool) *CA {
	return newCert(parent, CAOpts{Name: pkix.Name{CommonName: cn, Organization: []string{"verif"}}, RSA: rsaAlg})
}

func newCert(parent *CA, o CAOpts) *CA {
	key := o.Key
	if key == nil {
		key = newKey(o.RSA)
	}
	ku := o.KeyUsage
	if ku == 0 && !o.NoKU {
		ku = x509.KeyUsageCertSign | x509.KeyUsageCRLSign
	}
	serial := o.Serial
	if serial == nil {
		serial = nextSerial()
	}
	tmpl := &x509.Certificate{
		SerialNumber:          serial,
		Subject:               o.Name,
		NotBefore:             time.Now().Add(-time.Hour),
		NotAfter:              time.Now().Add(24 * time.Hour),
		KeyUsage:              ku,
		BasicConstraintsValid: true,
		IsCA:                  !o.NotCA,
		SubjectKeyId:          ski(key.Public()),
	}
	if o.OCSPSign {
		tmpl.ExtKeyUsage = []x509.ExtKeyUsage{x509.ExtKeyUsageOCSPSigning}
	}
	if o.RawSubject != nil {
		tmpl.RawSubject = o.RawSubject
	}
	signerCert, signerKey := tmpl, key
	if parent != nil {
		signerCert, signerKey = parent.Cert, parent.Key
	}
	der, err := x509.CreateCertificate(rand.Reader, tmpl, signerCert, key.Public(), signerKey)
	if err != nil {
		panic(err)
	}
	c, err := x509.ParseCertificate(der)
	if err != nil {
		panic(err)
	}
	return &CA{Cert: c, Key: key}
}

type LeafOpts struct {
	CN     string
	Name   *pkix.Name
	Serial *big.Int
	CDP    []string
	OCSP   []string
	RSA    bool
	KU     *x509.KeyUsage // default: digitalSignature; 0 = no keyUsage extension
	NoAKI  bool           // no authorityKeyIdentifier extension
	NoSKI  bool           // no subjectKeyIdentifier extension (what x509.CreateCertificate produces for end entities by default)
}

func (ca *CA) IssueLeaf(o LeafOpts) *Leaf {
	key := newKey(o.RSA)
	serial := o.Serial
	if serial == nil {
		serial = nextSerial()
	}
	name := pkix.Name{CommonName: o.CN}
	if o.Name != nil {
		name = *o.Name
	}
	tmpl := &x509.Certificate{
		SerialNumber:          serial,
		Subject:               name,
		NotBefore:             time.Now().Add(-time.Hour),
		NotAfter:              time.Now().Add(24 * time.Hour),
		KeyUsage:              x509.KeyUsageDigitalSignature,
		ExtKeyUsage:           []x509.ExtKeyUsage{x509.ExtKeyUsageClientAuth},
		CRLDistributionPoints: o.CDP,
		OCSPServer:            o.OCSP,
		SubjectKeyId:          ski(key.Public()),
	}
	if o.NoSKI {
		tmpl.SubjectKeyId = nil
	}
	if o.KU != nil {
		tmpl.KeyUsage = *o.KU
	}
	parent := ca.Cert
	if o.NoAKI {
		cp := *ca.Cert
		cp.SubjectKeyId = nil // CreateCertificate copies the parent's SKI into the child's AKI
		parent = &cp
	}
	der, err := x509.CreateCertificate(rand.Reader, tmpl, parent, key.Public(), ca.Key)
	if err != nil {
		panic(err)
	}
	c, err := x509.ParseCertificate(der)
	if err != nil {
		panic(err)
	}
	return &Leaf{Cert: c, Key: key}
}

// ---------------------------------------------------------------- CRL documents

// Doc is the abstract CRL document.  Every field is raw DER so that the same value can be
// written into the Coq case file and encoded by the model's encode_crl.
type Doc struct {
	Version    int      // 1 => version field absent, 2 => INTEGER 1, n>2 => INTEGER n-1
	InnerAlg   []byte   // AlgorithmIdentifier TLV inside tbsCertList
	Issuer     []byte   // Name TLV
	ThisUpdate []byte   // Time TLV
	NextUpdate []byte   // Time TLV or nil
	HasList    bool     // revokedCertificates present
	Entries    [][]byte // each a SEQUENCE TLV
	Exts       []byte   // SEQUENCE OF Extension TLV or nil (wrapped in [0] EXPLICIT)
	OuterAlg   []byte   // AlgorithmIdentifier TLV
	SigBits    []byte   // BIT STRING content without the unused-bits octet
}

func derLen(n int) []byte {
	if n < 128 {
		return []byte{byte(n)}
	}
	var b []byte
	for m := n; m > 0; m >>= 8 {
		b = append([]byte{byte(m)}, b...)
	}
	return append([]byte{0x80 | byte(len(b))}, b...)
}

func tlv(tag byte, content []byte) []byte {
	out := append([]byte{tag}, derLen(len(content))...)
	return append(out, content...)
}

func (d *Doc) TBS() []byte {
	var c []byte
	if d.Version != 1 {
		c = append(c, 0x02, 0x01, byte(d.Version-1))
	}
	c = append(c, d.InnerAlg...)
	c = append(c, d.Issuer...)
	c = append(c, d.ThisUpdate...)
	c = append(c, d.NextUpdate...)
	if d.HasList {
		var l []byte
		for _, e := range d.Entries {
			l = append(l, e...)
		}
		c = append(c, tlv(0x30, l)...)
	}
	if d.Exts != nil {
		c = append(c, tlv(0xA0, d.Exts)...)
	}
	return tlv(0x30, c)
}

func (d *Doc) DER() []byte {
	c := d.TBS()
	c = append(c, d.OuterAlg...)
	c = append(c, tlv(0x03, append([]byte{0}, d.SigBits...))...)
	return tlv(0x30, c)
}

func PEMEncode(der []byte, crlf bool) []byte {
	eol := "\n"
	if crlf {
		eol = "\r\n"
	}
	s := base64.StdEncoding.EncodeToString(der)
	out := "-----BEGIN X509 CRL-----" + eol
	for len(s) > 64 {
		out += s[:64] + eol
		s = s[64:]
	}
	if len(s) > 0 {
		out += s + eol
	}
	out += "-----END X509 CRL-----" + eol
	return []byte(out)
}

type SigAlg struct {
	Name string
	OID  asn1.ObjectIdentifier
	Hash crypto.Hash
	RSA  bool
	PSS  bool
}

var SigAlgs = []SigAlg{
	{"sha256WithRSA", asn1.ObjectIdentifier{1, 2, 840, 113549, 1, 1, 11}, crypto.SHA256, true, false},
	{"ecdsaWithSHA256", asn1.ObjectIdentifier{1, 2, 840, 10045, 4, 3, 2}, crypto.SHA256, false, false},
	{"sha1WithRSA", asn1.ObjectIdentifier{1, 2, 840, 113549, 1, 1, 5}, crypto.SHA1, true, false},
	{"sha224WithRSA", asn1.ObjectIdentifier{1, 2, 840, 113549, 1, 1, 14}, crypto.SHA224, true, false},
	{"sha384WithRSA", asn1.ObjectIdentifier{1, 2, 840, 113549, 1, 1, 12}, crypto.SHA384, true, false},
	{"sha512WithRSA", asn1.ObjectIdentifier{1, 2, 840, 113549, 1, 1, 13}, crypto.SHA512, true, false},
	{"ecdsaWithSHA1", asn1.ObjectIdentifier{1, 2, 840, 10045, 4, 1}, crypto.SHA1, false, false},
	{"ecdsaWithSHA224", asn1.ObjectIdentifier{1, 2, 840, 10045, 4, 3, 1}, crypto.SHA224, false, false},
	{"ecdsaWithSHA384", asn1.ObjectIdentifier{1, 2, 840, 10045, 4, 3, 3}, crypto.SHA384, false, false},
	{"ecdsaWithSHA512", asn1.ObjectIdentifier{1, 2, 840, 10045, 4, 3, 4}, crypto.SHA512, false, false},
}

func (a SigAlg) AlgID() []byte {
	var params asn1.RawValue
	if a.RSA {
		params = asn1.NullRawValue
	}
	b, err := asn1.Marshal(pkix.AlgorithmIdentifier{Algorithm: a.OID, Parameters: params})
	if err != nil {
		panic(err)
	}
	return b
}

func defaultAlgFor(key crypto.Signer) SigAlg {
	if _, ok := key.(*rsa.PrivateKey); ok {
		return SigAlgs[0]
	}
	return SigAlgs[1]
}

func signDigest(key crypto.Signer, h crypto.Hash, msg []byte) []byte {
	hh := h.New()
	hh.Write(msg)
	sig, err := key.Sign(rand.Reader, hh.Sum(nil), h)
	if err != nil {
		panic(err)
	}
	return sig
}

func utcTimeTLV(t time.Time) []byte {
	return tlv(0x17, []byte(t.UTC().Format("060102150405Z")))
}

func genTimeTLV(t time.Time) []byte {
	return tlv(0x18, []byte(t.UTC().Format("20060102150405Z")))
}

func intTLV(n *big.Int) []byte {
	b, err := asn1.Marshal(n)
	if err != nil {
		panic(err)
	}
	return b
}

// EntryOpts describes one revokedCertificates entry.
type EntryOpts struct {
	Serial   *big.Int
	When     time.Time
	GenTime  bool
	Reason   int  // 0 => no reason extension
	ExtraExt bool // add an invalidityDate extension
}

func EntryTLV(o EntryOpts) []byte {
	c := intTLV(o.Serial)
	when := o.When
	if when.IsZero() {
		when = time.Date(2024, 1, 2, 3, 4, 5, 0, time.UTC)
	}
	if o.GenTime {
		c = append(c, genTimeTLV(when)...)
	} else {
		c = append(c, utcTimeTLV(when)...)
	}
	var exts []byte
	if o.Reason > 0 {
		val, _ := asn1.Marshal(asn1.Enumerated(o.Reason))
		e, _ := asn1.Marshal(pkix.Extension{Id: asn1.ObjectIdentifier{2, 5, 29, 21}, Value: val})
		exts = append(exts, e...)
	}
	if o.ExtraExt {
		val := genTimeTLV(when.Add(-time.Hour))
		e, _ := asn1.Marshal(pkix.Extension{Id: asn1.ObjectIdentifier{2, 5, 29, 24}, Value: val})
		exts = append(exts, e...)
	}
	if exts != nil {
		c = append(c, tlv(0x30, exts)...)
	}
	return tlv(0x30, c)
}

type CRLOpts struct {
	Version         int // 0 => 2
	Entries         []EntryOpts
	RawEntries      [][]byte
	NoList          bool // omit revokedCertificates even if empty... (DER: omitted when empty)
	ForceList       bool // emit an empty revokedCertificates SEQUENCE
	NoExts          bool
	NoAKI           bool
	AKIIssuerSerial bool // AKI with issuer+serial instead of keyId
	AKIBoth         bool
	Number          *big.Int
	NoNumber        bool
	CriticalExt     asn1.ObjectIdentifier // add an unhandled critical extension
	ExtraExtPad     int                   // bytes of padding carried in a non-critical private extension
	ThisUpdate      time.Time
	NextUpdate      time.Time
	NoNextUpdate    bool
	Alg             *SigAlg
	SignKey         crypto.Signer // default: the CA key
	IssuerRaw       []byte        // default: CA subject
	AKIKeyId        []byte        // default: CA subject key id
	BadSig          bool
}

type akiStruct struct {
	KeyId  []byte        `asn1:"optional,tag:0"`
	Issuer asn1.RawValue `asn1:"optional,tag:1"`
	Serial *big.Int      `asn1:"optional,tag:2"`
}

func (ca *CA) MakeDoc(o CRLOpts) *Doc {
	d := &Doc{Version: o.Version}
	if d.Version == 0 {
		d.Version = 2
	}
	key := o.SignKey
	if key == nil {
		key = ca.Key
	}
	alg := defaultAlgFor(key)
	if o.Alg != nil {
		alg = *o.Alg
	}
	d.InnerAlg = alg.AlgID()
	d.OuterAlg = alg.AlgID()
	d.Issuer = ca.Cert.RawSubject
	if o.IssuerRaw != nil {
		d.Issuer = o.IssuerRaw
	}
	tu := o.ThisUpdate
	if tu.IsZero() {
		tu = time.Now().Add(-time.Hour)
	}
	d.ThisUpdate = utcTimeTLV(tu)
	if !o.NoNextUpdate {
		nu := o.NextUpdate
		if nu.IsZero() {
			nu = time.Now().Add(24 * time.Hour)
		}
		d.NextUpdate = utcTimeTLV(nu)
	}
	for _, e := range o.Entries {
		d.Entries = append(d.Entries, EntryTLV(e))
	}
	d.Entries = append(d.Entries, o.RawEntries...)
	d.HasList = (len(d.Entries) > 0 || o.ForceList) && !o.NoList
	if !o.NoExts && d.Version >= 2 {
		var exts []byte
		if !o.NoAKI {
			a := akiStruct{}
			kid := o.AKIKeyId
			if kid == nil {
				kid = ca.Cert.SubjectKeyId
			}
			if !o.AKIIssuerSerial || o.AKIBoth {
				a.KeyId = kid
			}
			if o.AKIIssuerSerial || o.AKIBoth {
				// GeneralNames ::= SEQUENCE OF GeneralName; [1] IMPLICIT GeneralNames containing directoryName [4] EXPLICIT Name
				dn := tlv(0xA4, ca.Cert.RawIssuer)
				a.Issuer = asn1.RawValue{FullBytes: tlv(0xA1, dn)}
				a.Serial = ca.Cert.SerialNumber
			}
			val, err := asn1.Marshal(a)
			if err != nil {
				panic(err)
			}
			e, _ := asn1.Marshal(pkix.Extension{Id: asn1.ObjectIdentifier{2, 5, 29, 35}, Value: val})
			exts = append(exts, e...)
		}
		if !o.NoNumber {
			n := o.Number
			if n == nil {
				n = big.NewInt(1)
			}
			e, _ := asn1.Marshal(pkix.Extension{Id: asn1.ObjectIdentifier{2, 5, 29, 20}, Value: intTLV(n)})
			exts = append(exts, e...)
		}
		if o.CriticalExt != nil {
			e, _ := asn1.Marshal(pkix.Extension{Id: o.CriticalExt, Critical: true, Value: []byte{0x05, 0x00}})
			exts = append(exts, e...)
		}
		if o.ExtraExtPad > 0 {
			e, _ := asn1.Marshal(pkix.Extension{Id: asn1.ObjectIdentifier{1, 3, 6, 1, 4, 1, 99999, 1}, Value: tlv(0x04, make([]byte, o.ExtraExtPad))})
			exts = append(exts, e...)
		}
		d.Exts = tlv(0x30, exts)
	}
	if alg.PSS {
		panic("pss not produced here")
	}
	d.SigBits = signDigest(key, alg.Hash, d.TBS())
	if o.BadSig {
		d.SigBits[len(d.SigBits)/2] ^= 0x40
	}
	return d
}

func (ca *CA) MakeCRL(o CRLOpts) []byte { return ca.MakeDoc(o).DER() }

func serials(ns ...int64) []EntryOpts {
	var out []EntryOpts
	for _, n := range ns {
		out = append(out, EntryOpts{Serial: big.NewInt(n)})
	}
	return out
}

func mustNoErr(err error) {
	if err != nil {
		panic(fmt.Sprintf("harness internal error: %v", err))
	}
}
