package main

// C16 — "under 'verify' a CRL that fails verification is never in force, neither now nor after a
// restart".  The restart may come with a changed configuration: a list that was acceptable when it was
// persisted (verify_log / none, or its signer was a configured trusted signer) must not be in force
// under verify afterwards.  Oracle: what the restarted validator does equals what a validator started
// on an empty work_dir with the same (new) configuration does.

import (
	"fmt"
	"strings"
)

type c16Restart struct {
	Name    string `json:"name"`
	Storage string `json:"storage"`
	Source  string `json:"source"`
	Before  string `json:"before_restart"`
	After   string `json:"after_restart"`
	Fresh   string `json:"fresh_work_dir_same_configuration"`
}

func c16RestartStage(c *Ctx) {
	type change struct {
		name          string
		list          string // histLists key: "unknown" (signed by a CA outside the chain) | "badsig"
		sig1, sig2    string
		trust1, trust bool // stranger configured as trusted signer before / after
	}
	changes := []change{
		{"verify_log then verify, signer unknown", "unknown", "verify_log", "verify", false, false},
		{"none then verify, signer unknown", "unknown", "none", "verify", false, false},
		{"none then verify, signature wrong", "badsig", "none", "verify", false, false},
		{"verify_log then unset, signer unknown", "unknown", "verify_log", "", false, false},
		{"verify with trusted signer, then the signer is removed", "unknown", "verify", "verify", true, false},
	}
	n := 0
	var items []string
	for _, storage := range []string{"memory", "disk"} {
		for _, source := range []string{"cdp", "crl_urls"} {
			for _, ch := range changes {
				n++
				res := &c16Restart{Name: ch.name, Storage: storage, Source: source}
				run := func(w *World, sig string, trusted bool, restart bool) string {
					w.Cfg = VCfg{Mode: "crl_only", Storage: storage, SigMode: sig, CDPStrict: true, Interval: "1h"}
					if source == "crl_urls" {
						w.Cfg.CRLUrls = []string{w.Org.URL("/a")}
					}
					if trusted {
						w.Cfg.TrustedSigners = []string{writeCertPEM(c, w.Strang.Cert)}
					}
					if restart {
						if w.Do(Step{Op: "restart"}) != "provisioned" {
							return "provision-error"
						}
					} else if err := w.Provision(); err != nil {
						return "provision-error"
					}
					// listed probe, unlisted probe (strict: accepted only if the CDP list is in force)
					return w.Do(hs("listed")) + "/" + w.Do(hs("unlisted"))
				}
				mk := func(tag string) *World {
					w := NewWorld(c, fmt.Sprintf("c16r_%d_%s", n, tag))
					for name, s := range histLists {
						w.AddList(name, s)
					}
					w.Do(sv("/a", ch.list))
					serial := histLists[ch.list].Serials[0]
					var cdp []string
					if source == "cdp" {
						cdp = []string{"/a"}
					}
					w.AddCert("listed", CertSpec{Serial: serial, CDP: cdp})
					w.AddCert("unlisted", CertSpec{Serial: 103, CDP: cdp})
					return w
				}
				w := mk("a")
				res.Before = run(w, ch.sig1, ch.trust1, false)
				res.After = run(w, ch.sig2, ch.trust, true)
				w.Close()
				f := mk("b")
				res.Fresh = run(f, ch.sig2, ch.trust, false)
				f.Close()
				c.Rep.Cases++
				c.Count("restart-changed-config=" + storage)
				c.Nontrivial(fmt.Sprintf("restart|%s|%s|%s", ch.name, storage, source))
				if n%3 == 0 {
					c.Sample(res)
				}
				// the same two-deployment history in the model (CDP source: the provision-time path is not part of Repo.v)
				if source == "cdp" && !strings.Contains(res.Before+res.After, "provision") {
					serial := histLists[ch.list].Serials[0]
					cert := func(sn int64, trusted bool) string {
						chain := "[1; 9]"
						if trusted {
							chain = "[1; 9; 3]"
						}
						return fmt.Sprintf("{| c_issuer := 1; c_serial := %d; c_cdps := [(1, true)]; c_chain := %s |}", sn, chain)
					}
					cfgOf := func(sig string) string {
						if sig == "" {
							sig = "verify"
						}
						return coqCfg(HistCfg{Storage: storage, SigMode: sig, Fetch: "fetch_actively", Strict: true})
					}
					code := map[string]string{"accept": "1", "revoked": "2", "error": "3"}
					var obs []string
					obs = append(obs, "0")
					for _, v := range strings.Split(res.Before+"/"+res.After, "/") {
						obs = append(obs, code[v])
					}
					items = append(items, fmt.Sprintf("mk_sc %d [(%s, [SServe 1 (Serve L_%s); SHandshake %s; SHandshake %s]); (%s, [SHandshake %s; SHandshake %s])] [%s]",
						n, cfgOf(ch.sig1), ch.list, cert(serial, ch.trust1), cert(103, ch.trust1), cfgOf(ch.sig2), cert(serial, ch.trust), cert(103, ch.trust), strings.Join(obs, "; ")))
				}
				if res.After != res.Fresh {
					c.Fail("", fmt.Sprintf("restart with a changed configuration (%s; %s, %s): before %q, after the restart %q, but a fresh work_dir under the new configuration gives %q — a CRL that fails verification is in force after the restart", ch.name, storage, source, res.Before, res.After, res.Fresh), res)
				}
			}
		}
	}
	c.WriteCoqSharded("cases_C16seg", histHeader(), "scase", items, "seg_mismatches", 100)
}
