package main

// C16 — "under 'verify' a CRL that fails verification is never in force, neither now nor after a
// restart".  The restart may come with a changed configuration: a list that was acceptable when it was
// persisted (verify_log / none, or its signer was a configured trusted signer) must not be in force
// under verify afterwards.  Oracle: what the restarted validator does equals what a validator started
// on an empty work_dir with the same (new) configuration does.

import (
	"fmt"
	"strings"
	"sync"
)

type c16Restart struct {
	Name    string `json:"name"`
	Storage string `json:"storage"`
	Source  string `json:"source"`
	Strict  bool   `json:"crl_cdp_strict"`
	Before  string `json:"before_restart"`
	After   string `json:"after_restart"`
	Fresh   string `json:"fresh_work_dir_same_configuration"`
}

func c16RestartStage(c *Ctx) {
	type change struct {
		name          string
		first         string // optional: a list loaded (and possibly verified) first; `list` then arrives by a refresh
		list          string // histLists key: "unknown" (signed by a CA outside the chain) | "badsig"
		sig1, sig2    string
		trust1, trust bool // stranger configured as trusted signer before / after
	}
	changes := []change{
		{"verify_log then verify, signer unknown", "", "unknown", "verify_log", "verify", false, false},
		{"none then verify, signer unknown", "", "unknown", "none", "verify", false, false},
		{"none then verify, signature wrong", "", "badsig", "none", "verify", false, false},
		{"verify_log then unset, signer unknown", "", "unknown", "verify_log", "", false, false},
		{"verify with trusted signer, then the signer is removed", "", "unknown", "verify", "verify", true, false},
		{"verify_log: a verified first load, then a refresh with a wrong signature, then verify", "old", "badsig", "verify_log", "verify", false, false},
		{"verify_log: a verified first load, then a refresh by an unknown signer, then verify", "old", "unknown", "verify_log", "verify", false, false},
		{"none: first load, refresh with a wrong signature, then verify", "old", "badsig", "none", "verify", false, false},
	}
	n := 0
	var items []string
	type job struct {
		n               int
		ch              change
		storage, source string
		res             *c16Restart
		strict          bool
	}
	var jobs []job
	var wg sync.WaitGroup
	sem := make(chan struct{}, 8)
	for _, storage := range []string{"memory", "disk"} {
		for _, source := range []string{"cdp", "crl_urls", "cdp-lenient"} {
			for _, ch := range changes {
				n++
				// "cdp-lenient": the same with crl_cdp_strict off — strictness must not be what keeps a persisted
				// unverifiable list from answering
				strict := source != "cdp-lenient"
				if !strict {
					source = "cdp"
				}
				n, ch, storage, source := n, ch, storage, source
				res := &c16Restart{Name: ch.name, Storage: storage, Source: source, Strict: strict}
				jobs = append(jobs, job{n, ch, storage, source, res, strict})
				wg.Add(1)
				sem <- struct{}{}
				go func() {
					defer wg.Done()
					defer func() { <-sem }()
					var wA *World
					run := func(w *World, sig string, trusted bool, restart bool) string {
						w.Cfg = VCfg{Mode: "crl_only", Storage: storage, SigMode: sig, CDPStrict: strict, Interval: "1h"}
						if source == "crl_urls" {
							w.Cfg.CRLUrls = []string{w.Org.URL("/a")}
						}
						if trusted {
							w.Cfg.TrustedSigners = []string{writeCertPEM(c, w.Strang.Cert)}
						}
						if restart {
							if w.Do(Step{Op: "restart"}) != "provisioned" {
								return "provision-error"
							}
						} else if err := w.Provision(); err != nil {
							return "provision-error"
						}
						// listed probe, unlisted probe (strict: accepted only if the CDP list is in force)
						out := w.Do(hs("listed")) + "/" + w.Do(hs("unlisted"))
						if !restart && ch.first != "" && w == wA {
							// deployment 1 continues: the final list arrives by a refresh
							w.Do(sv("/a", ch.list))
							w.Do(refreshStep)
							out += "/" + w.Do(hs("listed")) + "/" + w.Do(hs("unlisted"))
						}
						return out
					}
					mk := func(tag string) *World {
						w := NewWorld(c, fmt.Sprintf("c16r_%d_%s", n, tag))
						for name, s := range histLists {
							w.AddList(name, s)
						}
						if tag == "a" && ch.first != "" {
							w.Do(sv("/a", ch.first))
						} else {
							w.Do(sv("/a", ch.list))
						}
						serial := histLists[ch.list].Serials[0]
						var cdp []string
						if source == "cdp" {
							cdp = []string{"/a"}
						}
						w.AddCert("listed", CertSpec{Serial: serial, CDP: cdp})
						w.AddCert("unlisted", CertSpec{Serial: 103, CDP: cdp})
						return w
					}
					w := mk("a")
					wA = w
					res.Before = run(w, ch.sig1, ch.trust1, false)
					res.After = run(w, ch.sig2, ch.trust, true)
					w.Close()
					f := mk("b")
					res.Fresh = run(f, ch.sig2, ch.trust, false)
					f.Close()
				}()
			}
		}
	}
	wg.Wait()
	for _, j := range jobs {
		n, ch, storage, source, res := j.n, j.ch, j.storage, j.source, j.res
		{
			{
				c.Rep.Cases++
				c.Count("restart-changed-config=" + storage)
				c.Nontrivial(fmt.Sprintf("restart|%s|%s|%s", ch.name, storage, source))
				if n%3 == 0 {
					c.Sample(res)
				}
				// the same two-deployment history in the model (CDP source: the provision-time path is not part of Repo.v)
				if source == "cdp" && !strings.Contains(res.Before+res.After, "provision") {
					serial := histLists[ch.list].Serials[0]
					cert := func(sn int64, trusted bool) string {
						chain := "[1; 9]"
						if trusted {
							chain = "[1; 9; 3]"
						}
						return fmt.Sprintf("{| c_issuer := 1; c_serial := %d; c_cdps := [(1, true)]; c_chain := %s |}", sn, chain)
					}
					cfgOf := func(sig string) string {
						if sig == "" {
							sig = "verify"
						}
						return coqCfg(HistCfg{Storage: storage, SigMode: sig, Fetch: "fetch_actively", Strict: j.strict})
					}
					code := map[string]string{"accept": "1", "revoked": "2", "error": "3"}
					var obs []string
					obs = append(obs, "0")
					for _, v := range strings.Split(res.Before+"/"+res.After, "/") {
						obs = append(obs, code[v])
					}
					seg1 := fmt.Sprintf("SServe 1 (Serve L_%s); SHandshake %s; SHandshake %s", ch.list, cert(serial, ch.trust1), cert(103, ch.trust1))
					if ch.first != "" {
						seg1 = fmt.Sprintf("SServe 1 (Serve L_%s); SHandshake %s; SHandshake %s; SServe 1 (Serve L_%s); SRefresh NoFault; SHandshake %s; SHandshake %s",
							ch.first, cert(serial, ch.trust1), cert(103, ch.trust1), ch.list, cert(serial, ch.trust1), cert(103, ch.trust1))
						obs = append(append(append([]string{}, obs[:3]...), "0", "0"), obs[3:]...)
					}
					items = append(items, fmt.Sprintf("mk_sc %d [(%s, [%s]); (%s, [SHandshake %s; SHandshake %s])] [%s]",
						n, cfgOf(ch.sig1), seg1, cfgOf(ch.sig2), cert(serial, ch.trust), cert(103, ch.trust), strings.Join(obs, "; ")))
				}
				if res.After != res.Fresh {
					c.Fail("", fmt.Sprintf("restart with a changed configuration (%s; %s, %s, strict=%v): before %q, after the restart %q, but a fresh work_dir under the new configuration gives %q — a CRL that fails verification is in force after the restart", ch.name, storage, source, res.Strict, res.Before, res.After, res.Fresh), res)
				}
			}
		}
	}
	c.WriteCoqSharded("cases_C16seg", histHeader(), "scase", items, "seg_mismatches", 100)
}
