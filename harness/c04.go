package main

// C04 — CRL authenticity under 'verify': who may sign, what exactly is signed.

import (
	"crypto"
	"crypto/ed25519"
	"crypto/rand"
	"crypto/rsa"
	"crypto/x509"
	"crypto/x509/pkix"
	"encoding/asn1"
	"fmt"
	"math/big"
	"sync"
)

func init() { commands["c04"] = runC04 }

type c04Case struct {
	Name     string `json:"name"`
	Signer   string `json:"signer"`
	AKI      string `json:"aki"`
	Alg      string `json:"alg"`
	Mutation string `json:"mutation,omitempty"`
	InForce  bool   `json:"in_force"`
	Want     bool   `json:"want_in_force"`
	Listed   string `json:"listed_probe"`
}

func runC04(c *Ctx) {
	primeGlobalStamp(c)
	var cases []*c04Case
	var mu sync.Mutex
	var wg sync.WaitGroup
	sem := make(chan struct{}, 24)
	run := func(cs *c04Case, build func(w *World, leaf *Leaf) ([]byte, []string)) {
		wg.Add(1)
		sem <- struct{}{}
		go func() {
			defer wg.Done()
			defer func() { <-sem }()
			mu.Lock()
			idx := len(cases)
			cases = append(cases, cs)
			mu.Unlock()
			w := NewWorld(c, fmt.Sprintf("c04_%d", idx))
			defer w.Close()
			// the client certificate whose CDP is probed, and a second one listed in the CRL
			serial := big.NewInt(int64(7000 + idx))
			w.Certs["probe"] = w.CA.IssueLeaf(LeafOpts{CN: "probe", Serial: serial, CDP: []string{w.Org.URL("/a")}})
			w.CertSp["probe"] = CertSpec{}
			w.Certs["listed"] = w.CA.IssueLeaf(LeafOpts{CN: "listed", Serial: big.NewInt(4242), CDP: []string{w.Org.URL("/a")}})
			w.CertSp["listed"] = CertSpec{}
			crl, trusted := build(w, w.Certs["probe"])
			w.Lists["L"] = crl
			w.Do(sv("/a", "L"))
			w.Cfg = VCfg{Mode: "crl_only", Storage: "memory", SigMode: "verify", CDPStrict: true, Interval: "1h", TrustedSigners: trusted}
			if err := w.Provision(); err != nil {
				cs.Name += " provision-error: " + err.Error()
				return
			}
			cs.InForce = w.Do(hs("probe")) == "accept" // strict: accepted only if the CDP CRL is in force
			cs.Listed = w.Do(hs("listed"))
		}()
	}
	akis := []string{"keyid", "absent", "issuerserial", "both"}
	opts := func(aki string) CRLOpts {
		o := CRLOpts{Entries: serials(4242, 5)}
		switch aki {
		case "absent":
			o.NoAKI = true
		case "issuerserial":
			o.AKIIssuerSerial = true
		case "both":
			o.AKIBoth = true
		}
		return o
	}
	// signer kinds x AKI forms
	for _, aki := range akis {
		aki := aki
		run(&c04Case{Name: "issuer CA", Signer: "issuer", AKI: aki, Want: true}, func(w *World, _ *Leaf) ([]byte, []string) {
			return w.CA.MakeCRL(opts(aki)), nil
		})
		run(&c04Case{Name: "end-entity signs a CRL in its own name", Signer: "end-entity", AKI: aki, Want: false}, func(w *World, leaf *Leaf) ([]byte, []string) {
			fake := &CA{Cert: leaf.Cert, Key: leaf.Key}
			return fake.MakeCRL(opts(aki)), nil
		})
		run(&c04Case{Name: "end-entity key, issuer name of the CA", Signer: "end-entity-as-ca", AKI: aki, Want: false}, func(w *World, leaf *Leaf) ([]byte, []string) {
			o := opts(aki)
			o.SignKey = leaf.Key
			return w.CA.MakeCRL(o), nil
		})
		run(&c04Case{Name: "unrelated key, issuer name of the CA", Signer: "unrelated", AKI: aki, Want: false}, func(w *World, _ *Leaf) ([]byte, []string) {
			o := opts(aki)
			o.SignKey = w.Strang.Key
			return w.CA.MakeCRL(o), nil
		})
		run(&c04Case{Name: "sibling CA with the same name", Signer: "sibling", AKI: aki, Want: false}, func(w *World, _ *Leaf) ([]byte, []string) {
			sib := newCert(w.Root, CAOpts{Name: w.CA.Cert.Subject})
			return sib.MakeCRL(opts(aki)), nil
		})
		run(&c04Case{Name: "configured trusted signer (not in the chain)", Signer: "trusted", AKI: aki, Want: true}, func(w *World, _ *Leaf) ([]byte, []string) {
			return w.Strang.MakeCRL(opts(aki)), []string{writeCertPEM(c, w.Strang.Cert)}
		})
		run(&c04Case{Name: "stranger not configured", Signer: "stranger", AKI: aki, Want: false}, func(w *World, _ *Leaf) ([]byte, []string) {
			return w.Strang.MakeCRL(opts(aki)), nil
		})
		run(&c04Case{Name: "root CA of the chain signs for the CA name", Signer: "root-key", AKI: aki, Want: false}, func(w *World, _ *Leaf) ([]byte, []string) {
			o := opts(aki)
			o.SignKey = w.Root.Key
			return w.CA.MakeCRL(o), nil
		})
	}
	// the client certificate's own key, for every key usage the client certificate may carry (none at all,
	// digitalSignature, digitalSignature+cRLSign), in a normal chain and as its own trust anchor (verified
	// chain = [client certificate]): never entitled, whatever name or key identifier the CRL carries
	kus := map[string]x509.KeyUsage{"no keyUsage": 0, "digitalSignature": x509.KeyUsageDigitalSignature, "digitalSignature+cRLSign": x509.KeyUsageDigitalSignature | x509.KeyUsageCRLSign}
	for kuName, ku := range kus {
		ku := ku
		for _, alone := range []bool{false, true} {
			alone := alone
			for ai, aki := range akis {
				aki := aki
				if !alone && kuName == "digitalSignature" {
					continue // covered above
				}
				if c.Tier != "thorough" && ai%2 == 1 && kuName != "no keyUsage" {
					continue
				}
				mk := func(w *World) *Leaf {
					l := w.CA.IssueLeaf(LeafOpts{CN: "probe", Serial: big.NewInt(8006), CDP: []string{w.Org.URL("/a")}, KU: &ku})
					w.Certs["probe"] = l
					w.CertSp["probe"] = CertSpec{LeafOnly: alone}
					return l
				}
				sfx := map[bool]string{false: "", true: "-alone"}[alone]
				where := map[bool]string{false: "in a chain", true: "as a chain of one"}[alone]
				run(&c04Case{Name: fmt.Sprintf("client certificate (%s, %s) signs a CRL in its own name", kuName, where), Signer: "end-entity" + sfx, AKI: aki, Want: false}, func(w *World, _ *Leaf) ([]byte, []string) {
					leaf := mk(w)
					fake := &CA{Cert: leaf.Cert, Key: leaf.Key}
					return fake.MakeCRL(opts(aki)), nil
				})
				run(&c04Case{Name: fmt.Sprintf("client certificate (%s, %s) signs a CRL in the CA's name", kuName, where), Signer: "end-entity" + sfx + "-as-ca", AKI: aki, Want: false}, func(w *World, _ *Leaf) ([]byte, []string) {
					leaf := mk(w)
					o := opts(aki)
					o.SignKey = leaf.Key
					return w.CA.MakeCRL(o), nil
				})
			}
		}
	}
	// a CA in the chain whose key usage does not permit CRL signing
	run(&c04Case{Name: "issuing CA without cRLSign key usage", Signer: "ca-no-crlsign", AKI: "keyid", Want: false}, func(w *World, _ *Leaf) ([]byte, []string) {
		noKU := newCert(w.Root, CAOpts{Name: pkix.Name{CommonName: "no crlsign"}, KeyUsage: x509.KeyUsageCertSign})
		w.CA = noKU
		w.Certs["probe"] = noKU.IssueLeaf(LeafOpts{CN: "probe", Serial: big.NewInt(8001), CDP: []string{w.Org.URL("/a")}})
		w.Certs["listed"] = noKU.IssueLeaf(LeafOpts{CN: "listed", Serial: big.NewInt(4242), CDP: []string{w.Org.URL("/a")}})
		d := noKU.MakeDoc(opts("keyid"))
		return d.DER(), nil
	})
	// every supported algorithm, and unsupported ones
	for i := range SigAlgs {
		a := SigAlgs[i]
		run(&c04Case{Name: "algorithm " + a.Name, Signer: "issuer", AKI: "keyid", Alg: a.Name, Want: true}, func(w *World, _ *Leaf) ([]byte, []string) {
			ca := newCert(w.Root, CAOpts{Name: pkix.Name{CommonName: "alg CA " + a.Name}, RSA: a.RSA})
			w.CA = ca
			w.Certs["probe"] = ca.IssueLeaf(LeafOpts{CN: "probe", Serial: big.NewInt(8002), CDP: []string{w.Org.URL("/a")}})
			w.Certs["listed"] = ca.IssueLeaf(LeafOpts{CN: "listed", Serial: big.NewInt(4242), CDP: []string{w.Org.URL("/a")}})
			o := opts("keyid")
			o.Alg = &a
			return ca.MakeCRL(o), nil
		})
	}
	// declared algorithm identifiers next to the supported ones (as dotted strings and as arcs): an authentic
	// CRL whose outer AlgorithmIdentifier is changed, and a CRL the CA signs correctly but declares (inner and
	// outer) under the neighbouring identifier
	for i := range SigAlgs {
		a := SigAlgs[i]
		last := a.OID[len(a.OID)-1]
		var near []asn1.ObjectIdentifier
		with := func(arcs ...int) asn1.ObjectIdentifier {
			return append(append(asn1.ObjectIdentifier{}, a.OID[:len(a.OID)-1]...), arcs...)
		}
		for k := 0; k < 10; k++ {
			near = append(near, with(last*10+k))
		}
		near = append(near, with(), with(last, 0), with(last, 1), with(last^0x20), with(last+1), with(last+16))
		if last >= 10 {
			near = append(near, with(last/10))
		}
		for _, oid := range near {
			oid := oid
			supported := false
			for _, b := range SigAlgs {
				if b.OID.Equal(oid) {
					supported = true
				}
			}
			if supported && c.Tier != "thorough" {
				continue
			}
			for _, both := range []bool{false, true} {
				both := both
				name := fmt.Sprintf("%s declared as %s (outer only)", a.Name, oid)
				if both {
					name = fmt.Sprintf("%s declared as %s (inner and outer, signed by the CA)", a.Name, oid)
				}
				run(&c04Case{Name: name, Signer: "issuer", AKI: "keyid", Alg: "near-" + a.Name, Want: false}, func(w *World, _ *Leaf) ([]byte, []string) {
					ca := newCert(w.Root, CAOpts{Name: pkix.Name{CommonName: "alg CA " + a.Name}, RSA: a.RSA})
					w.CA = ca
					w.Certs["probe"] = ca.IssueLeaf(LeafOpts{CN: "probe", Serial: big.NewInt(8005), CDP: []string{w.Org.URL("/a")}})
					w.Certs["listed"] = ca.IssueLeaf(LeafOpts{CN: "listed", Serial: big.NewInt(4242), CDP: []string{w.Org.URL("/a")}})
					o := opts("keyid")
					o.Alg = &a
					d := ca.MakeDoc(o)
					fakeAlg := SigAlg{OID: oid, RSA: a.RSA}.AlgID()
					d.OuterAlg = fakeAlg
					if both {
						d.InnerAlg = fakeAlg
						d.SigBits = signDigest(ca.Key, a.Hash, d.TBS())
					}
					return d.DER(), nil
				})
			}
		}
	}
	run(&c04Case{Name: "RSA-PSS (unsupported)", Signer: "issuer", AKI: "keyid", Alg: "rsassa-pss", Want: false}, func(w *World, _ *Leaf) ([]byte, []string) {
		ca := newCert(w.Root, CAOpts{Name: pkix.Name{CommonName: "pss CA"}, RSA: true})
		w.CA = ca
		w.Certs["probe"] = ca.IssueLeaf(LeafOpts{CN: "probe", Serial: big.NewInt(8003), CDP: []string{w.Org.URL("/a")}})
		d := ca.MakeDoc(opts("keyid"))
		pssAlg, _ := asn1.Marshal(pkix.AlgorithmIdentifier{Algorithm: asn1.ObjectIdentifier{1, 2, 840, 113549, 1, 1, 10}})
		d.InnerAlg, d.OuterAlg = pssAlg, pssAlg
		h := crypto.SHA256.New()
		h.Write(d.TBS())
		sig, err := rsa.SignPSS(rand.Reader, ca.Key.(*rsa.PrivateKey), crypto.SHA256, h.Sum(nil), nil)
		mustNoErr(err)
		d.SigBits = sig
		return d.DER(), nil
	})
	run(&c04Case{Name: "Ed25519 (unsupported)", Signer: "issuer", AKI: "absent", Alg: "ed25519", Want: false}, func(w *World, _ *Leaf) ([]byte, []string) {
		_, priv, _ := ed25519.GenerateKey(rand.Reader)
		d := w.CA.MakeDoc(opts("absent"))
		edAlg, _ := asn1.Marshal(pkix.AlgorithmIdentifier{Algorithm: asn1.ObjectIdentifier{1, 3, 101, 112}})
		d.InnerAlg, d.OuterAlg = edAlg, edAlg
		d.SigBits = ed25519.Sign(priv, d.TBS())
		return d.DER(), nil
	})
	wg.Wait()
	// every single-byte mutation of a small valid CRL (tbs, both algorithm identifiers, signature)
	baseW := NewWorld(c, "c04_base")
	base := baseW.CA.MakeDoc(CRLOpts{Entries: serials(4242, 5)})
	der := base.DER()
	step := 4
	if c.Thorough() {
		step = 1
	}
	for off := 0; off < len(der); off += step {
		off := off
		for _, bit := range []byte{0x01, 0x80} {
			bit := bit
			run(&c04Case{Name: "mutation", Signer: "issuer", AKI: "keyid", Mutation: fmt.Sprintf("byte %d ^= %#x", off, bit), Want: false}, func(w *World, _ *Leaf) ([]byte, []string) {
				// same CA in every mutation world: reuse base world's PKI
				w.Root, w.CA = baseW.Root, baseW.CA
				w.Certs["probe"] = w.CA.IssueLeaf(LeafOpts{CN: "probe", Serial: big.NewInt(8004), CDP: []string{w.Org.URL("/a")}})
				w.Certs["listed"] = w.CA.IssueLeaf(LeafOpts{CN: "listed", Serial: big.NewInt(4242), CDP: []string{w.Org.URL("/a")}})
				m := append([]byte{}, der...)
				m[off] ^= bit
				return m, nil
			})
		}
	}
	wg.Wait()
	baseW.Close()
	var items []string
	for i, cs := range cases {
		c.Count("signer=" + cs.Signer)
		c.Count("aki=" + cs.AKI)
		if cs.Mutation != "" {
			c.Count("mutation")
			// a flipped bit may hit a place that is not signed and not interpreted (e.g. trailing bits): then the CRL is
			// still the authentic one.  It must never come into force with different signed content: checked via the listed probe.
			if cs.InForce && cs.Listed != "revoked" {
				c.Fail("", "a CRL with "+cs.Mutation+" came into force and no longer revokes the listed certificate", cs)
			}
			if cs.InForce {
				c.Count("mutation-still-authentic")
			}
		} else {
			if cs.InForce != cs.Want {
				tag := ""
				c.Fail(tag, fmt.Sprintf("%s (AKI %s): in force=%v, expected %v", cs.Name, cs.AKI, cs.InForce, cs.Want), cs)
			}
			if cs.InForce && cs.Signer == "issuer" && cs.Listed != "revoked" {
				c.Fail("", cs.Name+": CRL in force but the listed certificate is "+cs.Listed, cs)
			}
			if cs.Alg == "" {
				items = append(items, fmt.Sprintf("mk_ch %d %s %s %s", i, map[string]string{"issuer": "KIssuer", "end-entity": "KEndEntity", "end-entity-as-ca": "KEndEntityKey", "unrelated": "KUnrelatedKey", "sibling": "KSibling", "trusted": "KTrusted", "stranger": "KStranger", "root-key": "KRootKey", "ca-no-crlsign": "KNoCrlSign", "end-entity-alone": "KEndEntity", "end-entity-alone-as-ca": "KEndEntityKey"}[cs.Signer],
					map[string]string{"keyid": "AkiKeyId", "absent": "AkiAbsent", "issuerserial": "AkiIssuerSerial", "both": "AkiBoth"}[cs.AKI], coqBool(cs.InForce)))
			}
		}
		c.Nontrivial(cs.Name + cs.AKI + cs.Alg + cs.Mutation)
		if i%61 == 0 {
			c.Sample(cs)
		}
	}
	c.WriteCoqSharded("cases_C04", "From Verif Require Import Base Chains RunChains.\n", "chcase", items, "chains_mismatches", 100)
	c.Rep.Cases = len(cases) + c04ChainIsolationStage(c)
	c.Rep.Rule = "real CRLs under signature_validation_mode verify + crl_cdp_strict: signer {issuer CA, the client's own certificate (own name / CA's name), unrelated key, sibling CA with the same name, configured trusted signer, unconfigured stranger, root key, CA without cRLSign} x AKI {keyId, absent, issuer+serial, both}; the client certificate's key with key usage {absent, digitalSignature, digitalSignature+cRLSign} in a normal chain and as a directly trusted chain of one, signing in its own or the CA's name; all ten supported algorithms, RSA-PSS and Ed25519; ~17 neighbouring algorithm identifiers per supported algorithm (last arc with a digit appended, dropped, extended by an arc, bit-flipped, +1, +16, decimal prefix) declared outer-only on an authentic CRL and inner+outer on a CRL the CA signs; every 4th (thorough: every) byte of a valid CRL with bit 0 and bit 7 flipped; plus a history over two connections (fetch_background, 0/1/2/3/5/6 trusted signers configured): a pending CDP of client 1, then client 2 of a same-named CA with another key, then the first CDP serves a list signed by that other CA — it must never come into force; observable: does the CRL come into force (an unlisted certificate is accepted under strict) and does it revoke the listed one"
}
