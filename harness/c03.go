package main

// C03 — mode composition.  Exhaustive table of real handshakes:
// mode(6) x OCSP scenario(4) x aia_strict(2) x CRL scenario(4) x cdp_strict(2) x storage(2) x chain shape(2).

import (
	"fmt"
	"math/big"
	"os"
	"path/filepath"
	"strings"
	"sync"
)

type c03Case struct {
	Mode      string `json:"mode"`
	OCSP      string `json:"ocsp"`
	AIAStrict bool   `json:"aia_strict"`
	CRL       string `json:"crl"`
	CDPStrict bool   `json:"cdp_strict"`
	Storage   string `json:"storage"`
	Chain     string `json:"chain"`
	// observations
	ProvisionErr string   `json:"provision_err,omitempty"`
	Rejected     bool     `json:"rejected"`
	OCSPHits     int      `json:"ocsp_hits"`
	CRLHits      int      `json:"crl_hits"`
	Files        []string `json:"files"`
}

func init() { commands["c03"] = runC03 }

func runC03(c *Ctx) {
	root := NewRootCA("C03 Root", false)
	sub := root.NewSubCA("C03 Sub", false)
	modes := []string{"", "prefer_ocsp", "prefer_crl", "ocsp_only", "crl_only", "disabled"}
	ocspSc := []string{"noaia", "good", "revoked", "unavailable"}
	crlSc := []string{"none", "listed", "notlisted", "unavailable"}
	storages := []string{"memory", "disk"}
	chains := []string{"root", "sub"}
	var cases []*c03Case
	for _, m := range modes {
		for _, o := range ocspSc {
			for _, as := range []bool{false, true} {
				for _, cr := range crlSc {
					for _, cs := range []bool{false, true} {
						for _, st := range storages {
							for _, ch := range chains {
								cases = append(cases, &c03Case{Mode: m, OCSP: o, AIAStrict: as, CRL: cr, CDPStrict: cs, Storage: st, Chain: ch})
							}
						}
					}
				}
			}
		}
	}
	var wg sync.WaitGroup
	sem := make(chan struct{}, 48)
	for i, cs := range cases {
		wg.Add(1)
		sem <- struct{}{}
		go func(i int, cs *c03Case) {
			defer wg.Done()
			defer func() { <-sem }()
			c03Run(c, i, cs, root, sub)
		}(i, cs)
	}
	wg.Wait()

	// spec of the mechanism outcomes (C02 / C10 wording) used for prediction
	ocspOutcome := func(cs *c03Case) string {
		switch cs.OCSP {
		case "revoked":
			return "Revoked"
		case "unavailable":
			if cs.AIAStrict {
				return "Failed"
			}
		}
		return "NotRevoked"
	}
	crlOutcome := func(cs *c03Case) string {
		switch cs.CRL {
		case "listed":
			return "Revoked"
		case "unavailable":
			if cs.CDPStrict {
				return "Failed"
			}
		}
		return "NotRevoked"
	}
	var sb strings.Builder
	sb.WriteString("From Verif Require Import Base Validator RunC03.\nOpen Scope string_scope.\n")
	var items []string
	for i, cs := range cases {
		c.Count("mode=" + cs.Mode)
		c.Count("ocsp=" + cs.OCSP)
		c.Count("crl=" + cs.CRL)
		if cs.ProvisionErr != "" {
			c.Fail("", "provisioning failed: "+cs.ProvisionErr, cs)
			continue
		}
		// direct oracle: disabled touches nothing
		if cs.Mode == "disabled" && (cs.OCSPHits > 0 || cs.CRLHits > 0 || len(cs.Files) > 0 || cs.Rejected) {
			c.Fail("", "mode disabled touched network/storage or rejected", cs)
		}
		if cs.Mode == "ocsp_only" && (cs.CRLHits > 0 || len(cs.Files) > 0) {
			c.Fail("", "ocsp_only consulted CRLs", cs)
		}
		if cs.Mode == "crl_only" && cs.OCSPHits > 0 {
			c.Fail("", "crl_only contacted an OCSP responder", cs)
		}
		// direct oracle (the property's own wording, independent of the Coq model)
		specOCSP := cs.Mode == "" || cs.Mode == "prefer_ocsp" || cs.Mode == "prefer_crl" || cs.Mode == "ocsp_only"
		specCRL := cs.Mode == "" || cs.Mode == "prefer_ocsp" || cs.Mode == "prefer_crl" || cs.Mode == "crl_only"
		want := (specOCSP && ocspOutcome(cs) != "NotRevoked") || (specCRL && crlOutcome(cs) != "NotRevoked")
		if want != cs.Rejected {
			c.Fail("", fmt.Sprintf("verdict: rejected=%v but the configured mode promises rejected=%v", cs.Rejected, want), cs)
		}
		if specOCSP && cs.OCSP != "noaia" && cs.OCSPHits == 0 {
			c.Fail("", "OCSP enabled by the mode but the responder was never contacted", cs)
		}
		// non-trivial: at least one mechanism has something to say
		if cs.OCSP != "noaia" || cs.CRL != "none" {
			c.Nontrivial(fmt.Sprintf("%s|%s|%v|%s|%v|%s|%s", cs.Mode, cs.OCSP, cs.AIAStrict, cs.CRL, cs.CDPStrict, cs.Storage, cs.Chain))
		}
		if i%257 == 0 {
			c.Sample(cs)
		}
		items = append(items, fmt.Sprintf("mk_c03 %d %s %s %s %s %s %s %s", i, coqStr(cs.Mode), ocspOutcome(cs), crlOutcome(cs),
			coqBool(cs.Rejected), coqBool(cs.OCSPHits > 0), coqBool(cs.CRLHits > 0), coqBool(cs.OCSP != "noaia")+" "+coqBool(cs.CRL != "none")))
	}
	c.WriteCoqSharded("cases_C03", sb.String(), "c03case", items, "mismatches", 96)
	c.Rep.Cases = len(cases) + c03ChainOfOne(c) + c03SharedStage(c)
	c.Rep.Rule = "exhaustive table mode x ocsp scenario x aia_strict x crl scenario x cdp_strict x storage x chain; plus the directly trusted client certificate (verified chain of one) in every mode with a configured CRL that lists it / a strict OCSP responder that is down / nothing; non-trivial = a case in which at least one mechanism has a responder or a CDP to consult; distinct by the full tuple"
	c.Rep.Extra["exhaustive"] = true
}

func c03Run(c *Ctx, i int, cs *c03Case, root, sub *CA) {
	issuer := root
	if cs.Chain == "sub" {
		issuer = sub
	}
	org := NewOrigin()
	defer org.Close()
	lo := LeafOpts{CN: fmt.Sprintf("client-%d", i), Serial: big.NewInt(int64(500000 + i))}
	if cs.OCSP != "noaia" {
		lo.OCSP = []string{org.URL("/ocsp")}
	}
	if cs.CRL != "none" {
		lo.CDP = []string{org.URL("/crl")}
	}
	leaf := issuer.IssueLeaf(lo)
	switch cs.OCSP {
	case "good":
		org.ServeOCSP("/ocsp", issuer, func(int) OCSPBehaviour { return OCSPGood }, nil)
	case "revoked":
		org.ServeOCSP("/ocsp", issuer, func(int) OCSPBehaviour { return OCSPRevoked }, nil)
	case "unavailable":
		org.ServeOCSP("/ocsp", issuer, func(int) OCSPBehaviour { return OCSPHTTP500 }, nil)
	}
	switch cs.CRL {
	case "listed":
		crl := issuer.MakeCRL(CRLOpts{Entries: append(serials(7, 8), EntryOpts{Serial: leaf.Cert.SerialNumber}, EntryOpts{Serial: big.NewInt(9)})})
		org.ServeBytes("/crl", func() []byte { return crl })
	case "notlisted":
		crl := issuer.MakeCRL(CRLOpts{Entries: serials(7, 8, 9)})
		org.ServeBytes("/crl", func() []byte { return crl })
	case "unavailable":
		org.ServeBytes("/crl", func() []byte { return nil })
	}
	wd := c.TempDir(fmt.Sprintf("c03_%d", i))
	defer os.RemoveAll(wd)
	v, err := NewValidator(VCfg{Mode: cs.Mode, WorkDir: wd, Storage: cs.Storage, CDPStrict: cs.CDPStrict, AIAStrict: cs.AIAStrict, Interval: "1h"})
	if err != nil {
		cs.ProvisionErr = err.Error()
		return
	}
	defer v.Close()
	chain := []*x509Cert{leaf.Cert, root.Cert}
	if cs.Chain == "sub" {
		chain = []*x509Cert{leaf.Cert, sub.Cert, root.Cert}
	}
	err = v.Verify(chain...)
	cs.Rejected = err != nil
	cs.OCSPHits = org.Hits("/ocsp")
	cs.CRLHits = org.Hits("/crl")
	cs.Files = listDir(wd)
	_ = filepath.Join
}
