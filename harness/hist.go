package main

// Histories over the repository: generation, the reference semantics taken from the
// property texts, and Coq emission for Repo.v.

import (
	"fmt"
	"math/rand"
	"sort"
	"strings"
	"sync"
)

type HistCfg struct {
	Storage string `json:"storage"` // memory | disk
	SigMode string `json:"sig"`     // verify | verify_log | none
	Fetch   string `json:"fetch"`   // fetch_actively | fetch_background
	Strict  bool   `json:"strict"`
}

type Hist struct {
	Cfg   HistCfg  `json:"cfg"`
	Steps []Step   `json:"steps"`
	Obs   []string `json:"obs"`
	Want  []string `json:"want"`
}

// the fixed cast of lists and certificates of every history world
var histLists = map[string]ListSpec{
	"old":      {Serials: []int64{101, 103}, Number: 1},
	"new":      {Serials: []int64{102, 103}, Number: 2},
	"badsig":   {Serials: []int64{500, 104}, BadSig: true, Number: 3},
	"unknown":  {Serials: []int64{501, 104}, Signer: "stranger", Number: 4},
	"critical": {Serials: []int64{600, 104}, Crit: true, Number: 5},
	"other":    {Serials: []int64{101, 104}, Issuer: "other", Signer: "other", Number: 6},
	"v1":       {Serials: []int64{105}, V1: true},
	"pem":      {Serials: []int64{106}, PEM: true, Number: 7},
	"rolled":   {Serials: []int64{102, 103}, Signer: "other", Number: 8}, // the CA's list, signed with another certificate's key
}
var histCerts = map[string]CertSpec{
	"c101": {Serial: 101, CDP: []string{"/a"}}, "c102": {Serial: 102, CDP: []string{"/a"}}, "c103": {Serial: 103, CDP: []string{"/a"}},
	"c104": {Serial: 104, CDP: []string{"/a"}}, "c500": {Serial: 500, CDP: []string{"/a"}}, "c501": {Serial: 501, CDP: []string{"/a"}},
	"c600": {Serial: 600, CDP: []string{"/a"}}, "c105": {Serial: 105, CDP: []string{"/a"}}, "c106": {Serial: 106, CDP: []string{"/a"}},
	"o101": {Serial: 101, Issuer: "other", CDP: []string{"/b"}}, "o104": {Serial: 104, Issuer: "other", CDP: []string{"/b"}},
	"n101": {Serial: 101}, "n104": {Serial: 104},
	"b101":  {Serial: 101, CDP: []string{"/b"}},
	"ldap":  {Serial: 101, CDP: []string{"ldap://dir.example/cn=crl"}},
	"mixed": {Serial: 102, CDP: []string{"ldap://dir.example/cn=crl", "/a"}},
	"two":   {Serial: 103, CDP: []string{"/a", "/b"}},
	"r900":  {Serial: 900, Issuer: "other", CDP: []string{"/a"}}, // a client under the other CA naming the same distribution point
}

func signerOf(name string) string {
	s := histLists[name]
	if s.Signer != "" {
		return s.Signer
	}
	if s.Issuer != "" {
		return s.Issuer
	}
	return "ca"
}

// listAcceptable: may the named answer of a location come into force, given the signature
// mode and the certificates available for resolving the CRL signer?
func listAcceptable(name string, sig string, available map[string]bool) bool {
	s, ok := histLists[name]
	if !ok {
		return false // garbage, down, http500
	}
	if s.Crit {
		return false
	}
	if sig == "verify" && (s.BadSig || !available[signerOf(name)]) {
		return false
	}
	return true
}

func locID(cdp []string) string {
	var h []string
	for _, l := range cdp {
		if strings.HasPrefix(strings.ToLower(l), "http") || strings.HasPrefix(l, "/") {
			h = append(h, l)
		}
	}
	return strings.Join(h, "|")
}

// refHistory is the reference semantics (the property texts C01, C08, C10, C11, C12, C16),
// with verdicts "accept" / "revoked" / "error" (strictness).
func refHistory(cfg HistCfg, steps []Step) []string {
	type entry struct {
		locs   []string
		list   string          // in-force list ("" = none)
		chain  map[string]bool // certificates of the handshake that created the entry (kept until loaded)
		signer string          // signer stored with the in-force list ("" = none)
		failed string          // the list whose signature the last refresh could not verify ("" = none; in memory only)
	}
	serve := map[string]string{}
	entries := map[string]*entry{}
	type diskRec struct{ list, signer string }
	disk := map[string]diskRec{}
	var out []string
	// one attempt to (re)load an entry with the given resolver context
	attempt := func(id string, e *entry, available map[string]bool) bool {
		if len(e.locs) == 0 {
			return false
		}
		l := serve[e.locs[0]] // every scripted state answers the download, so the first member decides
		if !listAcceptable(l, cfg.SigMode, available) {
			return false
		}
		e.list = l
		e.signer = ""
		if cfg.SigMode != "none" && available[signerOf(l)] && !histLists[l].BadSig {
			e.signer = signerOf(l)
		}
		if cfg.Storage == "disk" {
			disk[id] = diskRec{e.list, e.signer}
		}
		return true
	}
	refreshAll := func() {
		ids := make([]string, 0, len(entries))
		for id := range entries {
			ids = append(ids, id)
		}
		sort.Strings(ids)
		for _, id := range ids {
			e := entries[id]
			if e.list == "" {
				attempt(id, e, e.chain)
			} else {
				av := map[string]bool{}
				if e.signer != "" {
					av[e.signer] = true
				}
				// updateCrlEntry: a verified update clears the note, a failed verification (of a list that could be
				// read) leaves a note of that list
				if attempt(id, e, av) {
					e.failed = ""
				} else if l := serve[e.locs[0]]; cfg.SigMode == "verify" {
					if ls, ok := histLists[l]; ok && !ls.Crit && (ls.BadSig || !av[signerOf(l)]) {
						e.failed = l
					}
				}
			}
		}
	}
	for _, st := range steps {
		switch st.Op {
		case "serve":
			serve[st.Loc] = st.What
			out = append(out, "")
		case "refresh":
			harmless := st.What == ""
			if strings.HasPrefix(st.What, "InsertFails ") {
				// the consumer failure point lies beyond the events of every list served right now?
				var k int
				fmt.Sscanf(st.What, "InsertFails %d", &k)
				harmless = true
				for _, l := range serve {
					if ls, ok := histLists[l]; ok && k < 2+len(ls.Serials) {
						harmless = false
					}
				}
			}
			if harmless {
				refreshAll()
			}
			out = append(out, "")
		case "restart":
			entries = map[string]*entry{}
			out = append(out, "provisioned")
		case "handshake":
			cs := histCerts[st.What]
			id := locID(cs.CDP)
			usable := id != ""
			issuer := cs.Issuer
			if issuer == "" {
				issuer = "ca"
			}
			chain := map[string]bool{issuer: true, "root": true}
			added := false
			if usable {
				e, ok := entries[id]
				if !ok {
					e = &entry{chain: chain}
					for _, l := range cs.CDP {
						if strings.HasPrefix(l, "/") {
							e.locs = append(e.locs, l)
						}
					}
					if d, ok := disk[id]; ok && cfg.Storage == "disk" {
						// a persisted list counts under verify only together with the certificate that verified it,
						// and only if that certificate is still usable as a signer for this handshake
						if cfg.SigMode != "verify" || (d.signer != "" && chain[d.signer]) {
							e.list, e.signer = d.list, d.signer
						}
					}
					entries[id] = e
					added = true
				}
				if e.list == "" && cfg.Fetch == "fetch_actively" {
					attempt(id, e, chain)
				}
				// tryUpdateSignatureCertFromChain: an entry that existed, is loaded and carries a note — if this chain
				// verifies the noted list, its signer is stored with the entry and the note is cleared
				if !added && e.list != "" && e.failed != "" && cfg.SigMode == "verify" {
					if fl := histLists[e.failed]; !fl.BadSig && chain[signerOf(e.failed)] {
						e.signer = signerOf(e.failed)
						e.failed = ""
						if cfg.Storage == "disk" {
							disk[id] = diskRec{e.list, e.signer}
						}
					}
				}
			}
			lookup := func() string {
				verdict := "accept"
				for _, e := range entries {
					if e.list == "" {
						continue
					}
					ls := histLists[e.list]
					li := ls.Issuer
					if li == "" {
						li = "ca"
					}
					if li != issuer {
						continue
					}
					for _, s := range ls.Serials {
						if s == cs.Serial {
							verdict = "revoked"
						}
					}
				}
				if cfg.Strict && len(cs.CDP) > 0 {
					if !usable || entries[id].list == "" {
						verdict = "error"
					}
				}
				return verdict
			}
			verdict := lookup()
			// a background first load is started when the entry is new; it refreshes everything known.  The handshake's
			// own lookup normally comes first, but nothing orders the two: if the load wins the entry lock the lookup
			// waits for it and answers from the loaded state.  Both answers are the implementation's right.
			if usable && added && cfg.Fetch == "fetch_background" {
				refreshAll()
				if post := lookup(); post != verdict {
					verdict += "/" + post
				}
			}
			out = append(out, verdict)
		}
	}
	return out
}

func runHist(c *Ctx, idx int, cfg HistCfg, steps []Step) Hist {
	w := NewWorld(c, fmt.Sprintf("h%d", idx))
	defer w.Close()
	for n, s := range histLists {
		w.AddList(n, s)
	}
	for n, s := range histCerts {
		w.AddCert(n, s)
	}
	w.Cfg = VCfg{Mode: "crl_only", Storage: cfg.Storage, SigMode: cfg.SigMode, FetchMode: cfg.Fetch, CDPStrict: cfg.Strict, Interval: "1h"}
	h := Hist{Cfg: cfg, Steps: steps}
	if cfg.Fetch == "fetch_background" {
		w.Delay = 30e6 // 30ms: the handshake's own lookup always precedes the background load
	}
	if err := w.Provision(); err != nil {
		h.Obs = []string{"provision-error: " + err.Error()}
		return h
	}
	h.Obs = w.Run(steps)
	h.Want = refHistory(cfg, steps)
	return h
}

func runHists(c *Ctx, cfgs []HistCfg, hists [][]Step) []Hist {
	primeGlobalStamp(c)
	type job struct {
		i   int
		cfg HistCfg
		st  []Step
	}
	var jobs []job
	for _, cfg := range cfgs {
		for _, h := range hists {
			jobs = append(jobs, job{len(jobs), cfg, h})
		}
	}
	res := make([]Hist, len(jobs))
	var wg sync.WaitGroup
	sem := make(chan struct{}, 24)
	for _, j := range jobs {
		wg.Add(1)
		sem <- struct{}{}
		go func(j job) {
			defer wg.Done()
			defer func() { <-sem }()
			res[j.i] = runHist(c, j.i, j.cfg, j.st)
		}(j)
	}
	wg.Wait()
	return res
}

func allCfgs() []HistCfg {
	var out []HistCfg
	for _, st := range []string{"memory", "disk"} {
		for _, sg := range []string{"verify", "verify_log", "none"} {
			for _, f := range []string{"fetch_actively", "fetch_background"} {
				for _, s := range []bool{false, true} {
					out = append(out, HistCfg{st, sg, f, s})
				}
			}
		}
	}
	return out
}

func hs(cert string) Step      { return Step{Op: "handshake", What: cert} }
func sv(loc, what string) Step { return Step{Op: "serve", Loc: loc, What: what} }

var refreshStep = Step{Op: "refresh"}
var restartStep = Step{Op: "restart"}

func randomHist(r *rand.Rand, n int) []Step {
	serves := []string{"old", "new", "badsig", "unknown", "garbage", "critical", "down", "other", "v1", "pem"}
	certs := []string{"c101", "c102", "c103", "c104", "c500", "c501", "c600", "c105", "c106", "o101", "o104", "n101", "n104", "b101", "ldap", "mixed", "two"}
	var st []Step
	st = append(st, sv("/a", serves[r.Intn(2)]), sv("/b", "other"))
	for i := 0; i < n; i++ {
		switch k := r.Intn(10); {
		case k < 5:
			st = append(st, hs(certs[r.Intn(len(certs))]))
		case k < 7:
			loc := "/a"
			if r.Intn(4) == 0 {
				loc = "/b"
			}
			st = append(st, sv(loc, serves[r.Intn(len(serves))]))
		case k < 9:
			st = append(st, refreshStep)
		default:
			st = append(st, restartStep)
		}
	}
	// every history ends by probing
	for _, cn := range []string{"c101", "c102", "c104", "n101"} {
		st = append(st, hs(cn))
	}
	return st
}

// compareHist reports the first divergence between the implementation and the reference:
// accept vs. reject must agree, and the implementation may say "revoked" only where the
// reference does (an "error" of the reference is a rejection for strictness reasons).
func compareHist(h Hist) (int, string) {
	if len(h.Obs) != len(h.Want) {
		return 0, fmt.Sprintf("observation count %d vs %d (%v)", len(h.Obs), len(h.Want), h.Obs)
	}
	for i := range h.Obs {
		o, w := h.Obs[i], h.Want[i]
		if k := strings.Index(w, "/"); k >= 0 {
			// two admissible answers (see refHistory): the observation has to be one of them
			if o == w[:k] || o == w[k+1:] {
				continue
			}
			w = w[:k]
		}
		if o == w {
			continue
		}
		if (o == "revoked" && w == "error") || (o == "error" && w == "revoked") {
			// both reject; which of the two reasons is reported first is not part of any property,
			// but a certificate no list revokes must not be called revoked
			if o == "revoked" && !refRevocable(h, i) {
				return i, fmt.Sprintf("step %d (handshake %s): reported revoked although no list in force lists it", i, h.Steps[i].What)
			}
			continue
		}
		return i, fmt.Sprintf("step %d (%s %s%s): implementation %q, property demands %q", i, h.Steps[i].Op, h.Steps[i].Loc, h.Steps[i].What, o, w)
	}
	return -1, ""
}

// refRevocable: under the reference semantics with strictness switched off, is the handshake at step i revoked?
func refRevocable(h Hist, i int) bool {
	cfg := h.Cfg
	cfg.Strict = false
	return strings.Contains(refHistory(cfg, h.Steps)[i], "revoked")
}

// ---------------------------------------------------------------- Coq emission (Repo.v)
var issuerID = map[string]int{"": 1, "ca": 1, "other": 2, "stranger": 3}

func coqCrl(name string) string {
	s := histLists[name]
	var ser []string
	for _, n := range s.Serials {
		ser = append(ser, fmt.Sprintf("%d", n))
	}
	return fmt.Sprintf("{| l_issuer := %d; l_serials := [%s]%%Z; l_signer := %d; l_sig_ok := %s; l_parse_ok := %s |}",
		issuerID[s.Issuer], strings.Join(ser, "; "), issuerID[signerOf(name)], coqBool(!s.BadSig), coqBool(!s.Crit))
}

func locNum(l string) (int, bool) {
	switch l {
	case "/a":
		return 1, true
	case "/b":
		return 2, true
	}
	return 50, false
}

func coqCert(name string) string {
	s := histCerts[name]
	var cd []string
	for _, l := range s.CDP {
		n, http := locNum(l)
		cd = append(cd, fmt.Sprintf("(%d, %s)", n, coqBool(http)))
	}
	return fmt.Sprintf("{| c_issuer := %d; c_serial := %d; c_cdps := [%s]; c_chain := [%d; 9] |}", issuerID[s.Issuer], s.Serial, strings.Join(cd, "; "), issuerID[s.Issuer])
}

func coqStep(st Step) string {
	switch st.Op {
	case "serve":
		n, _ := locNum(st.Loc)
		switch st.What {
		case "down", "http500", "":
			return fmt.Sprintf("SServe %d Down", n)
		case "garbage":
			return fmt.Sprintf("SServe %d Garbage", n)
		}
		return fmt.Sprintf("SServe %d (Serve L_%s)", n, st.What)
	case "handshake":
		return "SHandshake C_" + st.What
	case "refresh":
		if st.What != "" {
			return "SRefresh (" + st.What + ")"
		}
		return "SRefresh NoFault"
	case "restart":
		return "SRestart"
	}
	panic(st.Op)
}

func coqCfg(c HistCfg) string {
	st := map[string]string{"memory": "Memory", "disk": "Disk"}[c.Storage]
	sg := map[string]string{"verify": "SigVerify", "verify_log": "SigVerifyLog", "none": "SigNone"}[c.SigMode]
	f := map[string]string{"fetch_actively": "Active", "fetch_background": "Background"}[c.Fetch]
	return fmt.Sprintf("{| r_storage := %s; r_sigmode := %s; r_fetch := %s; r_strict := %s |}", st, sg, f, coqBool(c.Strict))
}

func histHeader() string {
	var sb strings.Builder
	sb.WriteString("From Verif Require Import Base Repo RunRepo.\nOpen Scope N_scope.\n")
	var names []string
	for n := range histLists {
		names = append(names, n)
	}
	sort.Strings(names)
	for _, n := range names {
		fmt.Fprintf(&sb, "Definition L_%s : crl := %s.\n", n, coqCrl(n))
	}
	names = nil
	for n := range histCerts {
		names = append(names, n)
	}
	sort.Strings(names)
	for _, n := range names {
		fmt.Fprintf(&sb, "Definition C_%s : cert := %s.\n", n, coqCert(n))
	}
	return sb.String()
}

func coqHist(idx int, h Hist) string {
	var st, ob []string
	for i, s := range h.Steps {
		st = append(st, coqStep(s))
		code := 0
		if i < len(h.Obs) {
			ob := h.Obs[i]
			if i < len(h.Want) {
				if k := strings.Index(h.Want[i], "/"); k >= 0 && ob == h.Want[i][k+1:] {
					ob = h.Want[i][:k] // the other admissible order of lookup and background load; the model uses the first
				}
			}
			switch ob {
			case "accept":
				code = 1
			case "revoked":
				code = 2
			case "error":
				code = 3
			case "hang", "panic", "provision-error":
				code = 9
			}
		}
		ob = append(ob, fmt.Sprint(code))
	}
	return fmt.Sprintf("mk_hc %d %s [%s] [%s]", idx, coqCfg(h.Cfg), strings.Join(st, "; "), strings.Join(ob, "; "))
}
