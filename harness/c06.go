package main

// C06 — the streaming reader agrees with a whole-document reference decoder.

import (
	"crypto/x509/pkix"
	"encoding/asn1"
	"fmt"
	"math/big"
	"math/rand"
	"strings"
	"time"
)

func init() { commands["c06"] = runC06 }

type c06Case struct {
	Name         string `json:"name"`
	Format       string `json:"format"` // der | pemlf | pemcrlf
	N            int    `json:"entries"`
	Size         int    `json:"bytes"`
	doc          *Doc
	alg          SigAlg
	file         []byte
	expectReject bool
}

func randSerial(r *rand.Rand, width int) *big.Int {
	b := make([]byte, width)
	r.Read(b)
	switch r.Intn(4) {
	case 0:
		b[0] |= 0x80 // high bit: DER needs a leading zero
	case 1:
		b[0] = 0x01
	case 2:
		b[0] &= 0x7f
		if b[0] == 0 {
			b[0] = 0x7f
		}
	}
	return new(big.Int).SetBytes(b)
}

func c06Entries(r *rand.Rand, n int, fancy bool) []EntryOpts {
	out := make([]EntryOpts, n)
	for i := range out {
		w := 1 + r.Intn(20)
		if !fancy {
			w = 3
		}
		e := EntryOpts{Serial: randSerial(r, w), When: time.Date(2000+r.Intn(49), time.Month(1+r.Intn(12)), 1+r.Intn(28), r.Intn(24), r.Intn(60), r.Intn(60), 0, time.UTC)}
		if !fancy {
			e.Serial = big.NewInt(int64(100000 + i))
		}
		if fancy {
			switch r.Intn(6) {
			case 0:
				e.GenTime = true
				e.When = time.Date(2050+r.Intn(40), 5, 6, 7, 8, 9, 0, time.UTC)
			case 1:
				e.Reason = 1 + r.Intn(5)
			case 2:
				e.Reason = 1
				e.ExtraExt = true
			}
		}
		out[i] = e
	}
	return out
}

func issuerWithPad(base string, pad int) []byte {
	n := pkix.Name{CommonName: base, Organization: []string{"verif"}}
	if pad > 0 {
		n.OrganizationalUnit = []string{strings.Repeat("p", pad)}
	}
	b, err := asn1.Marshal(n.ToRDNSequence())
	mustNoErr(err)
	return b
}

func runC06(c *Ctx) {
	r := rand.New(rand.NewSource(c.Seed))
	caEC := NewRootCA("C06 EC", false)
	caRSA := NewRootCA("C06 RSA", true)
	var cases []*c06Case
	add := func(name string, ca *CA, o CRLOpts, formats ...string) {
		d := ca.MakeDoc(o)
		alg := defaultAlgFor(ca.Key)
		if o.Alg != nil {
			alg = *o.Alg
		}
		if len(formats) == 0 {
			formats = []string{"der"}
		}
		for _, f := range formats {
			cs := &c06Case{Name: name, Format: f, N: len(d.Entries), doc: d, alg: alg}
			switch f {
			case "der":
				cs.file = d.DER()
			case "pemlf":
				cs.file = PEMEncode(d.DER(), false)
			case "pemcrlf":
				cs.file = PEMEncode(d.DER(), true)
			}
			cs.Size = len(cs.file)
			cs.expectReject = o.CriticalExt != nil || o.Version > 2
			cases = append(cases, cs)
		}
	}
	all := []string{"der", "pemlf", "pemcrlf"}
	// entry counts
	ns := []int{0, 1, 2, 3, 5, 17, 100, 1000}
	if c.Thorough() {
		ns = append(ns, 5000, 20000)
	}
	for _, n := range ns {
		add(fmt.Sprintf("n=%d", n), caEC, CRLOpts{Entries: c06Entries(r, n, true)}, all...)
	}
	// profile corners: v1, no extensions, no nextUpdate, empty list forms
	for _, n := range []int{0, 1, 3} {
		add(fmt.Sprintf("v1,n=%d", n), caEC, CRLOpts{Version: 1, Entries: c06Entries(r, n, true)}, all...)
		add(fmt.Sprintf("v2-noexts,n=%d", n), caEC, CRLOpts{NoExts: true, Entries: c06Entries(r, n, true)}, "der", "pemlf")
		add(fmt.Sprintf("v2-nonext,n=%d", n), caEC, CRLOpts{NoNextUpdate: true, Entries: c06Entries(r, n, true)}, "der")
		add(fmt.Sprintf("v1-nonext,n=%d", n), caEC, CRLOpts{Version: 1, NoNextUpdate: true, Entries: c06Entries(r, n, true)}, "der")
		add(fmt.Sprintf("v2-nonumber,n=%d", n), caEC, CRLOpts{NoNumber: true, Entries: c06Entries(r, n, true)}, "der")
		add(fmt.Sprintf("v2-noaki,n=%d", n), caEC, CRLOpts{NoAKI: true, Entries: c06Entries(r, n, true)}, "der")
	}
	add("v2-emptylist-present", caEC, CRLOpts{ForceList: true}, "der", "pemlf")
	add("v2-bignumber", caEC, CRLOpts{Number: new(big.Int).Lsh(big.NewInt(1), 150), Entries: c06Entries(r, 2, true)}, "der")
	// serial widths 1..20, each position
	for w := 1; w <= 20; w++ {
		var es []EntryOpts
		for k := 0; k < 3; k++ {
			es = append(es, EntryOpts{Serial: randSerial(r, w)})
		}
		add(fmt.Sprintf("width=%d", w), caEC, CRLOpts{Entries: es}, "der")
	}
	// every supported signature algorithm
	for i := range SigAlgs {
		a := SigAlgs[i]
		ca := caEC
		if a.RSA {
			ca = caRSA
		}
		add("alg="+a.Name, ca, CRLOpts{Alg: &a, Entries: c06Entries(r, 4, true)}, "der", "pemlf")
	}
	// length classes: entry extension padding so that an entry / the list / the extensions block crosses 127/128, 255/256, 65535/65536
	for _, pad := range []int{60, 90, 100, 200, 230, 260, 65000} {
		add(fmt.Sprintf("extpad=%d", pad), caEC, CRLOpts{ExtraExtPad: pad, Entries: c06Entries(r, 3, true)}, "der")
	}
	for _, n := range []int{3, 4, 7, 8, 2100, 2200} { // list length around 127/128, 255/256, 65535/65536 (31-byte entries)
		add(fmt.Sprintf("listlen,n=%d", n), caEC, CRLOpts{Entries: c06Entries(r, n, false)}, "der")
	}
	// issuer shapes
	for i, n := range []pkix.Name{{CommonName: "x"}, {CommonName: "Ünï çødé", Country: []string{"DE"}}, {CommonName: strings.Repeat("L", 200), Organization: []string{"a", "b"}}, {}} {
		b, _ := asn1.Marshal(n.ToRDNSequence())
		add(fmt.Sprintf("issuer=%d", i), caEC, CRLOpts{IssuerRaw: b, Entries: c06Entries(r, 2, true)}, "der")
	}
	// alignment sweep: shift every element boundary across the 4096-byte buffer window and the PEM line phase
	nAlign := 64
	if c.Thorough() {
		nAlign = 128
	}
	for pad := 0; pad < nAlign; pad++ {
		fm := []string{"der"}
		if pad < 48 {
			fm = append(fm, "pemlf")
		}
		if pad < 16 || c.Thorough() {
			fm = append(fm, "pemcrlf")
		}
		add(fmt.Sprintf("align=%d", pad), caEC, CRLOpts{IssuerRaw: issuerWithPad("align", pad), Entries: c06Entries(r, 290, false)}, fm...)
	}
	// tail alignment: the end of the list / extensions / tbs around 4096 for small lists
	for pad := 0; pad < 40; pad++ {
		add(fmt.Sprintf("tailalign=%d", pad), caEC, CRLOpts{IssuerRaw: issuerWithPad("tail", pad), Entries: c06Entries(r, 118, false)}, "der")
		add(fmt.Sprintf("tailalign-noexts=%d", pad), caEC, CRLOpts{NoExts: true, IssuerRaw: issuerWithPad("tail", pad), Entries: c06Entries(r, 121, false)}, "der")
	}
	// multi-byte length fields split by a buffer edge: documents with many long-form lengths in the tail (RSA
	// signature, a 300-byte private extension: [0], SEQUENCE OF, Extension, extnValue, BIT STRING all carry two
	// length bytes) and in the list (entries over 255 bytes are not produced by real CAs; the tail is what
	// matters), kept for every issuer padding that puts the edge at 4096 INSIDE the length bytes of some field;
	// the same documents as PEM for every phase of the 48-byte decoded line
	straddles := 0
	for n := 120; n <= 190; n++ {
		for pad := 0; pad < 22; pad++ { // entries are 22 bytes: (n, pad) reaches every offset
			o := CRLOpts{IssuerRaw: issuerWithPad("straddle", pad), ExtraExtPad: 300, Entries: c06Entries(r, n, false)}
			d := caRSA.MakeDoc(o)
			hit := false
			for _, f := range longLengthFields(d.DER(), 0) {
				for sp := 1; sp < f[1]; sp++ {
					if (f[0]+sp)%4096 == 0 {
						hit = true
					}
				}
			}
			if hit {
				straddles++
				add(fmt.Sprintf("lenstraddle=%d/%d", n, pad), caRSA, o, "der")
			}
		}
	}
	for pad := 0; pad < 48; pad++ {
		add(fmt.Sprintf("lenstraddle-pem=%d", pad), caRSA, CRLOpts{IssuerRaw: issuerWithPad("straddle", pad), ExtraExtPad: 300, Entries: c06Entries(r, 110, false)}, "pemlf")
	}
	c.Rep.Extra["documents_with_a_length_field_split_at_4096"] = straddles
	// must be rejected: unhandled critical extension, unknown version
	add("critical-ext", caEC, CRLOpts{CriticalExt: asn1.ObjectIdentifier{2, 5, 29, 27}, Entries: c06Entries(r, 3, true)}, "der", "pemlf")
	add("critical-ext-idp", caEC, CRLOpts{CriticalExt: asn1.ObjectIdentifier{2, 5, 29, 28}}, "der")
	// the gate must not depend on what else the extension list carries: no cRLNumber, no AKI, neither
	add("critical-ext-no-number", caEC, CRLOpts{CriticalExt: asn1.ObjectIdentifier{2, 5, 29, 27}, NoNumber: true, Entries: c06Entries(r, 3, true)}, "der", "pemlf")
	add("critical-ext-no-aki", caEC, CRLOpts{CriticalExt: asn1.ObjectIdentifier{2, 5, 29, 27}, NoAKI: true, Entries: c06Entries(r, 2, true)}, "der")
	add("critical-ext-alone", caEC, CRLOpts{CriticalExt: asn1.ObjectIdentifier{2, 5, 29, 28}, NoAKI: true, NoNumber: true}, "der", "pemcrlf")
	add("version3", caEC, CRLOpts{Version: 3, Entries: c06Entries(r, 2, true)}, "der")
	add("version4", caEC, CRLOpts{Version: 4}, "der")
	// version bytes at the edges of uint8: 0x7f (128) and 0xff (INTEGER -1; int(uint8)+1 must not wrap to 0)
	add("version128", caEC, CRLOpts{Version: 128, NoExts: true, Entries: c06Entries(r, 2, true)}, "der")
	add("version-minus-1-noexts", caEC, CRLOpts{Version: 256, NoExts: true, Entries: c06Entries(r, 2, true)}, "der", "pemlf")
	add("version-minus-1", caEC, CRLOpts{Version: 256, Entries: c06Entries(r, 2, true)}, "der")

	for i, cs := range cases {
		c.Count("format=" + cs.Format)
		c.Count(fmt.Sprintf("entries~%s", bucket(cs.N)))
		c.Count(fmt.Sprintf("size~%s", bucket(cs.Size)))
		o := realReadBytes(c, fmt.Sprintf("c06_%d.crl", i), cs.file)
		if cs.expectReject {
			if o.Class == "ok" {
				c.Fail("", "a CRL with an unimplemented critical extension or unknown version was accepted", cs.replay())
			} else if o.Class == "panic" {
				c.Fail("", "reader panicked: "+o.Err, cs.replay())
			}
			c.Nontrivial(cs.Name + "|" + cs.Format)
			continue
		}
		ref, err := refDecode(cs.doc.DER())
		if err != nil {
			c.Fail("", "harness: reference decoder rejects a generated document: "+err.Error(), cs.replay())
			continue
		}
		if msg := compareWithReference(o, ref, cs.doc.TBS(), cs.alg.Hash, cs.doc.SigBits); msg != "" {
			tag := ""
			if cs.doc.Exts == nil && (o.Class == "err" || o.Class == "panic") {
				if o.Class == "panic" && strings.Contains(o.Err, "nil pointer") {
					tag = "C07-nil-ext"
				} else {
					tag = "C06-no-tbs-end"
				}
			}
			c.Fail(tag, fmt.Sprintf("%s (%s, %d entries): %s", cs.Name, cs.Format, cs.N, msg), cs.replay())
		}
		c.Nontrivial(cs.Name + "|" + cs.Format)
		if i%41 == 0 {
			c.Sample(map[string]interface{}{"name": cs.Name, "format": cs.Format, "entries": cs.N, "bytes": cs.Size, "outcome": o.Class})
		}
	}
	c06EmitCoq(c, cases)
	c.Rep.Cases = len(cases)
	c.Rep.Rule = "generated CRL documents: entry counts, v1/v2, with/without crlExtensions/nextUpdate/CRL number/AKI, serial widths 1..20, UTCTime and GeneralizedTime dates, reason and invalidity-date extensions, all ten signature algorithms, long-form lengths around 128/256/65536, issuer shapes, DER / PEM-LF / PEM-CRLF, issuer padding sweeps moving every element boundary across the 4096-byte buffer window and the PEM line phase, and documents in which the 4096 edge falls inside a two-byte length field (every such padding of an RSA-signed document with a 300-byte extension) plus the same in PEM for all 48 line phases; each compared field by field with encoding/asn1's whole-document decoding; distinct by (document kind, format)"
}

// longLengthFields lists [offset of the first length byte after 0x8k, k] for every long-form length with k >= 2
// in the DER structure starting at base (constructed values are descended into).
func longLengthFields(der []byte, base int) [][2]int {
	var out [][2]int
	for i := 0; i+2 <= len(der); {
		tag := der[i]
		l := int(der[i+1])
		hdr := 2
		if l&0x80 != 0 {
			k := l & 0x7f
			if k == 0 || i+2+k > len(der) {
				return out
			}
			l = 0
			for _, b := range der[i+2 : i+2+k] {
				l = l<<8 | int(b)
			}
			if k >= 2 {
				out = append(out, [2]int{base + i + 2, k})
			}
			hdr = 2 + k
		}
		if i+hdr+l > len(der) {
			return out
		}
		if tag&0x20 != 0 {
			out = append(out, longLengthFields(der[i+hdr:i+hdr+l], base+i+hdr)...)
		}
		i += hdr + l
	}
	return out
}

func bucket(n int) string {
	switch {
	case n == 0:
		return "0"
	case n < 10:
		return "1-9"
	case n < 100:
		return "10-99"
	case n < 1000:
		return "100-999"
	case n < 10000:
		return "1k-10k"
	case n < 100000:
		return "10k-100k"
	}
	return ">=100k"
}

func (cs *c06Case) replay() interface{} {
	h := fmt.Sprintf("%x", cs.file)
	if len(h) > 6000 {
		h = h[:6000] + "...(truncated; regenerate with the same seed)"
	}
	return map[string]interface{}{"name": cs.Name, "format": cs.Format, "entries": cs.N, "file_hex": h}
}
