package main

// Key rollover — the state "the last refresh failed signature verification" and the way out of it:
// a list signed by a certificate the entry does not know yet fails the refresh; a later handshake whose
// chain contains that certificate lets the repository adopt it (tryUpdateSignatureCertFromChain); the next
// refresh then succeeds.  Used by C08 ("a later successful refresh still takes effect") and by C13
// ("every call returns" in that state).

import "fmt"

type rolloverResult struct {
	Storage string   `json:"storage"`
	Steps   []string `json:"steps"`
	Obs     []string `json:"observations"`
}

func rolloverScenario(c *Ctx, storage string) *rolloverResult {
	res := &rolloverResult{Storage: storage}
	w := NewWorld(c, "rollover_"+storage)
	defer w.Close()
	w.AddList("old", ListSpec{Serials: []int64{101, 103}, Number: 1})
	// the CA's name, a new key: signed by the certificate of "other"
	w.AddList("rolled", ListSpec{Serials: []int64{102, 103}, Signer: "other", Number: 2})
	w.AddCert("c101", CertSpec{Serial: 101, CDP: []string{"/a"}})
	w.AddCert("c102", CertSpec{Serial: 102, CDP: []string{"/a"}})
	w.AddCert("c103", CertSpec{Serial: 103, CDP: []string{"/a"}})
	w.AddCert("newchain", CertSpec{Serial: 900, Issuer: "other", CDP: []string{"/a"}})
	w.Cfg = VCfg{Mode: "crl_only", Storage: storage, SigMode: "verify", CDPStrict: true, Interval: "1h"}
	if err := w.Provision(); err != nil {
		res.Obs = []string{"provision-error: " + err.Error()}
		return res
	}
	steps := []Step{sv("/a", "old"), hs("c101"), sv("/a", "rolled"), refreshStep, hs("c101"), hs("c102"),
		hs("newchain"), hs("c103"), refreshStep, hs("c101"), hs("c102"), hs("c103")}
	for _, st := range steps {
		res.Steps = append(res.Steps, fmt.Sprintf("%s %s%s", st.Op, st.Loc, st.What))
		res.Obs = append(res.Obs, w.Do(st))
	}
	return res
}

// rolloverCheck applies the oracle; want: after the failed refresh the old list answers (101 revoked, 102 accepted);
// every call returns; after the handshake with the new chain and a further refresh the new list answers
// (101 accepted, 102 revoked), 103 is revoked throughout.
func rolloverCheck(c *Ctx, res *rolloverResult) {
	c.Count("rollover=" + res.Storage)
	c.Nontrivial("rollover|" + res.Storage)
	c.Sample(res)
	want := []string{"", "revoked", "", "", "revoked", "accept", "accept", "revoked", "", "accept", "revoked", "revoked"}
	if len(res.Obs) != len(want) {
		c.Fail("", fmt.Sprintf("key rollover (%s): %v", res.Storage, res.Obs), res)
		return
	}
	for i := range want {
		if res.Obs[i] != want[i] {
			c.Fail("", fmt.Sprintf("key rollover (%s): step %d (%s) answered %q, expected %q — after a refresh that failed verification, a handshake whose chain contains the new signer, and a further refresh", res.Storage, i, res.Steps[i], res.Obs[i], want[i]), res)
			return
		}
	}
}
