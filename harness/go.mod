module verifharness

go 1.22

require (
	github.com/caddyserver/caddy/v2 v2.8.4
	github.com/gr33nbl00d/caddy-revocation-validator v0.0.0
	github.com/syndtr/goleveldb v1.0.0
	go.uber.org/zap v1.27.0
	golang.org/x/crypto v0.23.0
)

require (
	filippo.io/edwards25519 v1.1.0 // indirect
	github.com/AndreasBriese/bbloom v0.0.0-20190825152654-46b345b51c96 // indirect
	github.com/Masterminds/goutils v1.1.1 // indirect
	github.com/Masterminds/semver/v3 v3.2.1 // indirect
	github.com/Masterminds/sprig/v3 v3.2.3 // indirect
	github.com/aryann/difflib v0.0.0-20210328193216-ff5ff6dc229b // indirect
	github.com/beorn7/perks v1.0.1 // indirect
	github.com/caddyserver/certmagic v0.21.3 // indirect
	github.com/caddyserver/zerossl v0.1.3 // indirect
	github.com/cespare/xxhash v1.1.0 // indirect
	github.com/cespare/xxhash/v2 v2.2.0 // indirect
	github.com/chzyer/readline v1.5.1 // indirect
	github.com/cpuguy83/go-md2man/v2 v2.0.3 // indirect
	github.com/dgraph-io/badger v1.6.2 // indirect
	github.com/dgraph-io/badger/v2 v2.2007.4 // indirect
	github.com/dgraph-io/ristretto v0.1.1 // indirect
	github.com/dgryski/go-farm v0.0.0-20200201041132-a6ae2369ad13 // indirect
	github.com/dustin/go-humanize v1.0.1 // indirect
	github.com/go-jose/go-jose/v3 v3.0.3 // indirect
	github.com/go-kit/kit v0.13.0 // indirect
	github.com/go-kit/log v0.2.1 // indirect
	github.com/go-logfmt/logfmt v0.6.0 // indirect
	github.com/go-sql-driver/mysql v1.7.1 // indirect
	github.com/golang/glog v1.2.4 // indirect
	github.com/golang/protobuf v1.5.4 // indirect
	github.com/golang/snappy v0.0.4 // indirect
	github.com/google/uuid v1.6.0 // indirect
	github.com/huandu/xstrings v1.4.0 // indirect
	github.com/imdario/mergo v0.3.15 // indirect
	github.com/jackc/chunkreader/v2 v2.0.1 // indirect
	github.com/jackc/pgconn v1.14.3 // indirect
	github.com/jackc/pgio v1.0.0 // indirect
	github.com/jackc/pgpassfile v1.0.0 // indirect
	github.com/jackc/pgproto3/v2 v2.3.3 // indirect
	github.com/jackc/pgservicefile v0.0.0-20221227161230-091c0ba34f0a // indirect
	github.com/jackc/pgtype v1.14.0 // indirect
	github.com/jackc/pgx/v4 v4.18.3 // indirect
	github.com/klauspost/compress v1.17.8 // indirect
	github.com/klauspost/cpuid/v2 v2.2.7 // indirect
	github.com/libdns/libdns v0.2.2 // indirect
	github.com/manifoldco/promptui v0.9.0 // indirect
	github.com/mattn/go-colorable v0.1.13 // indirect
	github.com/mattn/go-isatty v0.0.20 // indirect
	github.com/mgutz/ansi v0.0.0-20200706080929-d51e80ef957d // indirect
	github.com/mholt/acmez/v2 v2.0.1 // indirect
	github.com/miekg/dns v1.1.59 // indirect
	github.com/mitchellh/copystructure v1.2.0 // indirect
	github.com/mitchellh/go-ps v1.0.0 // indirect
	github.com/mitchellh/reflectwalk v1.0.2 // indirect
	github.com/muesli/cache2go v0.0.0-20221011235721-518229cd8021 // indirect
	github.com/pkg/errors v0.9.1 // indirect
	github.com/prometheus/client_golang v1.19.1 // indirect
	github.com/prometheus/client_model v0.5.0 // indirect
	github.com/prometheus/common v0.48.0 // indirect
	github.com/prometheus/procfs v0.12.0 // indirect
	github.com/quic-go/qpack v0.4.0 // indirect
	github.com/quic-go/quic-go v0.44.0 // indirect
	github.com/rs/xid v1.5.0 // indirect
	github.com/russross/blackfriday/v2 v2.1.0 // indirect
	github.com/shopspring/decimal v1.3.1 // indirect
	github.com/shurcooL/sanitized_anchor_name v1.0.0 // indirect
	github.com/slackhq/nebula v1.6.1 // indirect
	github.com/smallstep/certificates v0.26.1 // indirect
	github.com/smallstep/nosql v0.6.1 // indirect
	github.com/smallstep/pkcs7 v0.0.0-20231024181729-3b98ecc1ca81 // indirect
	github.com/smallstep/scep v0.0.0-20231024192529-aee96d7ad34d // indirect
	github.com/smallstep/truststore v0.13.0 // indirect
	github.com/spf13/cast v1.5.0 // indirect
	github.com/spf13/cobra v1.8.0 // indirect
	github.com/spf13/pflag v1.0.5 // indirect
	github.com/tailscale/tscert v0.0.0-20240517230440-bbccfbf48933 // indirect
	github.com/urfave/cli v1.22.14 // indirect
	github.com/zeebo/blake3 v0.2.3 // indirect
	go.etcd.io/bbolt v1.3.9 // indirect
	go.step.sm/cli-utils v0.9.0 // indirect
	go.step.sm/crypto v0.45.0 // indirect
	go.step.sm/linkedca v0.20.1 // indirect
	go.uber.org/automaxprocs v1.5.3 // indirect
	go.uber.org/multierr v1.11.0 // indirect
	go.uber.org/zap/exp v0.2.0 // indirect
	golang.org/x/crypto/x509roots/fallback v0.0.0-20240507223354-67b13616a595 // indirect
	golang.org/x/exp v0.0.0-20240506185415-9bf2ced13842 // indirect
	golang.org/x/net v0.25.0 // indirect
	golang.org/x/sys v0.20.0 // indirect
	golang.org/x/term v0.20.0 // indirect
	golang.org/x/text v0.15.0 // indirect
	golang.org/x/time v0.5.0 // indirect
	google.golang.org/genproto/googleapis/rpc v0.0.0-20240429193739-8cf5692501f6 // indirect
	google.golang.org/grpc v1.63.2 // indirect
	google.golang.org/protobuf v1.34.1 // indirect
	gopkg.in/yaml.v3 v3.0.1 // indirect
)

replace github.com/gr33nbl00d/caddy-revocation-validator => /repo
