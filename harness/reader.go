package main

// Driving the real streaming CRL reader and a whole-document reference decoder.

import (
	"bytes"
	"crypto"
	"crypto/x509/pkix"
	"encoding/asn1"
	"fmt"
	"math/big"
	"os"
	"time"

	"github.com/gr33nbl00d/caddy-revocation-validator/core"
	"github.com/gr33nbl00d/caddy-revocation-validator/crl/crlreader"
)

type recProc struct {
	Starts  []crlreader.CRLMetaInfo
	Entries []pkix.RevokedCertificate
	Issuers []string
	ExtMeta []*big.Int
	order   []string
	failAt  int // fail the k-th insert (1-based) when > 0
}

func (r *recProc) StartUpdateCrl(m *crlreader.CRLMetaInfo) error {
	r.Starts = append(r.Starts, *m)
	r.order = append(r.order, "start")
	return nil
}
func (r *recProc) InsertRevokedCertificate(e *crlreader.CRLEntry) error {
	r.Entries = append(r.Entries, *e.RevokedCertificate)
	r.Issuers = append(r.Issuers, e.Issuer.String())
	r.order = append(r.order, "insert")
	if r.failAt > 0 && len(r.Entries) == r.failAt {
		return fmt.Errorf("injected insert failure")
	}
	return nil
}
func (r *recProc) UpdateExtendedMetaInfo(i *crlreader.ExtendedCRLMetaInfo) error {
	r.ExtMeta = append(r.ExtMeta, i.CRLNumber)
	r.order = append(r.order, "ext")
	return nil
}
func (r *recProc) UpdateSignatureCertificate(*core.CertificateChainEntry) error { return nil }

type readObs struct {
	Class  string // ok | err | panic
	Err    string
	Proc   *recProc
	Result *crlreader.CRLReadResult
}

func realRead(path string) (o readObs) {
	o.Proc = &recProc{}
	defer func() {
		if r := recover(); r != nil {
			o.Class = "panic"
			o.Err = fmt.Sprint(r)
		}
	}()
	res, err := crlreader.StreamingCRLFileReader{}.ReadCRL(o.Proc, path)
	if err != nil {
		o.Class = "err"
		o.Err = err.Error()
		return
	}
	o.Class = "ok"
	o.Result = res
	return
}

func realReadBytes(c *Ctx, name string, b []byte) readObs {
	p := c.Work + "/" + name
	mustNoErr(os.WriteFile(p, b, 0600))
	defer os.Remove(p)
	return realRead(p)
}

// reference decoding of a whole DER document with encoding/asn1
type refCRL struct {
	List    pkix.CertificateList
	Number  *big.Int
	HasExts bool
}

func refDecode(der []byte) (*refCRL, error) {
	r := &refCRL{}
	rest, err := asn1.Unmarshal(der, &r.List)
	if err != nil {
		return nil, err
	}
	if len(rest) != 0 {
		return nil, fmt.Errorf("trailing data")
	}
	for _, e := range r.List.TBSCertList.Extensions {
		r.HasExts = true
		if e.Id.Equal(asn1.ObjectIdentifier{2, 5, 29, 20}) {
			n := new(big.Int)
			if _, err := asn1.Unmarshal(e.Value, &n); err != nil {
				return nil, err
			}
			r.Number = n
		}
	}
	return r, nil
}

func sameEntry(a, b pkix.RevokedCertificate) bool {
	if a.SerialNumber.Cmp(b.SerialNumber) != 0 || !a.RevocationTime.Equal(b.RevocationTime) || len(a.Extensions) != len(b.Extensions) {
		return false
	}
	for i := range a.Extensions {
		if !a.Extensions[i].Id.Equal(b.Extensions[i].Id) || a.Extensions[i].Critical != b.Extensions[i].Critical || !bytes.Equal(a.Extensions[i].Value, b.Extensions[i].Value) {
			return false
		}
	}
	return true
}

func hashOf(h crypto.Hash, b []byte) []byte {
	hh := h.New()
	hh.Write(b)
	return hh.Sum(nil)
}

// compareWithReference is the direct C06 oracle: what the streaming reader handed to its
// consumer versus what the whole-document decoder yields.  Returns "" when they agree.
func compareWithReference(o readObs, ref *refCRL, tbs []byte, h crypto.Hash, sigBits []byte) string {
	if o.Class != "ok" {
		return "reader outcome " + o.Class + ": " + o.Err
	}
	p := o.Proc
	if len(p.Starts) != 1 || len(p.ExtMeta) != 1 {
		return fmt.Sprintf("consumer saw %d start and %d ext-meta calls", len(p.Starts), len(p.ExtMeta))
	}
	want := append([]string{"start"}, make([]string, 0)...)
	for range ref.List.TBSCertList.RevokedCertificates {
		want = append(want, "insert")
	}
	want = append(want, "ext")
	if fmt.Sprint(want) != fmt.Sprint(p.order) {
		return "order of consumer calls differs"
	}
	if p.Starts[0].Issuer.String() != ref.List.TBSCertList.Issuer.String() {
		return "issuer differs"
	}
	if !p.Starts[0].ThisUpdate.Equal(ref.List.TBSCertList.ThisUpdate) {
		return "thisUpdate differs"
	}
	if !p.Starts[0].NextUpdate.Equal(ref.List.TBSCertList.NextUpdate) && !(p.Starts[0].NextUpdate.IsZero() && ref.List.TBSCertList.NextUpdate.IsZero()) {
		return "nextUpdate differs"
	}
	if len(p.Entries) != len(ref.List.TBSCertList.RevokedCertificates) {
		return fmt.Sprintf("entry count %d, reference %d", len(p.Entries), len(ref.List.TBSCertList.RevokedCertificates))
	}
	for i := range p.Entries {
		if !sameEntry(p.Entries[i], ref.List.TBSCertList.RevokedCertificates[i]) {
			return fmt.Sprintf("entry %d differs", i)
		}
		if p.Issuers[i] != ref.List.TBSCertList.Issuer.String() {
			return fmt.Sprintf("entry %d carries the wrong issuer", i)
		}
	}
	if (p.ExtMeta[0] == nil) != (ref.Number == nil) || (ref.Number != nil && p.ExtMeta[0].Cmp(ref.Number) != 0) {
		return "CRL number differs"
	}
	if !bytes.Equal(o.Result.CalculatedSignature, hashOf(h, tbs)) {
		return "digest is not the digest of the DER tbsCertList"
	}
	if !bytes.Equal(o.Result.CalculatedSignature, hashOf(h, ref.List.TBSCertList.Raw)) {
		return "digest is not the digest of the tbsCertList cut out by encoding/asn1"
	}
	if !bytes.Equal(o.Result.Signature.Bytes, sigBits) || !bytes.Equal(o.Result.Signature.Bytes, ref.List.SignatureValue.Bytes) {
		return "signature bits differ"
	}
	if o.Result.HashAndVerifyStrategy.HashStrategy != h {
		return "hash algorithm differs from the declared one"
	}
	if o.Result.Issuer.String() != ref.List.TBSCertList.Issuer.String() {
		return "result issuer differs"
	}
	nx := 0
	if o.Result.CRLExtensions != nil {
		nx = len(*o.Result.CRLExtensions)
	}
	if nx != len(ref.List.TBSCertList.Extensions) {
		return "CRL extension count differs"
	}
	return ""
}

var _ = time.Now
