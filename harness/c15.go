package main

// C15 — refresh liveness with real tickers.

import (
	"fmt"
	"net/http"
	"sort"
	"strings"
	"sync"
	"time"
)

func init() { commands["c15"] = runC15 }

type c15Inst struct {
	Interval time.Duration `json:"interval"`
	Offset   time.Duration `json:"offset"`
	Source   string        `json:"source"` // cdp | crl_urls
	Fetch    string        `json:"fetch"`
}

type c15Case struct {
	Name      string        `json:"name"`
	Insts     []c15Inst     `json:"instances"`
	FailFirst int           `json:"fail_first_refreshes"`
	RunFor    time.Duration `json:"run_for"`
	// observations: per instance the fetch times (ms since its provisioning) of its CRL location
	Fetches  [][]int64 `json:"fetch_ms"`
	Revoked  []string  `json:"verdict_after_new_crl"`
	ProvAt   []int64   `json:"provisioned_at_ms"` // when the instance's ticker started, ms since the case started
	EndAt    []int64   `json:"observed_until_ms"`
	MaxGapMs []int64   `json:"max_gap_ms"`
}

func runC15(c *Ctx) {
	primeGlobalStamp(c)
	ms := time.Millisecond
	cases := []*c15Case{
		{Name: "one instance", Insts: []c15Inst{{300 * ms, 0, "cdp", "fetch_actively"}}},
		{Name: "two instances, same interval, second 1/4 later", Insts: []c15Inst{{320 * ms, 0, "cdp", "fetch_actively"}, {320 * ms, 80 * ms, "cdp", "fetch_actively"}}},
		{Name: "two instances, short and long interval", Insts: []c15Inst{{250 * ms, 0, "cdp", "fetch_actively"}, {700 * ms, 40 * ms, "crl_urls", "fetch_actively"}}},
		{Name: "three instances, mixed sources and fetch modes", Insts: []c15Inst{{250 * ms, 0, "crl_urls", "fetch_actively"}, {250 * ms, 60 * ms, "cdp", "fetch_background"}, {400 * ms, 130 * ms, "cdp", "fetch_actively"}}},
		{Name: "fail three times then succeed", Insts: []c15Inst{{300 * ms, 0, "cdp", "fetch_actively"}}, FailFirst: 3},
		{Name: "background mode with configured url", Insts: []c15Inst{{300 * ms, 0, "crl_urls", "fetch_background"}}},
	}
	if c.Thorough() {
		for _, sig := range []string{"verify_log", "none"} {
			_ = sig
		}
		cases = append(cases, &c15Case{Name: "three instances, long run", Insts: []c15Inst{{200 * ms, 0, "cdp", "fetch_actively"}, {200 * ms, 50 * ms, "cdp", "fetch_actively"}, {900 * ms, 20 * ms, "crl_urls", "fetch_actively"}}, RunFor: 8 * time.Second})
	}
	var wg sync.WaitGroup
	for ci, cs := range cases {
		if cs.RunFor == 0 {
			cs.RunFor = 2600 * ms
		}
		wg.Add(1)
		go func(ci int, cs *c15Case) {
			defer wg.Done()
			c15Run(c, ci, cs)
		}(ci, cs)
	}
	wg.Wait()
	var items []string
	for ci, cs := range cases {
		c.Count(fmt.Sprintf("instances=%d", len(cs.Insts)))
		c.Sample(cs)
		c.Nontrivial(cs.Name)
		var intervals, events, seen []string
		type ev struct {
			t int64
			s string
		}
		var evs []ev
		for i, in := range cs.Insts {
			T := in.Interval.Milliseconds()
			intervals = append(intervals, fmt.Sprint(T))
			off := cs.ProvAt[i]
			evs = append(evs, ev{off, fmt.Sprintf("(%d, Forced %d)", off, i)})
			var gap int64
			last := off
			for _, f := range cs.Fetches[i] {
				if f < off {
					continue // downloads during provisioning
				}
				if f-last > gap {
					gap = f - last
				}
				last = f
			}
			if cs.EndAt[i]-last > gap {
				gap = cs.EndAt[i] - last
			}
			cs.MaxGapMs = append(cs.MaxGapMs, gap)
			c.Count("source=" + in.Source)
			// direct oracle: every window of 2T (+25% scheduling slack) contains a fetch
			if gap > 2*T+T/4 {
				c.Fail("", fmt.Sprintf("%s: instance %d (interval %v, %s) went %d ms without fetching its CRL (bound %d ms)", cs.Name, i, in.Interval, in.Source, gap, 2*T+T/4), cs)
			}
			if cs.Revoked[i] != "revoked" {
				c.Fail("", fmt.Sprintf("%s: instance %d: a certificate revoked in the newly published CRL is %s after 2.5 intervals", cs.Name, i, cs.Revoked[i]), cs)
			}
			for k := int64(1); off+k*T < cs.EndAt[i]-T/2; k++ {
				t := off + k*T
				evs = append(evs, ev{t, fmt.Sprintf("(%d, Tick %d)", t, i)})
				hit := false
				for _, f := range cs.Fetches[i] {
					if f > t-T/2 && f <= t+T*9/10 { // the fetch of this tick; scheduling delay under load is tolerated up to 0.9 T
						hit = true
					}
				}
				// failed downloads still are attempts: the origin counted them
				seen = append(seen, fmt.Sprintf("(%d, %d%%nat, %s)", t, i, coqBool(hit)))
			}
		}
		sort.SliceStable(evs, func(a, b int) bool { return evs[a].t < evs[b].t })
		for _, e := range evs {
			events = append(events, e.s)
		}
		items = append(items, fmt.Sprintf("mk_tk %d [%s] [%s] [%s]", ci, strings.Join(intervals, "; "), strings.Join(events, "; "), strings.Join(seen, "; ")))
	}
	c.WriteCoqSharded("cases_C15", "From Verif Require Import Base Ticker RunTicker.\nOpen Scope Z_scope.\n", "tkcase", items, "ticker_mismatches", 50)
	c.Rep.Cases = len(cases) + c15ProvisionStage(c)
	c.Rep.Rule = "real validators with update_interval 250..900 ms, 1..3 instances in one process with phase offsets, CRL known via CDP or crl_urls, fetch mode active/background, origin failing the first k refreshes; the origin logs every fetch with its time; oracle: no gap between fetches above 2.25 intervals, and a certificate revoked by a newly published CRL is rejected within 2.5 intervals; the ideal tick schedule is evaluated in the model and compared tick by tick; plus, for crl_urls/crl_files x fetch mode x backend with a 150 ms origin, the first handshake after Provision (and after a restart) rejects a certificate on the configured list"
}

func c15Run(c *Ctx, ci int, cs *c15Case) {
	n := len(cs.Insts)
	cs.Fetches = make([][]int64, n)
	cs.Revoked = make([]string, n)
	cs.ProvAt = make([]int64, n)
	cs.EndAt = make([]int64, n)
	var mu sync.Mutex
	var wg sync.WaitGroup
	t0 := time.Now()
	for i, in := range cs.Insts {
		wg.Add(1)
		go func(i int, in c15Inst) {
			defer wg.Done()
			time.Sleep(time.Until(t0.Add(in.Offset)))
			w := NewWorld(c, fmt.Sprintf("c15_%d_%d", ci, i))
			defer w.Close()
			w.AddList("old", ListSpec{Serials: []int64{101}})
			w.AddList("new", ListSpec{Serials: []int64{101, 102}, Number: 2})
			fails := 0
			current := "old"
			w.Org.Route("/a", func(attempt int, rw http.ResponseWriter, _ *http.Request) {
				mu.Lock()
				cs.Fetches[i] = append(cs.Fetches[i], time.Since(t0).Milliseconds())
				cur := current
				failNow := attempt >= 2 && fails < cs.FailFirst
				if failNow {
					fails++
				}
				mu.Unlock()
				if failNow {
					http.Error(rw, "unavailable", 503)
					return
				}
				rw.Write(w.Lists[cur])
			})
			w.Cfg = VCfg{Mode: "crl_only", Storage: "memory", SigMode: "verify", FetchMode: in.Fetch, Interval: in.Interval.String()}
			var cdp []string
			if in.Source == "crl_urls" {
				w.Cfg.CRLUrls = []string{w.Org.URL("/a")}
				w.Cfg.TrustedSigners = []string{writeCertPEM(c, w.CA.Cert)}
			} else {
				cdp = []string{"/a"}
			}
			w.Cfg.WorkDir = w.Dir
			v, err := NewValidator(w.Cfg)
			if err != nil {
				cs.Revoked[i] = "provision-error: " + err.Error()
				return
			}
			w.V = v
			cs.ProvAt[i] = time.Since(t0).Milliseconds()
			w.AddCert("c101", CertSpec{Serial: 101, CDP: cdp})
			w.AddCert("c102", CertSpec{Serial: 102, CDP: cdp})
			classify(w.V.Verify(w.chainFor("c101")...)) // first use of the CDP
			// publish the new list one interval before the end; by the end it must be in force
			time.Sleep(time.Until(t0.Add(cs.RunFor - in.Interval*5/2)))
			mu.Lock()
			current = "new"
			mu.Unlock()
			time.Sleep(time.Until(t0.Add(cs.RunFor)))
			cs.EndAt[i] = time.Since(t0).Milliseconds()
			cs.Revoked[i] = classify(w.V.Verify(w.chainFor("c102")...))
		}(i, in)
	}
	wg.Wait()
}
