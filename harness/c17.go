package main

// C17 — streaming memory bound.  A child process provisions a validator with a CRL of N
// entries (disk storage, file or HTTP source, DER or PEM) and samples its own live heap.

import (
	"bufio"
	"encoding/json"
	"fmt"
	"math/big"
	"net/http"
	"os"
	"os/exec"
	"path/filepath"
	"runtime"
	"runtime/debug"
	"strings"
	"sync/atomic"
	"time"
)

func init() {
	commands["c17"] = runC17
	commands["c17child"] = runC17Child
}

type c17Obs struct {
	N        int    `json:"entries"`
	Bytes    int    `json:"file_bytes"`
	Source   string `json:"source"`
	Encoding string `json:"encoding"`
	Reason   int    `json:"entry_reason_code"`
	PeakHeap uint64 `json:"peak_live_heap_bytes"`
	BaseHeap uint64 `json:"baseline_heap_bytes"`
	Samples  int    `json:"samples"`
	Listed   string `json:"listed_probe"`
	Err      string `json:"err,omitempty"`
}

// writeBigCRL streams a CRL with n entries to a file without holding it in memory.
func writeBigCRL(path string, ca *CA, n int, pemEnc bool, reason ...int) (int, *big.Int) {
	// entries of fixed size: serial 8 bytes (high byte 0x10..), UTCTime
	entry := func(i int) []byte {
		o := EntryOpts{Serial: new(big.Int).SetUint64(0x1000000000000000 + uint64(i))}
		if len(reason) > 0 {
			o.Reason = reason[0] // every entry carries a reasonCode entry extension with this value
		}
		return EntryTLV(o)
	}
	es := len(entry(0))
	listLen := es * n
	d := ca.MakeDoc(CRLOpts{Entries: []EntryOpts{}})
	// rebuild tbs with the big list: header pieces
	var hdr []byte
	hdr = append(hdr, 0x02, 0x01, 0x01)
	hdr = append(hdr, d.InnerAlg...)
	hdr = append(hdr, d.Issuer...)
	hdr = append(hdr, d.ThisUpdate...)
	hdr = append(hdr, d.NextUpdate...)
	listHdr := append([]byte{0x30}, derLen(listLen)...)
	exts := tlv(0xA0, d.Exts)
	tbsLen := len(hdr) + len(listHdr) + listLen + len(exts)
	tbsHdr := append([]byte{0x30}, derLen(tbsLen)...)
	// sign: hash streamed
	alg := defaultAlgFor(ca.Key)
	h := alg.Hash.New()
	h.Write(tbsHdr)
	h.Write(hdr)
	h.Write(listHdr)
	for i := 0; i < n; i++ {
		h.Write(entry(i))
	}
	h.Write(exts)
	sig, err := ca.Key.Sign(nil2rand(), h.Sum(nil), alg.Hash)
	mustNoErr(err)
	sigTLV := tlv(0x03, append([]byte{0}, sig...))
	total := len(tbsHdr) + tbsLen + len(d.OuterAlg) + len(sigTLV)
	outer := append([]byte{0x30}, derLen(total)...)
	f, err := os.Create(path)
	mustNoErr(err)
	var wr interface {
		Write([]byte) (int, error)
	} = bufio.NewWriterSize(f, 1<<20)
	bw := wr.(*bufio.Writer)
	var pw *pemWriter
	if pemEnc {
		pw = &pemWriter{w: bw}
		wr = pw
		bw.WriteString("-----BEGIN X509 CRL-----\n")
	}
	wr.Write(outer)
	wr.Write(tbsHdr)
	wr.Write(hdr)
	wr.Write(listHdr)
	for i := 0; i < n; i++ {
		wr.Write(entry(i))
	}
	wr.Write(exts)
	wr.Write(d.OuterAlg)
	wr.Write(sigTLV)
	if pw != nil {
		pw.Close()
		bw.WriteString("-----END X509 CRL-----\n")
	}
	bw.Flush()
	f.Close()
	st, _ := os.Stat(path)
	return int(st.Size()), new(big.Int).SetUint64(0x1000000000000000 + uint64(n-1))
}

func runC17(c *Ctx) {
	ca := NewRootCA("C17 CA", false)
	sizes := []int{20000, 200000}
	if c.Thorough() {
		sizes = []int{20000, 200000, 2000000}
	}
	type variant struct {
		source, enc string
		reason      int // reasonCode entry extension of every entry (0: entries without extensions)
	}
	// the bound holds whatever the entries carry: also when every entry has a reasonCode extension, including the
	// values an implementation might treat specially (8 removeFromCRL, 6 certificateHold)
	variants := []variant{{"file", "der", 0}, {"http", "der", 0}, {"file", "pem", 0}, {"file", "der", 8}}
	if c.Thorough() {
		variants = append(variants, variant{"file", "der", 6}, variant{"http", "der", 1})
	}
	if c.Thorough() {
		variants = append(variants, variant{"http", "pem", 0})
	}
	self, _ := os.Executable()
	caPEM := writeCertPEM(c, ca.Cert)
	var all []c17Obs
	for _, v := range variants {
		var peaks []c17Obs
		for _, n := range sizes {
			path := filepath.Join(c.Work, fmt.Sprintf("c17_%s_%s_%d_%d.crl", v.source, v.enc, v.reason, n))
			var rs []int
			if v.reason != 0 {
				rs = []int{v.reason}
			}
			size, last := writeBigCRL(path, ca, n, v.enc == "pem", rs...)
			wd := c.TempDir(fmt.Sprintf("c17wd_%s_%s_%d_%d", v.source, v.enc, v.reason, n))
			leaf := ca.IssueLeaf(LeafOpts{CN: "c17", Serial: last})
			leafPath := filepath.Join(c.Work, "c17leaf.der")
			mustNoErr(os.WriteFile(leafPath, leaf.Cert.Raw, 0600))
			caPath := filepath.Join(c.Work, "c17ca.der")
			mustNoErr(os.WriteFile(caPath, ca.Cert.Raw, 0600))
			cmd := exec.Command(self, "c17child", "--out", wd, "--work", path+"|"+v.source+"|"+caPEM+"|"+leafPath+"|"+caPath)
			out, err := cmd.Output()
			var o c17Obs
			if err != nil || json.Unmarshal(out, &o) != nil {
				o.Err = fmt.Sprintf("child failed: %v %s", err, string(out))
			}
			o.N, o.Bytes, o.Source, o.Encoding, o.Reason = n, size, v.source, v.enc, v.reason
			peaks = append(peaks, o)
			all = append(all, o)
			os.Remove(path)
			os.RemoveAll(wd)
			c.Count("source=" + v.source)
			c.Count("encoding=" + v.enc)
			c.Count("entries~" + bucket(n))
			c.Count(fmt.Sprintf("entry-reasonCode=%d", v.reason))
			c.Nontrivial(fmt.Sprintf("%s|%s|%d|%d", v.source, v.enc, v.reason, n))
		}
		for _, o := range peaks {
			if o.Err != "" {
				c.Fail("", "measurement failed: "+o.Err, o)
			} else if o.Listed != "revoked" {
				c.Fail("", fmt.Sprintf("the last of %d entries is not revoked after loading (%s)", o.N, o.Listed), o)
			}
		}
		// growth of the live heap from N to 10 N (and 100 N) entries must stay far below the growth of the input
		for i := 1; i < len(peaks); i++ {
			a, b := peaks[i-1], peaks[i]
			if a.Err != "" || b.Err != "" {
				continue
			}
			grow := int64(b.PeakHeap) - int64(a.PeakHeap)
			input := int64(b.Bytes - a.Bytes)
			if grow > input/4 && grow > 24<<20 {
				c.Fail("", fmt.Sprintf("%s/%s: live heap grew by %d bytes when the CRL grew by %d bytes (%d -> %d entries)", b.Source, b.Encoding, grow, input, a.N, b.N), []c17Obs{a, b})
			}
		}
	}
	for _, o := range all {
		c.Sample(o)
	}
	c.Rep.Cases = len(all)
	c.Rep.Cases += c17ComponentStage(c, ca)
	c.Rep.Rule = "CRLs with 20 000 / 200 000 (thorough: 2 000 000) fixed-size entries streamed to disk, loaded by a real validator with disk storage in a child process from a configured file or an HTTP origin, DER and PEM, entries without extensions and entries that all carry a reasonCode extension (8 removeFromCRL; thorough: also 6 and 1); the child samples runtime.MemStats.HeapAlloc every 10 ms with a forced GC every 100 ms; oracle: the peak live heap grows by less than a quarter of the growth of the input (and less than 24 MiB is always tolerated); the listed last entry must be revoked; plus, on their own and with a 1 000 000-entry (thorough: 4 000 000) CRL: the URL loader downloading into a file, the file loader copying a configured file, and the streaming reader on DER and on PEM with a consumer that keeps nothing — heap sampled every millisecond must stay below a quarter of the input"
}

// child: --work "path|source|caPEM|leafDER|caDER"
func runC17Child(c *Ctx) {
	parts := strings.Split(c.Work, "|")
	path, source, caPEM := parts[0], parts[1], parts[2]
	leafRaw, _ := os.ReadFile(parts[3])
	caRaw, _ := os.ReadFile(parts[4])
	debug.SetGCPercent(50)
	var o c17Obs
	cfg := VCfg{Mode: "crl_only", WorkDir: c.Out, Storage: "disk", SigMode: "verify", Interval: "1h", TrustedSigners: []string{caPEM}}
	if source == "file" {
		cfg.CRLFiles = []string{path}
	} else {
		srv := &http.Server{Addr: "127.0.0.1:0"}
		_ = srv
		org := NewOrigin()
		defer org.Close()
		org.Route("/big", func(_ int, w http.ResponseWriter, r *http.Request) { http.ServeFile(w, r, path) })
		cfg.CRLUrls = []string{org.URL("/big")}
	}
	runtime.GC()
	var m runtime.MemStats
	runtime.ReadMemStats(&m)
	o.BaseHeap = m.HeapAlloc
	var stop int32
	done := make(chan struct{})
	go func() {
		defer close(done)
		k := 0
		for atomic.LoadInt32(&stop) == 0 {
			time.Sleep(10 * time.Millisecond)
			k++
			if k%10 == 0 {
				runtime.GC()
			}
			var ms runtime.MemStats
			runtime.ReadMemStats(&ms)
			if k%10 == 0 && ms.HeapAlloc > o.PeakHeap { // live heap right after a collection
				o.PeakHeap = ms.HeapAlloc
			}
			o.Samples++
		}
	}()
	v, err := NewValidator(cfg)
	atomic.StoreInt32(&stop, 1)
	<-done
	if err != nil {
		o.Err = err.Error()
	} else {
		leaf, e1 := parseCert(leafRaw)
		ca, e2 := parseCert(caRaw)
		if e1 != nil || e2 != nil {
			o.Err = "cert parse"
		} else {
			o.Listed = classify(v.Verify(leaf, ca))
		}
		v.Close()
	}
	b, _ := json.Marshal(o)
	os.Stdout.Write(b)
	os.Exit(0)
}
