package main

// C08, concurrent part — "every lookup, concurrent or later, is answered from either the complete
// previously accepted list or the complete newly accepted list ... and once the new list has been
// observed the old one is never observed again".
//
// One location is refreshed through versions L0, L1, ... where Lk = {1000+k, 999} plus 300 filler
// entries (so that staging takes time), with failing refreshes (bad signature, garbage) in
// between.  Observer goroutines keep shaking hands:
//   serial 999  (on every list)   must always be revoked — never accept (empty/partial list), never
//                                 an error (store closed or swapped under the lookup);
//   serial 5    (on no list)      must always be accepted;
//   serial 1000+j                 is revoked exactly while version j is in force: per observer the
//                                 verdicts read accept* revoked* accept* and never return to revoked;
// and the refresher itself checks, after each successful refresh returned, that the new version is
// what every later lookup sees.

import (
	"bytes"
	"encoding/json"
	"fmt"
	"os"
	"os/exec"
	"path/filepath"
	"sync"
	"sync/atomic"
	"syscall"
	"time"
)

func init() { commands["c08conc"] = runC08ConcChild }

// c08Concurrent runs the stage for each backend in a child process: an unsynchronised map access is a fatal
// error of the Go runtime that no recover() catches — the child dying IS the observation then.
func c08Concurrent(c *Ctx) {
	for _, storage := range []string{"memory", "disk"} {
		rolloverCheck(c, rolloverScenario(c, storage))
		c.Rep.Cases++
	}
	self, _ := os.Executable()
	for _, storage := range []string{"memory", "disk"} {
		out := c.TempDir("c08conc_out_" + storage)
		cmd := exec.Command(self, "c08conc", "--out", out, "--work", filepath.Join(c.Work, "c08conc_"+storage)+"|"+storage, "--tier", c.Tier, "--seed", fmt.Sprint(c.Seed))
		cmd.Env = append(os.Environ(), "VERIF_DIR="+os.Getenv("VERIF_DIR"))
		b, err := runWithDeadline(cmd, map[bool]time.Duration{false: 150 * time.Second, true: 15 * time.Minute}[c.Thorough()])
		var res c08ConcResult
		rb, rerr := os.ReadFile(filepath.Join(out, "c08conc.json"))
		c.Count("concurrent=" + storage)
		c.Nontrivial("concurrent|" + storage)
		if err != nil || rerr != nil || json.Unmarshal(rb, &res) != nil {
			txt := string(b)
			if i := indexOf(txt, "fatal error:"); i >= 0 {
				txt = txt[i:]
			} else if i := indexOf(txt, "sync.(*RWMutex)"); i >= 0 && i > 600 {
				txt = txt[i-600:]
			}
			if len(txt) > 1500 {
				txt = txt[:1500]
			}
			c.Fail("", fmt.Sprintf("lookups concurrent with refreshes (%s): the process died: %v: %s", storage, err, txt), map[string]string{"storage": storage, "output": txt})
			continue
		}
		c.Sample(res)
		c.Rep.Cases += int(res.Lookups)
		if res.BadCount > 0 {
			c.Fail("", fmt.Sprintf("lookups concurrent with refreshes (%s): %d bad observations, first: %s", storage, res.BadCount, res.Bad), res)
		}
	}
}

func indexOf(s, sub string) int {
	for i := 0; i+len(sub) <= len(s); i++ {
		if s[i:i+len(sub)] == sub {
			return i
		}
	}
	return -1
}

type c08ConcResult struct {
	Storage  string `json:"storage"`
	Fetch    string `json:"fetch_mode"`
	Lookups  int64  `json:"lookups"`
	Versions int    `json:"versions"`
	Failed   int    `json:"failed_refreshes"`
	Bad      string `json:"first_bad,omitempty"`
	BadCount int64  `json:"bad"`
}

func runC08ConcChild(c *Ctx) {
	parts := splitBar(c.Work)
	c.Work = parts[0]
	os.MkdirAll(c.Work, 0700)
	only := parts[1]
	versions := 36
	if c.Thorough() {
		versions = 200
	}
	for _, storage := range []string{only} {
		res := &c08ConcResult{Storage: storage, Fetch: "fetch_actively", Versions: versions}
		w := NewWorld(c, "c08conc_"+storage)
		filler := make([]int64, 0, 300)
		for i := 0; i < 300; i++ {
			filler = append(filler, int64(5000+i))
		}
		for k := 0; k <= versions; k++ {
			w.AddList(fmt.Sprintf("L%d", k), ListSpec{Serials: append([]int64{int64(1000 + k), 999}, filler...), Number: int64(k + 1)})
		}
		w.AddList("BAD", ListSpec{Serials: []int64{1}, BadSig: true, Number: 999})
		w.Do(sv("/a", "L0"))
		w.Cfg = VCfg{Mode: "crl_only", Storage: storage, SigMode: "verify", FetchMode: "fetch_actively", CDPStrict: true, Interval: "1h"}
		if err := w.Provision(); err != nil {
			c.Fail("", "c08 concurrent stage: provision: "+err.Error(), nil)
			w.Close()
			continue
		}
		w.AddCert("always", CertSpec{Serial: 999, CDP: []string{"/a"}})
		w.AddCert("never", CertSpec{Serial: 5, CDP: []string{"/a"}})
		for k := 0; k <= versions; k++ {
			w.AddCert(fmt.Sprintf("v%d", k), CertSpec{Serial: int64(1000 + k), CDP: []string{"/a"}})
		}
		w.Do(hs("always")) // first use: L0 comes into force
		var current int32  // version whose refresh has returned
		var epoch int32    // odd while a refresh call is running
		var stop int32
		var wg sync.WaitGroup
		bad := func(msg string) {
			if atomic.AddInt64(&res.BadCount, 1) == 1 {
				res.Bad = msg
			}
		}
		for g := 0; g < 16; g++ {
			wg.Add(1)
			go func(g int) {
				defer wg.Done()
				phase := map[int]int{} // per version serial: 0 = not yet revoked, 1 = seen revoked, 2 = seen accept after revoked
				for k := 0; atomic.LoadInt32(&stop) == 0; k++ {
					atomic.AddInt64(&res.Lookups, 1)
					switch k % 3 {
					case 0:
						if v := classify(w.V.Verify(w.chainFor("always")...)); v != "revoked" {
							bad("serial on every list answered " + v)
						}
					case 1:
						if v := classify(w.V.Verify(w.chainFor("never")...)); v != "accept" {
							bad("serial on no list answered " + v)
						}
					case 2:
						lo := int(atomic.LoadInt32(&current))
						j := lo + (k/3)%2 // the version in force or the one being staged
						if j > versions {
							j = versions
						}
						e0 := atomic.LoadInt32(&epoch)
						before := int(atomic.LoadInt32(&current))
						v := classify(w.V.Verify(w.chainFor(fmt.Sprintf("v%d", j))...))
						quiet := e0%2 == 0 && atomic.LoadInt32(&epoch) == e0 // no refresh call overlapped this lookup
						switch v {
						case "revoked":
							if phase[j] == 2 {
								bad(fmt.Sprintf("version %d observed again after a newer one had been observed", j))
							}
							phase[j] = 1
							if before > j {
								bad(fmt.Sprintf("version %d observed after the refresh to version %d had returned", j, before))
							}
						case "accept":
							if phase[j] == 1 {
								phase[j] = 2
							}
							if before == j && quiet {
								bad(fmt.Sprintf("version %d is in force (no refresh running) but its serial is not revoked", j))
							}
						default:
							bad(fmt.Sprintf("lookup of the version-%d serial answered %s", j, v))
						}
					}
				}
			}(g)
		}
		chk := w.V.V.VerifCRLChecker()
		for k := 1; k <= versions; k++ {
			if k%3 == 0 { // a failing refresh in between: version stays
				w.Do(sv("/a", []string{"BAD", "garbage"}[(k/3)%2]))
				atomic.AddInt32(&epoch, 1)
				chk.VerifUpdateCRLs(true)
				atomic.AddInt32(&epoch, 1)
				res.Failed++
				if v := classify(w.V.Verify(w.chainFor(fmt.Sprintf("v%d", k-1))...)); v != "revoked" {
					bad(fmt.Sprintf("after a failed refresh the version-%d serial answered %s", k-1, v))
				}
			}
			w.Do(sv("/a", fmt.Sprintf("L%d", k)))
			// "current" moves only after the refresh returned; observers may see k earlier (that is the new list observed)
			atomic.AddInt32(&epoch, 1)
			chk.VerifUpdateCRLs(true)
			atomic.StoreInt32(&current, int32(k))
			atomic.AddInt32(&epoch, 1)
			if v := classify(w.V.Verify(w.chainFor(fmt.Sprintf("v%d", k))...)); v != "revoked" {
				bad(fmt.Sprintf("after the refresh to version %d returned, its serial answered %s", k, v))
			}
			time.Sleep(2 * time.Millisecond)
		}
		atomic.StoreInt32(&stop, 1)
		wg.Wait()
		w.Close()
		rb, _ := json.Marshal(res)
		os.WriteFile(filepath.Join(c.Out, "c08conc.json"), rb, 0644)
	}
}

func splitBar(s string) []string {
	var out []string
	cur := ""
	for _, r := range s {
		if r == '|' {
			out = append(out, cur)
			cur = ""
		} else {
			cur += string(r)
		}
	}
	return append(out, cur)
}

// runWithDeadline runs a child; a child that does not finish is sent SIGQUIT (the Go runtime then prints every
// goroutine's stack) and, two seconds later, killed.
func runWithDeadline(cmd *exec.Cmd, d time.Duration) ([]byte, error) {
	var buf bytes.Buffer
	cmd.Stdout, cmd.Stderr = &buf, &buf
	if err := cmd.Start(); err != nil {
		return nil, err
	}
	done := make(chan error, 1)
	go func() { done <- cmd.Wait() }()
	select {
	case err := <-done:
		return buf.Bytes(), err
	case <-time.After(d):
		cmd.Process.Signal(syscall.SIGQUIT)
		select {
		case <-done:
		case <-time.After(2 * time.Second):
			cmd.Process.Kill()
			<-done
		}
		out := buf.Bytes()
		if i := bytes.Index(out, []byte("SIGQUIT")); i >= 0 {
			out = out[i:]
		}
		return out, fmt.Errorf("did not finish within %v (deadlock or livelock)", d)
	}
}
