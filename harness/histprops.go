package main

// C08, C10, C11, C16: histories over the real validator compared with the reference semantics
// of the property texts and with the Coq repository model.

import (
	"fmt"
	"math/rand"
	"strings"

	"github.com/gr33nbl00d/caddy-revocation-validator/crl/crlreader"
	"github.com/gr33nbl00d/caddy-revocation-validator/crl/crlstore"
)

func init() {
	commands["c08"] = runC08
	commands["c10"] = runC10
	commands["c11"] = runC11
	commands["c16"] = runC16
}

// finishHist applies the direct oracle, fills the report and emits the Coq cases.
func finishHist(c *Ctx, id string, res []Hist, rule string) {
	var items []string
	for i, h := range res {
		c.Count("storage=" + h.Cfg.Storage)
		c.Count("sig=" + h.Cfg.SigMode)
		c.Count("fetch=" + h.Cfg.Fetch)
		c.Count(fmt.Sprintf("strict=%v", h.Cfg.Strict))
		for k, st := range h.Steps {
			c.Count("op=" + st.Op)
			if k < len(h.Obs) && h.Obs[k] != "" {
				c.Count("obs=" + h.Obs[k])
			}
		}
		if len(h.Obs) == 1 && strings.HasPrefix(h.Obs[0], "provision-error") {
			c.Fail("", "provisioning failed: "+h.Obs[0], h)
			continue
		}
		bad := false
		aborted := false
		for _, o := range h.Obs {
			if o == "aborted" {
				aborted = true
			}
		}
		if aborted {
			// another history of this run hung inside the implementation; this one was stopped and says nothing
			c.Count("aborted-after-a-hang-elsewhere")
			continue
		}
		for k, o := range h.Obs {
			if o == "hang" || o == "panic" {
				c.Fail("", fmt.Sprintf("step %d (%s %s): %s", k, h.Steps[k].Op, h.Steps[k].What, o), h)
				bad = true
				break
			}
		}
		if !bad {
			if k, msg := compareHist(h); k >= 0 {
				c.Fail("", msg, h)
			}
		}
		// non-trivial: some handshake is rejected and some accepted
		acc, rej := false, false
		for _, o := range h.Obs {
			if o == "accept" {
				acc = true
			}
			if o == "revoked" || o == "error" {
				rej = true
			}
		}
		if acc && rej {
			c.Nontrivial(fmt.Sprintf("%v|%v", h.Cfg, h.Steps))
		}
		if i%37 == 0 {
			c.Sample(h)
		}
		items = append(items, coqHist(i, h))
	}
	c.WriteCoqSharded("cases_"+id, histHeader(), "hcase", items, "repo_mismatches", 60)
	c.Rep.Cases = len(res)
	c.Rep.Rule = rule + "; each history runs on the real validator (crl_only) against scripted origins; distinct by (configuration, history), non-trivial = the history contains both an accepted and a rejected handshake"
}

func runC10(c *Ctx) {
	r := rand.New(rand.NewSource(c.Seed))
	hists := [][]Step{
		{hs("ldap"), sv("/a", "old"), hs("mixed"), hs("c101"), hs("two")},
		{hs("c104"), sv("/a", "garbage"), hs("c104"), sv("/a", "badsig"), hs("c104"), sv("/a", "old"), hs("c104"), hs("c101")},
		{sv("/a", "down"), hs("c101"), refreshStep, hs("c101"), sv("/a", "old"), refreshStep, hs("c101"), hs("c104")},
		{sv("/a", "old"), hs("c104"), restartStep, hs("c104"), hs("c101"), sv("/a", "down"), refreshStep, hs("c101")},
		{sv("/a", "unknown"), hs("c104"), hs("c501"), sv("/a", "old"), hs("c104"), refreshStep, hs("c501"), hs("c101")},
		{sv("/a", "old"), sv("/b", "other"), hs("two"), hs("c103"), hs("o101"), hs("b101"), hs("n101")},
		{sv("/a", "critical"), hs("c600"), hs("c104"), restartStep, hs("c600"), sv("/a", "new"), hs("c102")},
	}
	n := 10
	if c.Thorough() {
		n = 120
	}
	for i := 0; i < n; i++ {
		hists = append(hists, randomHist(r, 6+r.Intn(8)))
	}
	finishHist(c, "C10", runHists(c, allCfgs(), hists), "CDP-set corpus (http, ldap-only, mixed, two URLs, unknown signer, garbage, critical, down) + random histories over {serve, handshake, refresh, restart}, on all 24 configurations storage x signature mode x fetch mode x strict")
	// crl_cdp_strict with every other option of cdp_config left at its default (the strictness flag must not depend on
	// crl_fetch_mode being written out), and lenient likewise
	for _, strict := range []bool{true, false} {
		for _, storage := range []string{"memory", "disk"} {
			w := NewWorld(c, fmt.Sprintf("c10default_%v_%s", strict, storage))
			w.Do(sv("/a", "down"))
			w.AddCert("x", CertSpec{Serial: 101, CDP: []string{"/a"}})
			w.Cfg = VCfg{Mode: "crl_only", Storage: storage, SigMode: "verify", CDPStrict: strict, Interval: "1h"} // no crl_fetch_mode
			rep := map[string]interface{}{"crl_cdp_strict": strict, "storage": storage, "crl_fetch_mode": "(default)"}
			if err := w.Provision(); err != nil {
				c.Fail("", "c10 default-fetch-mode stage: provision: "+err.Error(), rep)
			} else {
				v := w.Do(hs("x"))
				rep["verdict"] = v
				want := map[bool]string{true: "error", false: "accept"}[strict]
				if v != want {
					c.Fail("", fmt.Sprintf("crl_cdp_strict=%v with crl_fetch_mode left at its default (%s), distribution point down: handshake %s, the property demands %s", strict, storage, v, want), rep)
				}
			}
			w.Close()
			c.Rep.Cases++
			c.Count("default-fetch-mode")
			c.Nontrivial(fmt.Sprintf("default-fetch|%v|%s", strict, storage))
		}
	}
	c.Rep.Cases += c10URLStage(c)
}

func runC11(c *Ctx) {
	r := rand.New(rand.NewSource(c.Seed))
	hists := [][]Step{
		{sv("/a", "badsig"), hs("c500"), sv("/a", "old"), hs("c500"), hs("c101"), refreshStep, hs("c500"), hs("c104")},
		{sv("/a", "critical"), hs("c600"), sv("/a", "old"), hs("c600"), hs("c104"), hs("c101")},
		{sv("/a", "unknown"), hs("c501"), sv("/a", "new"), hs("c501"), hs("c102"), hs("c104")},
		{sv("/a", "old"), hs("c101"), sv("/a", "new"), refreshStep, hs("c101"), hs("c102"), hs("c103")},
		{sv("/a", "old"), sv("/b", "other"), hs("c101"), hs("o101"), hs("o104"), hs("c104"), hs("b101"), hs("n104")},
		{sv("/a", "other"), hs("c101"), hs("c104"), sv("/b", "old"), hs("o101"), hs("b101")},
		{sv("/a", "old"), hs("c101"), sv("/a", "badsig"), refreshStep, hs("c500"), hs("c101"), restartStep, hs("c500"), hs("c101")},
	}
	n := 10
	if c.Thorough() {
		n = 120
	}
	for i := 0; i < n; i++ {
		hists = append(hists, randomHist(r, 6+r.Intn(8)))
	}
	finishHist(c, "C11", runHists(c, allCfgs(), hists), "rejected-then-accepted loads, superseding refreshes, two issuers with overlapping serials, probes next to listed serials + random histories, on all 24 configurations; plus 13 issuer/serial pairs that any sloppier key construction identifies (separator moved into the name or the serial bytes, dropped separator, hex/decimal/raw forms, sign bit, prefixes) on both backends; plus lists carrying each of seven unimplemented critical extensions (none may revoke)")
	c.Rep.Cases += c11KeyStage(c)
	c.Rep.Cases += c11CriticalStage(c)
}

func runC16(c *Ctx) {
	var hists [][]Step
	for _, x := range []string{"old", "unknown", "badsig"} {
		probe := map[string]string{"old": "c101", "unknown": "c501", "badsig": "c500"}[x]
		// first CDP fetch
		hists = append(hists, []Step{sv("/a", x), hs(probe), hs("c104"), hs(probe)})
		// periodic refresh
		hists = append(hists, []Step{sv("/a", "new"), hs("c102"), sv("/a", x), refreshStep, hs(probe), hs("c102"), hs("c104"), refreshStep, hs(probe)})
		// refresh after restart
		hists = append(hists, []Step{sv("/a", "new"), hs("c102"), restartStep, hs("c104"), sv("/a", x), refreshStep, hs(probe), hs("c102"), restartStep, hs(probe), hs("c102")})
		// first load fails under verify, later restart must not resurrect it
		hists = append(hists, []Step{sv("/a", x), hs(probe), restartStep, hs(probe), hs("c104")})
	}
	res := runHists(c, allCfgs(), hists)
	finishHist(c, "C16", res, "matrix 3 signature modes x {signer resolvable, signer unknown, signature wrong} x {first CDP fetch, periodic refresh, refresh after restart, restart after a rejected first load} x {memory, disk} x fetch mode x strict (288 histories)")
	c16Provision(c)
	c16RestartStage(c)
	c.Rep.Extra["exhaustive"] = true
}

// c16Provision: the provision-time path (crl_urls), not part of the history model: direct oracle only.
func c16Provision(c *Ctx) {
	var items []string
	defer func() {
		c.WriteCoqSharded("cases_C16prov", histHeader(), "pcase", items, "prov_mismatches", 200)
	}()
	for _, storage := range []string{"memory", "disk"} {
		for _, sig := range []string{"verify", "verify_log", "none", ""} { // "" = option omitted: means verify
			for _, fetch := range []string{"fetch_actively", "fetch_background"} {
				for _, x := range []string{"old", "unknown", "badsig"} {
					for _, trusted := range []bool{false, true} {
						w := NewWorld(c, fmt.Sprintf("p16_%s_%s_%s_%s_%v", storage, sig, fetch, x, trusted))
						for n, s := range histLists {
							w.AddList(n, s)
						}
						w.AddCert("p", CertSpec{Serial: map[string]int64{"old": 101, "unknown": 501, "badsig": 500}[x]})
						w.Do(sv("/cfg", x))
						w.Cfg = VCfg{Mode: "crl_only", Storage: storage, SigMode: sig, FetchMode: fetch, Interval: "1h", CRLUrls: []string{w.Org.URL("/cfg")}}
						if trusted {
							w.Cfg.TrustedSigners = []string{writeCertPEM(c, w.CA.Cert)}
						}
						err := w.Provision()
						// acceptable under the mode?
						acceptable := (sig != "verify" && sig != "") || (x == "old" && trusted)
						rep := map[string]interface{}{"storage": storage, "sig": sig, "fetch": fetch, "list": x, "trusted_signer_configured": trusted}
						c.Count("provision-path")
						verdict := ""
						if err == nil {
							verdict = w.Do(hs("p"))
						}
						if acceptable {
							if err != nil {
								c.Fail("", "provisioning a configured CRL that is acceptable under "+sig+" failed: "+err.Error(), rep)
							} else if verdict != "revoked" {
								c.Fail("", "configured CRL not in force when provisioning returned: listed certificate "+verdict, rep)
							}
						} else if err == nil {
							if verdict == "revoked" {
								c.Fail("", "configured CRL in force under verify although it cannot be verified", rep)
							}
						}
						// the same provisioning in the model
						{
							sg := sig
							if sg == "" {
								sg = "verify"
							}
							tr := "[]"
							if trusted {
								tr = "[1]"
							}
							serial := map[string]int64{"old": 101, "unknown": 501, "badsig": 500}[x]
							items = append(items, fmt.Sprintf("mk_pc %d %s %s (Serve L_%s) {| c_issuer := 1; c_serial := %d; c_cdps := []; c_chain := [1; 9] |} %s %s",
								len(items), coqCfg(HistCfg{Storage: storage, SigMode: sg, Fetch: fetch, Strict: false}), tr, x, serial, coqBool(err == nil),
								map[string]string{"": "0", "accept": "1", "revoked": "2", "error": "3"}[verdict]))
						}
						// the CDP path under the same configuration: a strict handshake tells whether the list came into force
						if !trusted && fetch == "fetch_actively" && x != "old" {
							w2 := NewWorld(c, fmt.Sprintf("p16c_%s_%s_%s", storage, sig, x))
							for n, s := range histLists {
								w2.AddList(n, s)
							}
							w2.AddCert("q", CertSpec{Serial: 103, CDP: []string{"/a"}})
							w2.Do(sv("/a", x))
							w2.Cfg = VCfg{Mode: "crl_only", Storage: storage, SigMode: sig, FetchMode: fetch, CDPStrict: true, Interval: "1h"}
							if err := w2.Provision(); err != nil {
								c.Fail("", "provisioning without configured CRLs failed: "+err.Error(), rep)
							} else {
								v := w2.Do(hs("q"))
								inForce := v == "accept"
								if inForce != (sig == "verify_log" || sig == "none") {
									c.Fail("", fmt.Sprintf("CDP list (%s) under signature_validation_mode %q: in force=%v (strict handshake of an unlisted certificate: %s)", x, sig, inForce, v), rep)
								}
							}
							c.Rep.Cases++
							w2.Close()
						}
						c.Nontrivial(fmt.Sprint(rep))
						c.Rep.Cases++
						w.Close()
					}
				}
			}
		}
	}
}

// ---- C08: failures of a refresh, including storage faults injected into the staging path
type faultReader struct {
	inner crlreader.CRLReader
	k     int
}
type faultProc struct {
	crlreader.CRLProcessor
	n, k int
}

func (p *faultProc) hit() error {
	p.n++
	if p.n-1 == p.k {
		return fmt.Errorf("injected consumer failure at event %d", p.k)
	}
	return nil
}
func (p *faultProc) StartUpdateCrl(m *crlreader.CRLMetaInfo) error {
	if err := p.hit(); err != nil {
		return err
	}
	return p.CRLProcessor.StartUpdateCrl(m)
}
func (p *faultProc) InsertRevokedCertificate(e *crlreader.CRLEntry) error {
	if err := p.hit(); err != nil {
		return err
	}
	return p.CRLProcessor.InsertRevokedCertificate(e)
}
func (p *faultProc) UpdateExtendedMetaInfo(i *crlreader.ExtendedCRLMetaInfo) error {
	if err := p.hit(); err != nil {
		return err
	}
	return p.CRLProcessor.UpdateExtendedMetaInfo(i)
}
func (r faultReader) ReadCRL(p crlreader.CRLProcessor, path string) (*crlreader.CRLReadResult, error) {
	return r.inner.ReadCRL(&faultProc{CRLProcessor: p, k: r.k}, path)
}

type faultFactory struct{ inner crlstore.Factory }

func (f faultFactory) CreateStore(id string, temporary bool) (crlstore.CRLStore, error) {
	if temporary {
		return nil, fmt.Errorf("injected: staging store cannot be created")
	}
	return f.inner.CreateStore(id, temporary)
}

// refreshWithFault runs one forced refresh with the fault installed
func (w *World) refreshWithFault(what string) string {
	repo := w.V.V.VerifCRLChecker().VerifRepository()
	switch {
	case what == "StagingCreateFails":
		old := repo.Factory
		repo.Factory = faultFactory{old}
		defer func() { repo.Factory = old }()
	case strings.HasPrefix(what, "InsertFails "):
		var k int
		fmt.Sscanf(what, "InsertFails %d", &k)
		repo.VerifSetReader(faultReader{crlreader.StreamingCRLFileReader{}, k})
		defer repo.VerifSetReader(crlreader.StreamingCRLFileReader{})
	}
	return w.Do(Step{Op: "refresh"})
}

func runC08(c *Ctx) {
	r := rand.New(rand.NewSource(c.Seed))
	var hists [][]Step
	failures := []Step{sv("/a", "down"), sv("/a", "garbage"), sv("/a", "badsig"), sv("/a", "unknown"), sv("/a", "critical")}
	faults := []string{"StagingCreateFails", "InsertFails 0", "InsertFails 1", "InsertFails 2", "InsertFails 3"}
	probes := []Step{hs("c101"), hs("c102"), hs("c103"), hs("c104")}
	// every single failure kind between an old and a new list, then a successful refresh
	for _, f := range failures {
		h := []Step{sv("/a", "old"), hs("c101")}
		h = append(h, f, refreshStep)
		h = append(h, probes...)
		h = append(h, sv("/a", "new"), refreshStep)
		h = append(h, probes...)
		hists = append(hists, h)
	}
	for _, f := range faults {
		h := []Step{sv("/a", "old"), hs("c101"), sv("/a", "new"), {Op: "refresh", What: f}}
		h = append(h, probes...)
		h = append(h, refreshStep)
		h = append(h, probes...)
		hists = append(hists, h)
	}
	// key rollover: a list signed by a certificate the entry does not know fails the refresh; a handshake whose chain
	// contains that certificate lets the entry adopt it; the next refresh succeeds — with other outcomes in between
	for _, mid := range [][]Step{{}, {sv("/a", "garbage"), refreshStep, sv("/a", "rolled")}, {sv("/a", "rolled"), {Op: "refresh", What: "InsertFails 1"}}, {hs("o101")}} {
		h := []Step{sv("/a", "old"), hs("c101"), sv("/a", "rolled"), refreshStep, hs("c101"), hs("c102")}
		h = append(h, mid...)
		h = append(h, hs("r900"), hs("c103"), refreshStep)
		h = append(h, probes...)
		h = append(h, restartStep, hs("c102"), hs("c101"))
		hists = append(hists, h)
	}
	// exhaustive sequences of refresh outcomes of length <= 3
	outcomes := []string{"old", "new", "down", "garbage", "badsig", "fault:StagingCreateFails", "fault:InsertFails 1"}
	depth := 2
	if c.Thorough() {
		depth = 3
	}
	var rec func(prefix []string, d int)
	rec = func(prefix []string, d int) {
		if d == 0 {
			h := []Step{sv("/a", "old"), hs("c101")}
			for _, o := range prefix {
				if strings.HasPrefix(o, "fault:") {
					h = append(h, sv("/a", "new"), Step{Op: "refresh", What: strings.TrimPrefix(o, "fault:")})
				} else {
					h = append(h, sv("/a", o), refreshStep)
				}
				h = append(h, hs("c101"), hs("c102"))
			}
			h = append(h, probes...)
			hists = append(hists, h)
			return
		}
		for _, o := range outcomes {
			rec(append(prefix, o), d-1)
		}
	}
	rec(nil, depth)
	_ = r
	cfgs := allCfgs()
	if !c.Thorough() {
		// quick: both backends x three signature modes, active fetch, strict on (the refresh path does not depend on fetch mode)
		var sel []HistCfg
		for _, cf := range cfgs {
			if cf.Fetch == "fetch_actively" && cf.Strict {
				sel = append(sel, cf)
			}
		}
		cfgs = sel
	}
	finishHist(c, "C08", runHists(c, cfgs, hists), "every refresh failure kind (connection answered with an error body, garbage, bad signature, unknown signer, critical extension, staging store cannot be created, consumer failure at event k) between an old and a new list followed by a successful refresh; every sequence of refresh outcomes up to length "+fmt.Sprint(depth)+"; probes old-only / new-only / common / unlisted after every step; both backends; plus 16 observer goroutines shaking hands while one location is refreshed through 36 (thorough: 200) versions with failing refreshes in between: a serial on every list is always revoked, one on no list always accepted, a version's serial never returns once a newer version was observed")
	c08Concurrent(c)
}
