package main

// C03, several validators in one process — what one validator concluded under ITS configuration (lenient: "OCSP
// unavailable, accept") must not decide the verdict of another validator whose configuration promises something
// else (ocsp_aia_strict: unavailable means rejected).  Same certificate, responders unreachable, both orders, every
// mode that enables OCSP.

import "fmt"

type c03Shared struct {
	Mode    string `json:"mode"`
	Order   string `json:"order"`
	Lenient string `json:"lenient_validator_verdict"`
	Strict  string `json:"strict_validator_verdict"`
}

func c03SharedStage(c *Ctx) int {
	n := 0
	root := NewRootCA("C03 shared root", false)
	ca := root.NewSubCA("C03 shared CA", false)
	for _, mode := range []string{"ocsp_only", "prefer_ocsp", "prefer_crl", ""} {
		for _, order := range []string{"lenient first", "strict first"} {
			org := NewOrigin()
			org.ServeOCSP("/r", ca, func(int) OCSPBehaviour { return OCSPHTTP500 }, nil)
			leaf := ca.IssueLeaf(LeafOpts{CN: "c03-shared", Serial: nextOCSPSerial(), OCSP: []string{org.URL("/r")}})
			vl, err := NewValidator(VCfg{Mode: mode, AIAStrict: false, CacheDuration: "1h", Interval: "1h", WorkDir: c.TempDir(fmt.Sprintf("c03shared_l_%d", n))})
			mustNoErr(err)
			vs, err := NewValidator(VCfg{Mode: mode, AIAStrict: true, CacheDuration: "1h", Interval: "1h", WorkDir: c.TempDir(fmt.Sprintf("c03shared_s_%d", n))})
			mustNoErr(err)
			cs := c03Shared{Mode: mode, Order: order}
			if order == "lenient first" {
				cs.Lenient = classify(vl.Verify(leaf.Cert, ca.Cert, root.Cert))
				cs.Strict = classify(vs.Verify(leaf.Cert, ca.Cert, root.Cert))
			} else {
				cs.Strict = classify(vs.Verify(leaf.Cert, ca.Cert, root.Cert))
				cs.Lenient = classify(vl.Verify(leaf.Cert, ca.Cert, root.Cert))
			}
			vl.Close()
			vs.Close()
			org.Close()
			n++
			c.Count("two-validators")
			c.Nontrivial("two-validators|" + mode + "|" + order)
			c.Sample(cs)
			if cs.Strict != "error" {
				c.Fail("", fmt.Sprintf("mode %q, two validators in one process (%s), OCSP responder unavailable: the validator with ocsp_aia_strict answered %s, its configuration promises a rejection (the lenient one answered %s)", mode, order, cs.Strict, cs.Lenient), cs)
			}
			if cs.Lenient != "accept" {
				c.Fail("", fmt.Sprintf("mode %q, two validators in one process (%s), OCSP responder unavailable: the lenient validator answered %s, its configuration promises acceptance", mode, order, cs.Lenient), cs)
			}
		}
	}
	return n
}
