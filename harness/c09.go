package main

// C09 — fail closed.  Lookup-time faults injected into the real backends, at store level and
// end to end through the validator.

import (
	"crypto/x509/pkix"
	"fmt"
	"math/big"
	"os"
	"path/filepath"
	"time"

	"github.com/gr33nbl00d/caddy-revocation-validator/core/hashing"
	"github.com/gr33nbl00d/caddy-revocation-validator/crl/crlreader"
	"github.com/gr33nbl00d/caddy-revocation-validator/crl/crlstore"
	"go.uber.org/zap"
)

func init() { commands["c09"] = runC09 }

type c09Case struct {
	Level   string `json:"level"` // store | validator
	Backend string `json:"backend"`
	Record  string `json:"record"` // none | entry | garbage | truncated | empty
	Fault   string `json:"fault"`  // none | closed | dirremoved | corruptfiles
	Listed  bool   `json:"listed"`
	Revoked bool   `json:"revoked"`
	Err     string `json:"err,omitempty"`
	Panic   bool   `json:"panic,omitempty"`
}

func runC09(c *Ctx) {
	issuer := pkix.Name{CommonName: "C09 CA"}.ToRDNSequence()
	serial := big.NewInt(7)
	entry := pkix.RevokedCertificate{SerialNumber: serial, RevocationTime: time.Date(2024, 1, 1, 0, 0, 0, 0, time.UTC)}
	key := hashing.Sum64(issuer.String() + "_" + serial.String())
	var cases []*c09Case
	var items []string
	idx := 0
	for _, backend := range []string{"MapB", "LevelB"} {
		for _, record := range []string{"none", "entry", "garbage", "truncated", "empty"} {
			for _, fault := range []string{"none", "closed"} {
				if backend == "MapB" && fault != "none" && record != "none" && record != "entry" {
					continue
				}
				cs := &c09Case{Level: "store", Backend: backend, Record: record, Fault: fault, Listed: record != "none"}
				dir := c.TempDir(fmt.Sprintf("c09_%d", idx))
				st := crlstore.Map
				if backend == "LevelB" {
					st = crlstore.LevelDB
				}
				f, err := crlstore.CreateStoreFactory(st, dir, zap.NewNop())
				mustNoErr(err)
				s, err := f.CreateStore("id", false)
				mustNoErr(err)
				if record != "none" {
					mustNoErr(s.InsertRevokedCert(&crlreader.CRLEntry{Issuer: &issuer, RevokedCertificate: &entry}))
				}
				raw := func(v []byte) {
					switch x := s.(type) {
					case *crlstore.MapStore:
						x.Map[string(key)] = v
					case *crlstore.LevelDbStore:
						mustNoErr(x.Db.Put(key, v, nil))
					}
				}
				switch record {
				case "garbage":
					raw([]byte("\xff\xfe not asn1 at all"))
				case "truncated":
					good, _ := crlstore.ASN1Serializer{}.SerializeRevokedCert(&entry)
					raw(good[:len(good)-3])
				case "empty":
					raw([]byte{})
				}
				if fault == "closed" {
					s.Close()
				}
				func() {
					defer func() {
						if r := recover(); r != nil {
							cs.Panic = true
							cs.Err = fmt.Sprint(r)
						}
					}()
					stt, err := s.GetCertRevocationStatus(&issuer, serial)
					if err != nil {
						cs.Err = err.Error()
					} else {
						cs.Revoked = stt.Revoked
					}
				}()
				if fault != "closed" {
					s.Close()
				}
				os.RemoveAll(dir)
				cases = append(cases, cs)
				// Coq literal
				rec := "None"
				switch record {
				case "entry":
					rec = "(Some (VEntry 1))"
				case "garbage", "truncated":
					rec = "(Some VGarbage)"
				case "empty":
					// a zero-length value: MapStore stores a non-nil empty slice, LevelDB returns an empty value; both fail to decode
					rec = "(Some VGarbage)"
				}
				flt := map[string]string{"none": "NoFault", "closed": "DbClosed"}[fault]
				obs := "Ok None"
				if cs.Err != "" {
					obs = fmt.Sprintf("Err %d", errClass(fmt.Errorf("%s", cs.Err)))
				} else if cs.Revoked {
					obs = "Ok (Some 1)"
				}
				if !(backend == "MapB" && fault == "closed") { // closing a memory store is not a fault of the model: direct oracle only
					items = append(items, fmt.Sprintf("mk_fc %d %s %s %s %s (%s)", idx, backend, flt, coqByteList([]byte(issuer.String())), rec, obs))
				}
				idx++
			}
		}
	}
	// end to end: a loaded disk CRL whose database is closed / whose directory is damaged under the validator
	ca := NewRootCA("C09 E2E", false)
	for _, fault := range []string{"closed", "dirremoved", "corruptfiles"} {
		for _, listed := range []bool{true, false} {
			cs := &c09Case{Level: "validator", Backend: "LevelB", Record: "entry", Fault: fault, Listed: listed}
			org := NewOrigin()
			leafSerial := big.NewInt(4242)
			crl := ca.MakeCRL(CRLOpts{Entries: serials(1, 2, 3)})
			if listed {
				crl = ca.MakeCRL(CRLOpts{Entries: append(serials(1, 2), EntryOpts{Serial: leafSerial})})
			}
			org.ServeBytes("/crl", func() []byte { return crl })
			leaf := ca.IssueLeaf(LeafOpts{CN: "c09", Serial: leafSerial, CDP: []string{org.URL("/crl")}})
			wd := c.TempDir(fmt.Sprintf("c09_e2e_%s_%v", fault, listed))
			v, err := NewValidator(VCfg{Mode: "crl_only", WorkDir: wd, Storage: "disk", Interval: "1h"})
			mustNoErr(err)
			// a pass now: the ticker goroutine's start-up pass, whenever it is scheduled, then finds a recent pass and
			// skips — no refresh can replace the store object while the fault is being injected below
			v.V.VerifCRLChecker().VerifUpdateCRLs(false)
			first := v.Verify(leaf.Cert, ca.Cert) // loads the CRL
			if (first != nil) != listed {
				c.Fail("", "precondition: first handshake verdict wrong before any fault", cs)
			}
			repo := v.V.VerifCRLChecker().VerifRepository()
			ids := repo.VerifIdentifiers()
			if len(ids) != 1 {
				c.Fail("", "precondition: expected one repository entry", ids)
			} else {
				e := repo.VerifEntry(ids[0])
				ls := e.CRLStore.(*crlstore.LevelDbStore)
				switch fault {
				case "closed":
					ls.Db.Close()
				case "dirremoved":
					// close, remove the files, reopen handle stays invalid
					ls.Db.Close()
					os.RemoveAll(ls.LevelDBPath)
				case "corruptfiles":
					ls.Db.Close()
					files, _ := filepath.Glob(filepath.Join(ls.LevelDBPath, "*"))
					for _, f := range files {
						os.WriteFile(f, []byte("garbage"), 0600)
					}
				}
				err := v.Verify(leaf.Cert, ca.Cert)
				if err != nil {
					cs.Err = err.Error()
					cs.Panic = isPanic(err)
				}
			}
			v.Close()
			org.Close()
			os.RemoveAll(wd)
			cases = append(cases, cs)
		}
	}
	for _, cs := range cases {
		c.Count("level=" + cs.Level)
		c.Count("backend=" + cs.Backend)
		c.Count("fault=" + cs.Fault)
		c.Count("record=" + cs.Record)
		c.Sample(cs)
		if cs.Fault != "none" || (cs.Record != "none" && cs.Record != "entry") {
			c.Nontrivial(fmt.Sprintf("%s|%s|%s|%s|%v", cs.Level, cs.Backend, cs.Record, cs.Fault, cs.Listed))
		}
		if cs.Panic {
			c.Fail("", "lookup panicked: "+cs.Err, cs)
			continue
		}
		faulty := cs.Fault != "none" || cs.Record == "garbage" || cs.Record == "truncated" || cs.Record == "empty"
		if cs.Backend == "MapB" && cs.Fault == "closed" && cs.Level == "store" {
			// a memory store that was closed (concurrent shutdown) may refuse to answer or keep answering — but what it answers must be true
			if cs.Err == "" && cs.Revoked != (cs.Record == "entry") {
				c.Fail("", fmt.Sprintf("memory store after Close: a lookup for a certificate that is %s answered revoked=%v without an error", map[bool]string{true: "listed", false: "not listed"}[cs.Record == "entry"], cs.Revoked), cs)
			}
			continue
		}
		if faulty && cs.Err == "" {
			tag := ""
			if cs.Backend == "LevelB" && cs.Fault != "none" {
				tag = "C09-leveldb-err"
			}
			what := fmt.Sprintf("storage failure (%s/%s, %s) answered without an error (revoked=%v)", cs.Fault, cs.Record, cs.Level, cs.Revoked)
			c.Fail(tag, what, cs)
		}
		if !faulty && cs.Level == "store" {
			if cs.Err != "" || cs.Revoked != (cs.Record == "entry") {
				c.Fail("", "fault-free lookup gave the wrong answer", cs)
			}
		}
	}
	c.WriteCoqSharded("cases_C09", "From Verif Require Import Base Bytes Store RunStore.\nOpen Scope N_scope.\n", "fault_case", items, "fault_mismatches", 100)
	c.Rep.Cases = len(cases) + c09SwapStage(c) + c09DamageStage(c)
	c.Rep.Rule = "every combination of backend x stored record {absent, entry, garbage, truncated, empty} x fault {none, closed DB} (memory store: closed with absent/entry); plus the validator end to end on a loaded disk CRL with the DB handle closed, the directory removed, the table files overwritten, for listed and unlisted certificates; plus a disk store of 300 entries sitting in a LevelDB table file (closed and reopened) with one byte damaged on disk — inside the key of 16 listed records and at 8 offsets spread over the file — and every listed certificate looked up (revoked or error, never not-revoked); plus a refresh whose final swap fails (both backends x strict x CDP/configured list) with one lookup queued on the entry during the swap and lookups after it; non-trivial = a fault or an undecodable record is present"
	c.Rep.Extra["exhaustive"] = true
}
