package main

// C15, last clause — "CRLs configured by file or URL are in force by the time provisioning returns":
// the very first handshake after Provision, for a certificate that names no CDP and is on the
// configured list, is rejected — for both sources, both fetch modes, both backends, with a slow
// origin, and again after a restart on the same work_dir.

import (
	"fmt"
	"os"
	"path/filepath"
	"time"
)

type c15Prov struct {
	Source  string `json:"source"`
	Fetch   string `json:"fetch_mode"`
	Storage string `json:"storage"`
	Loaded  string `json:"entries_loaded_when_provision_returned"`
	First   string `json:"first_handshake_after_provision"`
	Restart string `json:"first_handshake_after_restart"`
}

func c15ProvisionStage(c *Ctx) int {
	n := 0
	for _, source := range []string{"crl_urls", "crl_files"} {
		for _, fetch := range []string{"fetch_actively", "fetch_background"} {
			for _, storage := range []string{"memory", "disk"} {
				n++
				res := &c15Prov{Source: source, Fetch: fetch, Storage: storage}
				w := NewWorld(c, fmt.Sprintf("c15prov_%d", n))
				w.AddList("L", ListSpec{Serials: []int64{101, 103}, Number: 1})
				w.Do(sv("/a", "L"))
				w.Delay = 150 * time.Millisecond // a slow origin: a load left to the background is not finished when Provision returns
				w.Cfg = VCfg{Mode: "crl_only", Storage: storage, SigMode: "verify", FetchMode: fetch, Interval: "1h", TrustedSigners: []string{writeCertPEM(c, w.CA.Cert)}}
				if source == "crl_urls" {
					w.Cfg.CRLUrls = []string{w.Org.URL("/a")}
				} else {
					p := filepath.Join(c.Work, fmt.Sprintf("c15prov_%d.crl", n))
					mustNoErr(os.WriteFile(p, w.Lists["L"], 0600))
					defer os.Remove(p)
					w.Cfg.CRLFiles = []string{p}
				}
				w.AddCert("listed", CertSpec{Serial: 103})
				// NewValidator returns when Provision returns (World.Provision would also wait for the ticker's start-up pass)
				w.Cfg.WorkDir = w.Dir
				v, err := NewValidator(w.Cfg)
				if err != nil {
					res.First = "provision-error: " + err.Error()
				} else {
					w.V = v
					repo := v.V.VerifCRLChecker().VerifRepository()
					ids := repo.VerifIdentifiers()
					res.Loaded = fmt.Sprintf("%d known", len(ids))
					for _, id := range ids {
						if e := repo.VerifEntry(id); e == nil || !(e.VerifLoadedNow() || e.VerifLoadedUnlocked()) { // (a refresh may hold the lock right now)
							res.Loaded += ", " + id + " not loaded"
						}
					}
					res.First = classify(w.V.Verify(w.chainFor("listed")...))
					w.settle()
					if w.Do(Step{Op: "restart"}) == "provisioned" {
						res.Restart = classify(w.V.Verify(w.chainFor("listed")...))
					} else {
						res.Restart = "provision-error"
					}
				}
				w.Close()
				c.Count("provision=" + source + "/" + fetch)
				c.Nontrivial("provision|" + source + "|" + fetch + "|" + storage)
				c.Sample(res)
				if res.First != "revoked" || res.Restart != "revoked" || res.Loaded != "1 known" {
					c.Fail("", fmt.Sprintf("configured CRL (%s, %s, %s) is not in force when provisioning returns: entries at return: %s; first handshake for a listed certificate %q, after a restart %q", source, fetch, storage, res.Loaded, res.First, res.Restart), res)
				}
			}
		}
	}
	return n
}
