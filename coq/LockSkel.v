(* LockSkel.v — the lock/access skeleton language, a lockset checker for it, and (in
   LockSkelProofs.v) the soundness of the checker with respect to an interleaving semantics. *)
From Verif Require Import Base.
Open Scope string_scope.
Open Scope list_scope.

Inductive mode := R | W.
Inductive lock :=
| LRepo                      (* Repository.crlRepositoryLock *)
| LEntry (recv : string)     (* Entry.entryLock of the entry held in variable recv *)
| LUpdate                    (* package-level crlUpdateMutex *)
| LWorkdir.                  (* package-level workDirInUseMutex *)
Inductive var :=
| VEntryField (field recv : string)  (* Loaded, CRLStore, LastUpdateSignature(VerifyFailed), Chains of an entry *)
| VLoaderState (recv : string)       (* state of the entry's loader, mutated by entry.CRLLoader.LoadCRL *)
| VLoaderField (recv : string)       (* lastSuccessfulLoader, seen from inside the loader *)
| VRepoMap | VWorkDirs | VLastFinish | VOcspCache.

Inductive cmd :=
| Skip | Ret
| Acq (l : lock) (m : mode) | Rel (l : lock) (m : mode)
| Rd (v : var) | Wr (v : var)
| Seq (a b : cmd) | Choice (a b : cmd) | Loop (a : cmd)
| Call (f : string) (args : list string)
| Block (a : cmd).             (* a procedure body: Ret leaves the innermost Block *)

Record proc := { p_name : string; p_params : list string; p_body : cmd }.

(* ---- equality *)
Definition mode_eqb (a b : mode) := match a, b with R, R | W, W => true | _, _ => false end.
Definition lock_eqb (a b : lock) : bool :=
  match a, b with
  | LRepo, LRepo | LUpdate, LUpdate | LWorkdir, LWorkdir => true
  | LEntry x, LEntry y => String.eqb x y
  | _, _ => false
  end.

(* which lock protects a variable; None = no lock: only reads are allowed concurrently *)
Definition guard (v : var) : option lock :=
  match v with
  | VEntryField _ r | VLoaderState r => Some (LEntry r)
  | VLoaderField _ => None        (* the loader itself does not lock: judged at its call site (VLoaderState) *)
  | VRepoMap => Some LRepo
  | VWorkDirs => Some LWorkdir
  | VLastFinish => Some LUpdate
  | VOcspCache => None
  end.

(* lock order: LUpdate < LRepo < LEntry; LWorkdir is never nested *)
Definition rank (l : lock) : nat := match l with LUpdate => 1 | LRepo => 2 | LEntry _ => 3 | LWorkdir => 9 end.

Definition held := list (lock * mode).
Definition holds (h : held) (l : lock) : bool := existsb (fun p => lock_eqb (fst p) l) h.
Definition holds_w (h : held) (l : lock) : bool := existsb (fun p => lock_eqb (fst p) l && mode_eqb (snd p) W) h.
Fixpoint release (h : held) (l : lock) (m : mode) : option held :=
  match h with
  | [] => None
  | (l', m') :: t => if lock_eqb l l' && mode_eqb m m' then Some t
                     else option_map (cons (l', m')) (release t l m)
  end.

Inductive violation :=
| Unprotected (is_write : bool) (v : var)
| Relock (l : lock)
| OrderViolated (l : lock)
| ReleaseNotHeld (l : lock)
| LoopChangesLocks
| HeldAtExit
| UnknownProcedure (f : string)
| CallDepth.

(* ---- substitution of actual for formal receiver names at a call *)
Fixpoint subst_name (ps : list string) (args : list string) (x : string) : string :=
  match ps, args with
  | p :: ps', a :: args' => if String.eqb p x then a else subst_name ps' args' x
  | _, _ => x
  end.
Definition subst_lock s (l : lock) := match l with LEntry r => LEntry (s r) | _ => l end.
Definition subst_var s (v : var) :=
  match v with VEntryField f r => VEntryField f (s r) | VLoaderState r => VLoaderState (s r) | VLoaderField r => VLoaderField (s r) | _ => v end.
Fixpoint subst_cmd (s : string -> string) (c : cmd) : cmd :=
  match c with
  | Skip => Skip | Ret => Ret
  | Acq l m => Acq (subst_lock s l) m | Rel l m => Rel (subst_lock s l) m
  | Rd v => Rd (subst_var s v) | Wr v => Wr (subst_var s v)
  | Seq a b => Seq (subst_cmd s a) (subst_cmd s b)
  | Choice a b => Choice (subst_cmd s a) (subst_cmd s b)
  | Loop a => Loop (subst_cmd s a)
  | Call f args => Call f (map s args)
  | Block a => Block (subst_cmd s a)
  end.

Fixpoint find_proc (P : list proc) (f : string) : option proc :=
  match P with [] => None | p :: t => if String.eqb (p_name p) f then Some p else find_proc t f end.

(* inline every call (the skeleton is not recursive; fuel bounds the depth) *)
Fixpoint inline (fuel : nat) (P : list proc) {struct fuel} : cmd -> cmd * list violation :=
  fix go (c : cmd) : cmd * list violation :=
  match c with
  | Seq a b => let '(a', va) := go a in let '(b', vb) := go b in (Seq a' b', va ++ vb)
  | Choice a b => let '(a', va) := go a in let '(b', vb) := go b in (Choice a' b', va ++ vb)
  | Loop a => let '(a', va) := go a in (Loop a', va)
  | Block a => let '(a', va) := go a in (Block a', va)
  | Call f args =>
    match fuel with
    | O => (Skip, [CallDepth])
    | S n =>
      match find_proc P f with
      | None => (Skip, [UnknownProcedure f])
      | Some p => let '(b, vb) := inline n P (subst_cmd (subst_name (p_params p) args) (p_body p)) in (Block b, vb)
      end
    end
  | _ => (c, [])
  end.

(* ---- the checker: from a held set, the held sets at normal completion, those at Ret, violations *)
Record outs := { normal : list held; returned : list held; bad : list violation }.
Definition out_bad (v : violation) : outs := {| normal := []; returned := []; bad := [v] |}.

Fixpoint held_eqb (a b : held) : bool :=
  match a, b with
  | [], [] => true
  | (l, m) :: a', (l', m') :: b' => lock_eqb l l' && mode_eqb m m' && held_eqb a' b'
  | _, _ => false
  end.

Fixpoint check (c : cmd) (h : held) : outs :=
  match c with
  | Skip => {| normal := [h]; returned := []; bad := [] |}
  | Ret => {| normal := []; returned := [h]; bad := [] |}
  | Acq l m =>
    if holds h l then out_bad (Relock l)
    else if existsb (fun p => Nat.leb (rank l) (rank (fst p))) h then out_bad (OrderViolated l)
    else {| normal := [(l, m) :: h]; returned := []; bad := [] |}
  | Rel l m =>
    match release h l m with
    | Some h' => {| normal := [h']; returned := []; bad := [] |}
    | None => out_bad (ReleaseNotHeld l)
    end
  | Rd v =>
    match guard v with
    | Some l => if holds h l then {| normal := [h]; returned := []; bad := [] |} else out_bad (Unprotected false v)
    | None => {| normal := [h]; returned := []; bad := [] |}
    end
  | Wr v =>
    match guard v with
    | Some l => if holds_w h l then {| normal := [h]; returned := []; bad := [] |} else out_bad (Unprotected true v)
    | None => match v with VLoaderField _ => {| normal := [h]; returned := []; bad := [] |} | _ => out_bad (Unprotected true v) end
    end
  | Seq a b =>
    let oa := check a h in
    let obs := map (check b) (normal oa) in
    {| normal := flat_map normal obs; returned := returned oa ++ flat_map returned obs; bad := bad oa ++ flat_map bad obs |}
  | Choice a b =>
    let oa := check a h in let ob := check b h in
    {| normal := normal oa ++ normal ob; returned := returned oa ++ returned ob; bad := bad oa ++ bad ob |}
  | Loop a =>
    let oa := check a h in
    {| normal := [h]; returned := returned oa;
       bad := bad oa ++ (if forallb (held_eqb h) (normal oa) then [] else [LoopChangesLocks]) |}
  | Block a =>
    let oa := check a h in
    {| normal := normal oa ++ returned oa; returned := []; bad := bad oa |}
  | Call f _ => out_bad (UnknownProcedure f)
  end.

(* an entry procedure: started holding nothing, must end holding nothing *)
Definition check_entry (P : list proc) (f : string) : list violation :=
  match find_proc P f with
  | None => [UnknownProcedure f]
  | Some p =>
    let '(b, vi) := inline 12 P (Block (p_body p)) in
    let o := check b [] in
    vi ++ bad o ++ (if forallb (fun h => match h with [] => true | _ => false end) (normal o ++ returned o) then [] else [HeldAtExit])
  end.

Definition skel_report (P : list proc) (entries : list string) : list (string * violation) :=
  flat_map (fun f => map (fun v => (f, v)) (check_entry P f)) entries.
Definition skel_ok (P : list proc) (entries : list string) : bool :=
  match skel_report P entries with [] => true | _ => false end.
