From Verif Require Import Base Ticker.
(* observed refresh behaviour of real validators: per instance its interval (ms), the ideal
   event schedule (start-up pass, then ticks), and for every tick whether a fetch of the
   instance's CRL was seen within half an interval of it *)
Record tkcase := mk_tk { tk_idx : nat; tk_intervals : list Z; tk_events : list (Z * tev); tk_seen : list (Z * nat * bool) }.
Definition tk_agrees (c : tkcase) : bool :=
  let interval := fun i => nth i (tk_intervals c) 1000%Z in
  let st := trun interval 5 (tk_events c) in
  forallb (fun x => let '(t, i, seen) := x in
                    Bool.eqb (passed_in st i (t - interval i / 2) (t + interval i / 2)) seen) (tk_seen c).
Definition ticker_mismatches (l : list tkcase) : list nat := map tk_idx (filter (fun c => negb (tk_agrees c)) l).
