From Verif Require Import Base Bytes Store.

Lemma fault_is_error s f i z : f <> NoFault -> exists e, st_lookup LevelB s f i z = Err e.
Proof. intros H. destruct f; [congruence| |]; simpl; eauto. Qed.

Lemma undecodable_is_error b s f i z v :
  get s (hkey (key_with (look_sep b) i z)) = Some v -> (forall e, v <> VEntry e) ->
  exists e, st_lookup b s f i z = Err e.
Proof.
  intros Hg Hv. unfold st_lookup.
  destruct b, f; try (eexists; reflexivity); rewrite Hg; destruct v; try (eexists; reflexivity);
    exfalso; eapply Hv; reflexivity.
Qed.

Lemma not_revoked_only_if_absent b s f i z :
  st_lookup b s f i z = Ok None ->
  get s (hkey (key_with (look_sep b) i z)) = None /\ (b = LevelB -> f = NoFault).
Proof.
  unfold st_lookup. destruct b, f; try discriminate;
  (destruct (get s _) as [[| | | | |]|] eqn:E; try discriminate; intros _; split; [reflexivity|]; intros; congruence).
Qed.
