(* LockSkelProofs.v — soundness of the lockset checker: a program accepted by `check` has, under
   every interleaving of any number of threads with reader/writer locks, no data race on a
   guarded variable, never writes an unguarded shared variable, and never acquires a lock it
   already holds. *)
From Verif Require Import Base LockSkel.
Open Scope list_scope.

(* ---------------------------------------------------------------- semantics *)
Inductive item := ICmd (c : cmd) | IEnd.  (* IEnd marks the end of a Block *)
Definition cont := list item.
Record thread := { t_held : held; t_k : cont }.

Fixpoint pop_block (k : cont) : cont :=
  match k with [] => [] | IEnd :: k' => k' | ICmd _ :: k' => pop_block k' end.

(* a system: thread i for every natural number i (all but finitely many are finished) *)
Definition system := nat -> thread.
Definition upd (s : system) (i : nat) (t : thread) : system := fun j => if Nat.eqb j i then t else s j.

(* reader/writer locks: a writer excludes everybody, a reader excludes writers *)
Definition can_acquire (s : system) (i : nat) (l : lock) (m : mode) : Prop :=
  match m with
  | W => forall j, j <> i -> holds (t_held (s j)) l = false
  | R => forall j, j <> i -> holds_w (t_held (s j)) l = false
  end.

Inductive tstep (s : system) (i : nat) : thread -> thread -> Prop :=
| s_skip h k : tstep s i {| t_held := h; t_k := ICmd Skip :: k |} {| t_held := h; t_k := k |}
| s_seq h a b k : tstep s i {| t_held := h; t_k := ICmd (Seq a b) :: k |} {| t_held := h; t_k := ICmd a :: ICmd b :: k |}
| s_choice_l h a b k : tstep s i {| t_held := h; t_k := ICmd (Choice a b) :: k |} {| t_held := h; t_k := ICmd a :: k |}
| s_choice_r h a b k : tstep s i {| t_held := h; t_k := ICmd (Choice a b) :: k |} {| t_held := h; t_k := ICmd b :: k |}
| s_loop_exit h a k : tstep s i {| t_held := h; t_k := ICmd (Loop a) :: k |} {| t_held := h; t_k := k |}
| s_loop_iter h a k : tstep s i {| t_held := h; t_k := ICmd (Loop a) :: k |} {| t_held := h; t_k := ICmd a :: ICmd (Loop a) :: k |}
| s_block h a k : tstep s i {| t_held := h; t_k := ICmd (Block a) :: k |} {| t_held := h; t_k := ICmd a :: IEnd :: k |}
| s_end h k : tstep s i {| t_held := h; t_k := IEnd :: k |} {| t_held := h; t_k := k |}
| s_ret h k : tstep s i {| t_held := h; t_k := ICmd Ret :: k |} {| t_held := h; t_k := pop_block k |}
| s_acq h l m k : can_acquire s i l m ->
    tstep s i {| t_held := h; t_k := ICmd (Acq l m) :: k |} {| t_held := (l, m) :: h; t_k := k |}
| s_rel h l m h' k : release h l m = Some h' ->
    tstep s i {| t_held := h; t_k := ICmd (Rel l m) :: k |} {| t_held := h'; t_k := k |}
| s_rd h v k : tstep s i {| t_held := h; t_k := ICmd (Rd v) :: k |} {| t_held := h; t_k := k |}
| s_wr h v k : tstep s i {| t_held := h; t_k := ICmd (Wr v) :: k |} {| t_held := h; t_k := k |}.

Inductive sstep : system -> system -> Prop :=
| ss s i t' : tstep s i (s i) t' -> sstep s (upd s i t').

Inductive reach : system -> system -> Prop :=
| r_refl s : reach s s
| r_step s s' s'' : reach s s' -> sstep s' s'' -> reach s s''.

(* ---------------------------------------------------------------- the invariant *)
Inductive okk : cont -> held -> Prop :=
| ok_nil : okk [] []
| ok_end k h : okk k h -> okk (IEnd :: k) h
| ok_cmd c k h :
    bad (check c h) = [] -> Forall (okk k) (normal (check c h)) -> Forall (okk (pop_block k)) (returned (check c h)) ->
    okk (ICmd c :: k) h.

Lemma okk_cmd_inv c k h : okk (ICmd c :: k) h ->
  bad (check c h) = [] /\ Forall (okk k) (normal (check c h)) /\ Forall (okk (pop_block k)) (returned (check c h)).
Proof. intros H. inversion H; subst. auto. Qed.
Lemma okk_end_inv k h : okk (IEnd :: k) h -> okk k h.
Proof. intros H. inversion H; subst. assumption. Qed.
Lemma okk_nil_inv h : okk [] h -> h = [].
Proof. intros H. inversion H. reflexivity. Qed.

Definition excl (s : system) : Prop :=
  forall i j l, i <> j -> holds_w (t_held (s i)) l = true -> holds (t_held (s j)) l = false.

Definition inv (s : system) : Prop := (forall i, okk (t_k (s i)) (t_held (s i))) /\ excl s.

(* ---- small facts *)
Lemma app_nil_both {A} (a b : list A) : a ++ b = [] -> a = [] /\ b = [].
Proof. destruct a; simpl; [auto|discriminate]. Qed.

Lemma forall_flat_map {A B} (P : B -> Prop) (f : A -> list B) l :
  Forall P (flat_map f l) <-> Forall (fun a => Forall P (f a)) l.
Proof.
  induction l as [|a l IH]; simpl; [split; constructor|].
  rewrite Forall_app, IH. split; [intros [A1 A2]; constructor; assumption|intros H; inversion H; auto].
Qed.

Lemma flat_map_nil {A B} (f : A -> list B) l : flat_map f l = [] -> Forall (fun a => f a = []) l.
Proof.
  induction l as [|a l IH]; simpl; intros H; [constructor|].
  apply app_nil_both in H. destruct H. constructor; auto.
Qed.

Lemma lock_eqb_eq a b : lock_eqb a b = true -> a = b.
Proof. destruct a, b; simpl; try discriminate; auto. intros H. apply String.eqb_eq in H. congruence. Qed.
Lemma mode_eqb_eq a b : mode_eqb a b = true -> a = b.
Proof. destruct a, b; simpl; try discriminate; auto. Qed.

Lemma held_eqb_eq a : forall b, held_eqb a b = true -> a = b.
Proof.
  induction a as [|[l m] a IH]; intros [|[l' m'] b] H; simpl in H; try discriminate; auto.
  apply andb_prop in H. destruct H as [H H3]. apply andb_prop in H. destruct H as [H1 H2].
  apply lock_eqb_eq in H1. apply mode_eqb_eq in H2. subst. f_equal. apply IH. exact H3.
Qed.

Lemma holds_w_holds h l : holds_w h l = true -> holds h l = true.
Proof.
  unfold holds_w, holds. rewrite !existsb_exists. intros (x & Hin & H). exists x. split; [exact Hin|].
  apply andb_prop in H. tauto.
Qed.

Lemma release_incl h l m : forall h', release h l m = Some h' -> forall p, In p h' -> In p h.
Proof.
  induction h as [|[l0 m0] h IH]; intros h' H p Hp; cbn [release] in H; [discriminate|].
  destruct (lock_eqb l l0 && mode_eqb m m0).
  - injection H as <-. right. exact Hp.
  - destruct (release h l m) as [h2|] eqn:E; [|discriminate]. injection H as <-.
    destruct Hp as [<-|Hp]; [left; reflexivity|right; apply (IH h2 eq_refl p Hp)].
Qed.

Lemma release_holds h l m h' x : release h l m = Some h' -> holds h' x = true -> holds h x = true.
Proof.
  intros H Hh. unfold holds in *. rewrite existsb_exists in *. destruct Hh as (p & Hp & E).
  exists p. split; [eapply release_incl; eassumption|exact E].
Qed.

Lemma release_holds_w h l m h' x : release h l m = Some h' -> holds_w h' x = true -> holds_w h x = true.
Proof.
  intros H Hh. unfold holds_w in *. rewrite existsb_exists in *. destruct Hh as (p & Hp & E).
  exists p. split; [eapply release_incl; eassumption|exact E].
Qed.

(* ---- one thread: the invariant on its continuation is preserved *)
Lemma tstep_okk s i t t' : tstep s i t t' -> okk (t_k t) (t_held t) -> okk (t_k t') (t_held t').
Proof.
  intros H. destruct H; cbn [t_k t_held]; intros Hok;
    try (apply okk_cmd_inv in Hok; destruct Hok as (Hb & Hn & Hr); cbn [check normal returned bad] in Hb, Hn, Hr).
  - inversion Hn; assumption.
  - apply app_nil_both in Hb. destruct Hb as [Hba Hbb].
    apply Forall_app in Hr. destruct Hr as [Hra Hrb].
    apply ok_cmd; [exact Hba| |exact Hra].
    rewrite Forall_forall. intros h' Hin.
    apply flat_map_nil in Hbb. rewrite Forall_forall in Hbb.
    rewrite forall_flat_map, Forall_forall in Hn. rewrite forall_flat_map, Forall_forall in Hrb.
    assert (Hi : In (check b h') (map (check b) (normal (check a h)))) by (apply in_map; exact Hin).
    apply ok_cmd; [apply Hbb; exact Hi|apply Hn; exact Hi|apply Hrb; exact Hi].
  - apply app_nil_both in Hb. apply Forall_app in Hn. apply Forall_app in Hr. apply ok_cmd; tauto.
  - apply app_nil_both in Hb. apply Forall_app in Hn. apply Forall_app in Hr. apply ok_cmd; tauto.
  - inversion Hn; assumption.
  - assert (Hloop : okk (ICmd (Loop a) :: k) h) by (apply ok_cmd; assumption).
    apply app_nil_both in Hb. destruct Hb as [Hba Hbl].
    destruct (forallb (held_eqb h) (normal (check a h))) eqn:E; [|discriminate].
    apply ok_cmd; [exact Hba| |exact Hr].
    rewrite Forall_forall. intros h' Hin. rewrite forallb_forall in E.
    specialize (E h' Hin). apply held_eqb_eq in E. subst h'. exact Hloop.
  - apply Forall_app in Hn. destruct Hn as [Hn1 Hn2].
    apply ok_cmd; [exact Hb| |exact Hn2].
    rewrite Forall_forall. intros h' Hin. apply ok_end. rewrite Forall_forall in Hn1. apply Hn1. exact Hin.
  - apply okk_end_inv. exact Hok.
  - inversion Hr; assumption.
  - destruct (holds h l); [discriminate|]. destruct (existsb _ h); [discriminate|].
    cbn [normal] in Hn. inversion Hn; assumption.
  - rewrite H in Hn. cbn [normal] in Hn. inversion Hn; assumption.
  - destruct (guard v) as [l|]; [destruct (holds h l); [|discriminate]|]; cbn [normal] in Hn; inversion Hn; assumption.
  - destruct (guard v) as [l|]; [destruct (holds_w h l); [|discriminate]|destruct v; try discriminate];
      cbn [normal] in Hn; inversion Hn; assumption.
Qed.

(* how the held set of the moving thread changes *)
Lemma tstep_held s i t t' : tstep s i t t' ->
  t_held t' = t_held t \/
  (exists l m, t_held t' = (l, m) :: t_held t /\ can_acquire s i l m) \/
  (exists l m, release (t_held t) l m = Some (t_held t')).
Proof.
  intros H. destruct H; simpl; try (left; reflexivity).
  - right. left. exists l, m. auto.
  - right. right. exists l, m. exact H.
Qed.

Lemma upd_same s i t : upd s i t i = t.
Proof. unfold upd. rewrite Nat.eqb_refl. reflexivity. Qed.
Lemma upd_other s i t j : j <> i -> upd s i t j = s j.
Proof. intros H. unfold upd. apply Nat.eqb_neq in H. rewrite H. reflexivity. Qed.

Lemma sstep_inv s s' : inv s -> sstep s s' -> inv s'.
Proof.
  intros [Hok Hex] Hs. destruct Hs as [s i t' Ht]. split.
  - intros j. destruct (Nat.eq_dec j i) as [->|Hne].
    + rewrite upd_same. eapply tstep_okk; [exact Ht|apply Hok].
    + rewrite upd_other by exact Hne. apply Hok.
  - intros a b l Hab Hw.
    destruct (Nat.eq_dec a i) as [->|Ha]; destruct (Nat.eq_dec b i) as [->|Hb]; try congruence.
    + (* the moving thread holds l for writing, b is another thread *)
      rewrite upd_same in Hw. rewrite upd_other by exact Hb.
      destruct (tstep_held _ _ _ _ Ht) as [E|[(l0 & m0 & E & Hca)|(l0 & m0 & E)]].
      * rewrite E in Hw. exact (Hex i b l Hab Hw).
      * rewrite E in Hw. simpl in Hw. apply orb_prop in Hw. destruct Hw as [Hw|Hw].
        -- apply andb_prop in Hw. destruct Hw as [Hl Hm]. apply lock_eqb_eq in Hl. apply mode_eqb_eq in Hm. subst.
           simpl in Hca. apply Hca. exact Hb.
        -- exact (Hex i b l Hab Hw).
      * pose proof (release_holds_w _ _ _ _ l E Hw) as Hw'. exact (Hex i b l Hab Hw').
    + (* a is another thread holding l for writing, the moving thread must not hold l *)
      rewrite upd_other in Hw by exact Ha. rewrite upd_same.
      destruct (tstep_held _ _ _ _ Ht) as [E|[(l0 & m0 & E & Hca)|(l0 & m0 & E)]].
      * rewrite E. exact (Hex a i l Hab Hw).
      * rewrite E. simpl. destruct (lock_eqb l0 l) eqn:El.
        -- apply lock_eqb_eq in El. subst l0. exfalso.
           destruct m0; simpl in Hca.
           ++ specialize (Hca a Ha). rewrite Hw in Hca. discriminate.
           ++ specialize (Hca a Ha). rewrite (holds_w_holds _ _ Hw) in Hca. discriminate.
        -- simpl. exact (Hex a i l Hab Hw).
      * destruct (holds (t_held t') l) eqn:Eh; [|reflexivity].
        pose proof (release_holds _ _ _ _ l E Eh) as Hh. rewrite (Hex a i l Hab Hw) in Hh. discriminate.
    + rewrite upd_other in Hw by exact Ha. rewrite upd_other by exact Hb. exact (Hex a b l Hab Hw).
Qed.

Lemma reach_inv s s' : inv s -> reach s s' -> inv s'.
Proof. intros Hi Hr. induction Hr; [exact Hi|]. eapply sstep_inv; [apply IHHr; exact Hi|eassumption]. Qed.

(* ---------------------------------------------------------------- consequences *)
Definition head (t : thread) : option cmd := match t_k t with ICmd c :: _ => Some c | _ => None end.

(* two threads about to access the same variable, at least one writing *)
Definition race (s : system) : Prop :=
  exists i j v, i <> j /\ head (s i) = Some (Wr v) /\ (head (s j) = Some (Rd v) \/ head (s j) = Some (Wr v)).

Theorem inv_no_race s : inv s -> forall i j v, i <> j -> head (s i) = Some (Wr v) ->
  (head (s j) = Some (Rd v) \/ head (s j) = Some (Wr v)) -> (exists r, v = VLoaderField r).
Proof.
  intros [Hok Hex] i j v Hij Hi Hj.
  pose proof (Hok i) as Oi. pose proof (Hok j) as Oj.
  unfold head in Hi, Hj. destruct (t_k (s i)) as [|[ci|] ki]; try discriminate. injection Hi as ->.
  apply okk_cmd_inv in Oi. destruct Oi as (Bi & _). cbn [check] in Bi.
  destruct (guard v) as [l|] eqn:G.
  - destruct (holds_w (t_held (s i)) l) eqn:Wi; [|discriminate]. exfalso.
    pose proof (Hex i j l Hij Wi) as Hn.
    destruct (t_k (s j)) as [|[cj|] kj]; try (destruct Hj; discriminate).
    apply okk_cmd_inv in Oj. destruct Oj as (Bj & _).
    destruct Hj as [Hj|Hj]; injection Hj as ->; cbn [check] in Bj; rewrite G in Bj.
    + rewrite Hn in Bj. discriminate.
    + destruct (holds_w (t_held (s j)) l) eqn:Wj; [|discriminate]. rewrite (holds_w_holds _ _ Wj) in Hn. discriminate.
  - destruct v; try discriminate. eexists. reflexivity.
Qed.

(* a thread never tries to acquire a lock it already holds (self-deadlock), in any mode *)
Theorem inv_no_relock s : inv s -> forall i l m, head (s i) = Some (Acq l m) -> holds (t_held (s i)) l = false.
Proof.
  intros [Hok _] i l m Hi. pose proof (Hok i) as Oi. unfold head in Hi.
  destruct (t_k (s i)) as [|[ci|] ki]; try discriminate. injection Hi as ->.
  apply okk_cmd_inv in Oi. destruct Oi as (Bi & _). cbn [check] in Bi.
  destruct (holds (t_held (s i)) l); [discriminate|reflexivity].
Qed.

(* locks are acquired in rank order: what is held when acquiring has a strictly smaller rank *)
Theorem inv_lock_order s : inv s -> forall i l m, head (s i) = Some (Acq l m) ->
  forall l' m', In (l', m') (t_held (s i)) -> rank l' < rank l.
Proof.
  intros [Hok _] i l m Hi l' m' Hin. pose proof (Hok i) as Oi. unfold head in Hi.
  destruct (t_k (s i)) as [|[ci|] ki]; try discriminate. injection Hi as ->.
  apply okk_cmd_inv in Oi. destruct Oi as (Bi & _). cbn [check] in Bi.
  destruct (holds (t_held (s i)) l); [discriminate|].
  destruct (existsb (fun p => Nat.leb (rank l) (rank (fst p))) (t_held (s i))) eqn:E; [discriminate|].
  assert (Hf : Nat.leb (rank l) (rank l') = false).
  { destruct (Nat.leb (rank l) (rank l')) eqn:El; [|reflexivity].
    assert (existsb (fun p => Nat.leb (rank l) (rank (fst p))) (t_held (s i)) = true)
      by (apply existsb_exists; exists (l', m'); auto). congruence. }
  apply Nat.leb_gt in Hf. exact Hf.
Qed.

(* a thread that has finished holds no lock *)
Theorem inv_finished_holds_nothing s : inv s -> forall i, t_k (s i) = [] -> t_held (s i) = [].
Proof. intros [Hok _] i Hk. pose proof (Hok i) as Oi. rewrite Hk in Oi. apply okk_nil_inv. exact Oi. Qed.

(* ---- initial systems built from checked entry procedures *)
Definition start_thread (c : cmd) : thread := {| t_held := []; t_k := [ICmd c] |}.
Definition idle : thread := {| t_held := []; t_k := [] |}.

Definition entry_cmd (P : list proc) (f : string) : option cmd :=
  match find_proc P f with Some p => Some (fst (inline 12 P (Block (p_body p)))) | None => None end.

Lemma check_entry_okk P f c : check_entry P f = [] -> entry_cmd P f = Some c -> okk [ICmd c] [].
Proof.
  unfold check_entry, entry_cmd. destruct (find_proc P f) as [p|]; [|discriminate].
  destruct (inline 12 P (Block (p_body p))) as [b vi] eqn:E. simpl. intros H [= <-].
  apply app_nil_both in H. destruct H as [_ H]. apply app_nil_both in H. destruct H as [Hb Hx].
  match type of Hx with (if ?c then _ else _) = _ => destruct c eqn:Ef end; [|discriminate Hx].
  rewrite forallb_forall in Ef.
  apply ok_cmd; [exact Hb| |]; rewrite Forall_forall; intros h Hin; simpl;
    (assert (Hm : In h (normal (check b []) ++ returned (check b []))) by (apply in_or_app; auto));
    specialize (Ef h Hm); destruct h; try discriminate; apply ok_nil.
Qed.

(* an initial system: every thread runs some entry procedure of the program (or nothing) *)
Definition initial (P : list proc) (entries : list string) (s : system) : Prop :=
  forall i, s i = idle \/ exists f c, In f entries /\ entry_cmd P f = Some c /\ s i = start_thread c.

Lemma skel_ok_entries P entries : skel_ok P entries = true -> forall f, In f entries -> check_entry P f = [].
Proof.
  unfold skel_ok, skel_report. intros H f Hin.
  destruct (flat_map _ entries) eqn:E; [|discriminate].
  apply flat_map_nil in E. rewrite Forall_forall in E. specialize (E f Hin).
  destruct (check_entry P f); [reflexivity|discriminate].
Qed.

Lemma initial_inv P entries s : skel_ok P entries = true -> initial P entries s -> inv s.
Proof.
  intros Hok Hin. split.
  - intros i. destruct (Hin i) as [->|(f & c & Hf & Hc & ->)]; [apply ok_nil|].
    apply (check_entry_okk P f c); [apply (skel_ok_entries P entries Hok f Hf)|exact Hc].
  - intros i j l _ Hw. destruct (Hin i) as [E|(f & c & _ & _ & E)]; rewrite E in Hw; simpl in Hw; discriminate.
Qed.

(* ---------------------------------------------------------------- the soundness theorem *)
Theorem skel_ok_sound P entries s0 s :
  skel_ok P entries = true -> initial P entries s0 -> reach s0 s ->
  (* no data race on any variable (the loader's private field is judged at its call site) *)
  (forall i j v, i <> j -> head (s i) = Some (Wr v) ->
     (head (s j) = Some (Rd v) \/ head (s j) = Some (Wr v)) -> exists r, v = VLoaderField r) /\
  (* no thread re-acquires a lock it holds *)
  (forall i l m, head (s i) = Some (Acq l m) -> holds (t_held (s i)) l = false) /\
  (* locks are taken in the order LUpdate < LRepo < LEntry *)
  (forall i l m, head (s i) = Some (Acq l m) -> forall l' m', In (l', m') (t_held (s i)) -> rank l' < rank l) /\
  (* a finished thread holds nothing *)
  (forall i, t_k (s i) = [] -> t_held (s i) = []).
Proof.
  intros Hok Hin Hr. pose proof (reach_inv _ _ (initial_inv P entries s0 Hok Hin) Hr) as Hi.
  split; [apply inv_no_race; exact Hi|]. split; [apply inv_no_relock; exact Hi|].
  split; [apply inv_lock_order; exact Hi|apply inv_finished_holds_nothing; exact Hi].
Qed.
