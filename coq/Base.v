(* Base.v — shared vocabulary of the model. *)
From Coq Require Export ZArith NArith Bool String Ascii Lia List.
Export ListNotations.

Definition bytes := list N.

(* What a Go function can do besides returning normally. *)
Inductive panicclass := MakeSliceRange | NilDeref | IndexRange | NilMapWrite.
Inductive res (A : Type) :=
| Ok (a : A)
| Err (e : N)            (* ordinary Go error, classified by a small number *)
| Panic (p : panicclass) (* run-time panic *)
| OutOfFuel.             (* artefact of fuelled recursion; excluded by theorems *)
Arguments Ok {A} a. Arguments Err {A} e. Arguments Panic {A} p. Arguments OutOfFuel {A}.

Definition bind {A B} (r : res A) (f : A -> res B) : res B :=
  match r with Ok a => f a | Err e => Err e | Panic p => Panic p | OutOfFuel => OutOfFuel end.
Notation "'do' x <- r ; k" := (bind r (fun x => k)) (at level 200, x pattern, r at level 100, k at level 200).

Definition is_ok {A} (r : res A) : bool := match r with Ok _ => true | _ => false end.
Definition is_err {A} (r : res A) : bool := match r with Err _ => true | _ => false end.
Definition is_panic {A} (r : res A) : bool := match r with Panic _ => true | _ => false end.

Fixpoint assoc {A} (k : string) (l : list (string * A)) : option A :=
  match l with
  | [] => None
  | (k', v) :: t => if String.eqb k k' then Some v else assoc k t
  end.

Definition bytes_eqb (a b : bytes) : bool :=
  (Nat.eqb (length a) (length b)) && forallb (fun p => N.eqb (fst p) (snd p)) (combine a b).

Lemma bytes_eqb_refl a : bytes_eqb a a = true.
Proof.
  unfold bytes_eqb. rewrite Nat.eqb_refl. simpl.
  induction a as [|x a IH]; simpl; [reflexivity|]. rewrite N.eqb_refl. exact IH.
Qed.

Lemma bytes_eqb_eq a b : bytes_eqb a b = true -> a = b.
Proof.
  unfold bytes_eqb. revert b. induction a as [|x a IH]; intros [|y b] H; simpl in *; try discriminate; auto.
  apply andb_prop in H. destruct H as [Hl H]. apply andb_prop in H. destruct H as [Hx H].
  apply N.eqb_eq in Hx. subst. f_equal. apply IH. rewrite Hl. exact H.
Qed.

(* linear-time reversal (List.rev is quadratic under evaluation) *)
Definition frev {A} (l : list A) : list A := rev_append l [].
Lemma frev_rev {A} (l : list A) : frev l = rev l.
Proof. unfold frev. rewrite rev_append_rev. apply app_nil_r. Qed.
