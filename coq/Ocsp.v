(* Ocsp.v — model of ocsp/ocsprevocationchecker.go: responder filtering, the responder x issuer
   candidate loop, which answers count, the cache (key, lifetime, expiry). *)
From Verif Require Import Base.
From Verif.gen Require GenFacts.

Inductive ostatus := SGood | SRevoked | SUnknown.

(* what one responder URL of the certificate does *)
Inductive rbeh :=
| Silent                                   (* refused / HTTP error / garbage / OCSP error status *)
| NonHTTP                                  (* URL whose lower-cased text does not start with "http" *)
| Answer (st : ostatus) (authentic : bool). (* a parseable successful response; authentic = signed by the
                                              issuer (or a responder the issuer signed for OCSP signing)
                                              and about exactly this serial *)

Inductive overdict := OAccept | ORevoked | OError.

Definition is_http (b : rbeh) : bool := match b with NonHTTP => false | _ => true end.
Definition filter_http (l : list rbeh) : list rbeh := filter is_http l.

(* the first answer that counts, in list order *)
Fixpoint first_answer (l : list rbeh) : option ostatus :=
  match l with
  | [] => None
  | Answer st true :: _ => Some st
  | _ :: t => first_answer t
  end.

Definition verdict_of (st : ostatus) : overdict := match st with SRevoked => ORevoked | _ => OAccept end.

(* ---- cache: key = (issuer, serial); absolute expiry *)
Record centry := { ce_status : ostatus; ce_expires : Z }.
Definition ckey := (N * Z)%type.  (* issuer name, serial *)
Definition cache := list (ckey * centry).

Definition ckey_eqb (a b : ckey) : bool := N.eqb (fst a) (fst b) && Z.eqb (snd a) (snd b).
Fixpoint cache_find (c : cache) (k : ckey) : option centry :=
  match c with [] => None | (k', e) :: t => if ckey_eqb k k' then Some e else cache_find t k end.

(* tryGetResponseFromCache at time now *)
Definition cache_get (c : cache) (k : ckey) (now : Z) : option ostatus :=
  match cache_find c k with
  | Some e => if (now <? ce_expires e)%Z then Some (ce_status e) else None
  | None => None
  end.

(* calculateEvictionTime *)
Definition lifetime (now : Z) (next_update : option Z) (default : Z) : Z :=
  match next_update with
  | Some nu => if (nu - now >? 0)%Z then (nu - now + GenFacts.max_clock_skew_ns)%Z else default
  | None => default
  end.

Definition cache_add (c : cache) (k : ckey) (now life : Z) (st : ostatus) : cache :=
  if (life >? 0)%Z then (k, {| ce_status := st; ce_expires := (now + life)%Z |}) :: c else c.

Record ocfg := { o_strict : bool; o_default_life : Z }.

(* IsRevoked *)
Definition ocsp_check (cfg : ocfg) (c : cache) (k : ckey) (now : Z) (next_update : option Z) (responders : list rbeh)
  : overdict * cache :=
  match cache_get c k now with
  | Some st => (verdict_of st, c)
  | None =>
    let http := filter_http responders in
    match first_answer http with
    | Some st => (verdict_of st, cache_add c k now (lifetime now next_update (o_default_life cfg)) st)
    | None => (match http with [] => OAccept | _ => if o_strict cfg then OError else OAccept end, c)
    end
  end.
