From Verif Require Import Base Ocsp.

Record ocase := mk_oc { oc_idx : nat; oc_resp : list rbeh; oc_strict : bool; oc_life : Z; oc_first : N; oc_second : N }.
Definition ov_code (v : overdict) : N := match v with OAccept => 1 | ORevoked => 2 | OError => 3 end.
Definition silence (b : rbeh) : rbeh := match b with NonHTTP => NonHTTP | _ => Silent end.

Definition oc_agrees (c : ocase) : bool :=
  let cfg := {| o_strict := oc_strict c; o_default_life := oc_life c |} in
  let k : ckey := (1%N, 7%Z) in
  let '(v1, c1) := ocsp_check cfg [] k 0 None (oc_resp c) in
  let '(v2, _) := ocsp_check cfg c1 k 1 None (map silence (oc_resp c)) in
  N.eqb (ov_code v1) (oc_first c) && N.eqb (ov_code v2) (oc_second c).
Definition ocsp_mismatches (l : list ocase) : list nat := map oc_idx (filter (fun c => negb (oc_agrees c)) l).

(* timed reads of one cached good answer whose responder has flipped to revoked:
   life = lifetime in units; reads = (time, observed code: 1 accept, 2 revoked, 0 not judged) *)
Record tcase := mk_tc { tc_idx : nat; tc_life : Z; tc_reads : list (Z * N) }.
Fixpoint tc_run (cfg : ocfg) (c : cache) (reads : list (Z * N)) : bool :=
  match reads with
  | [] => true
  | (t, o) :: r =>
    let '(v, c') := ocsp_check cfg c (1%N, 7%Z) t None [Answer SRevoked true] in
    (N.eqb o 0 || N.eqb (ov_code v) o) && tc_run cfg c' r
  end.
Definition tc_agrees (c : tcase) : bool :=
  let cfg := {| o_strict := true; o_default_life := tc_life c |} in
  let '(_, c1) := ocsp_check cfg [] (1%N, 7%Z) 0 None [Answer SGood true] in
  tc_run cfg c1 (tc_reads c).
Definition cache_mismatches (l : list tcase) : list nat := map tc_idx (filter (fun c => negb (tc_agrees c)) l).
