(* Pem.v — core/pemreader/pemreader.go (IsPemFile, the line filter) and the way
   crlreader stacks bufio -> PemReader -> base64 decoder -> bufio.  The base64 alphabet
   decoding itself is Go's encoding/base64; an executable decoder is given here so that
   the model can be run on PEM files. *)
From Verif Require Import Base Bytes.
From Verif.gen Require GenFacts.

Definition LF : N := 10. Definition CR : N := 13. Definition DASH : N := 45.

(* split into lines, each including its terminating LF; the flag tells whether the last
   segment is terminated *)
Fixpoint lines_of (bs : bytes) (cur_rev : bytes) : list bytes * bytes :=
  match bs with
  | [] => ([], frev cur_rev)
  | b :: t => if N.eqb b LF then let '(ls, tail) := lines_of t [] in (frev (b :: cur_rev) :: ls, tail)
              else lines_of t (b :: cur_rev)
  end.

Definition strip_eol (l : bytes) : bytes :=
  match frev l with
  | a :: b :: r => if N.eqb a LF then (if N.eqb b CR then rev r else frev (b :: r)) else l
  | [a] => if N.eqb a LF then [] else l
  | [] => []
  end.

Definition armour_char (c : N) : bool :=
  ((65 <=? c) && (c <=? 90))%N || ((48 <=? c) && (c <=? 57))%N || (c =? 32)%N.

(* the regular expression ^-{5}[A-Z0-9 ]*-{5}(\n|\r\n){0,1}$ as a recogniser *)
Definition is_armour (line : bytes) : bool :=
  let s := strip_eol line in
  let n := length s in
  (10 <=? n)%nat
  && forallb (N.eqb DASH) (firstn 5 s)
  && forallb (N.eqb DASH) (skipn (n - 5) s)
  && forallb armour_char (firstn (n - 10) (skipn 5 s)).

Definition armour_regex_modelled : string := "^-{5}[A-Z0-9 ]*-{5}(\n|\r\n){0,1}$".

(* IsPemFile: first line (bufio.ReadLine, at most 4096 bytes, EOL stripped) matches *)
Definition first_line (bs : bytes) : option bytes :=
  match bs with
  | [] => None
  | _ => let '(ls, tail) := lines_of bs [] in
         Some (match ls with l :: _ => strip_eol l | [] => tail end)
  end.
Definition is_pem_file (bs : bytes) : bool :=
  match first_line bs with
  | Some l => (length l <=? 4096)%nat && is_armour l
  | None => false
  end.

(* readNextBase64Line over the whole file: the concatenation of the non-armour lines, up to
   the first over-long line or the unterminated tail (both end the stream with an error) *)
Fixpoint pem_filter (ls : list bytes) : bytes :=
  match ls with
  | [] => []
  | l :: t => if is_armour l then pem_filter t
              else if (GenFacts.pem_max_line_length <? length l)%nat then []
              else l ++ pem_filter t
  end.
Definition pem_payload (file : bytes) : bytes := pem_filter (fst (lines_of file [])).

(* ---- base64 (StdEncoding, strict), CR and LF ignored *)
Definition b64_val (c : N) : option N :=
  if ((65 <=? c) && (c <=? 90))%N then Some (c - 65)%N
  else if ((97 <=? c) && (c <=? 122))%N then Some (c - 71)%N
  else if ((48 <=? c) && (c <=? 57))%N then Some (c + 4)%N
  else if (c =? 43)%N then Some 62%N
  else if (c =? 47)%N then Some 63%N
  else None.
Definition EQ : N := 61.

Fixpoint b64_groups (fuel : nat) (cs : bytes) : bytes :=
  match fuel with
  | O => []
  | S f =>
    match cs with
    | a :: b :: c :: d :: t =>
      match b64_val a, b64_val b with
      | Some va, Some vb =>
        let o1 := (va * 4 + vb / 16)%N in
        match b64_val c with
        | Some vc =>
          let o2 := ((vb mod 16) * 16 + vc / 4)%N in
          match b64_val d with
          | Some vd => o1 :: o2 :: ((vc mod 4) * 64 + vd)%N :: b64_groups f t
          | None => if N.eqb d EQ then (match t with [] => [o1; o2] | _ => [] end) else []
          end
        | None => if N.eqb c EQ && N.eqb d EQ then (match t with [] => [o1] | _ => [] end) else []
        end
      | _, _ => []
      end
    | _ => []
    end
  end.

Definition b64_decode (cs : bytes) : bytes :=
  let f := filter (fun c => negb (N.eqb c LF || N.eqb c CR)) cs in
  b64_groups (S (length f / 4)) f.

(* the byte stream the ASN.1 parser sees for a file *)
Definition stream_of_file (file : bytes) : bytes :=
  if is_pem_file file then b64_decode (pem_payload file) else file.
