From Verif Require Import Base Chains.

Lemma verify_sound s chs c :
  verify_crl_sig s chs = Some c ->
  In c (concat chs) /\ entitled c = true /\ k_key c = s_signed_by s /\ s_intact s = true /\
  (match s_aki_keyid s, s_aki_issuer_serial s with
   | None, None => k_subject c = s_issuer s /\ k_alg c = s_alg s
   | _, Some (i, z) => k_serial c = z /\ k_issuer c = i
   | Some kid, None => k_ski c = kid end).
Proof.
  unfold verify_crl_sig. intros H. apply find_some in H. destruct H as [Hin H].
  apply andb_prop in H. destruct H as [He Hs]. unfold sig_verifies in Hs. apply andb_prop in Hs.
  destruct Hs as [Hk Hi]. apply N.eqb_eq in Hk.
  unfold find_candidates in Hin.
  destruct (s_aki_keyid s) as [kid|], (s_aki_issuer_serial s) as [[i z]|];
    apply filter_In in Hin; destruct Hin as [Hc Hf]; repeat split; auto;
    try (apply andb_prop in Hf; destruct Hf as [A B]);
    try (apply N.eqb_eq; assumption); try (apply Z.eqb_eq; assumption).
Qed.

Lemma end_entity_never s chs c : verify_crl_sig s chs = Some c -> k_end_entity c = false.
Proof.
  intros H. apply verify_sound in H. destruct H as (_ & He & _). unfold entitled in He.
  apply andb_prop in He. destruct He as [He _]. destruct (k_end_entity c); [discriminate|reflexivity].
Qed.

Lemma crlsign_required s chs c : verify_crl_sig s chs = Some c -> k_ku_present c = true -> k_ku_crlsign c = true.
Proof.
  intros H Hp. apply verify_sound in H. destruct H as (_ & He & _). unfold entitled in He.
  apply andb_prop in He. destruct He as [_ He]. rewrite Hp in He. exact He.
Qed.

Lemma leaf_marked verified trusted ch c rest :
  In ch verified -> ch = c :: rest -> exists c', In c' (concat (new_chains verified trusted)) /\ k_key c' = k_key c /\ k_end_entity c' = true.
Proof.
  intros Hin ->. eexists. split.
  - unfold new_chains. rewrite concat_app. apply in_or_app. left.
    apply in_concat. exists (mark_leaf (c :: rest)). split; [apply in_map; exact Hin|simpl; left; reflexivity].
  - simpl. auto.
Qed.

Lemma tampered_never s chs : s_intact s = false -> verify_crl_sig s chs = None.
Proof.
  intros H. destruct (verify_crl_sig s chs) eqn:E; [|reflexivity].
  apply verify_sound in E. destruct E as (_ & _ & _ & Hi & _). congruence.
Qed.

Lemma foreign_key_never s chs :
  (forall c, In c (concat chs) -> k_key c <> s_signed_by s) -> verify_crl_sig s chs = None.
Proof.
  intros H. destruct (verify_crl_sig s chs) eqn:E; [|reflexivity].
  apply verify_sound in E. destruct E as (Hin & _ & Hk & _). exfalso. exact (H _ Hin Hk).
Qed.
