From Verif Require Import Base Bytes FsNames.
From Verif.gen Require GenFacts.

Lemma hex_digit_is_hex n : (n < 16)%N -> is_hex_char (hex_digit n) = true.
Proof.
  intros H. assert (D : (n = 0 \/ n = 1 \/ n = 2 \/ n = 3 \/ n = 4 \/ n = 5 \/ n = 6 \/ n = 7 \/ n = 8 \/ n = 9 \/
                         n = 10 \/ n = 11 \/ n = 12 \/ n = 13 \/ n = 14 \/ n = 15)%N) by lia.
  repeat (destruct D as [->|D]; [reflexivity|]). subst. reflexivity.
Qed.

Definition is_byte (b : N) : Prop := (b < 256)%N.

Lemma hex_length bs : length (hex_of_bytes bs) = 2 * length bs.
Proof. induction bs as [|b bs IH]; simpl; [reflexivity|]. rewrite IH. lia. Qed.

Lemma hex_chars bs : Forall is_byte bs -> forallb is_hex_char (hex_of_bytes bs) = true.
Proof.
  induction bs as [|b bs IH]; intros H; simpl; [reflexivity|]. inversion H; subst. unfold is_byte in *.
  rewrite hex_digit_is_hex by (apply N.div_lt_upper_bound; lia).
  rewrite hex_digit_is_hex by (apply N.mod_lt; lia). simpl. apply IH. assumption.
Qed.

(* a name made of hex characters contains none of: '/', '\', '.', '_', NUL *)
Lemma hex_char_safe c : is_hex_char c = true -> c <> 47%N /\ c <> 92%N /\ c <> 46%N /\ c <> 95%N /\ c <> 0%N.
Proof.
  unfold is_hex_char. intros H. apply orb_prop in H.
  destruct H as [H|H]; apply andb_prop in H; destruct H as [A B]; apply N.leb_le in A; apply N.leb_le in B; lia.
Qed.

Lemma hex_name_safe bs c : Forall is_byte bs -> In c (hex_of_bytes bs) ->
  c <> 47%N /\ c <> 92%N /\ c <> 46%N /\ c <> 95%N /\ c <> 0%N.
Proof.
  intros Hb Hin. pose proof (hex_chars bs Hb) as H. rewrite forallb_forall in H. apply hex_char_safe. apply H. exact Hin.
Qed.

(* a store directory name is never taken for a temporary artefact *)
Lemma prefix_is : bytes_of_string GenFacts.temp_dir_prefix = [99; 114; 108; 95]%N /\
                  bytes_of_string GenFacts.temp_dir_suffix = [95; 116; 109; 112]%N.
Proof. split; reflexivity. Qed.

Lemma hex_not_temp bs : Forall is_byte bs -> matches_temp (hex_of_bytes bs) = false.
Proof.
  intros Hb. unfold matches_temp. destruct prefix_is as [-> ->].
  destruct (hex_of_bytes bs) as [|a [|b [|c [|d r]]]] eqn:E; try reflexivity.
  (* the fourth character would have to be '_' *)
  assert (Hd : In d (hex_of_bytes bs)) by (rewrite E; simpl; auto).
  destruct (hex_name_safe bs d Hb Hd) as (_ & _ & _ & Hu & _).
  cbn [length starts_with]. destruct (N.eqb_spec 95 d) as [Heq|Hne]; [exfalso; apply Hu; symmetry; exact Heq|].
  rewrite !andb_false_r. simpl. rewrite ?andb_false_r. reflexivity.
Qed.

(* every temporary name is recognised by the sweep *)
Lemma starts_with_app p s : starts_with p (p ++ s) = true.
Proof. induction p; simpl; [reflexivity|]. rewrite N.eqb_refl. exact IHp. Qed.

Lemma temp_name_swept r : forallb (fun c => negb (N.eqb c NL)) r = true -> matches_temp (temp_name r) = true.
Proof.
  intros Hr. unfold matches_temp, temp_name. destruct prefix_is as [-> ->].
  rewrite starts_with_app. unfold ends_with. rewrite !frev_rev, !rev_app_distr. simpl rev at 1.
  rewrite <- app_assoc. rewrite starts_with_app.
  rewrite !app_length. simpl length.
  assert (Hl : (4 + 4 <=? 4 + (length r + 4))%nat = true) by (apply Nat.leb_le; lia). rewrite Hl. simpl andb.
  rewrite !forallb_app, Hr. reflexivity.
Qed.

(* ---- the effect of an intake on the directory *)
Arguments remove : simpl never.
Lemma remove_cons_same x l : ~ In x l -> remove x (x :: l) = l.
Proof.
  intros H. unfold remove. simpl. rewrite bytes_eqb_refl. simpl.
  induction l as [|y l IH]; simpl; [reflexivity|].
  destruct (bytes_eqb x y) eqn:E; [apply bytes_eqb_eq in E; subst; exfalso; apply H; left; reflexivity|].
  simpl. f_equal. apply IH. intros Hin. apply H. right. exact Hin.
Qed.

Lemma remove_other x y l : x <> y -> remove x (y :: l) = y :: remove x l.
Proof.
  intros H. unfold remove. simpl. destruct (bytes_eqb x y) eqn:E; [apply bytes_eqb_eq in E; congruence|reflexivity].
Qed.

Lemma remove_notin x l : ~ In x l -> remove x l = l.
Proof.
  intros H. induction l as [|y l IH]; [reflexivity|]. rewrite remove_other; [f_equal; apply IH; intros Hi; apply H; right; exact Hi|].
  intros ->. apply H. left. reflexivity.
Qed.

(* whatever the outcome: no temporary artefact remains, and no live directory other than the
   one being replaced is touched; the replaced one exists afterwards *)
Lemma intake_fs_clean o tf td aside id s :
  ~ In tf (temp_files s) -> ~ In td (temp_dirs s) -> ~ In aside (temp_dirs s) -> td <> aside ->
  let s' := intake_fs o tf td aside id s in
  temp_files s' = temp_files s /\ temp_dirs s' = temp_dirs s /\
  (forall d, In d (live_dirs s) -> In d (live_dirs s')) /\
  (o = Succeeds -> In id (live_dirs s')).
Proof.
  intros Htf Htd Has Hne. destruct o; cbn [intake_fs temp_files temp_dirs live_dirs].
  - rewrite remove_cons_same by exact Htf. repeat split; auto. discriminate.
  - rewrite remove_cons_same by exact Htf. repeat split; auto. discriminate.
  - rewrite remove_cons_same by exact Htf. rewrite remove_cons_same by exact Htd. repeat split; auto. discriminate.
  - rewrite remove_cons_same by exact Htf. rewrite remove_cons_same by exact Htd. repeat split; auto. discriminate.
  - rewrite remove_cons_same by exact Htf.
    rewrite (remove_other td aside) by exact Hne. rewrite (remove_cons_same td) by exact Htd.
    rewrite (remove_cons_same aside) by exact Has.
    repeat split; auto.
    + intros d Hd. destruct (bytes_eqb id d) eqn:E.
      * apply bytes_eqb_eq in E. subst. left. reflexivity.
      * right. unfold remove. apply filter_In. split; [exact Hd|]. rewrite E. reflexivity.
    + intros _. left. reflexivity.
Qed.
