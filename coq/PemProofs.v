(* PemProofs.v — the PEM path delivers the DER bytes: for every byte string, armoured as
   "-----BEGIN X509 CRL-----", base64 in 64-column lines, "-----END X509 CRL-----", with LF or CRLF line ends,
   what the ASN.1 parser is given (IsPemFile, the line filter, the base64 decoder) is exactly that byte string. *)
From Verif Require Import Base Bytes Pem.
From Verif.gen Require GenFacts.
From Coq Require Import ZifyN ZifyNat ZifyBool.
Ltac Zify.zify_post_hook ::= Z.div_mod_to_equations.
Open Scope list_scope.

(* ---------------------------------------------------------------- the encoder (reference) *)
Definition b64_char (v : N) : N :=
  if (v <? 26)%N then (v + 65)%N else if (v <? 52)%N then (v + 71)%N else if (v <? 62)%N then (v - 4)%N
  else if (v =? 62)%N then 43%N else 47%N.

Fixpoint b64_encode (bs : bytes) : bytes :=
  match bs with
  | a :: b :: c :: t =>
    b64_char (a / 4) :: b64_char ((a mod 4) * 16 + b / 16) :: b64_char ((b mod 16) * 4 + c / 64) :: b64_char (c mod 64)
    :: b64_encode t
  | [a; b] => [b64_char (a / 4); b64_char ((a mod 4) * 16 + b / 16); b64_char ((b mod 16) * 4); EQ]
  | [a] => [b64_char (a / 4); b64_char ((a mod 4) * 16); EQ; EQ]
  | [] => []
  end%N.

Fixpoint chunks (fuel : nat) (cs : bytes) : list bytes :=
  match fuel with
  | O => []
  | S f => match cs with [] => [] | _ => firstn 64 cs :: chunks f (skipn 64 cs) end
  end.

Definition BEGIN_LINE : bytes := [45;45;45;45;45;66;69;71;73;78;32;88;53;48;57;32;67;82;76;45;45;45;45;45]%N.
Definition END_LINE : bytes := [45;45;45;45;45;69;78;68;32;88;53;48;57;32;67;82;76;45;45;45;45;45]%N.

Definition pem_lines (eol : bytes) (der : bytes) : list bytes :=
  (BEGIN_LINE ++ eol) :: map (fun ch => ch ++ eol) (chunks (S (length (b64_encode der))) (b64_encode der)) ++ [END_LINE ++ eol].
Definition pem_file (eol : bytes) (der : bytes) : bytes := concat (pem_lines eol der).

Definition is_eol (eol : bytes) : Prop := eol = [LF] \/ eol = [CR; LF].
Definition is_b64 (c : N) : Prop := exists v, (v < 64)%N /\ c = b64_char v.
Definition is_b64eq (c : N) : Prop := is_b64 c \/ c = EQ.

(* ---------------------------------------------------------------- alphabet facts (finite sweeps) *)
Lemma b64_val_char v : (v < 64)%N -> b64_val (b64_char v) = Some v.
Proof.
  intros H. assert (G : forallb (fun v => match b64_val (b64_char v) with Some w => N.eqb w v | None => false end) (map N.of_nat (seq 0 64)) = true) by (vm_compute; reflexivity).
  rewrite forallb_forall in G. specialize (G v). assert (Hin : In v (map N.of_nat (seq 0 64))).
  { apply in_map_iff. exists (N.to_nat v). split; [lia|]. apply in_seq. lia. }
  specialize (G Hin). destruct (b64_val (b64_char v)) as [w|]; [|discriminate]. apply N.eqb_eq in G. subst. reflexivity.
Qed.

Lemma b64_char_range v : (v < 64)%N ->
  let c := b64_char v in c <> LF /\ c <> CR /\ c <> DASH /\ c <> EQ.
Proof.
  intros H. assert (G : forallb (fun v => let c := b64_char v in negb (N.eqb c LF) && negb (N.eqb c CR) && negb (N.eqb c DASH) && negb (N.eqb c EQ)) (map N.of_nat (seq 0 64)) = true) by (vm_compute; reflexivity).
  rewrite forallb_forall in G. specialize (G v). assert (Hin : In v (map N.of_nat (seq 0 64))).
  { apply in_map_iff. exists (N.to_nat v). split; [lia|]. apply in_seq. lia. }
  specialize (G Hin). cbn zeta in G. repeat (apply andb_prop in G; destruct G as [G ?]).
  repeat match goal with H : negb (N.eqb _ _) = true |- _ => apply negb_true_iff, N.eqb_neq in H end. auto.
Qed.

Lemma b64eq_not_eol c : is_b64eq c -> c <> LF /\ c <> CR /\ c <> DASH.
Proof.
  intros [(v & Hv & Hc)| Hc]; subst c; [pose proof (b64_char_range v Hv); cbn zeta in *; tauto|].
  unfold EQ, LF, CR, DASH. repeat split; discriminate.
Qed.

(* ---------------------------------------------------------------- the encoder produces the alphabet *)
Lemma b64c v : (v < 64)%N -> is_b64eq (b64_char v).
Proof. intros H. left. exists v. auto. Qed.
Lemma eqc : is_b64eq EQ.
Proof. right. reflexivity. Qed.

Lemma encode_alphabet : forall n der, length der <= n -> Forall (fun b => (b < 256)%N) der -> Forall is_b64eq (b64_encode der).
Proof.
  induction n as [|n IH]; intros der Hl Hb.
  - destruct der; [constructor|cbn in Hl; lia].
  - destruct der as [|a [|b [|c t]]]; cbn [b64_encode].
    + constructor.
    + inversion Hb; subst.
      repeat (apply Forall_cons; [first [apply eqc | apply b64c; lia]|]). apply Forall_nil.
    + inversion Hb as [|? ? Ha Hb']; subst. inversion Hb' as [|? ? Hb1 _]; subst.
      repeat (apply Forall_cons; [first [apply eqc | apply b64c; lia]|]). apply Forall_nil.
    + inversion Hb as [|? ? Ha Hb']; subst. inversion Hb' as [|? ? Hb1 Hb'']; subst. inversion Hb'' as [|? ? Hc Ht]; subst.
      do 4 (apply Forall_cons; [apply b64c; lia|]).
      apply IH; [cbn in Hl; lia|exact Ht].
Qed.

(* ---------------------------------------------------------------- base64: decode (encode x) = x *)
Lemma groups_encode : forall n der fuel, length der <= n -> Forall (fun b => (b < 256)%N) der -> length der / 3 < fuel ->
  b64_groups fuel (b64_encode der) = der.
Proof.
  induction n as [|n IH]; intros der fuel Hl Hb Hf.
  - destruct der; [|cbn in Hl; lia]. destruct fuel; reflexivity.
  - destruct fuel as [|fuel]; [lia|].
    destruct der as [|a [|b [|c t]]]; cbn [b64_encode b64_groups].
    + reflexivity.
    + inversion Hb; subst.
      rewrite !b64_val_char by lia. change (b64_val EQ) with (@None N). rewrite !N.eqb_refl. cbn [andb].
      f_equal. lia.
    + inversion Hb as [|? ? Ha Hb']; subst. inversion Hb' as [|? ? Hb1 _]; subst.
      rewrite !b64_val_char by lia. change (b64_val EQ) with (@None N). rewrite !N.eqb_refl.
      f_equal; [lia|f_equal; lia].
    + inversion Hb as [|? ? Ha Hb']; subst. inversion Hb' as [|? ? Hb1 Hb'']; subst. inversion Hb'' as [|? ? Hc Ht]; subst.
      rewrite !b64_val_char by lia.
      f_equal; [lia|]. f_equal; [lia|]. f_equal; [lia|].
      apply IH; [cbn in Hl; lia|exact Ht|].
      cbn [length] in Hf. assert (S (S (S (length t))) / 3 = S (length t / 3)) by (change (S (S (S (length t)))) with (3 + length t); rewrite (Nat.add_comm 3), <- (Nat.mul_1_l 3) at 1; rewrite Nat.div_add by lia; lia). lia.
Qed.

(* ---------------------------------------------------------------- lines *)
Lemma lines_of_noLF : forall l acc, ~ In LF l -> lines_of l acc = ([], rev acc ++ l).
Proof.
  induction l as [|b t IH]; intros acc H; cbn [lines_of].
  - rewrite frev_rev, app_nil_r. reflexivity.
  - destruct (N.eqb_spec b LF) as [->|Hb]; [exfalso; apply H; left; reflexivity|].
    rewrite IH by (intros Hin; apply H; right; exact Hin). cbn [rev]. rewrite <- app_assoc. reflexivity.
Qed.

Lemma lines_of_line : forall l acc rest, ~ In LF l ->
  lines_of (l ++ LF :: rest) acc = ((rev acc ++ l ++ [LF]) :: fst (lines_of rest []), snd (lines_of rest [])).
Proof.
  induction l as [|b t IH]; intros acc rest H; cbn [app lines_of].
  - rewrite N.eqb_refl. destruct (lines_of rest []) as [ls tail]. cbn [fst snd]. rewrite frev_rev. cbn [rev]. reflexivity.
  - destruct (N.eqb_spec b LF) as [->|Hb]; [exfalso; apply H; left; reflexivity|].
    rewrite IH by (intros Hin; apply H; right; exact Hin). cbn [rev]. rewrite <- !app_assoc. reflexivity.
Qed.

Definition is_line (ln : bytes) : Prop := exists l, ln = l ++ [LF] /\ ~ In LF l.

Lemma lines_of_concat : forall lines, Forall is_line lines -> lines_of (concat lines) [] = (lines, []).
Proof.
  induction lines as [|ln lines IH]; intros H; cbn [concat].
  - reflexivity.
  - inversion H as [|? ? (l & -> & Hl) Hr]; subst. rewrite <- app_assoc. cbn [app].
    rewrite lines_of_line by exact Hl. rewrite IH by exact Hr. reflexivity.
Qed.

Lemma eol_line l eol : is_eol eol -> ~ In LF l -> ~ In CR l -> is_line (l ++ eol).
Proof.
  intros [->| ->] Hl Hc.
  - exists l. auto.
  - exists (l ++ [CR]). split; [rewrite <- app_assoc; reflexivity|].
    intros Hin. apply in_app_or in Hin. destruct Hin as [Hin|[Hin|[]]]; [auto|discriminate].
Qed.

(* strip_eol removes exactly the line end *)
Lemma strip_eol_eol l eol : is_eol eol -> l <> [] -> ~ In CR l -> ~ In LF l -> strip_eol (l ++ eol) = l.
Proof.
  intros He Hne Hc Hl. unfold strip_eol. rewrite frev_rev, rev_app_distr.
  destruct (rev l) as [|x r] eqn:Er.
  { exfalso. apply Hne. rewrite <- (rev_involutive l), Er. reflexivity. }
  assert (Hx : In x l) by (apply in_rev; rewrite Er; left; reflexivity).
  assert (Hl' : l = rev r ++ [x]) by (rewrite <- (rev_involutive l), Er; reflexivity).
  destruct He as [->| ->]; cbn [rev app].
  - rewrite N.eqb_refl. destruct (N.eqb_spec x CR) as [->|_]; [exfalso; auto|].
    rewrite frev_rev. cbn [rev]. symmetry. exact Hl'.
  - rewrite N.eqb_refl. change (N.eqb CR CR) with true. cbn [rev]. symmetry. exact Hl'.
Qed.

(* a body line is not an armour line and is short enough *)
Lemma chunk_not_armour ch eol : is_eol eol -> ch <> [] -> Forall is_b64eq ch -> is_armour (ch ++ eol) = false.
Proof.
  intros He Hne Hch. unfold is_armour.
  assert (Hno : ~ In CR ch /\ ~ In LF ch).
  { split; intros Hin; rewrite Forall_forall in Hch; destruct (b64eq_not_eol _ (Hch _ Hin)) as (? & ? & ?); congruence. }
  rewrite strip_eol_eol by tauto.
  destruct ch as [|c ch']; [congruence|].
  destruct (10 <=? length (c :: ch')) eqn:El; [|reflexivity]. cbn [andb firstn forallb].
  inversion Hch as [|? ? Hc _]; subst. destruct (b64eq_not_eol _ Hc) as (_ & _ & Hd).
  destruct (N.eqb_spec DASH c) as [E|_]; [congruence|]. reflexivity.
Qed.

(* ---------------------------------------------------------------- 64-column chunks *)
Lemma chunks_spec : forall fuel cs, length cs < fuel ->
  concat (chunks fuel cs) = cs /\
  Forall (fun ch => ch <> [] /\ length ch <= 64 /\ forall x, In x ch -> In x cs) (chunks fuel cs).
Proof.
  induction fuel as [|fuel IH]; intros cs Hl; [lia|].
  destruct cs as [|c cs']; [split; [reflexivity|constructor]|].
  cbn [chunks]. set (cs := c :: cs') in *.
  assert (Hsk : length (skipn 64 cs) < fuel).
  { rewrite skipn_length. unfold cs in *. cbn [length] in *. lia. }
  destruct (IH (skipn 64 cs) Hsk) as [Hc Hf]. split.
  - cbn [concat]. rewrite Hc. apply firstn_skipn.
  - constructor.
    + split; [unfold cs; cbn; discriminate|]. split; [apply firstn_le_length|].
      intros x Hx. rewrite <- (firstn_skipn 64 cs). apply in_or_app. left. exact Hx.
    + eapply Forall_impl; [|exact Hf]. intros ch (Hn & Hle & Hin). split; [exact Hn|]. split; [exact Hle|].
      intros x Hx. rewrite <- (firstn_skipn 64 cs). apply in_or_app. right. apply Hin. exact Hx.
Qed.

Lemma filter_eol_chunk ch eol : is_eol eol -> Forall is_b64eq ch ->
  filter (fun c => negb (N.eqb c LF || N.eqb c CR)) (ch ++ eol) = ch.
Proof.
  intros He Hch. rewrite filter_app.
  assert (E1 : filter (fun c => negb (N.eqb c LF || N.eqb c CR)) eol = []) by (destruct He as [->| ->]; reflexivity).
  rewrite E1, app_nil_r. induction Hch as [|c ch Hc _ IH]; [reflexivity|]. cbn [filter].
  destruct (b64eq_not_eol _ Hc) as (Hlf & Hcr & _).
  destruct (N.eqb_spec c LF); [congruence|]. destruct (N.eqb_spec c CR); [congruence|]. cbn. rewrite IH. reflexivity.
Qed.

Lemma filter_eol_body chs eol : is_eol eol -> Forall (Forall is_b64eq) chs ->
  filter (fun c => negb (N.eqb c LF || N.eqb c CR)) (concat (map (fun ch => ch ++ eol) chs)) = concat chs.
Proof.
  intros He H. induction H as [|ch chs Hch _ IH]; [reflexivity|]. cbn [map concat].
  rewrite filter_app, filter_eol_chunk by assumption. rewrite IH. reflexivity.
Qed.

Lemma armour_lines eol : is_eol eol ->
  is_armour (BEGIN_LINE ++ eol) = true /\ is_armour (END_LINE ++ eol) = true /\
  strip_eol (BEGIN_LINE ++ eol) = BEGIN_LINE /\ is_armour BEGIN_LINE = true.
Proof. intros [->| ->]; repeat split; vm_compute; reflexivity. Qed.

Lemma pem_filter_body chs eol tail_lines : is_eol eol ->
  Forall (fun ch => ch <> [] /\ length ch <= 64 /\ Forall is_b64eq ch) chs ->
  pem_filter (map (fun ch => ch ++ eol) chs ++ tail_lines) = concat (map (fun ch => ch ++ eol) chs) ++ pem_filter tail_lines.
Proof.
  intros He H. induction H as [|ch chs (Hn & Hle & Hb) _ IH]; [reflexivity|]. cbn [map app pem_filter concat].
  rewrite chunk_not_armour by assumption.
  assert (Hlen : (GenFacts.pem_max_line_length <? length (ch ++ eol)) = false).
  { apply Nat.ltb_ge. rewrite app_length. change GenFacts.pem_max_line_length with 66.
    destruct He as [->| ->]; cbn [length]; lia. }
  rewrite Hlen, IH, <- !app_assoc. reflexivity.
Qed.

(* ---------------------------------------------------------------- the theorem *)
Theorem pem_roundtrip eol der :
  is_eol eol -> Forall (fun b => (b < 256)%N) der -> stream_of_file (pem_file eol der) = der.
Proof.
  intros He Hb.
  set (cs := b64_encode der).
  assert (Hcs : Forall is_b64eq cs) by (apply (encode_alphabet (length der)); [lia|exact Hb]).
  destruct (chunks_spec (S (length cs)) cs ltac:(lia)) as [Hcat Hch].
  set (chs := chunks (S (length cs)) cs) in *.
  assert (Hch' : Forall (fun ch => ch <> [] /\ length ch <= 64 /\ Forall is_b64eq ch) chs).
  { eapply Forall_impl; [|exact Hch]. intros ch (Hn & Hle & Hin). repeat split; try assumption.
    rewrite Forall_forall in *. intros x Hx. apply Hcs, Hin, Hx. }
  destruct (armour_lines eol He) as (Ab & Ae & Sb & Ab0).
  (* the file splits into its lines *)
  assert (Hlines : lines_of (pem_file eol der) [] = (pem_lines eol der, [])).
  { apply lines_of_concat. unfold pem_lines. fold cs. fold chs. constructor.
    - apply eol_line; [exact He| |]; intros Hin; vm_compute in Hin; repeat (destruct Hin as [Hin|Hin]; [discriminate|]); exact Hin.
    - apply Forall_app. split.
      + rewrite Forall_map. eapply Forall_impl; [|exact Hch']. intros ch (_ & _ & Hq).
        apply eol_line; [exact He| |]; intros Hin; rewrite Forall_forall in Hq;
          destruct (b64eq_not_eol _ (Hq _ Hin)) as (? & ? & ?); congruence.
      + constructor; [|constructor].
        apply eol_line; [exact He| |]; intros Hin; vm_compute in Hin; repeat (destruct Hin as [Hin|Hin]; [discriminate|]); exact Hin. }
  unfold stream_of_file.
  assert (Hpem : is_pem_file (pem_file eol der) = true).
  { unfold is_pem_file, first_line. rewrite Hlines.
    destruct (pem_file eol der) eqn:Ef.
    - exfalso. unfold pem_file, pem_lines in Ef. cbn [concat] in Ef. apply (f_equal (@length N)) in Ef.
      rewrite !app_length in Ef. cbn [length BEGIN_LINE] in Ef. lia.
    - unfold pem_lines. rewrite Sb. change (length BEGIN_LINE <=? 4096) with true. rewrite Ab0. reflexivity. }
  rewrite Hpem. unfold pem_payload. rewrite Hlines. cbn [fst]. unfold pem_lines. fold cs. fold chs.
  cbn [pem_filter]. rewrite Ab.
  rewrite (pem_filter_body chs eol [END_LINE ++ eol] He Hch'). cbn [pem_filter]. rewrite Ae, app_nil_r.
  unfold b64_decode. rewrite filter_eol_body; [|exact He|].
  2:{ eapply Forall_impl; [|exact Hch']. intros ch (_ & _ & Hq). exact Hq. }
  rewrite Hcat. unfold cs.
  apply (groups_encode (length der)); [lia|exact Hb|].
  (* fuel: the encoded length is 4 * ceil(n/3) *)
  assert (Hlen : forall n d, length d <= n -> length (b64_encode d) = 4 * ((length d + 2) / 3)).
  { induction n as [|n IHn]; intros d Hd.
    - destruct d; [reflexivity|cbn in Hd; lia].
    - destruct d as [|a [|b [|c t]]]; try reflexivity.
      cbn [b64_encode length]. rewrite IHn by (cbn in Hd; lia).
      replace (S (S (S (length t))) + 2) with ((length t + 2) + 1 * 3) by lia. rewrite Nat.div_add by lia. lia. }
  rewrite (Hlen (length der) der) by lia.
  rewrite Nat.mul_comm, Nat.div_mul by lia.
  assert (length der / 3 <= (length der + 2) / 3) by (apply Nat.div_le_mono; lia). lia.
Qed.

(* a DER document is not taken for PEM: it starts with 0x30 *)
Lemma strip_prefix l : exists suf, l = strip_eol l ++ suf.
Proof.
  unfold strip_eol. rewrite frev_rev.
  destruct (rev l) as [|a [|b r]] eqn:Er.
  - exists l. reflexivity.
  - assert (Hl : l = [a]) by (rewrite <- (rev_involutive l), Er; reflexivity).
    destruct (N.eqb a LF); [exists l; reflexivity|exists []; rewrite app_nil_r; reflexivity].
  - assert (Hl : l = rev r ++ [b] ++ [a]) by (rewrite <- (rev_involutive l), Er; cbn [rev]; rewrite <- app_assoc; reflexivity).
    destruct (N.eqb a LF); [|exists []; rewrite app_nil_r; reflexivity].
    destruct (N.eqb b CR).
    + exists ([b] ++ [a]). exact Hl.
    + exists [a]. rewrite frev_rev. cbn [rev]. rewrite <- app_assoc. exact Hl.
Qed.

Lemma not_armour_48 l : l = [] \/ hd_error l = Some 48%N -> is_armour l = false.
Proof.
  intros H. unfold is_armour. destruct (strip_prefix l) as [suf Hs].
  destruct (strip_eol l) as [|x s'] eqn:Es; [reflexivity|].
  destruct (10 <=? length (x :: s')); [|reflexivity]. cbn [andb firstn forallb].
  destruct H as [->|H]; [destruct suf; discriminate|].
  rewrite Hs in H. cbn in H. injection H as ->. reflexivity.
Qed.

Lemma lines_of_first : forall rest acc l ls tail, lines_of rest acc = (l :: ls, tail) -> exists more, l = rev acc ++ more.
Proof.
  induction rest as [|b t IH]; intros acc l ls tail H; cbn [lines_of] in H; [discriminate|].
  destruct (N.eqb b LF).
  - destruct (lines_of t []). injection H as <- _ _. rewrite frev_rev. cbn [rev]. exists [b]. reflexivity.
  - destruct (IH _ _ _ _ H) as [more ->]. cbn [rev]. exists (b :: more). rewrite <- app_assoc. reflexivity.
Qed.

Lemma lines_of_nolines : forall rest acc tail, lines_of rest acc = ([], tail) -> tail = rev acc ++ rest.
Proof.
  induction rest as [|b t IH]; intros acc tail H; cbn [lines_of] in H.
  - injection H as <-. rewrite frev_rev, app_nil_r. reflexivity.
  - destruct (N.eqb b LF); [destruct (lines_of t []); discriminate|].
    rewrite (IH _ _ H). cbn [rev]. rewrite <- app_assoc. reflexivity.
Qed.

Lemma der_not_pem rest : is_pem_file (48%N :: rest) = false.
Proof.
  unfold is_pem_file, first_line.
  destruct (lines_of (48%N :: rest) []) as [ls tail] eqn:E.
  cbn [lines_of] in E. change (N.eqb 48 LF) with false in E.
  destruct ls as [|l ls'].
  - apply lines_of_nolines in E. subst tail. cbn [rev app].
    rewrite (not_armour_48 (48%N :: rest)) by (right; reflexivity). apply andb_false_r.
  - destruct (lines_of_first _ _ _ _ _ E) as [more ->]. cbn [rev app].
    destruct (strip_prefix (48%N :: more)) as [suf Hs].
    rewrite not_armour_48; [apply andb_false_r|].
    destruct (strip_eol (48%N :: more)) as [|x s']; [left; reflexivity|right].
    cbn in Hs. injection Hs as <- _. reflexivity.
Qed.

Corollary der_stream rest : stream_of_file (48%N :: rest) = 48%N :: rest.
Proof. unfold stream_of_file. rewrite der_not_pem. reflexivity. Qed.
