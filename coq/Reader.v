(* Reader.v — the byte source of the streaming parser: bufio.Reader under
   hashing.HashingReaderWrapper, read through asn1parser.ReadExpectedBytes /
   ReadExpectedBytesRecursive / PeekExpectedBytes.  A chunk schedule says how many bytes
   each underlying Read call returns (bufio returns what is buffered, between 1 and the
   number requested); the hash tap sees exactly the bytes each Read returned. *)
From Verif Require Import Base.

Definition e_eof : N := 1.       (* end of input while still expecting bytes *)
Definition e_tag : N := 2.       (* unexpected tag *)
Definition e_limit : N := 3.     (* length greater than the limit *)
Definition e_lib : N := 4.       (* encoding/asn1, time.Parse: structure rejected by the library *)
Definition e_value : N := 5.     (* malformed value (bit string padding, empty ...) *)
Definition e_version : N := 6.   (* unknown CRL version *)
Definition e_alg : N := 7.       (* no hash algorithm for the OID *)
Definition e_critical : N := 8.  (* unhandled critical extension *)
Definition e_proc : N := 9.      (* the consumer (CRLProcessor) returned an error *)
Definition e_seek : N := 10.     (* Discard failed *)

Record rd := {
  rest : bytes;             (* bytes not yet consumed *)
  sched : list nat;         (* sizes of the chunks the next underlying Reads return *)
  hashing : bool;           (* CalculateSignature *)
  hashed_rev : list bytes;  (* chunks written to the hash so far, newest first *)
  nread : Z;                (* BytesRead *)
  allocs : list Z           (* sizes passed to make([]byte, n), newest first *)
}.

Definition hashed (r : rd) : bytes := concat (frev (hashed_rev r)).

Definition mk_rd (bs : bytes) (s : list nat) : rd :=
  {| rest := bs; sched := s; hashing := false; hashed_rev := []; nread := 0; allocs := [] |}.

Definition with_alloc (r : rd) (n : Z) : rd :=
  {| rest := rest r; sched := sched r; hashing := hashing r; hashed_rev := hashed_rev r;
     nread := nread r; allocs := n :: allocs r |}.

(* how many bytes the next underlying Read is willing to return *)
Definition chunk_want (need : nat) (sc : list nat) : nat :=
  match sc with [] => need | c :: _ => Nat.min need (Nat.max 1 c) end.
Arguments chunk_want : simpl never.

(* one underlying Read of at most [need] bytes *)
Definition take_chunk (need : nat) (r : rd) : bytes * rd :=
  let want := chunk_want need (sched r) in
  let chunk := firstn want (rest r) in
  (chunk,
   {| rest := skipn want (rest r); sched := tl (sched r); hashing := hashing r;
      hashed_rev := if hashing r then chunk :: hashed_rev r else hashed_rev r;
      nread := nread r + Z.of_nat (length chunk); allocs := allocs r |}).

(* ReadExpectedBytesRecursive *)
Fixpoint read_loop (fuel need : nat) (r : rd) (acc : bytes) : res bytes * rd :=
  match fuel with
  | O => (OutOfFuel, r)
  | S f =>
    let r := with_alloc r (Z.of_nat need) in
    match need with
    | O => (Ok acc, r)   (* Read of an empty slice *)
    | _ =>
      match rest r with
      | [] => (Err e_eof, r)
      | _ =>
        let '(chunk, r') := take_chunk need r in
        let got := length chunk in
        if Nat.eqb got need then (Ok (acc ++ chunk), r')
        else read_loop f (need - got) r' (acc ++ chunk)
      end
    end
  end.

(* ReadExpectedBytes(reader, n) with n a Go int *)
Definition rd_read (n : Z) (r : rd) : res bytes * rd :=
  if (n <? 0)%Z then (Panic MakeSliceRange, r)
  else read_loop (S (Z.to_nat n)) (Z.to_nat n) (with_alloc r n) [].

(* PeekExpectedBytes(reader, n, off): bufio.Peek(n+off); n+off stays far below the 4096-byte
   buffer in this parser (at most 17) *)
Definition rd_peek (n off : nat) (r : rd) : res bytes * rd :=
  let p := firstn (n + off) (rest r) in
  if Nat.eqb (length p) (n + off) then (Ok (skipn off p), with_alloc r (Z.of_nat n)) else (Err e_eof, r).

(* HashingReaderWrapper.Discard(n): bufio.Discard; neither hashed nor counted *)
Definition rd_discard (n : Z) (r : rd) : res unit * rd :=
  if (n <? 0)%Z then (Err e_seek, r)
  else if (Z.of_nat (length (rest r)) <? n)%Z then
    (* fewer bytes than requested: everything is consumed, then the error *)
    (Err e_seek, {| rest := []; sched := sched r; hashing := hashing r;
                    hashed_rev := hashed_rev r; nread := nread r; allocs := allocs r |})
  else (Ok tt, {| rest := skipn (Z.to_nat n) (rest r); sched := sched r; hashing := hashing r;
                  hashed_rev := hashed_rev r; nread := nread r; allocs := allocs r |}).

Definition rd_start_hash (r : rd) : rd :=
  {| rest := rest r; sched := sched r; hashing := true; hashed_rev := []; nread := nread r; allocs := allocs r |}.
Definition rd_finish_hash (r : rd) : bytes * rd :=
  (hashed r, {| rest := rest r; sched := sched r; hashing := false; hashed_rev := hashed_rev r;
                nread := nread r; allocs := allocs r |}).
