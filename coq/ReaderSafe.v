(* ReaderSafe.v — totality of the reader model: for every byte stream, library oracle, chunk
   schedule and consumer failure point it never panics, never runs out of fuel (= never loops
   without consuming input) and never asks for more than a constant amount of memory at once. *)
From Verif Require Import Base Bytes Reader Asn1Parser Pem CrlReader.
From Verif.gen Require GenFacts.

Definition K : Z := (GenFacts.struct_limit + 17)%Z.

Lemma K_val : K = 81937%Z. Proof. reflexivity. Qed.
Lemma limit_val : GenFacts.struct_limit = 81920%Z. Proof. reflexivity. Qed.

Definition okres {A} (x : res A) : Prop := match x with Panic _ | OutOfFuel => False | _ => True end.
Definition good_rd (r : rd) : Prop := Forall (fun a => (0 <= a <= K)%Z) (allocs r).
Definition good (s : ps) : Prop := good_rd (rdr s).
Definition len (s : ps) : nat := length (rest (rdr s)).
Arguments len : simpl never.

(* ---------------------------------------------------------------- Reader primitives *)
Lemma take_chunk_spec need r chunk r' :
  take_chunk need r = (chunk, r') ->
  length chunk + length (rest r') = length (rest r) /\ length chunk <= need /\
  allocs r' = allocs r /\
  (1 <= need -> rest r <> [] -> 1 <= length chunk).
Proof.
  unfold take_chunk. intros H. injection H as <- <-. cbn [rest allocs].
  set (want := chunk_want need (sched r)).
  assert (Hw : want <= need) by (unfold want, chunk_want; destruct (sched r); lia).
  assert (Hw1 : 1 <= need -> 1 <= want) by (unfold want, chunk_want; destruct (sched r); lia).
  rewrite firstn_length, skipn_length. split; [lia|]. split; [lia|]. split; [reflexivity|].
  intros Hn Hr. specialize (Hw1 Hn). destruct (rest r); [congruence|]. simpl. lia.
Qed.

Lemma read_loop_spec fuel : forall need r acc,
  need < fuel -> good_rd r -> (Z.of_nat need <= K)%Z ->
  let '(x, r') := read_loop fuel need r acc in
  good_rd r' /\ okres x /\ length (rest r') <= length (rest r) /\
  (forall b, x = Ok b -> length (rest r') + need = length (rest r)).
Proof.
  induction fuel as [|f IH]; intros need r acc Hf Hg Hk; [lia|].
  cbn [read_loop].
  assert (Hg' : good_rd (with_alloc r (Z.of_nat need))).
  { unfold good_rd, with_alloc. simpl. constructor; [lia|exact Hg]. }
  destruct need as [|n].
  - simpl. repeat split; auto; try (intros; lia).
  - destruct (rest (with_alloc r (Z.of_nat (S n)))) eqn:Er.
    + simpl. repeat split; auto; try (intros; discriminate).
    + destruct (take_chunk (S n) (with_alloc r (Z.of_nat (S n)))) as [chunk r1] eqn:Et.
      pose proof (take_chunk_spec _ _ _ _ Et) as (Hlen & Hle & Hal & Hpos).
      assert (Hr1 : rest (with_alloc r (Z.of_nat (S n))) = rest r) by reflexivity.
      rewrite Hr1 in *.
      assert (Hc1 : 1 <= length chunk) by (apply Hpos; [lia|congruence]).
      assert (Hg1 : good_rd r1) by (unfold good_rd; rewrite Hal; exact Hg').
      destruct (Nat.eqb (length chunk) (S n)) eqn:E.
      * apply Nat.eqb_eq in E. simpl. repeat split; auto; try lia; try (intros; lia).
      * apply Nat.eqb_neq in E.
        specialize (IH (S n - length chunk) r1 (acc ++ chunk)).
        destruct (read_loop f (S n - length chunk) r1 (acc ++ chunk)) as [x r2].
        destruct IH as (G2 & O2 & L2 & C2); [lia|exact Hg1|lia|].
        repeat split; auto; try lia.
        intros bb Hb. specialize (C2 bb Hb). lia.
Qed.

Lemma rd_read_spec n r :
  good_rd r -> (0 <= n <= K)%Z ->
  let '(x, r') := rd_read n r in
  good_rd r' /\ okres x /\ length (rest r') <= length (rest r) /\
  (forall b, x = Ok b -> (Z.of_nat (length (rest r')) + n = Z.of_nat (length (rest r)))%Z).
Proof.
  intros Hg Hn. unfold rd_read. destruct (n <? 0)%Z eqn:E; [apply Z.ltb_lt in E; lia|].
  pose proof (read_loop_spec (S (Z.to_nat n)) (Z.to_nat n) (with_alloc r n) []) as H.
  destruct (read_loop (S (Z.to_nat n)) (Z.to_nat n) (with_alloc r n) []) as [x r'].
  destruct H as (G & O & L & C); [lia| |rewrite Z2Nat.id; lia|].
  - unfold good_rd, with_alloc. simpl. constructor; [lia|exact Hg].
  - repeat split; auto. intros b Hb. specialize (C b Hb). simpl in C. lia.
Qed.

Lemma rd_peek_spec n off r :
  good_rd r -> (Z.of_nat n <= K)%Z ->
  let '(x, r') := rd_peek n off r in
  good_rd r' /\ okres x /\ rest r' = rest r.
Proof.
  intros Hg Hn. unfold rd_peek. destruct (Nat.eqb _ _); simpl; repeat split; auto.
  unfold good_rd, with_alloc. simpl. constructor; [lia|exact Hg].
Qed.

Lemma rd_discard_spec n r :
  good_rd r ->
  let '(x, r') := rd_discard n r in
  good_rd r' /\ okres x /\ length (rest r') <= length (rest r).
Proof.
  intros Hg. unfold rd_discard. destruct (n <? 0)%Z; [simpl; auto|].
  destruct (_ <? n)%Z; simpl; repeat split; auto; try lia.
  rewrite skipn_length. lia.
Qed.

(* ---------------------------------------------------------------- the monad *)
Definition safeP {A} (n : nat) (P : A -> Prop) (m : M A) : Prop :=
  forall s, good s -> len s < n ->
    good (snd (m s)) /\ len (snd (m s)) <= len s /\
    match fst (m s) with Ok a => P a | Err _ => True | Panic _ => False | OutOfFuel => False end.
Notation safe n m := (safeP n (fun _ => True) m).

Lemma safe_weaken {A} n (P Q : A -> Prop) m : (forall a, P a -> Q a) -> safeP n P m -> safeP n Q m.
Proof.
  intros H Hm s Hg Hl. destruct (Hm s Hg Hl) as (G & L & R). repeat split; auto.
  destruct (fst (m s)); auto.
Qed.

Lemma safe_ret {A} n (P : A -> Prop) a : P a -> safeP n P (ret a).
Proof. intros H s Hg Hl. simpl. auto. Qed.

Lemma safe_fail {A} n (P : A -> Prop) e : safeP n P (fail e).
Proof. intros s Hg Hl. simpl. auto. Qed.

Lemma safe_retT {A} n (a : A) : safe n (ret a).
Proof. apply safe_ret. exact I. Qed.
Lemma safe_failT {A} n e : safe n (@fail A e).
Proof. apply safe_fail. Qed.

Lemma safe_bind {A B} n (P : A -> Prop) (Q : B -> Prop) (m : M A) (f : A -> M B) :
  safeP n P m -> (forall a, P a -> safeP n Q (f a)) -> safeP n Q (bindM m f).
Proof.
  intros Hm Hf s Hg Hl. unfold bindM. specialize (Hm s Hg Hl).
  destruct (m s) as [x s1]. simpl in Hm. destruct Hm as (G & L & R).
  destruct x as [a|e|p|]; simpl; auto; try contradiction.
  assert (Hl1 : len s1 < n) by lia.
  destruct (Hf a R s1 G Hl1) as (G2 & L2 & R2). repeat split; auto. lia.
Qed.

Lemma safe_ignore {A} n (P : A -> Prop) (m : M A) : safeP n P m -> safe n (ignore_err m).
Proof.
  intros Hm s Hg Hl. unfold ignore_err. specialize (Hm s Hg Hl).
  destruct (m s) as [x s1]. simpl in Hm. destruct Hm as (G & L & R).
  destruct x; simpl; auto.
Qed.

Lemma safe_peek_bool {A} n (P : A -> Prop) (m : M A) f : safeP n P m -> safe n (peek_bool m f).
Proof.
  intros Hm s Hg Hl. unfold peek_bool. specialize (Hm s Hg Hl).
  destruct (m s) as [x s1]. simpl in Hm. destruct Hm as (G & L & R).
  destruct x; simpl; auto.
Qed.

Lemma safe_read_bytes n z : (0 <= z <= K)%Z -> safe n (read_bytes z).
Proof.
  intros Hz s Hg Hl. unfold read_bytes, lift_rd.
  pose proof (rd_read_spec z (rdr s) Hg Hz) as H.
  destruct (rd_read z (rdr s)) as [x r']. destruct H as (G & O & L & _).
  simpl. repeat split; auto; try (destruct x; simpl in *; auto).
Qed.

(* a successful read of at least one byte consumes input *)
Lemma read_bytes_consumes z s b s' :
  good s -> (1 <= z <= K)%Z -> read_bytes z s = (Ok b, s') -> len s' < len s.
Proof.
  intros Hg Hz. unfold read_bytes, lift_rd.
  pose proof (rd_read_spec z (rdr s) Hg) as H.
  destruct (rd_read z (rdr s)) as [x r']. intros E. injection E as -> <-.
  destruct H as (_ & _ & _ & C); [lia|]. specialize (C b eq_refl). unfold len. simpl. lia.
Qed.

Lemma safe_peek_bytes n k off : (Z.of_nat k <= K)%Z -> safe n (peek_bytes k off).
Proof.
  intros Hk s Hg Hl. unfold peek_bytes, lift_rd.
  pose proof (rd_peek_spec k off (rdr s) Hg Hk) as H.
  destruct (rd_peek k off (rdr s)) as [x r']. destruct H as (G & O & E).
  simpl. unfold len. simpl. rewrite E. repeat split; auto; try (destruct x; simpl in *; auto).
Qed.

(* ---------------------------------------------------------------- lengths *)
Lemma be_decode_nonneg_aux bs : forall a, (0 <= a)%Z -> (0 <= fold_left (fun a b => a * 256 + Z.of_N b) bs a)%Z.
Proof. induction bs as [|b bs IH]; intros a Ha; simpl; [exact Ha|]. apply IH. lia. Qed.
Lemma be_decode_nonneg bs : (0 <= be_decode bs)%Z.
Proof. apply be_decode_nonneg_aux. lia. Qed.

Lemma mask_le b : (N.land b 15 <= 15)%N.
Proof.
  change 15%N with (N.ones 4). rewrite N.land_ones.
  pose proof (N.mod_lt b (2 ^ 4)) as H. assert ((2 ^ 4)%N <> 0%N) by discriminate.
  specialize (H H0). change (N.ones 4) with 15%N. change (2 ^ 4)%N with 16%N in *. lia.
Qed.

Definition tl_ok (t : tagl) : Prop := (0 <= t_len t)%Z /\ t_lsize t <= 16.
Definition l_ok (l : Z * nat) : Prop := (0 <= fst l)%Z /\ snd l <= 16.

Lemma K_ge : (17 <= K)%Z. Proof. rewrite K_val. lia. Qed.

Lemma safe_read_length n : safeP n l_ok read_length.
Proof.
  unfold read_length. eapply safe_bind; [apply safe_read_bytes; pose proof K_ge; lia|].
  intros b _. destruct (N.eqb _ _).
  - apply safe_ret. unfold l_ok. simpl. lia.
  - change GenFacts.read_length_size_mask with 15%N.
    pose proof (mask_le (hd 0%N b)) as Hm.
    eapply safe_bind; [apply safe_read_bytes; pose proof K_ge; lia|].
    intros bs _. apply safe_ret. unfold l_ok. simpl. split; [apply be_decode_nonneg|lia].
Qed.

Lemma safe_peek_length n off : safeP n l_ok (peek_length off).
Proof.
  unfold peek_length. eapply safe_bind; [apply safe_peek_bytes; pose proof K_ge; lia|].
  intros b _. destruct (N.eqb _ _).
  - apply safe_ret. unfold l_ok. simpl. lia.
  - change GenFacts.peek_length_size_mask with 15%N.
    pose proof (mask_le (hd 0%N b)) as Hm.
    eapply safe_bind; [apply safe_peek_bytes; pose proof K_ge; lia|].
    intros bs _. apply safe_ret. unfold l_ok. simpl. split; [apply be_decode_nonneg|lia].
Qed.

Lemma safe_read_tag_length n : safeP n tl_ok read_tag_length.
Proof.
  unfold read_tag_length. eapply safe_bind; [apply safe_read_bytes; pose proof K_ge; lia|].
  intros t _. eapply safe_bind; [apply safe_read_length|].
  intros l Hl. apply safe_ret. exact Hl.
Qed.

Lemma safe_peek_tag_length n off : safeP n tl_ok (peek_tag_length off).
Proof.
  unfold peek_tag_length. eapply safe_bind; [apply safe_peek_bytes; pose proof K_ge; lia|].
  intros t _. eapply safe_bind; [apply safe_peek_length|].
  intros l Hl. apply safe_ret. exact Hl.
Qed.

Lemma safe_expect_tag n a b : safe n (expect_tag a b).
Proof. unfold expect_tag. destruct (N.eqb a b); [apply safe_ret; exact I|apply safe_fail]. Qed.

Lemma safe_expect_len n limit l : safeP n (fun _ => (l <= limit)%Z) (expect_len_le limit l).
Proof.
  unfold expect_len_le. destruct (l >? limit)%Z eqn:E; [apply safe_fail|].
  apply safe_ret. rewrite Z.gtb_ltb in E. apply Z.ltb_ge in E. exact E.
Qed.

Lemma to_int64_small z : (0 <= z < two63)%Z -> to_int64 z = z.
Proof.
  intros H. unfold to_int64. rewrite Z.mod_small; [lia|]. unfold two63 in *. lia.
Qed.

Lemma safe_read_value n tl : tl_ok tl -> safe n (read_value tl).
Proof.
  intros [H0 _]. unfold read_value. eapply safe_bind; [apply safe_expect_len|].
  intros ? Hle. cbv beta in Hle. rewrite limit_val in Hle.
  rewrite to_int64_small by (unfold two63; lia).
  apply safe_read_bytes. rewrite K_val. lia.
Qed.

Section WithLib.
Variable L : lib.

Lemma safe_read_struct n k : safe n (read_struct L k).
Proof.
  unfold read_struct. eapply safe_bind; [apply safe_peek_tag_length|].
  intros tl [H0 Hs]. eapply safe_bind; [apply safe_expect_tag|].
  intros _ _. eapply safe_bind; [apply safe_expect_len|].
  intros ? Hle. cbv beta in Hle. rewrite limit_val in Hle. rewrite to_int64_small by (unfold two63; lia).
  eapply safe_bind; [apply safe_read_bytes; rewrite K_val; lia|].
  intros bs _. destruct (lib_ok L k bs); [apply safe_ret; exact I|apply safe_fail].
Qed.

(* success of read_struct consumes at least one byte *)
Lemma read_struct_consumes k s b s' :
  good s -> read_struct L k s = (Ok b, s') -> len s' < len s.
Proof.
  intros Hg. unfold read_struct, bindM.
  pose proof (safe_peek_tag_length (S (len s)) 0 s Hg (Nat.lt_succ_diag_r _)) as Hp.
  destruct (peek_tag_length 0 s) as [x s1]. simpl in Hp. destruct Hp as (G1 & L1 & R1).
  destruct x as [tl|?|?|]; try discriminate.
  destruct R1 as [H0 Hs].
  unfold expect_tag. destruct (N.eqb TAG_SEQ (t_tag tl)); simpl; [|discriminate].
  unfold expect_len_le. destruct (t_len tl >? GenFacts.struct_limit)%Z eqn:E; simpl; [discriminate|].
  rewrite Z.gtb_ltb in E. apply Z.ltb_ge in E. rewrite limit_val in E.
  rewrite to_int64_small by (unfold two63; lia).
  destruct (read_bytes _ s1) as [y s2] eqn:Er.
  destruct y as [bs|?|?|]; try discriminate.
  assert (Hc : len s2 < len s1).
  { eapply read_bytes_consumes; [exact G1| |exact Er]. rewrite K_val. lia. }
  destruct (lib_ok L k bs); simpl; [|discriminate].
  intros H. injection H as _ <-. lia.
Qed.

Lemma safe_read_utc n : safe n (read_utc_time L).
Proof.
  unfold read_utc_time. eapply safe_bind; [apply safe_read_tag_length|].
  intros tl Htl. eapply safe_bind; [apply safe_expect_tag|].
  intros _ _. eapply safe_bind; [apply safe_read_value; exact Htl|].
  intros bs _. destruct (lib_ok L KUtc bs); [apply safe_ret; exact I|apply safe_fail].
Qed.

Lemma safe_parse_bit_string n : safe n parse_bit_string.
Proof.
  unfold parse_bit_string. eapply safe_bind; [apply safe_read_tag_length|].
  intros tl Htl. eapply safe_bind; [apply safe_expect_tag|].
  intros _ _. eapply safe_bind; [apply safe_read_value; exact Htl|].
  intros bs _. destruct bs as [|pad body]; [apply safe_fail|].
  destruct (7 <? pad)%N; [apply safe_fail|].
  destruct (_ && _); [apply safe_fail|].
  destruct (negb _); [apply safe_fail|apply safe_ret; exact I].
Qed.

Lemma safe_read_big_int n : safe n read_big_int.
Proof.
  unfold read_big_int. eapply safe_bind; [apply safe_read_tag_length|].
  intros tl Htl. eapply safe_bind; [apply safe_expect_tag|].
  intros _ _. eapply safe_bind; [apply safe_read_value; exact Htl|].
  intros bs _. apply safe_ret. exact I.
Qed.

Lemma safe_parse_octet_string n : safe n parse_octet_string.
Proof.
  unfold parse_octet_string. eapply safe_bind; [apply safe_read_tag_length|].
  intros tl Htl. eapply safe_bind; [apply safe_expect_tag|].
  intros _ _. apply safe_read_value. exact Htl.
Qed.

(* ---------------------------------------------------------------- the CRL reader *)
Lemma safe_lift_discard n z : safe n (lift_rd (rd_discard z)).
Proof.
  intros s Hg Hl. unfold lift_rd.
  pose proof (rd_discard_spec z (rdr s) Hg) as H.
  destruct (rd_discard z (rdr s)) as [x r']. destruct H as (G & O & Le).
  simpl. repeat split; auto; try (destruct x; simpl in *; auto).
Qed.

Lemma safe_find_alg n : safe n (find_alg L).
Proof.
  unfold find_alg. eapply safe_bind; [apply safe_read_tag_length|].
  intros outer _. eapply safe_bind; [apply safe_expect_tag|].
  intros _ _. eapply safe_bind; [apply safe_peek_tag_length|].
  intros tbs _. eapply safe_bind; [apply safe_lift_discard|].
  intros _ _. apply safe_read_struct.
Qed.

Lemma safe_lookup n a : safe n (lookup_strategies L a).
Proof.
  unfold lookup_strategies. destruct (assoc _ _); [apply safe_ret; exact I|apply safe_fail].
Qed.

Lemma safe_state_only {A} n (m : M A) :
  (forall s, exists a, m s = (Ok a, s)) -> safe n m.
Proof. intros H s Hg Hl. destruct (H s) as [a ->]. simpl. auto. Qed.

Lemma safe_bytes_read n : safe n bytes_read.
Proof. apply safe_state_only. intros s. eexists. reflexivity. Qed.

Lemma safe_emit n e : safe n (emit e).
Proof.
  intros s Hg Hl. unfold emit. destruct (fail_at s) as [k|]; [destruct (Nat.eqb k (nev s))|]; simpl; auto.
Qed.

Lemma safe_start_hash n : safe n start_hash.
Proof. intros s Hg Hl. unfold start_hash. simpl. auto. Qed.
Lemma safe_finish_hash n : safe n finish_hash.
Proof. intros s Hg Hl. unfold finish_hash. simpl. auto. Qed.

(* bind where the first computation, when it succeeds, consumes input: the rest may run
   with one unit of fuel less *)
Lemma safe_bind_dec {A B} n (P : A -> Prop) (Q : B -> Prop) (m : M A) (f : A -> M B) :
  safeP (S n) P m ->
  (forall s b s', good s -> m s = (Ok b, s') -> len s' < len s) ->
  (forall a, P a -> safeP n Q (f a)) -> safeP (S n) Q (bindM m f).
Proof.
  intros Hm Hc Hf s Hg Hl. unfold bindM. specialize (Hm s Hg Hl). specialize (Hc s).
  destruct (m s) as [x s1]. simpl in Hm. destruct Hm as (G & Le & R).
  destruct x as [a|e|p|]; simpl; auto; try contradiction.
  specialize (Hc a s1 Hg eq_refl).
  assert (Hl1 : len s1 < n) by lia.
  destruct (Hf a R s1 G Hl1) as (G2 & L2 & R2). repeat split; auto. lia.
Qed.

Lemma safe_entry_loop fuel : forall list_end, safe fuel (entry_loop L fuel list_end).
Proof.
  induction fuel as [|f IH]; intros list_end; [intros s Hg Hl; lia|].
  cbn [entry_loop].
  eapply safe_bind; [apply safe_bytes_read|]. intros pos _.
  destruct (pos <? list_end)%Z; [|apply safe_ret; exact I].
  eapply safe_bind; [apply safe_peek_tag_length|]. intros tl _.
  destruct (negb _); [apply safe_ret; exact I|].
  eapply safe_bind_dec; [apply safe_read_struct| |].
  - intros s b s' Hg E. eapply read_struct_consumes; eassumption.
  - intros e _. eapply safe_bind; [apply safe_emit|]. intros _ _. apply IH.
Qed.

Lemma safe_parse_revoked_list fuel : safe fuel (parse_revoked_list L fuel).
Proof.
  unfold parse_revoked_list. eapply safe_bind; [apply safe_read_tag_length|].
  intros tl _. eapply safe_bind; [apply safe_expect_tag|].
  intros _ _. eapply safe_bind; [destruct (is_int64 _); [apply safe_retT|apply safe_failT]|].
  intros _ _. eapply safe_bind; [apply safe_bytes_read|].
  intros pos _. apply safe_entry_loop.
Qed.

Lemma safe_crl_number n x : safe n (crl_number_of L x).
Proof.
  unfold crl_number_of. destruct (find_ext _ _) as [v|]; [|apply safe_ret; exact I].
  intros s Hg Hl.
  set (s0 := {| rdr := mk_rd v []; evs_rev := []; nev := 0; fail_at := None |}).
  assert (G0 : good s0) by (unfold good, good_rd; simpl; constructor).
  pose proof (safe_read_big_int (S (len s0)) s0 G0 (Nat.lt_succ_diag_r _)) as H.
  destruct (read_big_int s0) as [y s1]. simpl in H. destruct H as (_ & _ & R).
  destruct y; simpl; auto.
Qed.

Lemma safe_version_exists n : safe n version_exists.
Proof. eapply safe_peek_bool. apply safe_peek_tag_length. Qed.
Lemma safe_next_update_exists n : safe n next_update_exists.
Proof. eapply safe_peek_bool. apply safe_peek_tag_length. Qed.
Lemma safe_revoked_list_exists n : safe n revoked_list_exists.
Proof. eapply safe_peek_bool. apply safe_peek_tag_length. Qed.
Lemma safe_extensions_exist n v : safe n (extensions_exist v).
Proof. eapply safe_peek_bool. apply safe_peek_tag_length. Qed.

Lemma safe_parse_version n : safe n parse_version.
Proof.
  unfold parse_version. eapply safe_bind; [eapply safe_ignore; apply safe_read_tag_length|].
  intros _ _. eapply safe_bind; [apply safe_read_bytes; pose proof K_ge; lia|].
  intros b _. apply safe_ret. exact I.
Qed.

Ltac sb := eapply (safe_bind _ (fun _ => True)); [eapply safe_weaken; [intros ? ?; exact I|]|intros ? _].

Ltac sif := match goal with |- context [if ?b then _ else _] => destruct b end.

Lemma safe_read_tbs_header n : safe n (read_tbs_header L).
Proof.
  unfold read_tbs_header.
  sb; [apply safe_version_exists|].
  sb; [sif; [apply safe_parse_version|apply safe_retT]|].
  sb; [sif; [apply safe_failT|apply safe_retT]|].
  sb; [eapply safe_ignore; apply safe_read_struct|].
  sb; [apply safe_read_struct|].
  sb; [apply safe_read_utc|].
  sb; [apply safe_next_update_exists|].
  sb; [sif; [sb; [apply safe_read_utc|apply safe_retT]|apply safe_retT]|].
  sb; [apply safe_emit|].
  apply safe_retT.
Qed.

Lemma safe_read_list_opt fuel e : safe fuel (read_list_opt L fuel e).
Proof.
  unfold read_list_opt.
  sb; [apply safe_bytes_read|].
  sb; [sif; [apply safe_revoked_list_exists|apply safe_retT]|].
  sif; [apply safe_parse_revoked_list|apply safe_retT].
Qed.

Lemma safe_read_exts_opt n e v : safe n (read_exts_opt L e v).
Proof.
  unfold read_exts_opt.
  sb; [apply safe_bytes_read|].
  sb; [sif; [apply safe_extensions_exist|apply safe_retT]|].
  sif; [|apply safe_retT].
  sb; [eapply safe_ignore; apply safe_read_tag_length|].
  sb; [apply safe_read_struct|]. apply safe_retT.
Qed.

Lemma safe_finish_meta n x : safe n (finish_meta L x).
Proof.
  unfold finish_meta.
  sb; [destruct x; [apply safe_crl_number|apply safe_retT]|].
  sb; [apply safe_emit|].
  destruct x; [sif; [apply safe_failT|apply safe_retT]|apply safe_retT].
Qed.

Lemma safe_read_tail n : safe n (read_tail L).
Proof.
  unfold read_tail. sb; [eapply safe_ignore; apply safe_read_struct|]. apply safe_parse_bit_string.
Qed.

Lemma safe_read_main fuel alg : safe fuel (read_main L fuel alg).
Proof.
  unfold read_main.
  sb; [apply safe_read_tag_length|].
  sb; [apply safe_expect_tag|].
  sb; [apply safe_lookup|].
  sb; [apply safe_start_hash|].
  sb; [apply safe_read_tag_length|].
  sb; [apply safe_expect_tag|].
  sb; [sif; [apply safe_retT|apply safe_failT]|].
  sb; [apply safe_bytes_read|].
  sb; [apply safe_read_tbs_header|].
  sb; [apply safe_read_list_opt|].
  sb; [apply safe_read_exts_opt|].
  sb; [apply safe_finish_meta|].
  sb; [apply safe_finish_hash|].
  sb; [apply safe_read_tail|].
  apply safe_retT.
Qed.

Lemma read_stream_total stream s1 s2 fl :
  let '(evs, r, al) := read_stream L stream s1 s2 fl in
  okres r /\ Forall (fun a => (0 <= a <= K)%Z) al.
Proof.
  unfold read_stream.
  set (st1 := {| rdr := mk_rd stream s1; evs_rev := []; nev := 0; fail_at := None |}).
  assert (G1 : good st1) by (unfold good, good_rd; simpl; constructor).
  pose proof (safe_find_alg (S (len st1)) st1 G1 (Nat.lt_succ_diag_r _)) as H1.
  destruct (find_alg L st1) as [x st1']. simpl in H1. destruct H1 as (G1' & _ & R1).
  destruct x as [alg|e|p|]; try contradiction; [|split; [exact I|exact G1']].
  set (st2 := {| rdr := mk_rd stream s2; evs_rev := []; nev := 0; fail_at := fl |}).
  assert (G2 : good st2) by (unfold good, good_rd; simpl; constructor).
  assert (Hl2 : len st2 < S (length stream)) by (unfold len; simpl; lia).
  pose proof (safe_read_main (S (length stream)) alg st2 G2 Hl2) as H2.
  destruct (read_main L (S (length stream)) alg st2) as [r st2']. simpl in H2. destruct H2 as (G2' & _ & R2).
  split.
  - destruct r; simpl; auto.
  - apply Forall_app. split; assumption.
Qed.

End WithLib.

Lemma C07_total_proof : forall L stream s1 s2 fail_at,
  let '(evs, r, allocs) := read_stream L stream s1 s2 fail_at in
  (forall p, r <> Panic p) /\ r <> OutOfFuel /\
  Forall (fun a => (0 <= a <= GenFacts.struct_limit + 17)%Z) allocs.
Proof.
  intros L stream s1 s2 fl. pose proof (read_stream_total L stream s1 s2 fl) as H.
  destruct (read_stream L stream s1 s2 fl) as [[evs r] al]. destruct H as [Ho Ha].
  repeat split; [intros p E; subst; exact Ho|intros E; subst; exact Ho|exact Ha].
Qed.

Lemma C07_aux_proof : forall bs,
  (forall p, fst (read_big_int {| rdr := mk_rd bs []; evs_rev := []; nev := 0; fail_at := None |}) <> Panic p) /\
  (forall p, fst (parse_octet_string {| rdr := mk_rd bs []; evs_rev := []; nev := 0; fail_at := None |}) <> Panic p).
Proof.
  intros bs. set (s0 := {| rdr := mk_rd bs []; evs_rev := []; nev := 0; fail_at := None |}).
  assert (G0 : good s0) by (unfold good, good_rd; simpl; constructor).
  split; intros p E.
  - pose proof (safe_read_big_int (S (len s0)) s0 G0 (Nat.lt_succ_diag_r _)) as (_ & _ & R). rewrite E in R. exact R.
  - pose proof (safe_parse_octet_string (S (len s0)) s0 G0 (Nat.lt_succ_diag_r _)) as (_ & _ & R). rewrite E in R. exact R.
Qed.

(* the source bounds every primitive value read by (at most) the element limit the model uses *)
Lemma value_limits_ok :
  forallb (fun p => Z.leb (snd p) GenFacts.struct_limit) GenFacts.value_limit_sites = true /\
  length GenFacts.value_limit_sites = 4.
Proof. split; vm_compute; reflexivity. Qed.
