(* LockProgress.v — deadlock freedom of accepted skeletons: in every reachable state of a finite set of threads,
   if some thread has not finished, some thread can take a step.  The classical argument, mechanised: a blocked
   thread waits for a lock held by another thread; that thread is unfinished (finished threads hold nothing) and,
   if it is blocked as well, waits for a lock of strictly higher rank (locks are acquired in rank order); ranks
   are bounded, so the chain ends at a thread that can move. *)
From Verif Require Import Base LockSkel LockSkelProofs.
Open Scope list_scope.

Definition rank_bound : nat := 10.
Lemma rank_lt_bound l : rank l < rank_bound.
Proof. destruct l; cbn; unfold rank_bound; lia. Qed.

(* among the threads below n: is some thread other than i holding l (in any mode / as writer)? *)
Definition holder (s : system) (n i : nat) (l : lock) (w : bool) : option nat :=
  find (fun j => negb (Nat.eqb j i) && (if w then holds_w (t_held (s j)) l else holds (t_held (s j)) l)) (seq 0 n).

Lemma holder_some s n i l w j : holder s n i l w = Some j ->
  j <> i /\ (if w then holds_w (t_held (s j)) l else holds (t_held (s j)) l) = true.
Proof.
  unfold holder. intros H. apply find_some in H. destruct H as [_ H]. apply andb_prop in H. destruct H as [Hn Hh].
  split; [|exact Hh]. apply negb_true_iff, Nat.eqb_neq in Hn. exact Hn.
Qed.

Lemma holder_none s n i l w : holder s n i l w = None -> (forall j, n <= j -> t_held (s j) = []) ->
  forall j, j <> i -> (if w then holds_w (t_held (s j)) l else holds (t_held (s j)) l) = false.
Proof.
  unfold holder. intros H Hfin j Hj. destruct (Nat.lt_ge_cases j n) as [Hlt|Hge].
  - pose proof (find_none _ _ H j) as Hf. rewrite in_seq in Hf. specialize (Hf ltac:(lia)).
    apply andb_false_iff in Hf. destruct Hf as [Hf|Hf]; [|exact Hf].
    apply negb_false_iff, Nat.eqb_eq in Hf. congruence.
  - rewrite (Hfin j Hge). destruct w; reflexivity.
Qed.

(* a thread that has not finished either can step or waits for a lock somebody else holds *)
Lemma step_or_blocked s n i :
  inv s -> (forall j, n <= j -> t_held (s j) = []) -> t_k (s i) <> [] ->
  (exists t', tstep s i (s i) t') \/
  (exists l m j, head (s i) = Some (Acq l m) /\ j <> i /\ holds (t_held (s j)) l = true).
Proof.
  intros [Hok _] Hfin Hk. pose proof (Hok i) as Oi.
  destruct (s i) as [h k] eqn:Esi. cbn [t_k t_held] in *.
  destruct k as [|[c|] k]; [congruence| |left; eexists; apply s_end].
  destruct c.
  - left. eexists. apply s_skip.
  - left. eexists. apply s_ret.
  - (* Acq *)
    destruct m.
    + (* reader: blocked by a writer *)
      destruct (holder s n i l true) as [j|] eqn:Eh.
      * right. apply holder_some in Eh. destruct Eh as [Hj Hw]. exists l, R, j. unfold head. cbn.
        split; [reflexivity|]. split; [exact Hj|]. apply holds_w_holds. exact Hw.
      * left. eexists. apply s_acq. intros j Hj. exact (holder_none s n i l true Eh Hfin j Hj).
    + destruct (holder s n i l false) as [j|] eqn:Eh.
      * right. apply holder_some in Eh. destruct Eh as [Hj Hw]. exists l, W, j. unfold head. cbn. auto.
      * left. eexists. apply s_acq. intros j Hj. exact (holder_none s n i l false Eh Hfin j Hj).
  - (* Rel: the checker made sure the lock is held *)
    apply okk_cmd_inv in Oi. destruct Oi as (B & _). cbn [check] in B.
    destruct (release h l m) as [h'|] eqn:Er; [|discriminate].
    left. eexists. eapply s_rel. exact Er.
  - left. eexists. apply s_rd.
  - left. eexists. apply s_wr.
  - left. eexists. apply s_seq.
  - left. eexists. apply s_choice_l.
  - left. eexists. apply s_loop_exit.
  - (* Call: never present after inlining — the checker rejects it *)
    apply okk_cmd_inv in Oi. destruct Oi as (B & _). cbn [check] in B. discriminate.
  - left. eexists. apply s_block.
Qed.

Lemma holds_in h l : holds h l = true -> exists m, In (l, m) h.
Proof.
  unfold holds. intros H. apply existsb_exists in H. destruct H as ([l' m] & Hin & He). cbn in He.
  apply lock_eqb_eq in He. subst. eauto.
Qed.

(* following the chain of holders *)
Lemma chain s n : inv s -> (forall j, n <= j -> t_held (s j) = []) ->
  forall fuel i l m, head (s i) = Some (Acq l m) -> rank_bound - rank l <= fuel ->
  exists s', sstep s s'.
Proof.
  intros Hinv Hfin fuel. induction fuel as [|fuel IH]; intros i l m Hi Hr.
  - pose proof (rank_lt_bound l). lia.
  - assert (Hk : t_k (s i) <> []) by (unfold head in Hi; destruct (t_k (s i)); [discriminate|discriminate || congruence]).
    destruct (step_or_blocked s n i Hinv Hfin Hk) as [[t' Ht]|(l0 & m0 & j & Hh & Hj & Hold)].
    + eexists. apply ss. exact Ht.
    + rewrite Hi in Hh. injection Hh as <- <-.
      (* j holds l, so it has not finished *)
      assert (Hkj : t_k (s j) <> []).
      { intros E. pose proof (inv_finished_holds_nothing s Hinv j E) as Hn. rewrite Hn in Hold. discriminate. }
      destruct (step_or_blocked s n j Hinv Hfin Hkj) as [[t' Ht]|(l' & m' & j' & Hh' & _ & _)].
      * eexists. apply ss. exact Ht.
      * (* j waits for l' while holding l: rank l < rank l' *)
        destruct (holds_in _ _ Hold) as [mh Hin].
        pose proof (inv_lock_order s Hinv j l' m' Hh' l mh Hin) as Hlt.
        apply (IH j l' m' Hh'). pose proof (rank_lt_bound l'). lia.
Qed.

(* deadlock freedom *)
Theorem progress s n :
  inv s -> (forall j, n <= j -> t_k (s j) = []) -> (exists i, t_k (s i) <> []) -> exists s', sstep s s'.
Proof.
  intros Hinv Hfin [i Hk].
  assert (Hfin' : forall j, n <= j -> t_held (s j) = []).
  { intros j Hj. apply (inv_finished_holds_nothing s Hinv). apply Hfin. exact Hj. }
  destruct (step_or_blocked s n i Hinv Hfin' Hk) as [[t' Ht]|(l & m & j & Hh & _ & _)].
  - eexists. apply ss. exact Ht.
  - apply (chain s n Hinv Hfin' rank_bound i l m Hh). lia.
Qed.

(* threads that are finished stay finished: the bound n is preserved along every execution *)
Lemma sstep_finished s s' n : (forall j, n <= j -> t_k (s j) = []) -> sstep s s' -> forall j, n <= j -> t_k (s' j) = [].
Proof.
  intros Hfin Hs j Hj. destruct Hs as [s i t' Ht]. unfold upd. destruct (Nat.eqb j i) eqn:E; [|apply Hfin; exact Hj].
  apply Nat.eqb_eq in E. subst j. pose proof (Hfin i Hj) as Hki.
  remember (s i) as ti eqn:Eti. clear Eti. destruct Ht; cbn in Hki; discriminate.
Qed.

Lemma reach_finished s s' n : (forall j, n <= j -> t_k (s j) = []) -> reach s s' -> forall j, n <= j -> t_k (s' j) = [].
Proof.
  intros Hfin Hr. induction Hr as [s|s s1 s2 Hr IH Hs]; [exact Hfin|].
  apply (sstep_finished s1 s2 n (IH Hfin) Hs).
Qed.

(* for an accepted skeleton: from an initial system of n threads, no reachable state is a deadlock *)
Theorem skel_ok_deadlock_free P entries s0 s n :
  skel_ok P entries = true -> initial P entries s0 -> (forall j, n <= j -> t_k (s0 j) = []) -> reach s0 s ->
  (exists i, t_k (s i) <> []) -> exists s', sstep s s'.
Proof.
  intros Hok Hinit Hfin Hr Hex.
  apply (progress s n); [|eapply reach_finished; eassumption|exact Hex].
  eapply reach_inv; [eapply initial_inv; eassumption|exact Hr].
Qed.
