(* RunC03.v — evaluation of harness observations against the model (correspondence). *)
From Verif Require Import Base Validator C03Proofs.
Open Scope string_scope.

Record c03case := mk_c03 {
  c_idx : nat; c_mode : string; c_ocsp : outcome; c_crl : outcome;
  c_rejected : bool; c_ocsp_hit : bool; c_crl_hit : bool;
  c_has_responder : bool; c_has_cdp : bool }.

Definition verdict_rejected (v : verdict) := match v with Reject => true | Accept => false end.

(* a case agrees when: the mode string parses, the model's verdict equals the observed one,
   and an origin was contacted iff the model's effect trace consults that mechanism
   (only comparable when the certificate names a responder / a CDP) *)
Definition agrees (c : c03case) : bool :=
  match parse_mode (c_mode c) with
  | Some (Some m) =>
    match verify_client true m (ans_of (c_ocsp c) (c_crl c)) with
    | Some (t, v) =>
      Bool.eqb (verdict_rejected v) (c_rejected c)
      && (negb (c_has_responder c) || Bool.eqb (mech_in MOcsp t) (c_ocsp_hit c))
      && (negb (c_has_cdp c) || Bool.eqb (mech_in MCrl t) (c_crl_hit c))
      && (c_has_responder c || negb (c_ocsp_hit c)) && (c_has_cdp c || negb (c_crl_hit c))
    | None => false
    end
  | _ => false
  end.

Definition mismatches (l : list c03case) : list nat :=
  map c_idx (filter (fun c => negb (agrees c)) l).
