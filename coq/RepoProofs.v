(* RepoProofs.v — invariants of the repository state machine over all histories. *)
From Verif Require Import Base Repo.
From Verif.gen Require GenFacts.

(* ---- the signature policy, as generated from the two intake functions *)
Lemma policy_verify p v : policy_accepts (policy_of p) SigVerify v = v.
Proof. destruct p; cbv; destruct v; reflexivity. Qed.
Lemma policy_lenient p m v : m <> SigVerify -> policy_accepts (policy_of p) m v = true.
Proof. intros H. destruct p, m; try congruence; cbv; destruct v; reflexivity. Qed.
Lemma policy_uniform p q m v : policy_accepts (policy_of p) m v = policy_accepts (policy_of q) m v.
Proof. destruct p, q, m; cbv; destruct v; reflexivity. Qed.
Lemma policy_signer_uniform p q m v : policy_records_signer (policy_of p) m v = policy_records_signer (policy_of q) m v.
Proof. destruct p, q, m; cbv; destruct v; reflexivity. Qed.

Definition list_ok (cfg : rcfg) (l : crl) : Prop :=
  l_parse_ok l = true /\ (r_sigmode cfg = SigVerify -> l_sig_ok l = true).

Lemma accepts_ok cfg p a avail f l sg :
  accepts cfg p a avail f = Some (l, sg) ->
  a = Serve l /\ list_ok cfg l /\ (r_sigmode cfg = SigVerify -> verified l avail = true).
Proof.
  unfold accepts. destruct f, a as [| |l0]; try discriminate.
  - destruct (l_parse_ok l0) eqn:Ep; [|discriminate]. cbn [andb].
    destruct (policy_accepts _ _ _) eqn:Epol; [|discriminate]. intros [= -> _].
    split; [reflexivity|]. split; [split; [exact Ep|]|].
    + intros Hm. rewrite Hm, policy_verify in Epol. unfold verified in Epol. apply andb_prop in Epol. tauto.
    + intros Hm. rewrite Hm, policy_verify in Epol. exact Epol.
  - destruct (k <? _)%nat; [discriminate|].
    destruct (l_parse_ok l0) eqn:Ep; [|discriminate]. cbn [andb].
    destruct (policy_accepts _ _ _) eqn:Epol; [|discriminate]. intros [= -> _].
    split; [reflexivity|]. split; [split; [exact Ep|]|].
    + intros Hm. rewrite Hm, policy_verify in Epol. unfold verified in Epol. apply andb_prop in Epol. tauto.
    + intros Hm. rewrite Hm, policy_verify in Epol. exact Epol.
Qed.

Definition entry_ok (cfg : rcfg) (e : entry) : Prop :=
  (e_loaded e = true <-> e_list e <> None) /\ (forall l, e_list e = Some l -> list_ok cfg l).

Definition Inv (cfg : rcfg) (st : rstate) : Prop :=
  Forall (fun p => entry_ok cfg (snd p)) (entries st) /\
  Forall (fun p => list_ok cfg (fst (snd p))) (disk st).

Lemma ident_eqb_eq a b : ident_eqb a b = true -> a = b.
Proof.
  unfold ident_eqb. revert b. induction a as [|x a IH]; intros [|y b] H; simpl in *; try discriminate; auto.
  apply andb_prop in H. destruct H as [Hl H]. apply andb_prop in H. destruct H as [Hx H].
  apply N.eqb_eq in Hx. subst. f_equal. apply IH. rewrite Hl. exact H.
Qed.
Lemma ident_eqb_refl a : ident_eqb a a = true.
Proof. unfold ident_eqb. rewrite Nat.eqb_refl. simpl. induction a; simpl; [reflexivity|]. rewrite N.eqb_refl. exact IHa. Qed.

Lemma lookup_in {A} id (l : list (ident * A)) v : lookup id l = Some v -> In (id, v) l.
Proof.
  induction l as [|[k w] l IH]; simpl; [discriminate|].
  destruct (ident_eqb id k) eqn:E; [apply ident_eqb_eq in E; intros [= ->]; subst; auto|auto].
Qed.

Lemma update_forall {A} (P : ident * A -> Prop) id v (l : list (ident * A)) :
  Forall P l -> (forall k, ident_eqb id k = true -> P (k, v)) -> Forall P (update id v l).
Proof.
  intros Hl Hv. induction l as [|[k w] l IH]; simpl.
  - constructor; [apply Hv, ident_eqb_refl|constructor].
  - inversion Hl; subst. destruct (ident_eqb id k) eqn:E; constructor; auto.
Qed.

Lemma update_same {A} id (v : A) l : lookup id l = Some v -> update id v l = l.
Proof.
  induction l as [|[k w] l IH]; simpl; [discriminate|].
  destruct (ident_eqb id k) eqn:E; [intros [= ->]; reflexivity|intros H; rewrite IH by exact H; reflexivity].
Qed.

Lemma lookup_update_same {A} id (v : A) l : lookup id (update id v l) = Some v.
Proof.
  induction l as [|[k w] l IH]; simpl; [rewrite ident_eqb_refl; reflexivity|].
  destruct (ident_eqb id k) eqn:E; simpl; rewrite E; [reflexivity|exact IH].
Qed.

Lemma lookup_update_other {A} id id' (v : A) l : ident_eqb id' id = false -> lookup id' (update id v l) = lookup id' l.
Proof.
  intros H. induction l as [|[k w] l IH]; simpl.
  - rewrite H. reflexivity.
  - destruct (ident_eqb id k) eqn:E; simpl.
    + apply ident_eqb_eq in E. subst. rewrite H. reflexivity.
    + destruct (ident_eqb id' k); [reflexivity|exact IH].
Qed.

(* ---- intake *)
Lemma intake_spec cfg ev p id e avail f :
  let '(e', r) := intake cfg ev p id e avail f in
  (r = None /\ e' = e) \/
  (exists l sg loc, r = Some (l, sg) /\ ev loc = Serve l /\ list_ok cfg l /\
     e' = {| e_locs := e_locs e; e_list := Some l; e_loaded := true; e_chain := []; e_signer := sg |}).
Proof.
  unfold intake. destruct (e_locs e) as [|loc locs]; [left; auto|].
  destruct (accepts cfg p (ev loc) avail f) as [[l sg]|] eqn:Ea; [|left; auto].
  right. apply accepts_ok in Ea. destruct Ea as (Hs & Hok & _). exists l, sg, loc. auto.
Qed.

Lemma intake_entry_ok cfg ev p id e avail f :
  entry_ok cfg e -> entry_ok cfg (fst (intake cfg ev p id e avail f)).
Proof.
  intros He. pose proof (intake_spec cfg ev p id e avail f) as H.
  destruct (intake cfg ev p id e avail f) as [e' r]. simpl.
  destruct H as [[_ ->]|(l & sg & loc & _ & _ & Hok & ->)]; [exact He|].
  split; simpl; [split; [discriminate|reflexivity]|intros l0 [= <-]; exact Hok].
Qed.

Lemma intake_result_ok cfg ev p id e avail f l sg :
  snd (intake cfg ev p id e avail f) = Some (l, sg) -> list_ok cfg l.
Proof.
  pose proof (intake_spec cfg ev p id e avail f) as H.
  destruct (intake cfg ev p id e avail f) as [e' r]. simpl.
  destruct H as [[-> _]|(l' & sg' & loc & -> & _ & Hok & _)]; [discriminate|intros [= <- _]; exact Hok].
Qed.

Lemma persist_ok cfg id r d :
  Forall (fun p => list_ok cfg (fst (snd p))) d ->
  (forall l sg, r = Some (l, sg) -> list_ok cfg l) ->
  Forall (fun p => list_ok cfg (fst (snd p))) (persist cfg id r d).
Proof.
  intros Hd Hr. unfold persist. destruct (r_storage cfg); [exact Hd|]. destruct r as [[l sg]|]; [|exact Hd].
  apply update_forall; [exact Hd|]. intros k _. simpl. apply (Hr l sg eq_refl).
Qed.

Lemma update_one_inv cfg ev f st id e :
  Inv cfg st -> entry_ok cfg e -> Inv cfg (update_one cfg ev f st id e).
Proof.
  intros [He Hd] Hok. unfold update_one.
  destruct (e_loaded e).
  - pose proof (intake_entry_ok cfg ev Refresh id e (match e_signer e with Some s => [s] | None => [] end) f Hok) as H1.
    pose proof (intake_result_ok cfg ev Refresh id e (match e_signer e with Some s => [s] | None => [] end) f) as H2.
    destruct (intake cfg ev Refresh id e _ f) as [e' r]. simpl in *. split; simpl.
    + apply update_forall; [exact He|]. intros k _. exact H1.
    + apply persist_ok; [exact Hd|]. intros l sg ->. eapply H2. reflexivity.
  - pose proof (intake_entry_ok cfg ev FirstLoad id e (e_chain e) f Hok) as H1.
    pose proof (intake_result_ok cfg ev FirstLoad id e (e_chain e) f) as H2.
    destruct (intake cfg ev FirstLoad id e _ f) as [e' r]. simpl in *. split; simpl.
    + apply update_forall; [exact He|]. intros k _. exact H1.
    + apply persist_ok; [exact Hd|]. intros l sg ->. eapply H2. reflexivity.
Qed.

Lemma inv_lookup cfg st id e : Inv cfg st -> lookup id (entries st) = Some e -> entry_ok cfg e.
Proof.
  intros [He _] H. apply lookup_in in H. rewrite Forall_forall in He. apply (He (id, e) H).
Qed.

Lemma refresh_all_inv cfg ev f st : Inv cfg st -> Inv cfg (refresh_all cfg ev f st).
Proof.
  unfold refresh_all. generalize (entries st) at 1. intros ids. revert st.
  induction ids as [|[id e0] ids IH]; intros st H; simpl; [exact H|].
  apply IH. destruct (lookup id (entries st)) as [e|] eqn:El; [|exact H].
  apply update_one_inv; [exact H|]. eapply inv_lookup; eassumption.
Qed.

Lemma handshake_inv cfg ev st c : Inv cfg st -> Inv cfg (fst (handshake cfg ev st c)).
Proof.
  intros H. unfold handshake.
  destruct (c_cdps c) as [|cd cds] eqn:Ec; [exact H|].
  destruct (http_locs c) as [|h hs] eqn:Eh; [exact H|].
  set (id := h :: hs).
  (* the state after get-or-add *)
  assert (H1 : forall st1 added,
    (match lookup id (entries st) with
     | Some _ => (st, false)
     | None => ({| entries := entries st ++ [(id, {| e_locs := id;
                     e_list := option_map fst (match r_storage cfg with Disk => lookup id (disk st) | Memory => None end);
                     e_loaded := match (match r_storage cfg with Disk => lookup id (disk st) | Memory => None end) with Some _ => true | None => false end;
                     e_chain := c_chain c;
                     e_signer := match (match r_storage cfg with Disk => lookup id (disk st) | Memory => None end) with Some (_, s) => s | None => None end |})];
                   disk := disk st |}, true)
     end) = (st1, added) -> Inv cfg st1).
  { intros st1 added. destruct (lookup id (entries st)); intros [= <- _]; [exact H|].
    destruct H as [He Hd]. split; simpl; [|exact Hd].
    apply Forall_app. split; [exact He|]. constructor; [|constructor]. simpl.
    destruct (r_storage cfg); simpl.
    - split; simpl; [split; [discriminate|intros Hn; exfalso; apply Hn; reflexivity]|discriminate].
    - destruct (lookup id (disk st)) as [[l sg]|] eqn:Ed; simpl.
      + split; [split; [discriminate|reflexivity]|]. intros l0 [= <-].
        apply lookup_in in Ed. rewrite Forall_forall in Hd. apply (Hd _ Ed).
      + split; [split; [discriminate|intros Hn; exfalso; apply Hn; reflexivity]|discriminate]. }
  destruct (match lookup id (entries st) with Some _ => _ | None => _ end) as [st1 added] eqn:E1.
  specialize (H1 st1 added eq_refl).
  (* active load *)
  assert (H2 : Inv cfg (match r_fetch cfg, lookup id (entries st1) with
      | Active, Some e =>
        if e_loaded e then st1
        else let '(e', r) := intake cfg ev FirstLoad id e (c_chain c) NoFault in
             {| entries := update id e' (entries st1); disk := persist cfg id r (disk st1) |}
      | _, _ => st1
      end)).
  { destruct (r_fetch cfg); [|exact H1]. destruct (lookup id (entries st1)) as [e|] eqn:El; [|exact H1].
    destruct (e_loaded e); [exact H1|].
    pose proof (inv_lookup _ _ _ _ H1 El) as Hok.
    pose proof (intake_entry_ok cfg ev FirstLoad id e (c_chain c) NoFault Hok) as Hi.
    pose proof (intake_result_ok cfg ev FirstLoad id e (c_chain c) NoFault) as Hr.
    destruct (intake cfg ev FirstLoad id e (c_chain c) NoFault) as [e' r]. simpl in *.
    destruct H1 as [He Hd]. split; simpl.
    - apply update_forall; [exact He|]. intros k _. exact Hi.
    - apply persist_ok; [exact Hd|]. intros l sg ->. eapply Hr. reflexivity. }
  cbn [fst]. destruct (r_fetch cfg); simpl; [exact H2|].
  destruct added; [apply refresh_all_inv; exact H2|exact H2].
Qed.

Lemma step_inv cfg s x : Inv cfg (snd s) -> Inv cfg (snd (fst (rstep_run cfg s x))).
Proof.
  destruct s as [ev st]. intros H. destruct x; simpl.
  - exact H.
  - pose proof (handshake_inv cfg ev st c H) as H'. destruct (handshake cfg ev st c). exact H'.
  - apply refresh_all_inv. exact H.
  - destruct H as [_ Hd]. split; simpl; [constructor|exact Hd].
Qed.

Lemma run_inv cfg xs : forall s, Inv cfg (snd s) -> Inv cfg (snd (fst (run_steps cfg s xs))).
Proof.
  induction xs as [|x xs IH]; intros s H; simpl; [exact H|].
  pose proof (step_inv cfg s x H) as H1. destruct (rstep_run cfg s x) as [s1 o].
  specialize (IH s1 H1). destruct (run_steps cfg s1 xs). exact IH.
Qed.

Lemma init_inv cfg : Inv cfg (snd init_state).
Proof. split; constructor. Qed.

(* every reachable state satisfies the invariant *)
Theorem reachable_inv cfg xs : Inv cfg (snd (fst (run_steps cfg init_state xs))).
Proof. apply run_inv, init_inv. Qed.
