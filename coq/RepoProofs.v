(* RepoProofs.v — invariants of the repository state machine over all histories. *)
From Verif Require Import Base Repo.
From Verif.gen Require GenFacts.

(* ---- the signature policy, as generated from the two intake functions *)
Lemma policy_verify p v : policy_accepts (policy_of p) SigVerify v = v.
Proof. destruct p; cbv; destruct v; reflexivity. Qed.
Lemma policy_lenient p m v : m <> SigVerify -> policy_accepts (policy_of p) m v = true.
Proof. intros H. destruct p, m; try congruence; cbv; destruct v; reflexivity. Qed.
Lemma policy_uniform p q m v : policy_accepts (policy_of p) m v = policy_accepts (policy_of q) m v.
Proof. destruct p, q, m; cbv; destruct v; reflexivity. Qed.
Lemma policy_signer_uniform p q m v : policy_records_signer (policy_of p) m v = policy_records_signer (policy_of q) m v.
Proof. destruct p, q, m; cbv; destruct v; reflexivity. Qed.

Definition list_ok (cfg : rcfg) (l : crl) : Prop :=
  l_parse_ok l = true /\ (r_sigmode cfg = SigVerify -> l_sig_ok l = true).

Lemma accepts_ok cfg p a avail f l sg :
  accepts cfg p a avail f = Some (l, sg) ->
  a = Serve l /\ list_ok cfg l /\ (r_sigmode cfg = SigVerify -> verified l avail = true).
Proof.
  unfold accepts. destruct f, a as [| |l0]; try discriminate.
  - destruct (l_parse_ok l0) eqn:Ep; [|discriminate]. cbn [andb].
    destruct (policy_accepts _ _ _) eqn:Epol; [|discriminate]. intros [= -> _].
    split; [reflexivity|]. split; [split; [exact Ep|]|].
    + intros Hm. rewrite Hm, policy_verify in Epol. unfold verified in Epol. apply andb_prop in Epol. tauto.
    + intros Hm. rewrite Hm, policy_verify in Epol. exact Epol.
  - destruct (k <? _)%nat; [discriminate|].
    destruct (l_parse_ok l0) eqn:Ep; [|discriminate]. cbn [andb].
    destruct (policy_accepts _ _ _) eqn:Epol; [|discriminate]. intros [= -> _].
    split; [reflexivity|]. split; [split; [exact Ep|]|].
    + intros Hm. rewrite Hm, policy_verify in Epol. unfold verified in Epol. apply andb_prop in Epol. tauto.
    + intros Hm. rewrite Hm, policy_verify in Epol. exact Epol.
Qed.

Definition entry_ok (cfg : rcfg) (e : entry) : Prop :=
  (e_loaded e = true <-> e_list e <> None) /\ (forall l, e_list e = Some l -> list_ok cfg l).

(* what may lie on disk, whatever configuration wrote it: a parseable list, and a signer certificate
   only next to a list whose signature verified *)
Definition disk_wf (r : crl * option N) : Prop :=
  l_parse_ok (fst r) = true /\ (snd r <> None -> l_sig_ok (fst r) = true).

Lemma policy_records_verified p m v : policy_records_signer (policy_of p) m v = true -> v = true.
Proof. destruct p, m, v; cbv; congruence. Qed.

Lemma accepts_disk_wf cfg p a avail f l sg : accepts cfg p a avail f = Some (l, sg) -> disk_wf (l, sg).
Proof.
  unfold accepts. destruct f, a as [| |l0]; try discriminate.
  - destruct (l_parse_ok l0) eqn:Ep; [|discriminate]. cbn [andb].
    destruct (policy_accepts _ _ _); [|discriminate].
    destruct (policy_records_signer _ _ _) eqn:Er; intros [= <- <-]; split; simpl; try exact Ep; [|congruence].
    intros _. apply policy_records_verified in Er. unfold verified in Er. apply andb_prop in Er. tauto.
  - destruct (k <? _)%nat; [discriminate|].
    destruct (l_parse_ok l0) eqn:Ep; [|discriminate]. cbn [andb].
    destruct (policy_accepts _ _ _); [|discriminate].
    destruct (policy_records_signer _ _ _) eqn:Er; intros [= <- <-]; split; simpl; try exact Ep; [|congruence].
    intros _. apply policy_records_verified in Er. unfold verified in Er. apply andb_prop in Er. tauto.
Qed.

Lemma ident_eqb_eq a b : ident_eqb a b = true -> a = b.
Proof.
  unfold ident_eqb. revert b. induction a as [|x a IH]; intros [|y b] H; simpl in *; try discriminate; auto.
  apply andb_prop in H. destruct H as [Hl H]. apply andb_prop in H. destruct H as [Hx H].
  apply N.eqb_eq in Hx. subst. f_equal. apply IH. rewrite Hl. exact H.
Qed.
Lemma ident_eqb_refl a : ident_eqb a a = true.
Proof. unfold ident_eqb. rewrite Nat.eqb_refl. simpl. induction a; simpl; [reflexivity|]. rewrite N.eqb_refl. exact IHa. Qed.

Lemma lookup_in {A} id (l : list (ident * A)) v : lookup id l = Some v -> In (id, v) l.
Proof.
  induction l as [|[k w] l IH]; simpl; [discriminate|].
  destruct (ident_eqb id k) eqn:E; [apply ident_eqb_eq in E; intros [= ->]; subst; auto|auto].
Qed.

Lemma update_forall {A} (P : ident * A -> Prop) id v (l : list (ident * A)) :
  Forall P l -> (forall k, ident_eqb id k = true -> P (k, v)) -> Forall P (update id v l).
Proof.
  intros Hl Hv. induction l as [|[k w] l IH]; simpl.
  - constructor; [apply Hv, ident_eqb_refl|constructor].
  - inversion Hl; subst. destruct (ident_eqb id k) eqn:E; constructor; auto.
Qed.

Lemma update_same {A} id (v : A) l : lookup id l = Some v -> update id v l = l.
Proof.
  induction l as [|[k w] l IH]; simpl; [discriminate|].
  destruct (ident_eqb id k) eqn:E; [intros [= ->]; reflexivity|intros H; rewrite IH by exact H; reflexivity].
Qed.

Lemma lookup_update_same {A} id (v : A) l : lookup id (update id v l) = Some v.
Proof.
  induction l as [|[k w] l IH]; simpl; [rewrite ident_eqb_refl; reflexivity|].
  destruct (ident_eqb id k) eqn:E; simpl; rewrite E; [reflexivity|exact IH].
Qed.

Lemma lookup_update_other {A} id id' (v : A) l : ident_eqb id' id = false -> lookup id' (update id v l) = lookup id' l.
Proof.
  intros H. induction l as [|[k w] l IH]; simpl.
  - rewrite H. reflexivity.
  - destruct (ident_eqb id k) eqn:E; simpl.
    + apply ident_eqb_eq in E. subst. rewrite H. reflexivity.
    + destruct (ident_eqb id' k); [reflexivity|exact IH].
Qed.

(* ---- the invariant, generic in what is known about the disk: D cfg r must follow from an
   accepted intake under cfg and must make an adopted list acceptable under cfg *)
Section Generic.
Variable D : rcfg -> crl * option N -> Prop.
Hypothesis D_accepts : forall cfg p a avail f l sg, accepts cfg p a avail f = Some (l, sg) -> D cfg (l, sg).
Hypothesis D_adopt : forall cfg l sg chain, D cfg (l, sg) -> adopt_counts cfg sg chain = true -> list_ok cfg l.
Hypothesis D_resign : forall cfg l sg, r_sigmode cfg = SigVerify -> list_ok cfg l -> D cfg (l, Some sg).

Definition InvG (cfg : rcfg) (st : rstate) : Prop :=
  Forall (fun p => entry_ok cfg (snd p)) (entries st) /\
  Forall (fun p => D cfg (snd p)) (disk st).

Lemma intake_spec cfg ev p id e avail f :
  let '(e', r) := intake cfg ev p id e avail f in
  (r = None /\ e' = e) \/
  (exists l sg loc, r = Some (l, sg) /\ ev loc = Serve l /\ list_ok cfg l /\ D cfg (l, sg) /\
     e' = {| e_locs := e_locs e; e_list := Some l; e_loaded := true; e_chain := []; e_signer := sg |}).
Proof.
  unfold intake. destruct (e_locs e) as [|loc locs]; [left; auto|].
  destruct (accepts cfg p (ev loc) avail f) as [[l sg]|] eqn:Ea; [|left; auto].
  right. pose proof (D_accepts _ _ _ _ _ _ _ Ea) as HD.
  apply accepts_ok in Ea. destruct Ea as (Hs & Hok & _). exists l, sg, loc. auto.
Qed.

Lemma intake_entry_ok cfg ev p id e avail f :
  entry_ok cfg e -> entry_ok cfg (fst (intake cfg ev p id e avail f)).
Proof.
  intros He. pose proof (intake_spec cfg ev p id e avail f) as H.
  destruct (intake cfg ev p id e avail f) as [e' r]. simpl.
  destruct H as [[_ ->]|(l & sg & loc & _ & _ & Hok & _ & ->)]; [exact He|].
  split; simpl; [split; [discriminate|reflexivity]|intros l0 [= <-]; exact Hok].
Qed.

Lemma intake_result_ok cfg ev p id e avail f l sg :
  snd (intake cfg ev p id e avail f) = Some (l, sg) -> D cfg (l, sg).
Proof.
  pose proof (intake_spec cfg ev p id e avail f) as H.
  destruct (intake cfg ev p id e avail f) as [e' r]. simpl.
  destruct H as [[-> _]|(l' & sg' & loc & -> & _ & _ & HD & _)]; [discriminate|intros [= <- <-]; exact HD].
Qed.

Lemma persist_ok cfg id r d :
  Forall (fun p => D cfg (snd p)) d ->
  (forall l sg, r = Some (l, sg) -> D cfg (l, sg)) ->
  Forall (fun p => D cfg (snd p)) (persist cfg id r d).
Proof.
  intros Hd Hr. unfold persist. destruct (r_storage cfg); [exact Hd|]. destruct r as [[l sg]|]; [|exact Hd].
  apply update_forall; [exact Hd|]. intros k _. simpl. apply (Hr l sg eq_refl).
Qed.

Lemma update_one_inv cfg ev f st id e :
  InvG cfg st -> entry_ok cfg e -> InvG cfg (update_one cfg ev f st id e).
Proof.
  intros [He Hd] Hok. unfold update_one.
  destruct (e_loaded e).
  - pose proof (intake_entry_ok cfg ev Refresh id e (match e_signer e with Some s => [s] | None => [] end) f Hok) as H1.
    pose proof (intake_result_ok cfg ev Refresh id e (match e_signer e with Some s => [s] | None => [] end) f) as H2.
    destruct (intake cfg ev Refresh id e _ f) as [e' r]. simpl in *. split; simpl.
    + apply update_forall; [exact He|]. intros k _. exact H1.
    + apply persist_ok; [exact Hd|]. intros l sg ->. eapply H2. reflexivity.
  - pose proof (intake_entry_ok cfg ev FirstLoad id e (e_chain e) f Hok) as H1.
    pose proof (intake_result_ok cfg ev FirstLoad id e (e_chain e) f) as H2.
    destruct (intake cfg ev FirstLoad id e _ f) as [e' r]. simpl in *. split; simpl.
    + apply update_forall; [exact He|]. intros k _. exact H1.
    + apply persist_ok; [exact Hd|]. intros l sg ->. eapply H2. reflexivity.
Qed.

Lemma inv_lookup cfg st id e : InvG cfg st -> lookup id (entries st) = Some e -> entry_ok cfg e.
Proof.
  intros [He _] H. apply lookup_in in H. rewrite Forall_forall in He. apply (He (id, e) H).
Qed.

Lemma refresh_all_inv cfg ev f st : InvG cfg st -> InvG cfg (refresh_all cfg ev f st).
Proof.
  unfold refresh_all. generalize (entries st) at 1. intros ids. revert st.
  induction ids as [|[id e0] ids IH]; intros st H; simpl; [exact H|].
  apply IH. destruct (lookup id (entries st)) as [e|] eqn:El; [|exact H].
  apply update_one_inv; [exact H|]. eapply inv_lookup; eassumption.
Qed.

(* a new entry: empty, or adopting what the disk holds — only if that counts under cfg *)
Lemma new_entry_ok cfg st id c : InvG cfg st -> entry_ok cfg (new_entry cfg st id c).
Proof.
  intros [_ Hd]. unfold new_entry.
  destruct (r_storage cfg); simpl.
  - split; simpl; [split; [discriminate|intros Hn; exfalso; apply Hn; reflexivity]|discriminate].
  - destruct (lookup id (disk st)) as [[l sg]|] eqn:Ed; simpl.
    + destruct (adopt_counts cfg sg (c_chain c)) eqn:Ea; simpl.
      * split; [split; [discriminate|reflexivity]|]. intros l0 [= <-].
        apply lookup_in in Ed. rewrite Forall_forall in Hd. eapply D_adopt; [apply (Hd _ Ed)|exact Ea].
      * split; simpl; [split; [discriminate|intros Hn; exfalso; apply Hn; reflexivity]|discriminate].
    + split; simpl; [split; [discriminate|intros Hn; exfalso; apply Hn; reflexivity]|discriminate].
Qed.

Lemma added_state_inv cfg st id c : InvG cfg st -> InvG cfg (added_state cfg st id c).
Proof.
  intros H. unfold added_state. destruct (lookup id (entries st)); [exact H|].
  pose proof (new_entry_ok cfg st id c H) as Hn. destruct H as [He Hd]. split; simpl; [|exact Hd].
  apply Forall_app. split; [exact He|]. constructor; [exact Hn|constructor].
Qed.

Lemma loaded_state_inv cfg ev st1 id c : InvG cfg st1 -> InvG cfg (loaded_state cfg ev st1 id c).
Proof.
  intros H1. unfold loaded_state. destruct (r_fetch cfg); [|exact H1].
  destruct (lookup id (entries st1)) as [e|] eqn:El; [|exact H1].
  destruct (e_loaded e); [exact H1|].
  pose proof (inv_lookup _ _ _ _ H1 El) as Hok.
  pose proof (intake_entry_ok cfg ev FirstLoad id e (c_chain c) NoFault Hok) as Hi.
  pose proof (intake_result_ok cfg ev FirstLoad id e (c_chain c) NoFault) as Hr.
  destruct (intake cfg ev FirstLoad id e (c_chain c) NoFault) as [e' r]. simpl in *.
  destruct H1 as [He Hd]. split; simpl.
  - apply update_forall; [exact He|]. intros k _. exact Hi.
  - apply persist_ok; [exact Hd|]. intros l sg ->. eapply Hr. reflexivity.
Qed.

(* the state the handshake's own lookup sees *)
Lemma lookup_state_inv cfg ev st c : InvG cfg st -> InvG cfg (lookup_state cfg ev st c).
Proof.
  intros H. unfold lookup_state.
  destruct (c_cdps c) as [|cd cds]; [exact H|]. destruct (http_locs c) as [|h hs]; [exact H|].
  apply loaded_state_inv, added_state_inv, H.
Qed.

Lemma resigned_state_inv cfg st id c : InvG cfg st -> InvG cfg (resigned_state cfg st id c).
Proof.
  intros H. unfold resigned_state.
  destruct (lookup id (marks st)) as [l|]; [|exact H].
  destruct (lookup id (entries st)) as [e|] eqn:El; [|exact H].
  destruct (r_sigmode cfg) eqn:Em; cbn [andb]; try exact H.
  destruct (e_loaded e && verified l (c_chain c)); [|exact H].
  pose proof (inv_lookup _ _ _ _ H El) as [Hiff Hok]. destruct H as [He Hd]. split; cbn [entries disk].
  - apply update_forall; [exact He|]. intros k _. cbn [snd]. split; cbn [e_loaded e_list]; assumption.
  - destruct (e_list e) as [l0|] eqn:Eli; [|exact Hd].
    apply persist_ok; [exact Hd|]. intros l1 sg [= <- <-]. apply D_resign; [exact Em|]. apply Hok. reflexivity.
Qed.

Lemma handshake_inv cfg ev st c : InvG cfg st -> InvG cfg (fst (handshake cfg ev st c)).
Proof.
  intros H. unfold handshake.
  destruct (c_cdps c) as [|cd cds] eqn:Ec; [exact H|].
  destruct (http_locs c) as [|h hs] eqn:Eh; [exact H|].
  cbn [fst].
  assert (H2 : InvG cfg (loaded_state cfg ev (added_state cfg st (h :: hs) c) (h :: hs) c))
    by (apply loaded_state_inv, added_state_inv, H).
  assert (H3 : InvG cfg (resigned_state cfg (loaded_state cfg ev (added_state cfg st (h :: hs) c) (h :: hs) c) (h :: hs) c))
    by (apply resigned_state_inv; exact H2).
  destruct (r_fetch cfg).
  - destruct (lookup (h :: hs) (entries st)); [exact H3|exact H2].
  - destruct (lookup (h :: hs) (entries st)); [exact H3|apply refresh_all_inv; exact H2].
Qed.

Lemma restart_inv cfg cfg' st : Forall (fun p => D cfg' (snd p)) (disk st) -> InvG cfg' (restart cfg st).
Proof. intros Hd. split; simpl; [constructor|exact Hd]. Qed.

Lemma step_inv cfg s x : InvG cfg (snd s) -> InvG cfg (snd (fst (rstep_run cfg s x))).
Proof.
  destruct s as [ev st]. intros H. destruct x; simpl.
  - exact H.
  - pose proof (handshake_inv cfg ev st c H) as H'. destruct (handshake cfg ev st c). exact H'.
  - apply refresh_all_inv. exact H.
  - destruct H as [_ Hd]. split; simpl; [constructor|exact Hd].
Qed.

Lemma run_inv cfg xs : forall s, InvG cfg (snd s) -> InvG cfg (snd (fst (run_steps cfg s xs))).
Proof.
  induction xs as [|x xs IH]; intros s H; simpl; [exact H|].
  pose proof (step_inv cfg s x H) as H1. destruct (rstep_run cfg s x) as [s1 o].
  specialize (IH s1 H1). destruct (run_steps cfg s1 xs). exact IH.
Qed.

End Generic.

(* ---- instance 1: one configuration for the whole history — the disk holds lists acceptable under it *)
Definition D_cfg (cfg : rcfg) (r : crl * option N) : Prop := list_ok cfg (fst r).
Lemma D_cfg_accepts cfg p a avail f l sg : accepts cfg p a avail f = Some (l, sg) -> D_cfg cfg (l, sg).
Proof. intros H. apply accepts_ok in H. unfold D_cfg. simpl. tauto. Qed.
Lemma D_cfg_adopt cfg l sg (chain : list N) : D_cfg cfg (l, sg) -> adopt_counts cfg sg chain = true -> list_ok cfg l.
Proof. intros H _. exact H. Qed.

Lemma D_cfg_resign cfg l (sg : N) : r_sigmode cfg = SigVerify -> list_ok cfg l -> D_cfg cfg (l, Some sg).
Proof. intros _ H. exact H. Qed.

Definition Inv (cfg : rcfg) (st : rstate) : Prop := InvG D_cfg cfg st.

Lemma init_inv cfg : Inv cfg (snd init_state).
Proof. split; constructor. Qed.

(* every reachable state satisfies the invariant *)
Theorem reachable_inv cfg xs : Inv cfg (snd (fst (run_steps cfg init_state xs))).
Proof. apply (run_inv D_cfg D_cfg_accepts D_cfg_adopt D_cfg_resign), init_inv. Qed.

(* ---- instance 2: the configuration may change with every restart — the disk holds what SOME configuration
   wrote; the adoption check of the current one decides what counts *)
Definition D_any (cfg : rcfg) (r : crl * option N) : Prop := disk_wf r.
Lemma D_any_accepts cfg p a avail f l sg : accepts cfg p a avail f = Some (l, sg) -> D_any cfg (l, sg).
Proof. apply accepts_disk_wf. Qed.
Lemma adoption_checked : GenFacts.persisted_adoption_checked = true. Proof. reflexivity. Qed.
Lemma D_any_adopt cfg l sg chain : D_any cfg (l, sg) -> adopt_counts cfg sg chain = true -> list_ok cfg l.
Proof.
  intros [Hp Hs] Ha. simpl in *. split; [exact Hp|]. intros Hm.
  unfold adopt_counts in Ha. rewrite adoption_checked, Hm in Ha.
  destruct sg as [s|]; [apply Hs; discriminate|discriminate].
Qed.

Lemma D_any_resign cfg l (sg : N) : r_sigmode cfg = SigVerify -> list_ok cfg l -> D_any cfg (l, Some sg).
Proof. intros Hm [Hp Hs]. split; simpl; [exact Hp|intros _; apply Hs; exact Hm]. Qed.

Definition InvW (cfg : rcfg) (st : rstate) : Prop := InvG D_any cfg st.

(* a deployment history: segments, each started by a (re)start under its own configuration *)
Fixpoint run_segments (segs : list (rcfg * list rstep)) (s : env * rstate) : env * rstate :=
  match segs with
  | [] => s
  | (cfg, xs) :: r => run_segments r (fst (run_steps cfg (fst s, restart cfg (snd s)) xs))
  end.

Lemma segments_disk segs : forall s, Forall (fun p => disk_wf (snd p)) (disk (snd s)) ->
  Forall (fun p => disk_wf (snd p)) (disk (snd (run_segments segs s))).
Proof.
  induction segs as [|[cfg xs] segs IH]; intros s H; simpl; [exact H|].
  apply IH.
  pose proof (run_inv D_any D_any_accepts D_any_adopt D_any_resign cfg xs (fst s, restart cfg (snd s))) as Hr.
  simpl in Hr. destruct Hr as [_ Hd]; [apply (restart_inv D_any cfg cfg); exact H|exact Hd].
Qed.

Theorem reachable_segments_inv segs cfg xs :
  let s := run_segments segs init_state in
  InvW cfg (snd (fst (run_steps cfg (fst s, restart cfg (snd s)) xs))).
Proof.
  intros s. apply (run_inv D_any D_any_accepts D_any_adopt D_any_resign cfg xs (fst s, restart cfg (snd s))).
  simpl. apply (restart_inv D_any cfg cfg). apply segments_disk. simpl. constructor.
Qed.
