(* RunStore.v — evaluation of store operation sequences observed on the real backends. *)
From Verif Require Import Base Bytes KeyFacts Store StoreSpec.

Definition resN_eqb (a b : res N) : bool :=
  match a, b with Ok x, Ok y => N.eqb x y | Err x, Err y => N.eqb x y | _, _ => false end.
Definition resO_eqb (a b : res (option N)) : bool :=
  match a, b with
  | Ok None, Ok None => true
  | Ok (Some x), Ok (Some y) => N.eqb x y
  | Err x, Err y => N.eqb x y
  | _, _ => false
  end.
Definition obs_eqb (a b : obs) : bool :=
  match a, b with
  | BUnit, BUnit => true
  | BLookup x, BLookup y => resO_eqb x y
  | BGet x, BGet y => resN_eqb x y
  | _, _ => false
  end.
Fixpoint list_eqb {A} (eqb : A -> A -> bool) (a b : list A) : bool :=
  match a, b with
  | [], [] => true
  | x :: a', y :: b' => eqb x y && list_eqb eqb a' b'
  | _, _ => false
  end.

Fixpoint ins_sorted (x : N) (l : list N) : list N :=
  match l with [] => [x] | y :: t => if (x <=? y)%N then x :: l else y :: ins_sorted x t end.
Definition isort (l : list N) : list N := fold_right ins_sorted [] l.

(* boolean collision check over the keys of a history *)
Fixpoint nocoll_h (H : list (N * bytes)) : bool :=
  match H with
  | [] => true
  | (h, k) :: t => forallb (fun p => negb (N.eqb h (fst p)) || bytes_eqb k (snd p)) t && nocoll_h t
  end.
Definition nocoll_b (K : list bytes) : bool := nocoll_h (map (fun k => (fnv1a64 k, k)) K).

Record store_case := mk_sc {
  sc_idx : nat; sc_backend : backend; sc_ops : list op; sc_obs : list obs;
  sc_raw : option (list N) }. (* raw keys of the live store at the end, sorted *)

Definition sc_agrees (c : store_case) : bool :=
  let '(st, o) := run (sc_backend c) init (sc_ops c) in
  list_eqb obs_eqb o (sc_obs c)
  && match sc_raw c with None => true | Some r => list_eqb N.eqb (isort (raw_keys (live st))) r end
  (* and the model itself agrees with the abstract map whenever the history is collision free *)
  && (negb (nocoll_b (keys_of (sc_ops c))) || list_eqb obs_eqb o (snd (arun ainit (sc_ops c)))).

Definition store_mismatches (l : list store_case) : list nat :=
  map sc_idx (filter (fun c => negb (sc_agrees c)) l).

(* ---- C09: single lookups under a lookup-time fault *)
Record fault_case := mk_fc {
  fc_idx : nat; fc_backend : backend; fc_fault : fault; fc_issuer : bytes;
  fc_record : option sval;   (* what sits under the probed key *)
  fc_obs : res (option N) }.

Definition fc_agrees (c : fault_case) : bool :=
  let s := match fc_record c with None => [] | Some v => put [] (hkey (key_with (look_sep (fc_backend c)) (fc_issuer c) 7)) v end in
  resO_eqb (st_lookup (fc_backend c) s (fc_fault c) (fc_issuer c) 7) (fc_obs c).
Definition fault_mismatches (l : list fault_case) : list nat :=
  map fc_idx (filter (fun c => negb (fc_agrees c)) l).
