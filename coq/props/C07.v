(* C07 — parser totality: hostile bytes yield an error, never a crash or a huge allocation.
   Property theorems only; proofs are in ReaderSafe.v. *)
From Verif Require Import Base Bytes Reader Asn1Parser Pem CrlReader ReaderSafe.
From Verif.gen Require GenFacts.

(* For EVERY byte stream, every verdict of Go's libraries on the pieces handed to them, every
   chunk schedule and every consumer failure point: reading ends with a result or an ordinary
   error — never a run-time panic; the fuel `length stream + 1` of the entry loop is never
   exhausted (every iteration consumes input); and every single allocation request
   (make([]byte, n)) is between 0 and the element limit plus a 17-byte header, whatever the
   length fields in the input claim. *)
Theorem C07_total : forall L stream s1 s2 fail_at,
  let '(evs, r, allocs) := read_stream L stream s1 s2 fail_at in
  (forall p, r <> Panic p) /\ r <> OutOfFuel /\
  Forall (fun a => (0 <= a <= GenFacts.struct_limit + 17)%Z) allocs.
Proof. exact C07_total_proof. Qed.
Print Assumptions C07_total.

(* the same for any file content, DER or PEM (the PEM line filter and the base64 step are
   total functions of the file) *)
Theorem C07_total_file : forall L file s1 s2 fail_at,
  let '(evs, r, allocs) := read_crl L file s1 s2 fail_at in
  (forall p, r <> Panic p) /\ r <> OutOfFuel /\
  Forall (fun a => (0 <= a <= GenFacts.struct_limit + 17)%Z) allocs.
Proof. intros. apply C07_total. Qed.
Print Assumptions C07_total_file.

(* the auxiliary parsers reached with attacker-chosen bytes (CRL number, key identifiers) *)
Theorem C07_aux_total : forall bs,
  (forall p, fst (read_big_int {| rdr := mk_rd bs []; evs_rev := []; nev := 0; fail_at := None |}) <> Panic p) /\
  (forall p, fst (parse_octet_string {| rdr := mk_rd bs []; evs_rev := []; nev := 0; fail_at := None |}) <> Panic p).
Proof. exact C07_aux_proof. Qed.
Print Assumptions C07_aux_total.

(* non-vacuity: a 5-byte input whose length field announces 2^32-1 bytes is an error *)
Example C07_hostile_length :
  snd (fst (read_stream {| lib_ok := fun _ _ => true; lib_exts := fun _ => []; lib_alg_oid := fun _ => ""%string |}
                        [48; 132; 255; 255; 255; 255]%N [] [] None)) = Err e_eof.
Proof. vm_compute. reflexivity. Qed.
