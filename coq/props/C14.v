(* C14 — OCSP cache soundness: right certificate, bounded lifetime.  Property theorems only.
   Time is an integer (nanoseconds); the clock-skew allowance comes from the source. *)
From Verif Require Import Base Ocsp OcspProofs OcspPrune.
From Verif.gen Require GenFacts.

(* the key is (issuer, serial): a query about another certificate neither reads nor writes
   this certificate's entry *)
Theorem C14_key : forall cfg c k k' now nu l,
  k <> k' -> cache_find (snd (ocsp_check cfg c k' now nu l)) k = cache_find c k.
Proof. exact cache_only_same_key. Qed.
Print Assumptions C14_key.

(* an entry created at time t0 expires at t0 + L with
   L = nextUpdate - t0 + skew when nextUpdate is in the future, else the configured default *)
Theorem C14_lifetime : forall cfg c k now nu l,
  cache_get c k now = None ->
  forall e, cache_find (snd (ocsp_check cfg c k now nu l)) k = Some e ->
  cache_find c k = Some e \/
  (ce_expires e = now + lifetime now nu (o_default_life cfg) /\ lifetime now nu (o_default_life cfg) > 0)%Z.
Proof. exact fresh_entry_expiry. Qed.
Theorem C14_lifetime_value : forall now nu default,
  lifetime now nu default =
  match nu with
  | Some n => if (n - now >? 0)%Z then (n - now + GenFacts.max_clock_skew_ns)%Z else default
  | None => default end.
Proof. exact lifetime_spec. Qed.
Print Assumptions C14_lifetime.

(* no matter how often (and when) the entry is read, its expiry does not move, and from the
   expiry instant on it is never returned *)
Theorem C14_reads_do_not_extend : forall cfg c k nu l times,
  let c' := fold_left (fun cc t => match cache_get cc k t with Some _ => snd (ocsp_check cfg cc k t nu l) | None => cc end) times c in
  cache_find c' k = cache_find c k.
Proof. exact reads_do_not_extend. Qed.
Theorem C14_expired_never_returned : forall c k deadline now,
  entries_expire_by c k deadline -> (deadline <= now)%Z -> cache_get c k now = None.
Proof. exact no_hit_after_deadline. Qed.
Print Assumptions C14_reads_do_not_extend.

(* zero default and no usable nextUpdate: nothing is cached; failed queries are never cached *)
Theorem C14_zero_caches_nothing : forall cfg c k now l,
  (o_default_life cfg <= 0)%Z -> snd (ocsp_check cfg c k now None l) = c.
Proof. exact zero_default_no_next_caches_nothing. Qed.
Theorem C14_failed_not_cached : forall cfg c k now nu l,
  first_answer (filter_http l) = None -> snd (ocsp_check cfg c k now nu l) = c.
Proof. exact failed_query_not_cached. Qed.
Print Assumptions C14_zero_caches_nothing.

(* The cache as the code has it (no library timers): a map in which an addition replaces the item of its key, an
   add counter (uint64, wrapping), and every interval-th addition deleting the expired items.  For EVERY history
   of checks at non-decreasing times, every prune interval and every counter state, its verdicts are those of the
   simple cache above (a list that only grows): replacement and pruning are invisible, so every theorem of this
   file — and of C02/C05 — about `ocsp_check` holds for the pruned cache; in particular pruning can neither
   lengthen a lifetime nor bring back an expired answer. *)
Theorem C14_pruned_cache_refines : forall interval cfg h T c1 adds c2,
  sim T c1 c2 -> monotone_from T h -> run_p interval cfg (c1, adds) h = run_simple cfg c2 h.
Proof. exact pruned_cache_refines. Qed.
Print Assumptions C14_pruned_cache_refines.
Theorem C14_pruned_cache_from_empty : forall interval cfg h T adds,
  monotone_from T h -> run_p interval cfg ([], adds) h = run_simple cfg [] h.
Proof. exact pruned_cache_from_empty. Qed.
Print Assumptions C14_pruned_cache_from_empty.
(* pruning at `now` is invisible to every lookup at `now` or later, and the map never holds two items for a key *)
Theorem C14_prune_invisible : forall c now k t,
  uniq c -> (now <= t)%Z -> cache_get (cache_prune c now) k t = cache_get c k t.
Proof. exact get_prune. Qed.
Print Assumptions C14_prune_invisible.
