(* C03 — Mode composition: the verdict is exactly what the configured mode promises.
   Property theorems only; proofs live in C03Proofs.v. *)
From Verif Require Import Base Validator C03Proofs.
Open Scope string_scope.

(* the documented mode strings, the default, and rejection of everything else *)
Theorem C03_table :
  parse_mode "" = Some (Some PreferOCSP) /\
  parse_mode "prefer_ocsp" = Some (Some PreferOCSP) /\
  parse_mode "prefer_crl" = Some (Some PreferCRL) /\
  parse_mode "ocsp_only" = Some (Some OCSPOnly) /\
  parse_mode "crl_only" = Some (Some CRLOnly) /\
  parse_mode "disabled" = Some (Some Disabled) /\
  (forall s, ~ In s [""; "prefer_ocsp"; "prefer_crl"; "ocsp_only"; "crl_only"; "disabled"] ->
             parse_mode s = Some None).
Proof. exact C03_table_proof. Qed.
Print Assumptions C03_table.

Theorem C03_enabled :
  (ocsp_enabled PreferOCSP, crl_enabled PreferOCSP) = (true, true) /\
  (ocsp_enabled PreferCRL, crl_enabled PreferCRL) = (true, true) /\
  (ocsp_enabled OCSPOnly, crl_enabled OCSPOnly) = (true, false) /\
  (ocsp_enabled CRLOnly, crl_enabled CRLOnly) = (false, true) /\
  (ocsp_enabled Disabled, crl_enabled Disabled) = (false, false).
Proof. exact C03_enabled_proof. Qed.
Print Assumptions C03_enabled.

(* rejected iff an enabled mechanism reports revoked or an error; for every mode and
   every pair of mechanism outcomes *)
Theorem C03_iff : forall m ans,
  exists t v, verify_client true m ans = Some (t, v) /\
  (v = Reject <->
     (ocsp_enabled m = true /\ ans MOcsp <> NotRevoked) \/
     (crl_enabled m = true /\ ans MCrl <> NotRevoked)).
Proof. exact C03_iff_proof. Qed.
Print Assumptions C03_iff.

(* effect discipline: a mechanism is consulted only if the mode enables it; disabled
   consults nothing; an enabled mechanism is consulted unless an earlier one already
   rejected (so both prefer_* modes enforce both mechanisms) *)
Theorem C03_effects : forall m ans t v,
  verify_client true m ans = Some (t, v) ->
  (In MOcsp t -> ocsp_enabled m = true) /\
  (In MCrl t -> crl_enabled m = true) /\
  (m = Disabled -> t = []) /\
  (v = Accept -> (ocsp_enabled m = true -> In MOcsp t) /\ (crl_enabled m = true -> In MCrl t)).
Proof. exact C03_effects_proof. Qed.
Print Assumptions C03_effects.
