(* C02 — OCSP soundness and AIA-strict semantics.  Property theorems only. *)
From Verif Require Import Base Ocsp OcspProofs.

(* an authentic 'revoked' delivered by whichever responder is the first to give an authentic
   answer decides — for every responder list, every position, every behaviour of the responders
   before it (refused, HTTP error, garbage, answer about another certificate, stranger-signed,
   non-HTTP URL ...) and after it *)
Theorem C02_revoked_fetched : forall cfg c k now nu pre post,
  cache_get c k now = None ->
  Forall (fun b => match b with Answer _ true => False | _ => True end) pre ->
  fst (ocsp_check cfg c k now nu (pre ++ Answer SRevoked true :: post)) = ORevoked.
Proof. exact revoked_first. Qed.
Print Assumptions C02_revoked_fetched.

(* ... or served from a still-valid cache entry *)
Theorem C02_revoked_cached : forall cfg c k now nu l,
  cache_get c k now = Some SRevoked -> fst (ocsp_check cfg c k now nu l) = ORevoked.
Proof. exact cached_revoked. Qed.
Print Assumptions C02_revoked_cached.

(* strict: with at least one HTTP responder, acceptance requires an authentic answer (or a
   live cache entry) *)
Theorem C02_strict : forall cfg c k now nu l,
  o_strict cfg = true -> filter_http l <> [] -> fst (ocsp_check cfg c k now nu l) = OAccept ->
  (exists st, cache_get c k now = Some st /\ st <> SRevoked) \/
  (exists st, first_answer (filter_http l) = Some st /\ st <> SRevoked).
Proof. exact strict_needs_answer. Qed.
Print Assumptions C02_strict.

(* lenient: responder unavailability alone never rejects; no HTTP responder: accepted *)
Theorem C02_lenient : forall cfg c k now nu l, o_strict cfg = false -> fst (ocsp_check cfg c k now nu l) <> OError.
Proof. exact lenient_never_error. Qed.
Theorem C02_no_responder : forall cfg c k now nu l,
  cache_get c k now = None -> filter_http l = [] -> fst (ocsp_check cfg c k now nu l) = OAccept.
Proof. exact no_responder_accepts. Qed.
Print Assumptions C02_lenient.
