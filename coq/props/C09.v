(* C09 — fail closed: a storage failure during lookup is never reported as 'not revoked'.
   Property theorems only (store level; the lift through the repository is in C01/C10). *)
From Verif Require Import Base Bytes Store C09Proofs.

(* a read error or a closed database is an error, for listed and unlisted certificates,
   whatever the store contains *)
Theorem C09_fault_is_error : forall s f i z,
  f <> NoFault -> exists e, st_lookup LevelB s f i z = Err e.
Proof. exact fault_is_error. Qed.
Print Assumptions C09_fault_is_error.

(* a record that does not decode as a revoked-certificate entry is an error on both backends *)
Theorem C09_undecodable_is_error : forall b s f i z v,
  get s (hkey (key_with (look_sep b) i z)) = Some v -> (forall e, v <> VEntry e) ->
  exists e, st_lookup b s f i z = Err e.
Proof. exact undecodable_is_error. Qed.
Print Assumptions C09_undecodable_is_error.

(* 'not revoked' is answered only when the read succeeded and the key is absent *)
Theorem C09_not_revoked_only_if_absent : forall b s f i z,
  st_lookup b s f i z = Ok None ->
  get s (hkey (key_with (look_sep b) i z)) = None /\ (b = LevelB -> f = NoFault).
Proof. exact not_revoked_only_if_absent. Qed.
Print Assumptions C09_not_revoked_only_if_absent.
