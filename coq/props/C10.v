(* C10 — CDP strictness.  Property theorems only. *)
From Verif Require Import Base Repo RepoProofs RepoProps.

(* strict: over every history, a certificate naming distribution points is accepted only if
   the entry of its distribution-point set is loaded, and loaded means that a whole list
   accepted under the signature policy is in force (also after restarts) *)
Theorem C10_strict : forall cfg history ev c,
  let st := snd (fst (run_steps cfg init_state history)) in
  r_strict cfg = true -> c_cdps c <> [] -> snd (handshake cfg ev st c) = VAccept ->
  exists e l, lookup (http_locs c) (entries (lookup_state cfg ev st c)) = Some e /\
              e_loaded e = true /\ e_list e = Some l /\ list_ok cfg l.
Proof. intros cfg history ev c st. apply handshake_strict. apply reachable_inv. Qed.
Print Assumptions C10_strict.

(* in particular: unsupported locations only, nothing loaded yet, failed loads -> denied *)
Theorem C10_strict_denies_unusable : forall cfg st c,
  r_strict cfg = true -> c_cdps c <> [] -> http_locs c = [] -> is_revoked cfg st c = VError.
Proof.
  intros cfg st c Hs Hc Hh. unfold is_revoked. rewrite Hs, Hh. destruct (c_cdps c); [congruence|reflexivity].
Qed.
Print Assumptions C10_strict_denies_unusable.

(* lenient: no handshake is ever denied for a reason other than revocation *)
Theorem C10_lenient : forall cfg ev st c, r_strict cfg = false -> snd (handshake cfg ev st c) <> VError.
Proof. intros. apply handshake_lenient. assumption. Qed.
Print Assumptions C10_lenient.
