(* C12 — crash consistency of disk storage.  Property theorems only. *)
From Verif Require Import Base Repo RepoProofs RepoProps.

(* whichever atomic file-system action of a first load or a refresh was the last one before
   the process died (download, staging-store writes k = 0,1,2,..., acceptance, and each of
   the five steps of the directory swap): after restart no temporary artefact remains, and the
   location counts as loaded only if its directory holds one complete accepted list — the
   previous one or the new one *)
Theorem C12_crash_consistent : forall cfg old new ph,
  (forall o, old = Some o -> list_ok cfg (fst o)) -> list_ok cfg (fst new) ->
  let '(l, temps) := after_restart (crash_image old new ph) in
  temps = 0 /\ (l = old \/ l = None \/ l = Some new) /\ (forall x, l = Some x -> list_ok cfg (fst x)).
Proof. exact crash_consistent. Qed.
Print Assumptions C12_crash_consistent.

(* on the running system: in every reachable state every directory on disk holds a whole
   list that was accepted under the signature policy (nothing partial, nothing rejected), so a
   clean restart at any point between operations is consistent as well *)
Theorem C12_disk_invariant : forall cfg history id l sg,
  In (id, (l, sg)) (disk (snd (fst (run_steps cfg init_state history)))) -> list_ok cfg l.
Proof.
  intros cfg history id l sg Hin. pose proof (reachable_inv cfg history) as [_ Hd].
  rewrite Forall_forall in Hd. apply (Hd _ Hin).
Qed.
Print Assumptions C12_disk_invariant.

(* after a restart an entry is loaded iff the disk has such a list for it and the list counts under the
   configuration (under 'verify': stored with the certificate that verified it, still usable as a signer) *)
Theorem C12_restart_loaded : forall cfg st id c,
  let e := new_entry cfg (restart cfg st) id c in
  e_loaded e = true <->
  exists l sg, r_storage cfg = Disk /\ lookup id (disk st) = Some (l, sg) /\
               adopt_counts cfg sg (c_chain c) = true /\ e_list e = Some l.
Proof.
  intros cfg st id c e. unfold e, new_entry, restart. simpl. destruct (r_storage cfg); simpl.
  - split; [discriminate|intros (l & sg & H & _); discriminate].
  - destruct (lookup id (disk st)) as [[l sg]|]; simpl.
    + destruct (adopt_counts cfg sg (c_chain c)) eqn:Ea; simpl.
      * split; [intros _; exists l, sg; auto|reflexivity].
      * split; [discriminate|]. intros (l0 & sg0 & _ & [= <- <-] & Ha & _). congruence.
    + split; [discriminate|intros (l0 & sg0 & _ & H & _); discriminate].
Qed.
Print Assumptions C12_restart_loaded.
