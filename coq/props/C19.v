(* C19 — configuration faithfulness: Caddyfile = JSON, documented defaults, no ignoring.
   Property theorems only.  The Caddyfile handler table, the pointer/value passing of its entry
   parsers, the enum tables and defaults are regenerated from the Go source on every run. *)
From Verif Require Import Base Validator Config ConfigProofs.
From Verif.gen Require GenFacts.
Open Scope string_scope.

(* for every sequence of option occurrences (any subset of the documented options, any values,
   list options repeated any number of times) the Caddyfile adapter accepts it and yields exactly
   the raw configuration of the JSON form; both then go through the same parsing *)
Theorem C19_caddyfile_eq_json : forall os r, cf_all r os = Some (json_all r os).
Proof. exact caddyfile_eq_json. Qed.
Print Assumptions C19_caddyfile_eq_json.

(* omitted options take the documented defaults *)
Theorem C19_defaults :
  eff_mode raw_empty = Some "RevocationCheckModePreferOCSP" /\
  eff_storage raw_empty = Some "Disk" /\
  eff_sigmode raw_empty = Some "SignatureValidationModeVerify" /\
  eff_fetch raw_empty = Some "CRLFetchModeActively" /\
  eff_cdp_strict raw_empty = false /\ eff_aia_strict raw_empty = false /\
  GenFacts.default_update_interval_ns = (30 * 60 * 1000000000)%Z.
Proof. exact defaults. Qed.
Print Assumptions C19_defaults.

(* unknown values are rejected, not ignored — for every string outside the documented ones *)
Theorem C19_unknown_values_rejected : forall r s,
  s <> "" ->
  (~ In s ["prefer_crl"; "prefer_ocsp"; "ocsp_only"; "crl_only"; "disabled"] -> eff_mode (json_set r (OMode s)) = None) /\
  (~ In s ["memory"; "disk"] -> eff_storage (json_set r (OStorage s)) = None) /\
  (~ In s ["none"; "verify_log"; "verify"] -> eff_sigmode (json_set r (OSigMode s)) = None) /\
  (~ In s ["fetch_actively"; "fetch_background"] -> eff_fetch (json_set r (OFetch s)) = None).
Proof. exact unknown_values_rejected. Qed.
Print Assumptions C19_unknown_values_rejected.

(* unknown subdirectives are an error in every Caddyfile block (JSON: StrictUnmarshalJSON) *)
Theorem C19_unknown_keys_rejected : forallb snd GenFacts.caddyfile_unknown_rejected = true /\
  map fst GenFacts.caddyfile_unknown_rejected = ["top"; "crl"; "cdp"; "ocsp"].
Proof. exact unknown_keys_rejected. Qed.
Print Assumptions C19_unknown_keys_rejected.
