(* C01 — CRL soundness: a certificate listed in a CRL in force is always rejected.
   Property theorems only.  The statement is the composition of four layers, each proved
   for all inputs of its layer:
     reader   (C06_main)  every entry of the document reaches the consumer, wherever it sits;
     store    (C01_store) a pair that was inserted is never answered "not revoked";
     repo     (C01_repo)  a list in force that lists issuer+serial makes every handshake fail,
                          in every reachable state of every history;
     verifier (C03_iff)   a CRL outcome other than "not revoked" rejects in every mode that
                          enables CRL checking, whatever OCSP answered. *)
From Verif Require Import Base Bytes Store StoreSpec Repo RepoProofs RepoProps Validator C03Proofs.
From Verif Require Import Reader Asn1Parser CrlReader CrlSpec C06Proofs.

Theorem C01_reader : forall L d number hash verifier s1 s2 c,
  wf_profile L d number hash verifier -> In c (entries_of d) ->
  In (EvInsert (tlv TAG_SEQ c)) (fst (fst (read_stream L (encode_crl d) s1 s2 None))).
Proof.
  intros L d number hash verifier s1 s2 c H Hin.
  destruct (read_stream_encode L d number hash verifier H s1 s2) as [a ->]. simpl.
  right. apply in_or_app. left. apply in_map_iff. exists c. auto.
Qed.
Print Assumptions C01_reader.

Theorem C01_store : forall b ins s issuer serial e fault,
  In (issuer, serial, e) ins -> st_lookup b (insert_all b s ins) fault issuer serial <> Ok None.
Proof. exact inserted_never_not_revoked. Qed.
Print Assumptions C01_store.

(* for every configuration, every history of location states / handshakes / refreshes (with
   storage faults) / restarts, and every certificate: if after the history some list in force
   lists the certificate's serial under its issuer, the handshake does not accept *)
Theorem C01_repo : forall cfg history ev c id l,
  let st := snd (fst (run_steps cfg init_state history)) in
  in_force st id l -> l_issuer l = c_issuer c -> In (c_serial c) (l_serials l) ->
  snd (handshake cfg ev st c) <> VAccept.
Proof.
  intros cfg history ev c id l st Hf Hi Hs. eapply handshake_sound; [exact Hf|].
  unfold listed. rewrite Hi, N.eqb_refl. simpl. apply existsb_exists. exists (c_serial c). split; [exact Hs|apply Z.eqb_refl].
Qed.
Print Assumptions C01_repo.

Theorem C01_compose : forall m ans, crl_enabled m = true -> ans MCrl <> NotRevoked ->
  exists t, verify_client true m ans = Some (t, Reject).
Proof.
  intros m ans He Hc. destruct (C03_iff_proof m ans) as (t & v & E & Hiff).
  exists t. rewrite E. f_equal. f_equal. apply Hiff. right. auto.
Qed.
Print Assumptions C01_compose.
