(* C08 — refresh is all-or-nothing and a failed refresh keeps the previous CRL in force.
   Property theorems only. *)
From Verif Require Import Base Repo RepoProofs RepoProps.

(* a refresh that cannot obtain an acceptable list (download refused / error body / garbage /
   truncated / bad signature / unknown signer / staging store cannot be created / insert
   fails at step k) leaves every entry — list, loaded flag, signer, locations — and the disk
   exactly as they were (the only thing that may change is the in-memory note of which list failed
   verification last, which no lookup reads) *)
Theorem C08_failed_refresh_keeps : forall cfg ev f st,
  (forall id e, In (id, e) (entries st) -> unacceptable cfg ev f e) ->
  entries (refresh_all cfg ev f st) = entries st /\ disk (refresh_all cfg ev f st) = disk st.
Proof. exact refresh_failed_keeps. Qed.
Print Assumptions C08_failed_refresh_keeps.

(* the listed failures are unacceptable in the sense above *)
Theorem C08_failures : forall cfg p avail l k,
  accepts cfg p Down avail NoFault = None /\ accepts cfg p Garbage avail NoFault = None /\
  accepts cfg p (Serve l) avail StagingCreateFails = None /\
  ((k < 2 + length (l_serials l))%nat -> accepts cfg p (Serve l) avail (InsertFails k) = None) /\
  (l_parse_ok l = false -> accepts cfg p (Serve l) avail NoFault = None) /\
  (r_sigmode cfg = SigVerify -> verified l avail = false -> accepts cfg p (Serve l) avail NoFault = None).
Proof. exact failures_unacceptable. Qed.
Print Assumptions C08_failures.

(* atomic: whatever happens, afterwards the entry holds its previous list or the whole new
   accepted list — never an empty, partial or mixed one *)
Theorem C08_all_or_nothing : forall cfg ev p id e avail f,
  let e' := fst (intake cfg ev p id e avail f) in
  e' = e \/ (exists l loc, ev loc = Serve l /\ e_list e' = Some l /\ e_loaded e' = true /\ list_ok cfg l).
Proof. exact intake_all_or_nothing. Qed.
Print Assumptions C08_all_or_nothing.

(* and a later successful refresh still takes effect *)
Theorem C08_later_success : forall cfg ev id e l avail,
  e_locs e = id -> id <> [] -> ev (hd 0%N id) = Serve l -> l_parse_ok l = true ->
  (r_sigmode cfg = SigVerify -> verified l avail = true) ->
  e_list (fst (intake cfg ev Refresh id e avail NoFault)) = Some l.
Proof. exact refresh_succeeds. Qed.
Print Assumptions C08_later_success.

(* ... also across a key rollover: after a refresh that failed verification and a handshake whose chain verifies
   the list that failed, the entry knows the new signer and the next refresh takes the list in *)
Theorem C08_later_success_after_rollover : forall cfg ev st id c e l loc rest,
  r_sigmode cfg = SigVerify -> lookup id (marks st) = Some l -> lookup id (entries st) = Some e ->
  e_loaded e = true -> e_locs e = loc :: rest -> ev loc = Serve l -> l_parse_ok l = true ->
  verified l (c_chain c) = true ->
  exists e1, lookup id (entries (resigned_state cfg st id c)) = Some e1 /\
             e_signer e1 = Some (l_signer l) /\ e_list e1 = e_list e /\
             e_list (fst (intake cfg ev Refresh id e1 (match e_signer e1 with Some s => [s] | None => [] end) NoFault)) = Some l.
Proof. exact rollover_refresh. Qed.
Print Assumptions C08_later_success_after_rollover.

Example C08_rollover_history :
  snd (run_steps {| r_storage := Disk; r_sigmode := SigVerify; r_fetch := Active; r_strict := true |} init_state
        [SServe 1 (Serve l_old); SHandshake (cert_of 1 101); SServe 1 (Serve l_rolled); SRefresh NoFault;
         SHandshake (cert_of 1 101); SHandshake (cert_of 1 102); SHandshake (cert_of 2 900); SRefresh NoFault;
         SHandshake (cert_of 1 101); SHandshake (cert_of 1 102)]) =
  [None; Some VRevoked; None; None; Some VRevoked; Some VAccept; Some VAccept; None; Some VAccept; Some VRevoked].
Proof. exact rollover_example. Qed.

(* observers: lookups are atomic with respect to the commit of a refresh (entry lock), so a
   sequence of lookups interleaved with one refresh sees the old list, then the new one *)
Theorem C08_old_then_new : forall cfg ev f st c (before after : nat),
  let st' := refresh_all cfg ev f st in
  map (fun _ => is_revoked cfg st c) (seq 0 before) ++ map (fun _ => is_revoked cfg st' c) (seq 0 after) =
  repeat (is_revoked cfg st c) before ++ repeat (is_revoked cfg st' c) after.
Proof. exact old_then_new. Qed.
Print Assumptions C08_old_then_new.
