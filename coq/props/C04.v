(* C04 — CRL authenticity: under 'verify' only a CRL signed by an entitled issuer counts.
   Property theorems only.  (That 'verify' admits into force only lists with the verified bit
   set is C16_meaning / C16_verify_never_unverified; that the digest input is exactly the DER
   tbsCertList is C06_digest; what `verified` means is stated here.) *)
From Verif Require Import Base Chains ChainsProofs Reader Asn1Parser CrlReader.
From Verif.gen Require GenFacts.

(* a CRL signature is accepted only under the key of a certificate that (a) is in the
   presented chain above the end-entity or is a configured trusted signer, (b) matches the
   CRL by issuer name + key algorithm, or by authority key identifier, (c) is entitled: not
   the end-entity, and cRLSign set whenever the key usage extension is present; and only if
   (d) the signature was made by exactly that key over the untampered signed content *)
Theorem C04_verified_means : forall s chs c,
  verify_crl_sig s chs = Some c ->
  In c (concat chs) /\ entitled c = true /\ k_key c = s_signed_by s /\ s_intact s = true /\
  (match s_aki_keyid s, s_aki_issuer_serial s with
   | None, None => k_subject c = s_issuer s /\ k_alg c = s_alg s
   | _, Some (i, z) => k_serial c = z /\ k_issuer c = i
   | Some kid, None => k_ski c = kid end).
Proof. exact verify_sound. Qed.
Print Assumptions C04_verified_means.

Theorem C04_end_entity_never : forall s chs c, verify_crl_sig s chs = Some c -> k_end_entity c = false.
Proof. exact end_entity_never. Qed.
Theorem C04_leaf_is_marked : forall verified trusted ch c rest,
  In ch verified -> ch = c :: rest ->
  exists c', In c' (concat (new_chains verified trusted)) /\ k_key c' = k_key c /\ k_end_entity c' = true.
Proof. exact leaf_marked. Qed.
Theorem C04_crlsign_required : forall s chs c,
  verify_crl_sig s chs = Some c -> k_ku_present c = true -> k_ku_crlsign c = true.
Proof. exact crlsign_required. Qed.
Print Assumptions C04_end_entity_never.

(* any change of the signed content, the signature or the declared algorithm; any other key *)
Theorem C04_tampered_never : forall s chs, s_intact s = false -> verify_crl_sig s chs = None.
Proof. exact tampered_never. Qed.
Theorem C04_foreign_key_never : forall s chs,
  (forall c, In c (concat chs) -> k_key c <> s_signed_by s) -> verify_crl_sig s chs = None.
Proof. exact foreign_key_never. Qed.
Print Assumptions C04_tampered_never.

(* an algorithm outside the table generated from the source yields no hash, hence no result *)
Theorem C04_unsupported_algorithm : forall L alg s,
  assoc (lib_alg_oid L alg) GenFacts.oid_hash_table = None ->
  fst (lookup_strategies L alg s) = Err e_alg.
Proof. intros L alg s H. unfold lookup_strategies. rewrite H. reflexivity. Qed.
Theorem C04_supported_algorithms :
  map fst GenFacts.oid_hash_table =
  ["1.2.840.10045.4.1"; "1.2.840.10045.4.3.1"; "1.2.840.10045.4.3.2"; "1.2.840.10045.4.3.3"; "1.2.840.10045.4.3.4";
   "1.2.840.113549.1.1.11"; "1.2.840.113549.1.1.12"; "1.2.840.113549.1.1.13"; "1.2.840.113549.1.1.14"; "1.2.840.113549.1.1.5"]%string.
Proof. reflexivity. Qed.
Print Assumptions C04_unsupported_algorithm.
