(* C05 — OCSP authenticity.  Property theorems only.  In the model a responder's answer carries
   the bit `authentic` = successful response, signature verifies under the issuer's key or
   under an embedded responder certificate that the issuer signed and that has the OCSPSigning
   extended key usage, and it contains the status of exactly the presented serial number; the
   harness establishes that bit for real responses (every signer kind, wrong serial, error
   statuses, byte mutations) against x/crypto/ocsp + the checker's own EKU test. *)
From Verif Require Import Base Ocsp OcspProofs.

(* a response that is not authentic has exactly the effect of no response at all — on the
   verdict AND on the cache — whatever it says, wherever it sits in the responder list *)
Theorem C05_unauthentic_is_no_answer : forall cfg c k now nu l,
  ocsp_check cfg c k now nu (erase_unauthentic l) = ocsp_check cfg c k now nu l.
Proof. exact unauthentic_is_no_answer. Qed.
Print Assumptions C05_unauthentic_is_no_answer.

(* nothing is cached unless an authentic answer was obtained *)
Theorem C05_cache_only_authentic : forall cfg c k now nu l,
  first_answer (filter_http l) = None -> snd (ocsp_check cfg c k now nu l) = c.
Proof. exact failed_query_not_cached. Qed.
Print Assumptions C05_cache_only_authentic.
