(* C06 — the streaming CRL reader agrees with a whole-document reference decoder.
   Property theorems only; proofs are in C06Core.v / C06Proofs.v. *)
From Verif Require Import Base Bytes Reader Asn1Parser Pem CrlReader CrlSpec C06Core C06Proofs.

(* For every document d of the supported profile (v1 or v2, UTCTime update times, every leaf
   structure within the 80 KiB element limit and accepted by encoding/asn1; ANY number of
   entries, any entry content, with or without nextUpdate / revokedCertificates /
   crlExtensions), every library oracle L, and EVERY pair of chunk schedules (how many bytes
   each underlying Read returns, i.e. where element boundaries fall relative to the buffer
   windows):  the reader run on the DER encoding of d hands its consumer exactly the reference
   events (start with issuer/thisUpdate/nextUpdate, one insert per entry in order, ext-meta
   with the CRL number), and the bytes it hashed are exactly the DER tbsCertList.  If the
   extension list carries an unimplemented critical extension the result is an error. *)
Theorem C06_main : forall L d number hash verifier s1 s2,
  wf_profile L d number hash verifier ->
  exists allocs,
    read_stream L (encode_crl d) s1 s2 None =
    (events_of number d,
     (if crit_of L d then Err e_critical else Ok (result_of d hash verifier)),
     allocs).
Proof. intros. apply read_stream_encode. assumption. Qed.
Print Assumptions C06_main.

(* the digest input of an accepted CRL is the DER tbsCertList, the signature and issuer are
   those of the document *)
Theorem C06_digest : forall d hash verifier,
  r_digest_input (result_of d hash verifier) = encode_tbs d /\
  r_sig (result_of d hash verifier) = d_sig d /\
  r_issuer (result_of d hash verifier) = tlv TAG_SEQ (d_issuer d).
Proof. intros. repeat split. Qed.
Print Assumptions C06_digest.

(* hence the outcome does not depend on the chunking *)
Theorem C06_sched : forall L d number hash verifier s1 s2 s1' s2',
  wf_profile L d number hash verifier ->
  fst (read_stream L (encode_crl d) s1 s2 None) = fst (read_stream L (encode_crl d) s1' s2' None).
Proof.
  intros L d number hash verifier s1 s2 s1' s2' H.
  destruct (read_stream_encode L d number hash verifier H s1 s2) as [a ->].
  destruct (read_stream_encode L d number hash verifier H s1' s2') as [a' ->].
  reflexivity.
Qed.
Print Assumptions C06_sched.

(* rejected, never partially interpreted: with an unimplemented critical extension no result
   is returned *)
Theorem C06_reject_critical : forall L d number hash verifier s1 s2,
  wf_profile L d number hash verifier -> crit_of L d = true ->
  exists evs allocs, read_stream L (encode_crl d) s1 s2 None = (evs, Err e_critical, allocs).
Proof.
  intros L d number hash verifier s1 s2 H Hc.
  destruct (read_stream_encode L d number hash verifier H s1 s2) as [a E].
  rewrite Hc in E. eauto.
Qed.
Print Assumptions C06_reject_critical.

(* non-vacuity: a concrete two-entry v2 document with extensions satisfies the profile *)
Example C06_nonvacuous : exists L d number hash verifier,
  wf_profile L d number hash verifier /\ length (entries_of d) = 2 /\ d_exts d <> None /\ crit_of L d = false.
Proof. exact C06_example. Qed.
