(* C06 — the streaming CRL reader agrees with a whole-document reference decoder.
   Property theorems only; proofs are in C06Core.v / C06Proofs.v. *)
From Verif Require Import Base Bytes Reader Asn1Parser Pem CrlReader CrlSpec C06Core C06Proofs PemProofs C06Version.

(* For every document d of the supported profile (v1 or v2, UTCTime update times, every leaf
   structure within the 80 KiB element limit and accepted by encoding/asn1; ANY number of
   entries, any entry content, with or without nextUpdate / revokedCertificates /
   crlExtensions), every library oracle L, and EVERY pair of chunk schedules (how many bytes
   each underlying Read returns, i.e. where element boundaries fall relative to the buffer
   windows):  the reader run on the DER encoding of d hands its consumer exactly the reference
   events (start with issuer/thisUpdate/nextUpdate, one insert per entry in order, ext-meta
   with the CRL number), and the bytes it hashed are exactly the DER tbsCertList.  If the
   extension list carries an unimplemented critical extension the result is an error. *)
Theorem C06_main : forall L d number hash verifier s1 s2,
  wf_profile L d number hash verifier ->
  exists allocs,
    read_stream L (encode_crl d) s1 s2 None =
    (events_of number d,
     (if crit_of L d then Err e_critical else Ok (result_of d hash verifier)),
     allocs).
Proof. intros. apply read_stream_encode. assumption. Qed.
Print Assumptions C06_main.

(* the digest input of an accepted CRL is the DER tbsCertList, the signature and issuer are
   those of the document *)
Theorem C06_digest : forall d hash verifier,
  r_digest_input (result_of d hash verifier) = encode_tbs d /\
  r_sig (result_of d hash verifier) = d_sig d /\
  r_issuer (result_of d hash verifier) = tlv TAG_SEQ (d_issuer d).
Proof. intros. repeat split. Qed.
Print Assumptions C06_digest.

(* hence the outcome does not depend on the chunking *)
Theorem C06_sched : forall L d number hash verifier s1 s2 s1' s2',
  wf_profile L d number hash verifier ->
  fst (read_stream L (encode_crl d) s1 s2 None) = fst (read_stream L (encode_crl d) s1' s2' None).
Proof.
  intros L d number hash verifier s1 s2 s1' s2' H.
  destruct (read_stream_encode L d number hash verifier H s1 s2) as [a ->].
  destruct (read_stream_encode L d number hash verifier H s1' s2') as [a' ->].
  reflexivity.
Qed.
Print Assumptions C06_sched.

(* rejected, never partially interpreted: with an unimplemented critical extension no result
   is returned *)
Theorem C06_reject_critical : forall L d number hash verifier s1 s2,
  wf_profile L d number hash verifier -> crit_of L d = true ->
  exists evs allocs, read_stream L (encode_crl d) s1 s2 None = (evs, Err e_critical, allocs).
Proof.
  intros L d number hash verifier s1 s2 H Hc.
  destruct (read_stream_encode L d number hash verifier H s1 s2) as [a E].
  rewrite Hc in E. eauto.
Qed.
Print Assumptions C06_reject_critical.

(* "the outcome is the same for DER and 64-column PEM (LF or CRLF)": for EVERY byte string, armoured with
   BEGIN/END X509 CRL lines and base64 in 64-column lines ending in LF or CRLF, the PEM path (IsPemFile, the line
   filter, the base64 decoder) hands the ASN.1 reader exactly that byte string; a DER document is never taken
   for PEM.  Hence the reader's outcome on the PEM file of a profile document is its outcome on the DER file. *)
Theorem C06_pem_roundtrip : forall eol der,
  is_eol eol -> Forall (fun b => (b < 256)%N) der -> stream_of_file (pem_file eol der) = der.
Proof. exact pem_roundtrip. Qed.
Print Assumptions C06_pem_roundtrip.

Theorem C06_pem : forall L d number hash verifier eol s1 s2,
  wf_profile L d number hash verifier -> is_eol eol -> Forall (fun b => (b < 256)%N) (encode_crl d) ->
  read_crl L (pem_file eol (encode_crl d)) s1 s2 None = read_crl L (encode_crl d) s1 s2 None /\
  exists allocs,
    read_crl L (pem_file eol (encode_crl d)) s1 s2 None =
    (events_of number d, (if crit_of L d then Err e_critical else Ok (result_of d hash verifier)), allocs).
Proof.
  intros L d number hash verifier eol s1 s2 Hwf He Hb.
  assert (E : read_crl L (pem_file eol (encode_crl d)) s1 s2 None = read_crl L (encode_crl d) s1 s2 None).
  { unfold read_crl. rewrite (pem_roundtrip eol (encode_crl d) He Hb).
    unfold encode_crl, tlv. rewrite der_stream. reflexivity. }
  split; [exact E|]. rewrite E. unfold read_crl.
  replace (stream_of_file (encode_crl d)) with (encode_crl d) by (unfold encode_crl, tlv; rewrite der_stream; reflexivity).
  apply read_stream_encode. exact Hwf.
Qed.
Print Assumptions C06_pem.

(* an unknown version is rejected where the version field is read — before the issuer, the update times or any
   entry has been handed to the consumer — for EVERY version byte other than 0 (v1) and 1 (v2), including 255
   (int(uint8)+1 does not wrap), and whatever bytes follow.  (Stated at the header phase: for the whole stream the
   first pass over the outer structure would have to be re-proved for documents outside the profile; whole
   documents with versions 3, 4, 128 and -1 are covered by the correspondence.) *)
Theorem C06_reject_unknown_version : forall L s (v : N) rest,
  c_rest (core_of s) = ([2; 1; v]%N ++ rest) -> (2 <= v)%N ->
  exists s', read_tbs_header L s = (Err e_version, s') /\ c_evs (core_of s') = c_evs (core_of s).
Proof. intros L s v rest Hr Hv. exact (header_rejects_version L s (core_of s) v rest eq_refl Hr Hv). Qed.
Print Assumptions C06_reject_unknown_version.

(* ... and for WHOLE documents: take ANY CertificateList whose tbsCertList begins with a version INTEGER v >= 2
   (one content byte: 2..255, i.e. v3, v4, ..., and -1 = 0xFF) followed by ANY bytes `rest` (in or out of the
   profile), an outer signatureAlgorithm the library accepts, any signature.  For every pair of chunk schedules
   ReadCRL — first pass to the outer algorithm identifier, second pass from the first byte — returns an error and
   has handed the consumer NOTHING (no StartUpdateCrl, no entry): "unsupported version" when the algorithm is one
   of the implemented ones, "unknown algorithm" otherwise.  Never a partial interpretation. *)
Theorem C06_reject_unknown_version_document : forall L (v : N) rest outer_alg sig s1 s2,
  (2 <= v)%N -> fits outer_alg -> lib_ok L KAlgId (tlv TAG_SEQ outer_alg) = true ->
  (Z.of_nat (length (encode_crl_raw ([2; 1; v]%N ++ rest) outer_alg sig)) < two63)%Z ->
  exists allocs,
    read_stream L (encode_crl_raw ([2; 1; v]%N ++ rest) outer_alg sig) s1 s2 None =
    ([], Err (match assoc (lib_alg_oid L (tlv TAG_SEQ outer_alg)) GenFacts.oid_hash_table with
              | Some _ => e_version | None => e_alg end), allocs).
Proof. intros L v rest outer_alg sig s1 s2 Hv Hf Hl Hs. exact (read_stream_rejects_version L v rest outer_alg sig Hv Hf Hl Hs s1 s2). Qed.
Print Assumptions C06_reject_unknown_version_document.

(* the raw encoding is the profile encoding when the content is a profile tbsCertList (so the statement above is
   about the same documents as C06_main, with the version field altered), and its hypotheses are satisfiable: the
   example document of C06_nonvacuous with version 2 (v3) is rejected with "unsupported version" *)
Theorem C06_raw_is_encode : forall d, encode_crl_raw (tbs_content d) (d_outer_alg d) (d_sig d) = encode_crl d.
Proof. reflexivity. Qed.
Example C06_version_nonvacuous : exists allocs,
  read_stream ex_lib (encode_crl_raw ([2; 1; 2]%N ++ skipn 3 (tbs_content ex_doc)) (d_outer_alg ex_doc) (d_sig ex_doc)) [1; 3; 2] [5; 1] None
  = ([], Err e_version, allocs).
Proof. eexists. vm_compute. reflexivity. Qed.

(* non-vacuity: a concrete two-entry v2 document with extensions satisfies the profile *)
Example C06_nonvacuous : exists L d number hash verifier,
  wf_profile L d number hash verifier /\ length (entries_of d) = 2 /\ d_exts d <> None /\ crit_of L d = false.
Proof. exact C06_example. Qed.
