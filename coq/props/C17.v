(* C17 — streaming memory bound.  Property theorems only.
   What the model can carry: (1) every single allocation request of the reader is bounded by a
   constant (the element limit + 17) that depends neither on the number of entries nor on the
   size of the CRL; (2) the reader keeps nothing from one entry to the next: an entry is handed
   to the consumer the moment it has been read, in order (C06_main), and the only state carried
   between iterations is the position counter, the hash state and the bufio window.  The Go heap,
   the garbage collector, LevelDB memtables and the HTTP client are runtime; the harness
   measures the live heap while CRLs of N and 10 N entries are processed end to end. *)
From Verif Require Import Base Bytes Reader Asn1Parser Pem CrlReader CrlSpec ReaderSafe C06Proofs.
From Verif.gen Require GenFacts.

(* for every document of the profile with ANY number of entries (and in fact for every byte
   stream): each allocation request is at most 81937 bytes *)
Theorem C17_allocation_bound : forall L d s1 s2,
  let '(evs, r, allocs) := read_stream L (encode_crl d) s1 s2 None in
  Forall (fun a => (0 <= a <= GenFacts.struct_limit + 17)%Z) allocs.
Proof.
  intros L d s1 s2. pose proof (C07_total_proof L (encode_crl d) s1 s2 None) as H.
  destruct (read_stream L (encode_crl d) s1 s2 None) as [[evs r] al]. destruct H as (_ & _ & H). exact H.
Qed.
Print Assumptions C17_allocation_bound.

Theorem C17_bound_is_constant : (GenFacts.struct_limit + 17 = 81937)%Z.
Proof. reflexivity. Qed.

(* entries are streamed: the k-th event of the consumer is the k-th entry, emitted while the rest
   of the list is still unread (the event list is exactly start :: entries ++ [ext-meta]) *)
Theorem C17_streamed_in_order : forall L d number hash verifier s1 s2,
  wf_profile L d number hash verifier ->
  exists allocs r, read_stream L (encode_crl d) s1 s2 None =
    (EvStart (tlv TAG_SEQ (d_issuer d)) (d_this d) (d_next d)
       :: map (fun c => EvInsert (tlv TAG_SEQ c)) (entries_of d) ++ [EvExtMeta number], r, allocs).
Proof.
  intros L d number hash verifier s1 s2 H.
  destruct (read_stream_encode L d number hash verifier H s1 s2) as [a E]. rewrite E. eauto.
Qed.
Print Assumptions C17_streamed_in_order.
