(* C13 — concurrency safety.  Property theorems only.  gen/GenSkel.v is the lock/access
   skeleton of crlrepository.go, crlrevocationchecker.go, ocsprevocationchecker.go and
   multischemescrlloader.go, regenerated from the Go source by tools/lockskel on every run. *)
From Verif Require Import Base LockSkel LockSkelProofs LockProgress.
From Verif.gen Require GenSkel.

(* the checker accepts the skeleton of the current source: every access to Entry.Loaded /
   CRLStore / LastUpdateSignature(VerifyFailed) / Chains / the loader state happens under the
   entry lock of the same entry (writes under the write lock), every access to the repository
   map under the repository lock, workDirsInUse and the refresh stamp under their mutexes, the
   OCSP cache field is only read; no lock is acquired while it is held; locks are taken in the
   order update mutex < repository lock < entry lock; every procedure ends holding nothing *)
Theorem C13_skeleton_accepted : skel_report GenSkel.program GenSkel.entry_points = [].
Proof. vm_compute. reflexivity. Qed.
Print Assumptions C13_skeleton_accepted.

(* soundness of the checker: for ANY number of threads, each running any entry procedure
   (handshake CRL/OCSP paths, AddCRL, IsRevoked, ticker pass, forced background pass, config
   update, Close/Cleanup), and every reachable state of every interleaving under reader/writer
   lock semantics: no two threads are about to access the same shared variable with one of
   them writing; no thread re-acquires a lock it holds (the self-deadlock of the original
   AddCRL); locks are acquired in one global order (no lock-order cycle); a finished thread
   holds no lock *)
Theorem C13_no_race_no_relock : forall s0 s,
  initial GenSkel.program GenSkel.entry_points s0 -> reach s0 s ->
  (forall i j v, i <> j -> head (s i) = Some (Wr v) ->
     (head (s j) = Some (Rd v) \/ head (s j) = Some (Wr v)) -> exists r, v = VLoaderField r) /\
  (forall i l m, head (s i) = Some (Acq l m) -> holds (t_held (s i)) l = false) /\
  (forall i l m, head (s i) = Some (Acq l m) -> forall l' m', In (l', m') (t_held (s i)) -> rank l' < rank l) /\
  (forall i, t_k (s i) = [] -> t_held (s i) = []).
Proof.
  intros s0 s. apply skel_ok_sound. unfold skel_ok.
  replace (skel_report GenSkel.program GenSkel.entry_points) with (@nil (string * violation)); [reflexivity|].
  symmetry. exact C13_skeleton_accepted.
Qed.
Print Assumptions C13_no_race_no_relock.

(* never deadlock: from any initial system of finitely many threads (all threads from n on are idle), in EVERY
   reachable state of every interleaving, as long as some thread has not finished some thread can take a step.
   (Mechanised wait-for argument: a blocked thread waits for a lock whose holder has not finished and, if blocked
   itself, waits for a lock of strictly higher rank; ranks are bounded.)  Lock-level statement: blocking inside
   the Go runtime, the network or LevelDB is outside the skeleton. *)
Theorem C13_deadlock_free : forall s0 s n,
  initial GenSkel.program GenSkel.entry_points s0 -> (forall j, n <= j -> t_k (s0 j) = []) -> reach s0 s ->
  (exists i, t_k (s i) <> []) -> exists s', sstep s s'.
Proof.
  intros s0 s n. apply skel_ok_deadlock_free. unfold skel_ok.
  replace (skel_report GenSkel.program GenSkel.entry_points) with (@nil (string * violation)); [reflexivity|].
  symmetry. exact C13_skeleton_accepted.
Qed.
Print Assumptions C13_deadlock_free.

(* the checker itself, for any program: what acceptance guarantees *)
Theorem C13_checker_sound : forall P entries s0 s,
  skel_ok P entries = true -> initial P entries s0 -> reach s0 s ->
  (forall i j v, i <> j -> head (s i) = Some (Wr v) ->
     (head (s j) = Some (Rd v) \/ head (s j) = Some (Wr v)) -> exists r, v = VLoaderField r) /\
  (forall i l m, head (s i) = Some (Acq l m) -> holds (t_held (s i)) l = false) /\
  (forall i l m, head (s i) = Some (Acq l m) -> forall l' m', In (l', m') (t_held (s i)) -> rank l' < rank l) /\
  (forall i, t_k (s i) = [] -> t_held (s i) = []).
Proof. exact skel_ok_sound. Qed.
Print Assumptions C13_checker_sound.

(* the checker is not vacuous: it rejects the three concurrency defects of the original source
   (re-lock in AddCRL, unlocked background first load, write of the shared OCSP cache field) *)
Example C13_rejects_relock :
  check (Seq (Acq (LEntry "e") W) (Seq (Acq (LEntry "e") W) (Seq (Rel (LEntry "e") W) (Rel (LEntry "e") W)))) [] =
  {| normal := []; returned := []; bad := [Relock (LEntry "e")] |}.
Proof. reflexivity. Qed.
Example C13_rejects_unlocked_write : bad (check (Wr (VEntryField "Loaded" "e")) []) = [Unprotected true (VEntryField "Loaded" "e")].
Proof. reflexivity. Qed.
Example C13_rejects_cache_write : bad (check (Wr VOcspCache) [(LRepo, W)]) = [Unprotected true VOcspCache].
Proof. reflexivity. Qed.
