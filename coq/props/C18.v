(* C18 — both storage backends implement the same abstract map and lose nothing.
   Property theorems only. *)
From Verif Require Import Base Bytes KeyFacts Store StoreSpec C18Proofs.

(* For every operation sequence over {start, insert, ext-meta, signer, locations, lookup,
   getters, replace-with(staging store), reopen} of any length and both backends: every
   observation equals the one of the abstract map keyed by (issuer, serial), provided the
   64-bit hashes of the keys that occur do not collide (the property grants this). *)
Theorem C18_refines : forall b ops,
  no_collision (keys_of ops) -> snd (run b init ops) = snd (arun ainit ops).
Proof. exact refinement. Qed.
Print Assumptions C18_refines.

(* hence memory and disk are observationally indistinguishable *)
Theorem C18_backends_agree : forall ops,
  no_collision (keys_of ops) -> snd (run MapB init ops) = snd (run LevelB init ops).
Proof. exact backends_agree. Qed.
Print Assumptions C18_backends_agree.

(* what the abstract map says: a lookup reports revoked exactly for inserted pairs and
   returns the entry inserted last; reads of metadata return the last value written;
   a replacement discards everything older *)
Theorem C18_spec_meaning :
  (forall l p, a_find l p = None <-> forall e, ~ In (p, e) l) /\
  (forall l p e, a_find l p = Some e -> In (p, e) l) /\
  (forall l p e, a_find ((p, e) :: l) p = Some e) /\
  (forall l p q e, p <> q -> a_find ((q, e) :: l) p = a_find l p) /\
  (forall st, alive (fst (astep st OSwap)) = astaging st).
Proof. exact spec_meaning. Qed.
Print Assumptions C18_spec_meaning.

(* the key string is injective in (issuer string, serial), at all four construction sites,
   and never equals a reserved metadata key *)
Theorem C18_key_injective : forall n i z i' z', (n < 4)%nat ->
  key_with (sep_at n) i z = key_with (sep_at n) i' z' -> i = i' /\ z = z'.
Proof. exact key_injective. Qed.
Print Assumptions C18_key_injective.

Theorem C18_key_not_reserved : forall n i z r, (n < 4)%nat -> In r reserved -> key_with (sep_at n) i z <> r.
Proof. exact key_not_reserved. Qed.
Print Assumptions C18_key_not_reserved.

(* non-vacuity: a concrete history with overlapping serials under two issuers, negative and
   wide serials, is collision free, and the hypothesis is decidable by computation *)
Example C18_nonvacuous : no_collision (keys_of example_ops) /\ List.length example_ops = 12%nat.
Proof. exact example_nonvacuous. Qed.
