(* C15 — refresh liveness.  Property theorems only.  Discrete-time model; whether the stamp is
   per instance and the divisor of the skip rule come from the Go source. *)
From Verif Require Import Base Ticker TickerProofs Repo RepoProofs RepoProps ProvisionProofs.
From Verif.gen Require GenFacts.

(* for any number of validator instances, any intervals, any interleaving of their ticks and
   forced passes (schedules in which an update starts when the earlier ones have finished, as
   the update mutex enforces): at every tick of instance i at time t, a pass of instance i —
   which fetches every CRL that instance knows — finishes within (t - T_i/2, t + d].  Hence two
   consecutive ticks are never both without a pass and every known CRL is fetched again within
   less than 2 T_i, however the other instances behave. *)
Theorem C15_tick_liveness : forall interval d pre post i t,
  (0 <= d)%Z -> (0 <= interval i)%Z ->
  well_timed interval d {| stamps := []; passes := [] |} (pre ++ (t, Tick i) :: post) ->
  let st := trun interval d (pre ++ (t, Tick i) :: post) in
  exists start fin, In (i, start, fin) (passes st) /\ (t - interval i / 2 <= fin <= t + d)%Z.
Proof. exact tick_liveness. Qed.
Print Assumptions C15_tick_liveness.

(* independence: the "recently finished" stamp an instance consults is the finish time of one
   of its own passes, in every reachable state *)
Theorem C15_independent : forall interval d xs, stamps_own (trun interval d xs).
Proof. exact trun_own. Qed.
Print Assumptions C15_independent.

(* a failed attempt does not delay the next one: a pass is a pass whether or not its fetches
   succeed (the stamp is written when the pass ends), so fail^k-then-succeed histories are
   refreshed at every tick as well — see C08_later_success for what the successful one does *)

(* non-vacuity: the two-instance schedule that starved under a process-global stamp *)
Example C15_two_instances :
  well_timed (fun _ => 100%Z) 1 {| stamps := []; passes := [] |} two_instances /\
  passed_in (trun (fun _ => 100%Z) 1 two_instances) 1 124 126 = true /\
  passed_in (trun (fun _ => 100%Z) 1 two_instances) 1 224 226 = true /\
  passed_in (trun (fun _ => 100%Z) 1 two_instances) 1 324 326 = true.
Proof. exact two_instances_ok. Qed.

(* "CRLs configured by file or URL are in force by the time provisioning returns": for every configuration
   (storage, signature mode, fetch mode, strictness), every set of trusted signers, every list of configured
   locations, whatever they serve and whatever an earlier run left on disk — if provisioning returns without
   error, every configured location holds in force exactly the list it serves, accepted under the signature
   policy; hence the very first handshake rejects a certificate that is on a configured list. *)
Theorem C15_configured_in_force : forall cfg ev trusted locs st st' loc,
  provision cfg ev trusted locs (restart cfg st) = Some st' -> In loc locs ->
  exists e l, lookup [loc] (entries st') = Some e /\ e_loaded e = true /\ e_list e = Some l /\
              ev loc = Serve l /\ list_ok cfg l /\ (r_sigmode cfg = SigVerify -> verified l trusted = true).
Proof. intros cfg ev trusted locs st st' loc H Hin. exact (provision_after_restart cfg ev trusted locs st st' H loc Hin). Qed.
Print Assumptions C15_configured_in_force.

Theorem C15_first_handshake_after_provisioning : forall cfg ev trusted locs st st' loc c l,
  provision cfg ev trusted locs (restart cfg st) = Some st' -> In loc locs -> ev loc = Serve l -> listed c l = true ->
  snd (handshake cfg ev st' c) <> VAccept.
Proof. exact provision_then_first_handshake. Qed.
Print Assumptions C15_first_handshake_after_provisioning.

Example C15_provision_nonvacuous :
  let cfg := {| r_storage := Memory; r_sigmode := SigVerify; r_fetch := Background; r_strict := false |} in
  let ev := set_env (fun _ => Down) 5 (Serve good_list) in
  (exists st', provision cfg ev [1%N] [5%N] (restart cfg (snd init_state)) = Some st' /\
     snd (handshake cfg ev st' {| c_issuer := 1; c_serial := 103; c_cdps := []; c_chain := [1%N; 9%N] |}) = VRevoked) /\
  provision cfg ev [] [5%N] (restart cfg (snd init_state)) = None.
Proof. exact provision_example. Qed.
