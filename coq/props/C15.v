(* C15 — refresh liveness.  Property theorems only.  Discrete-time model; whether the stamp is
   per instance and the divisor of the skip rule come from the Go source. *)
From Verif Require Import Base Ticker TickerProofs.
From Verif.gen Require GenFacts.

(* for any number of validator instances, any intervals, any interleaving of their ticks and
   forced passes (schedules in which an update starts when the earlier ones have finished, as
   the update mutex enforces): at every tick of instance i at time t, a pass of instance i —
   which fetches every CRL that instance knows — finishes within (t - T_i/2, t + d].  Hence two
   consecutive ticks are never both without a pass and every known CRL is fetched again within
   less than 2 T_i, however the other instances behave. *)
Theorem C15_tick_liveness : forall interval d pre post i t,
  (0 <= d)%Z -> (0 <= interval i)%Z ->
  well_timed interval d {| stamps := []; passes := [] |} (pre ++ (t, Tick i) :: post) ->
  let st := trun interval d (pre ++ (t, Tick i) :: post) in
  exists start fin, In (i, start, fin) (passes st) /\ (t - interval i / 2 <= fin <= t + d)%Z.
Proof. exact tick_liveness. Qed.
Print Assumptions C15_tick_liveness.

(* independence: the "recently finished" stamp an instance consults is the finish time of one
   of its own passes, in every reachable state *)
Theorem C15_independent : forall interval d xs, stamps_own (trun interval d xs).
Proof. exact trun_own. Qed.
Print Assumptions C15_independent.

(* a failed attempt does not delay the next one: a pass is a pass whether or not its fetches
   succeed (the stamp is written when the pass ends), so fail^k-then-succeed histories are
   refreshed at every tick as well — see C08_later_success for what the successful one does *)

(* non-vacuity: the two-instance schedule that starved under a process-global stamp *)
Example C15_two_instances :
  well_timed (fun _ => 100%Z) 1 {| stamps := []; passes := [] |} two_instances /\
  passed_in (trun (fun _ => 100%Z) 1 two_instances) 1 124 126 = true /\
  passed_in (trun (fun _ => 100%Z) 1 two_instances) 1 224 226 = true /\
  passed_in (trun (fun _ => 100%Z) 1 two_instances) 1 324 326 = true.
Proof. exact two_instances_ok. Qed.
