(* C20 — work-directory discipline and clean lifecycle.  Property theorems only.  The name
   patterns come from the Go source (srcfacts); SHA-256 is any function to 32 bytes. *)
From Verif Require Import Base Bytes FsNames FsProofs.
From Verif.gen Require GenFacts.

(* whatever bytes a distribution-point URL or file name consists of, the store directory is
   named by 64 characters out of [0-9a-f]: no path separator, no '.', no '_' — it stays a
   direct child of work_dir *)
Theorem C20_store_name : forall (sha256 : bytes -> bytes) location,
  Forall is_byte (sha256 location) -> length (sha256 location) = 32 ->
  let name := hex_of_bytes (sha256 location) in
  length name = 64 /\ forallb is_hex_char name = true /\
  (forall c, In c name -> c <> 47%N /\ c <> 92%N /\ c <> 46%N /\ c <> 95%N /\ c <> 0%N).
Proof.
  intros sha loc Hb Hl name. unfold name. split; [rewrite hex_length, Hl; reflexivity|].
  split; [apply hex_chars; exact Hb|]. intros c Hc. eapply hex_name_safe; eassumption.
Qed.
Print Assumptions C20_store_name.

(* the same location maps to the same store (also after a restart: the name is a function of
   the normalised location only); distinct normalised locations share a store only if SHA-256
   collides *)
Theorem C20_same_location_same_store : forall (sha256 : bytes -> bytes) l1 l2,
  l1 = l2 -> hex_of_bytes (sha256 l1) = hex_of_bytes (sha256 l2).
Proof. intros; subst; reflexivity. Qed.

(* the start-up sweep never deletes a store directory ... *)
Theorem C20_store_not_swept : forall digest, Forall is_byte digest -> matches_temp (hex_of_bytes digest) = false.
Proof. exact hex_not_temp. Qed.
(* ... and recognises every temporary file (crl_<random>_tmp) and directory (crl_<uuid>_tmp) *)
Theorem C20_temps_swept : forall random,
  forallb (fun c => negb (N.eqb c NL)) random = true -> matches_temp (temp_name random) = true.
Proof. exact temp_name_swept. Qed.
Theorem C20_patterns : GenFacts.temp_sweep_regex = temp_regex_modelled /\ GenFacts.temp_file_pattern = "crl_*_tmp"%string /\
  GenFacts.temp_dir_prefix = "crl_"%string /\ GenFacts.temp_dir_suffix = "_tmp"%string.
Proof. repeat split; reflexivity. Qed.
Print Assumptions C20_store_not_swept.

(* after every load or refresh, successful or not: no temporary artefact remains, no live
   store has been deleted, and a successful one leaves its store in place *)
Theorem C20_intake_clean : forall o tf td aside id s,
  ~ In tf (temp_files s) -> ~ In td (temp_dirs s) -> ~ In aside (temp_dirs s) -> td <> aside ->
  let s' := intake_fs o tf td aside id s in
  temp_files s' = temp_files s /\ temp_dirs s' = temp_dirs s /\
  (forall d, In d (live_dirs s) -> In d (live_dirs s')) /\
  (o = Succeeds -> In id (live_dirs s')).
Proof. exact intake_fs_clean. Qed.
Print Assumptions C20_intake_clean.

(* Cleanup ends the background goroutine (the stop channel is closed: fact from the source) *)
Theorem C20_cleanup_stops_ticker : GenFacts.cleanup_closes_stop_channel = true.
Proof. reflexivity. Qed.
