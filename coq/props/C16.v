(* C16 — the signature policy means the same at provisioning, first load, refresh and
   after a restart.  Property theorems only.  The policy of the two intake functions
   (loadCRL, updateCrlEntry) is regenerated from the Go source on every run. *)
From Verif Require Import Base Repo RepoProofs RepoProps ProvisionProofs Validator.
From Verif.gen Require GenFacts.

(* both intake paths accept exactly the same answers and record the same signer, for every
   mode, answer, resolver context and storage fault *)
Theorem C16_uniform : forall cfg p q a avail f, accepts cfg p a avail f = accepts cfg q a avail f.
Proof. intros. apply accepts_uniform. Qed.
Print Assumptions C16_uniform.

(* and what they accept is: parseable, and under 'verify' additionally a signature that
   verifies under an available signer certificate; under 'verify_log' and 'none' nothing more *)
Theorem C16_meaning : forall cfg p l avail,
  accepts cfg p (Serve l) avail NoFault <> None <->
  l_parse_ok l = true /\ (r_sigmode cfg = SigVerify -> verified l avail = true).
Proof. exact accepts_meaning. Qed.
Print Assumptions C16_meaning.

(* under 'verify' an unverified list is never in force — in no reachable state, in memory or
   on disk, hence not after a restart either *)
Theorem C16_verify_never_unverified : forall cfg history,
  r_sigmode cfg = SigVerify ->
  let st := snd (fst (run_steps cfg init_state history)) in
  (forall id e l, In (id, e) (entries st) -> e_list e = Some l -> l_sig_ok l = true /\ l_parse_ok l = true) /\
  (forall id l sg, In (id, (l, sg)) (disk st) -> l_sig_ok l = true /\ l_parse_ok l = true).
Proof. exact verify_never_unverified. Qed.
Print Assumptions C16_verify_never_unverified.

(* ... and not after a restart under a CHANGED configuration either: for every sequence of earlier
   deployments (each with its own storage / signature mode / fetch mode / strictness and its own history),
   after a restart under 'verify' no list is in force whose signature did not verify.  (A list persisted by a
   lenient configuration counts only if the certificate that verified it was stored with it and is still
   usable as a signer; whether the implementation performs this check is read from the source.) *)
Theorem C16_verify_after_reconfiguration : forall deployments cfg history,
  r_sigmode cfg = SigVerify ->
  let s := run_segments deployments init_state in
  let st := snd (fst (run_steps cfg (fst s, restart cfg (snd s)) history)) in
  forall id e l, In (id, e) (entries st) -> e_list e = Some l -> l_sig_ok l = true /\ l_parse_ok l = true.
Proof. exact verify_after_reconfiguration. Qed.
Print Assumptions C16_verify_after_reconfiguration.

Example C16_reconfiguration_nonvacuous :
  snd (run_steps (cfg_disk SigVerifyLog) (fst (run_segments [seg_log] init_state), restart (cfg_disk SigVerifyLog) (snd (run_segments [seg_log] init_state))) [SHandshake cert_103]) = [Some VAccept] /\
  snd (run_steps (cfg_disk SigVerify) (fst (run_segments [seg_log] init_state), restart (cfg_disk SigVerify) (snd (run_segments [seg_log] init_state))) [SHandshake cert_103]) = [Some VError].
Proof. exact reconfiguration_example. Qed.

(* the provision-time path: under 'verify' provisioning returns without error only if every configured location
   serves a parseable list whose signature verifies under one of the trusted signer certificates; and the
   states provisioning produces satisfy the invariant all the theorems above rest on *)
Theorem C16_provision_verify : forall cfg ev trusted locs st st' loc,
  r_sigmode cfg = SigVerify -> provision cfg ev trusted locs (restart cfg st) = Some st' -> In loc locs ->
  exists l, ev loc = Serve l /\ l_parse_ok l = true /\ l_sig_ok l = true /\ existsb (N.eqb (l_signer l)) trusted = true.
Proof. exact provision_verify. Qed.
Print Assumptions C16_provision_verify.

Theorem C16_provision_keeps_invariant : forall cfg ev trusted locs st st',
  Inv cfg st -> provision cfg ev trusted locs st = Some st' -> Inv cfg st'.
Proof. intros cfg ev trusted locs st st'. apply (provision_inv D_cfg D_cfg_accepts D_cfg_adopt). Qed.
Print Assumptions C16_provision_keeps_invariant.

(* under 'verify_log' and 'none' refreshes keep succeeding whatever the signer *)
Theorem C16_lenient_refresh : forall cfg ev id e l avail,
  r_sigmode cfg <> SigVerify -> e_locs e = id -> id <> [] -> ev (hd 0%N id) = Serve l -> l_parse_ok l = true ->
  e_list (fst (intake cfg ev Refresh id e avail NoFault)) = Some l.
Proof. intros. eapply refresh_succeeds; eauto; congruence. Qed.
Print Assumptions C16_lenient_refresh.

(* an unset mode means 'verify' (the generated table of parseSignatureValidationMode) *)
Theorem C16_default : GenFacts.sigmode_default = "SignatureValidationModeVerify"%string /\
  assoc "verify"%string GenFacts.sigmode_table = Some "SignatureValidationModeVerify"%string /\
  assoc "verify_log"%string GenFacts.sigmode_table = Some "SignatureValidationModeVerifyLog"%string /\
  assoc "none"%string GenFacts.sigmode_table = Some "SignatureValidationModeNone"%string.
Proof. repeat split; reflexivity. Qed.
Print Assumptions C16_default.
