(* C11 — precision: only entries of CRLs in force, under the same issuer, can revoke.
   Property theorems only. *)
From Verif Require Import Base Bytes KeyFacts Store StoreSpec Repo RepoProofs RepoProps C18Proofs.

(* over every history: a verdict "revoked" exhibits a loaded entry whose list (a) lists this
   serial (b) under this issuer and (c) was accepted under the configured signature policy *)
Theorem C11_precise : forall cfg history ev c,
  let st := snd (fst (run_steps cfg init_state history)) in
  snd (handshake cfg ev st c) = VRevoked ->
  exists id e l, In (id, e) (entries (lookup_state cfg ev st c)) /\ e_loaded e = true /\ e_list e = Some l /\
                 l_issuer l = c_issuer c /\ In (c_serial c) (l_serials l) /\ list_ok cfg l.
Proof. intros cfg history ev c st. apply handshake_precise. apply reachable_inv. Qed.
Print Assumptions C11_precise.

(* a rejected answer (bad signature under verify, parse error, critical extension, storage
   fault) changes nothing: no entry of it can influence any later verdict *)
Theorem C11_rejected_leaves_no_trace : forall cfg ev f st,
  (forall id e, In (id, e) (entries st) -> unacceptable cfg ev f e) ->
  entries (refresh_all cfg ev f st) = entries st /\ disk (refresh_all cfg ev f st) = disk st.
Proof. exact refresh_failed_keeps. Qed.
Print Assumptions C11_rejected_leaves_no_trace.

(* a replacement supersedes: after an intake the entry holds the old list or exactly the new one *)
Theorem C11_superseded : forall cfg ev p id e avail f,
  let e' := fst (intake cfg ev p id e avail f) in
  e' = e \/ (exists l loc, ev loc = Serve l /\ e_list e' = Some l /\ e_loaded e' = true /\ list_ok cfg l).
Proof. exact intake_all_or_nothing. Qed.
Print Assumptions C11_superseded.

(* at store level (no hash collision among the keys involved): a lookup reports revoked only
   for a pair that was inserted — entries under another issuer name never match *)
Theorem C11_store : forall b ops, no_collision (keys_of ops) -> snd (run b init ops) = snd (arun ainit ops).
Proof. exact refinement. Qed.
Theorem C11_key : forall n i z i' z', (n < 4)%nat -> key_with (sep_at n) i z = key_with (sep_at n) i' z' -> i = i' /\ z = z'.
Proof. exact key_injective. Qed.
Print Assumptions C11_store.
