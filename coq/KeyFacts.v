(* KeyFacts.v — the store key is injective in (issuer string, serial) and never equals a
   reserved metadata key.  Uses the separator and reserved keys generated from the source. *)
From Coq Require Import DecimalString DecimalZ DecimalPos.
From Verif Require Import Base Bytes.
From Verif.gen Require GenFacts.

(* the separator each of the four key-building sites uses, in srcfacts order:
   map insert, map lookup, leveldb insert, leveldb lookup *)
Definition sep_at (n : nat) : string := nth n GenFacts.key_separators ""%string.

Definition us : N := 95%N. (* '_' *)

Definition is_dec_char (c : N) : bool := ((48 <=? c) && (c <=? 57))%N || (c =? 45)%N.

Lemma bytes_of_string_inj s t : bytes_of_string s = bytes_of_string t -> s = t.
Proof.
  revert t. induction s as [|a s IH]; intros [|b t] H; simpl in *; try discriminate; auto.
  injection H as Hab Hst. unfold byte_of_ascii in Hab.
  assert (a = b) by (rewrite <- (ascii_N_embedding a), <- (ascii_N_embedding b), Hab; reflexivity).
  subst. f_equal. auto.
Qed.

Lemma uint_chars d : forallb is_dec_char (bytes_of_string (NilEmpty.string_of_uint d)) = true.
Proof. induction d; simpl; auto. Qed.

Lemma dec_chars z : forallb is_dec_char (dec_bytes z) = true.
Proof.
  unfold dec_bytes, dec_string. destruct (Z.to_int z) as [d|d]; simpl.
  - destruct d; try reflexivity; apply (uint_chars (_ d)) || (simpl; apply uint_chars).
  - destruct d; try reflexivity; simpl; apply uint_chars.
Qed.

Lemma dec_no_us z : ~ In us (dec_bytes z).
Proof.
  intros H. pose proof (dec_chars z) as F. rewrite forallb_forall in F.
  specialize (F _ H). vm_compute in F. discriminate.
Qed.

Lemma dec_nonempty z : dec_bytes z <> [].
Proof.
  unfold dec_bytes, dec_string. destruct (Z.to_int z) as [d|d]; simpl; [|discriminate].
  destruct d; simpl; discriminate.
Qed.

Lemma to_int_not_nil z : Z.to_int z <> Decimal.Pos Decimal.Nil /\ Z.to_int z <> Decimal.Neg Decimal.Nil.
Proof.
  destruct z; simpl; split; try discriminate; intros H; injection H as H;
    exact (Unsigned.to_uint_nonnil _ H).
Qed.

Lemma dec_bytes_inj z z' : dec_bytes z = dec_bytes z' -> z = z'.
Proof.
  unfold dec_bytes, dec_string. intros H. apply bytes_of_string_inj in H.
  apply DecimalZ.to_int_inj.
  destruct (to_int_not_nil z) as [A B], (to_int_not_nil z') as [A' B'].
  pose proof (NilZero.isi _ A B) as E. pose proof (NilZero.isi _ A' B') as E'.
  rewrite H in E. rewrite E in E'. injection E' as ->. reflexivity.
Qed.

(* splitting at the last separator *)
Lemma split_last (x : N) a a' b b' :
  ~ In x b -> ~ In x b' -> a ++ x :: b = a' ++ x :: b' -> a = a' /\ b = b'.
Proof.
  revert a'. induction a as [|y a IH]; intros [|y' a'] Hb Hb' H; simpl in H.
  - injection H as ->. auto.
  - injection H as -> ->. exfalso. apply Hb. apply in_or_app. right. left. reflexivity.
  - injection H as -> <-. exfalso. apply Hb'. apply in_or_app. right. left. reflexivity.
  - injection H as -> H. destruct (IH a' Hb Hb' H) as [-> ->]. auto.
Qed.

Definition ukey (issuer : bytes) (serial : Z) : bytes := issuer ++ us :: dec_bytes serial.

Lemma key_with_us i z : key_with "_" i z = ukey i z.
Proof. reflexivity. Qed.

Lemma ukey_inj i z i' z' : ukey i z = ukey i' z' -> i = i' /\ z = z'.
Proof.
  intros H. destruct (split_last us i i' _ _ (dec_no_us z) (dec_no_us z') H) as [-> Hd].
  split; [reflexivity|]. apply dec_bytes_inj. exact Hd.
Qed.

(* the part of a string after its last separator *)
Fixpoint after_last (x : N) (l : bytes) : option bytes :=
  match l with
  | [] => None
  | y :: t => match after_last x t with
              | Some r => Some r
              | None => if N.eqb y x then Some t else None
              end
  end.

Lemma after_last_none x l : ~ In x l -> after_last x l = None.
Proof.
  induction l as [|y l IH]; simpl; intros H; [reflexivity|].
  rewrite IH by tauto. destruct (N.eqb_spec y x); [exfalso; apply H; auto|reflexivity].
Qed.

Lemma after_last_app x a d : ~ In x d -> after_last x (a ++ x :: d) = Some d.
Proof.
  intros H. induction a as [|y a IH]; simpl.
  - rewrite after_last_none by exact H. rewrite N.eqb_refl. reflexivity.
  - rewrite IH. reflexivity.
Qed.

Definition not_a_key (r : bytes) : bool :=
  match after_last us r with
  | None => true
  | Some d => negb (forallb is_dec_char d) || match d with [] => true | _ => false end
  end.

Lemma not_a_key_sound r i z : not_a_key r = true -> ukey i z <> r.
Proof.
  unfold not_a_key. intros H E. subst r. unfold ukey in H.
  rewrite after_last_app in H by apply dec_no_us.
  rewrite dec_chars in H. simpl in H. pose proof (dec_nonempty z). destruct (dec_bytes z); [congruence|discriminate].
Qed.

(* ---- facts about the generated constants *)
Definition reserved : list bytes :=
  map bytes_of_string [GenFacts.key_meta; GenFacts.key_extmeta; GenFacts.key_sigcert; GenFacts.key_locations].

Lemma seps_are_us : forall n, (n < 4)%nat -> sep_at n = "_"%string.
Proof. intros n H. do 4 (destruct n as [|n]; [vm_compute; reflexivity|]). lia. Qed.

Lemma reserved_not_keys : forallb not_a_key reserved = true.
Proof. vm_compute. reflexivity. Qed.

Lemma reserved_distinct : NoDup reserved.
Proof.
  unfold reserved. repeat constructor; simpl; intros H;
    repeat (destruct H as [H|H]; [vm_compute in H; discriminate|]); exact H.
Qed.

Lemma reserved_ne_key r i z : In r reserved -> ukey i z <> r.
Proof.
  intros H. apply not_a_key_sound. pose proof reserved_not_keys as F.
  rewrite forallb_forall in F. apply F. exact H.
Qed.
