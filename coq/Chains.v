(* Chains.v — model of core/certificatechains.go (NewCertificateChains,
   FindCertificateIssuerCandidates) and of verifyCRLSignature in crlrepository.go.
   Cryptography is idealised: a signature verifies under exactly the key that made it, over
   exactly the content that was signed (s_intact); the harness exercises the real RSA/ECDSA
   verification, including every single-byte mutation. *)
From Verif Require Import Base.

Record kcert := {
  k_key : N;              (* identity of the key pair *)
  k_subject : N; k_issuer : N; k_serial : Z;
  k_ski : N;              (* subject key identifier *)
  k_alg : N;              (* public key algorithm family *)
  k_end_entity : bool;    (* leaf of a verified chain *)
  k_ku_present : bool; k_ku_crlsign : bool }.

(* what verification needs to know about a CRL *)
Record csig := {
  s_issuer : N;                         (* issuer name *)
  s_aki_keyid : option N;               (* authorityKeyIdentifier.keyIdentifier *)
  s_aki_issuer_serial : option (N * Z); (* authorityCertIssuer (directoryName) + serial *)
  s_alg : N;                            (* key algorithm of the declared signature algorithm *)
  s_signed_by : N;                      (* the key that produced the signature *)
  s_intact : bool }.                    (* tbsCertList, algorithm and signature as signed *)

Definition chains := list (list kcert).

(* NewCertificateChains: verified chains (leaf first, marked) followed by one single-entry chain
   per configured trusted signer *)
Definition mark_leaf (ch : list kcert) : list kcert :=
  match ch with
  | [] => []
  | c :: t => {| k_key := k_key c; k_subject := k_subject c; k_issuer := k_issuer c; k_serial := k_serial c;
                 k_ski := k_ski c; k_alg := k_alg c; k_end_entity := true;
                 k_ku_present := k_ku_present c; k_ku_crlsign := k_ku_crlsign c |} :: t
  end.
Definition new_chains (verified : list (list kcert)) (trusted : list kcert) : chains :=
  map mark_leaf verified ++ map (fun c => [c]) trusted.

(* FindCertificateIssuerCandidates *)
Definition find_candidates (s : csig) (chs : chains) : list kcert :=
  let all := concat chs in
  match s_aki_keyid s, s_aki_issuer_serial s with
  | None, None => filter (fun c => N.eqb (k_subject c) (s_issuer s) && N.eqb (k_alg c) (s_alg s)) all
  | _, Some (i, z) => filter (fun c => Z.eqb (k_serial c) z && N.eqb (k_issuer c) i) all
  | Some kid, None => filter (fun c => N.eqb (k_ski c) kid) all
  end.

(* CertificateChainEntry.IsEntitledCRLSigner *)
Definition entitled (c : kcert) : bool :=
  negb (k_end_entity c) && (negb (k_ku_present c) || k_ku_crlsign c).

Definition sig_verifies (c : kcert) (s : csig) : bool := N.eqb (k_key c) (s_signed_by s) && s_intact s.

(* verifyCRLSignature: the first entitled candidate under whose key the signature verifies *)
Definition verify_crl_sig (s : csig) (chs : chains) : option kcert :=
  find (fun c => entitled c && sig_verifies c s) (find_candidates s chs).
