(* Store.v — model of crl/crlstore (MapStore, LevelDbStore): a map from the 64-bit FNV-1a
   of the key string to the serialised value.  Values are abstract identifiers: the
   serialisation is Go's encoding/asn1 (library), whose round trip the harness exercises. *)
From Verif Require Import Base Bytes KeyFacts.
From Verif.gen Require GenFacts.

Inductive backend := MapB | LevelB.

Inductive sval :=
| VEntry (id : N)      (* pkix.RevokedCertificate *)
| VMeta (id : N)       (* CRLMetaInfo *)
| VExt (id : N)        (* ExtendedCRLMetaInfo *)
| VSigner (id : N)     (* raw signer certificate *)
| VLoc (id : N)        (* CRLLocations *)
| VGarbage.            (* bytes that do not decode (corrupted / truncated record) *)

(* association list, newest binding first *)
Definition store := list (N * sval).

Fixpoint get (s : store) (k : N) : option sval :=
  match s with [] => None | (k', v) :: t => if N.eqb k k' then Some v else get t k end.
Definition put (s : store) (k : N) (v : sval) : store := (k, v) :: s.

Definition hkey (k : bytes) : N := fnv1a64 k.
Definition rkey (s : string) : N := hkey (bytes_of_string s).

Definition ins_sep (b : backend) := match b with MapB => sep_at 0 | LevelB => sep_at 2 end.
Definition look_sep (b : backend) := match b with MapB => sep_at 1 | LevelB => sep_at 3 end.

(* lookup-time faults of the storage layer *)
Inductive fault := NoFault | ReadError | DbClosed.

Definition e_store_read : N := 20.   (* storage read failed *)
Definition e_decode : N := 21.       (* stored record does not decode *)
Definition e_notfound : N := 22.     (* getter: key absent *)

Definition st_start (s : store) (m : N) : store := put s (rkey GenFacts.key_meta) (VMeta m).
Definition st_insert (b : backend) (s : store) (issuer : bytes) (serial : Z) (e : N) : store :=
  put s (hkey (key_with (ins_sep b) issuer serial)) (VEntry e).
Definition st_extmeta (s : store) (x : N) : store := put s (rkey GenFacts.key_extmeta) (VExt x).
Definition st_signer (s : store) (c : N) : store := put s (rkey GenFacts.key_sigcert) (VSigner c).
Definition st_locations (s : store) (l : N) : store := put s (rkey GenFacts.key_locations) (VLoc l).

(* GetCertRevocationStatus: Ok None = not revoked, Ok (Some e) = revoked with entry e.
   leveldb_all_errors_absent is the rule of the current source: see Repo facts below. *)
Definition st_lookup (b : backend) (s : store) (f : fault) (issuer : bytes) (serial : Z) : res (option N) :=
  match b, f with
  | LevelB, ReadError | LevelB, DbClosed => Err e_store_read
  | _, _ =>
    match get s (hkey (key_with (look_sep b) issuer serial)) with
    | None => Ok None
    | Some (VEntry e) => Ok (Some e)
    | Some _ => Err e_decode
    end
  end.

Definition st_get_meta (s : store) : res N :=
  match get s (rkey GenFacts.key_meta) with Some (VMeta m) => Ok m | None => Err e_notfound | _ => Err e_decode end.
Definition st_get_ext (s : store) : res N :=
  match get s (rkey GenFacts.key_extmeta) with Some (VExt m) => Ok m | None => Err e_notfound | _ => Err e_decode end.
Definition st_get_signer (s : store) : res N :=
  match get s (rkey GenFacts.key_sigcert) with Some (VSigner m) => Ok m | None => Err e_notfound | _ => Err e_decode end.
Definition st_get_locations (s : store) : res N :=
  match get s (rkey GenFacts.key_locations) with Some (VLoc m) => Ok m | None => Err e_notfound | _ => Err e_decode end.

(* IsEmpty: map = no key at all; leveldb = meta record absent *)
Definition st_is_empty (b : backend) (s : store) : bool :=
  match b with
  | MapB => match s with [] => true | _ => false end
  | LevelB => match get s (rkey GenFacts.key_meta) with None => true | Some _ => false end
  end.

(* Update(new): the live store becomes exactly the new one *)
Definition st_replace (live new : store) : store := new.

(* ---------------- operation sequences over a live and a staging store *)
Inductive tgt := Live | Staging.
Inductive op :=
| OStart (t : tgt) (m : N)
| OInsert (t : tgt) (issuer : bytes) (serial : Z) (e : N)
| OExt (t : tgt) (x : N)
| OSigner (t : tgt) (c : N)
| OLoc (t : tgt) (l : N)
| OLookup (issuer : bytes) (serial : Z)
| OGetMeta | OGetExt | OGetSigner | OGetLoc
| OSwap        (* live.Update(staging); a fresh staging store is created *)
| OReopen.     (* disk: close + reopen the live store; memory: no-op on a live store *)

Inductive obs :=
| BUnit
| BLookup (r : res (option N))
| BGet (r : res N).

Record sstate := { live : store; staging : store }.
Definition sel (st : sstate) (t : tgt) := match t with Live => live st | Staging => staging st end.
Definition upd (st : sstate) (t : tgt) (s : store) : sstate :=
  match t with Live => {| live := s; staging := staging st |} | Staging => {| live := live st; staging := s |} end.

Definition step (b : backend) (st : sstate) (o : op) : sstate * obs :=
  match o with
  | OStart t m => (upd st t (st_start (sel st t) m), BUnit)
  | OInsert t i z e => (upd st t (st_insert b (sel st t) i z e), BUnit)
  | OExt t x => (upd st t (st_extmeta (sel st t) x), BUnit)
  | OSigner t c => (upd st t (st_signer (sel st t) c), BUnit)
  | OLoc t l => (upd st t (st_locations (sel st t) l), BUnit)
  | OLookup i z => (st, BLookup (st_lookup b (live st) NoFault i z))
  | OGetMeta => (st, BGet (st_get_meta (live st)))
  | OGetExt => (st, BGet (st_get_ext (live st)))
  | OGetSigner => (st, BGet (st_get_signer (live st)))
  | OGetLoc => (st, BGet (st_get_locations (live st)))
  | OSwap => ({| live := st_replace (live st) (staging st); staging := [] |}, BUnit)
  | OReopen => (st, BUnit)
  end.

Fixpoint run (b : backend) (st : sstate) (ops : list op) : sstate * list obs :=
  match ops with
  | [] => (st, [])
  | o :: r => let '(st1, x) := step b st o in let '(st2, xs) := run b st1 r in (st2, x :: xs)
  end.

Definition init : sstate := {| live := []; staging := [] |}.

(* distinct raw keys present in a store (what MapStore.Map / a LevelDB iterator shows) *)
Fixpoint dedup (l : list N) : list N :=
  match l with [] => [] | x :: t => if existsb (N.eqb x) t then dedup t else x :: dedup t end.
Definition raw_keys (s : store) : list N := dedup (map fst s).
