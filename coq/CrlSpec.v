(* CrlSpec.v — the whole-document reference: DER encoding of an abstract CRL document whose
   leaves are opaque byte strings (the contents Go's encoding/asn1 decodes), and what a
   reference decoder of the whole document yields for it. *)
From Verif Require Import Base Bytes Reader Asn1Parser CrlReader.
From Verif.gen Require GenFacts.

(* k big-endian bytes of n *)
Fixpoint be_bytes (k : nat) (n : Z) : bytes :=
  match k with O => [] | S k' => be_bytes k' (n / 256) ++ [Z.to_N (n mod 256)] end.

Definition be_size (n : Z) : nat :=
  if (n <? 256)%Z then 1 else if (n <? 65536)%Z then 2 else if (n <? 16777216)%Z then 3
  else if (n <? 4294967296)%Z then 4 else if (n <? 1099511627776)%Z then 5
  else if (n <? 281474976710656)%Z then 6 else if (n <? 72057594037927936)%Z then 7 else 8.

(* DER definite length *)
Definition enc_len (n : Z) : bytes :=
  if (n <? 128)%Z then [Z.to_N n] else N.of_nat (128 + be_size n) :: be_bytes (be_size n) n.

Definition tlv (tag : N) (c : bytes) : bytes := tag :: enc_len (Z.of_nat (length c)) ++ c.

Definition opt_bytes (o : option bytes) : bytes := match o with Some b => b | None => [] end.

Record crl_doc := {
  d_v2 : bool;                      (* version field present with value 1 (v2); absent = v1 *)
  d_inner_alg : bytes;              (* content of the inner AlgorithmIdentifier SEQUENCE *)
  d_issuer : bytes;                 (* content of the issuer Name SEQUENCE *)
  d_this : bytes;                   (* content of thisUpdate UTCTime *)
  d_next : option bytes;            (* content of nextUpdate UTCTime *)
  d_list : option (list bytes);     (* revokedCertificates: contents of the entry SEQUENCEs *)
  d_exts : option bytes;            (* content of the SEQUENCE OF Extension inside [0] *)
  d_outer_alg : bytes;              (* content of the outer AlgorithmIdentifier SEQUENCE *)
  d_sig : bytes                     (* signature bytes (BIT STRING with 0 unused bits) *)
}.

Definition entries_of (d : crl_doc) : list bytes := match d_list d with Some l => l | None => [] end.

Definition enc_version (d : crl_doc) : bytes := if d_v2 d then [2; 1; 1]%N else [].
Definition enc_list (d : crl_doc) : bytes :=
  match d_list d with Some l => tlv TAG_SEQ (concat (map (tlv TAG_SEQ) l)) | None => [] end.
Definition enc_exts (d : crl_doc) : bytes :=
  match d_exts d with Some x => tlv TAG_CTX0 (tlv TAG_SEQ x) | None => [] end.

Definition tbs_content (d : crl_doc) : bytes :=
  enc_version d ++ tlv TAG_SEQ (d_inner_alg d) ++ tlv TAG_SEQ (d_issuer d) ++ tlv TAG_UTC (d_this d)
  ++ opt_bytes (option_map (tlv TAG_UTC) (d_next d)) ++ enc_list d ++ enc_exts d.
Definition encode_tbs (d : crl_doc) : bytes := tlv TAG_SEQ (tbs_content d).
Definition tail_content (d : crl_doc) : bytes := tlv TAG_SEQ (d_outer_alg d) ++ tlv TAG_BITS (0%N :: d_sig d).
Definition encode_crl (d : crl_doc) : bytes := tlv TAG_SEQ (encode_tbs d ++ tail_content d).

Section WithLib.
Variable L : lib.

Definition ext_list (d : crl_doc) : list (string * bool * bytes) :=
  match d_exts d with Some x => lib_exts L (tlv TAG_SEQ x) | None => [] end.

(* does the extension list carry a critical extension this implementation does not handle? *)
Definition crit_of (d : crl_doc) : bool :=
  match d_exts d with Some x => critical_unhandled (lib_exts L (tlv TAG_SEQ x)) | None => false end.

(* the events a consumer must see, in order *)
Definition events_of (number : option Z) (d : crl_doc) : list event :=
  EvStart (tlv TAG_SEQ (d_issuer d)) (d_this d) (d_next d)
  :: map (fun c => EvInsert (tlv TAG_SEQ c)) (entries_of d) ++ [EvExtMeta number].

Definition fits (c : bytes) : Prop := (Z.of_nat (length c) <= GenFacts.struct_limit)%Z.

(* the supported profile *)
Record wf_profile (d : crl_doc) (number : option Z) (hash verifier : string) : Prop := {
  wf_alg_in : fits (d_inner_alg d) /\ lib_ok L KAlgId (tlv TAG_SEQ (d_inner_alg d)) = true;
  wf_alg_out : fits (d_outer_alg d) /\ lib_ok L KAlgId (tlv TAG_SEQ (d_outer_alg d)) = true;
  wf_issuer : fits (d_issuer d) /\ lib_ok L KRdn (tlv TAG_SEQ (d_issuer d)) = true;
  wf_this : fits (d_this d) /\ lib_ok L KUtc (d_this d) = true;
  wf_next : forall t, d_next d = Some t -> fits t /\ lib_ok L KUtc t = true;
  wf_entries : Forall (fun c => fits c /\ lib_ok L KRevoked (tlv TAG_SEQ c) = true) (entries_of d);
  wf_exts_v2 : d_exts d <> None -> d_v2 d = true;
  wf_exts : forall x, d_exts d = Some x -> fits x /\ lib_ok L KExts (tlv TAG_SEQ x) = true;
  wf_number : forall s0, match d_exts d with
                         | Some x => crl_number_of L (tlv TAG_SEQ x) s0 = (Ok number, s0)
                         | None => number = None end;
  wf_sig : fits (0%N :: d_sig d);
  wf_strategies : forall s0, lookup_strategies L (tlv TAG_SEQ (d_outer_alg d)) s0 = (Ok (hash, verifier), s0);
  wf_size : (Z.of_nat (length (encode_crl d)) < two63)%Z
}.

Definition result_of (d : crl_doc) (hash verifier : string) : read_result :=
  {| r_hash := hash; r_verifier := verifier; r_alg := tlv TAG_SEQ (d_outer_alg d);
     r_sig := d_sig d; r_sig_bits := (Z.of_nat (length (d_sig d)) * 8)%Z;
     r_digest_input := encode_tbs d; r_issuer := tlv TAG_SEQ (d_issuer d);
     r_exts := option_map (tlv TAG_SEQ) (d_exts d) |}.

End WithLib.
