(* Asn1Parser.v — model of core/asn1parser/asn1parser.go over the Reader, in a state monad
   that threads the reader also through failures (Go code ignores some errors and goes on). *)
From Verif Require Import Base Reader.
From Verif.gen Require GenFacts.

(* ---- parser state: reader + the consumer's event log *)
Inductive event :=
| EvStart (issuer_tlv this_update : bytes) (next_update : option bytes)
| EvInsert (entry_tlv : bytes)
| EvExtMeta (crl_number : option Z).

Record ps := { rdr : rd; evs_rev : list event; nev : nat; fail_at : option nat }.

Definition M (A : Type) := ps -> res A * ps.
Definition ret {A} (a : A) : M A := fun s => (Ok a, s).
Definition fail {A} (e : N) : M A := fun s => (Err e, s).
Definition bindM {A B} (m : M A) (f : A -> M B) : M B := fun s =>
  match m s with
  | (Ok a, s') => f a s'
  | (Err e, s') => (Err e, s')
  | (Panic p, s') => (Panic p, s')
  | (OutOfFuel, s') => (OutOfFuel, s')
  end.
Notation "x <- m ;; k" := (bindM m (fun x => k)) (at level 61, m at next level, right associativity).
Notation "m ;;; k" := (bindM m (fun _ => k)) (at level 61, right associativity).

(* `_, _ = f()` : an ordinary error is dropped, the state changes stay *)
Definition ignore_err {A} (m : M A) : M unit := fun s =>
  match m s with
  | (Ok _, s') | (Err _, s') => (Ok tt, s')
  | (Panic p, s') => (Panic p, s')
  | (OutOfFuel, s') => (OutOfFuel, s')
  end.

(* a peek whose error is swallowed into `false` *)
Definition peek_bool {A} (m : M A) (f : A -> bool) : M bool := fun s =>
  match m s with
  | (Ok a, s') => (Ok (f a), s')
  | (Err _, s') => (Ok false, s')
  | (Panic p, s') => (Panic p, s')
  | (OutOfFuel, s') => (OutOfFuel, s')
  end.

Definition lift_rd {A} (f : rd -> res A * rd) : M A := fun s =>
  let '(x, r') := f (rdr s) in
  (x, {| rdr := r'; evs_rev := evs_rev s; nev := nev s; fail_at := fail_at s |}).
Definition get_rd : M rd := fun s => (Ok (rdr s), s).
Definition set_rd (r : rd) : M unit := fun s =>
  (Ok tt, {| rdr := r; evs_rev := evs_rev s; nev := nev s; fail_at := fail_at s |}).

(* hand an event to the consumer; the consumer fails at event number fail_at *)
Definition emit (e : event) : M unit := fun s =>
  match fail_at s with
  | Some k => if Nat.eqb k (nev s) then (Err e_proc, s)
              else (Ok tt, {| rdr := rdr s; evs_rev := e :: evs_rev s; nev := S (nev s); fail_at := fail_at s |})
  | None => (Ok tt, {| rdr := rdr s; evs_rev := e :: evs_rev s; nev := S (nev s); fail_at := fail_at s |})
  end.

Definition read_bytes (n : Z) : M bytes := lift_rd (rd_read n).
Definition peek_bytes (n off : nat) : M bytes := lift_rd (rd_peek n off).

(* ---- lengths *)
Definition be_decode (bs : bytes) : Z := fold_left (fun a b => (a * 256 + Z.of_N b)%Z) bs 0%Z.

(* int(big.Int.Int64()): the low 64 bits as a signed integer *)
Definition two63 : Z := 9223372036854775808%Z.
Definition to_int64 (z : Z) : Z := ((z + two63) mod (2 * two63) - two63)%Z.
Definition is_int64 (z : Z) : bool := ((- two63 <=? z) && (z <? two63))%Z.

Record tagl := { t_tag : N; t_len : Z; t_lsize : nat }. (* tag, value length, size of the length field *)

Definition read_length : M (Z * nat) :=
  b <- read_bytes 1 ;;
  let b0 := hd 0%N b in
  if N.eqb (N.land b0 GenFacts.read_length_long_bit) 0 then ret (Z.of_N b0, 1%nat)
  else
    let sz := N.land b0 GenFacts.read_length_size_mask in
    bs <- read_bytes (Z.of_N sz) ;;
    ret (be_decode bs, S (N.to_nat sz)).

Definition peek_length (off : nat) : M (Z * nat) :=
  b <- peek_bytes 1 off ;;
  let b0 := hd 0%N b in
  if N.eqb (N.land b0 GenFacts.peek_length_long_bit) 0 then ret (Z.of_N b0, 1%nat)
  else
    let sz := N.land b0 GenFacts.peek_length_size_mask in
    bs <- peek_bytes (N.to_nat sz) (S off) ;;
    ret (be_decode bs, S (N.to_nat sz)).

Definition read_tag_length : M tagl :=
  t <- read_bytes 1 ;;
  l <- read_length ;;
  ret {| t_tag := hd 0%N t; t_len := fst l; t_lsize := snd l |}.

Definition peek_tag_length (off : nat) : M tagl :=
  t <- peek_bytes 1 off ;;
  l <- peek_length (S off) ;;
  ret {| t_tag := hd 0%N t; t_len := fst l; t_lsize := snd l |}.

Definition expect_tag (want got : N) : M unit := if N.eqb want got then ret tt else fail e_tag.
Definition expect_len_le (limit len : Z) : M unit := if (len >? limit)%Z then fail e_limit else ret tt.

Definition TAG_SEQ : N := 48.   Definition TAG_INT : N := 2.   Definition TAG_BITS : N := 3.
Definition TAG_OCTETS : N := 4. Definition TAG_UTC : N := 23.

(* ---- what Go's libraries decide (encoding/asn1.Unmarshal into the target struct, time.Parse):
   an oracle of the model; theorems hold for every oracle, the harness supplies the real one *)
Inductive kind := KRdn | KAlgId | KRevoked | KExts | KUtc.
Record lib := {
  lib_ok : kind -> bytes -> bool;
  lib_exts : bytes -> list (string * bool * bytes);  (* decoded []pkix.Extension: oid text, critical, value *)
  lib_alg_oid : bytes -> string                     (* AlgorithmIdentifier.Algorithm.String() *)
}.

Section WithLib.
Variable L : lib.

(* ReadValueBytesWithLimit *)
Definition read_value (tl : tagl) : M bytes :=
  expect_len_le GenFacts.struct_limit (t_len tl) ;;;
  read_bytes (to_int64 (t_len tl)).

(* ReadStruct: peek, require SEQUENCE, limit on the value length, read the whole TLV, unmarshal *)
Definition read_struct (k : kind) : M bytes :=
  tl <- peek_tag_length 0 ;;
  expect_tag TAG_SEQ (t_tag tl) ;;;
  expect_len_le GenFacts.struct_limit (t_len tl) ;;;
  bs <- read_bytes (to_int64 (t_len tl) + Z.of_nat (t_lsize tl) + 1) ;;
  if lib_ok L k bs then ret bs else fail e_lib.

Definition read_utc_time : M bytes :=
  tl <- read_tag_length ;;
  expect_tag (t_tag tl) TAG_UTC ;;;
  bs <- read_value tl ;;
  if lib_ok L KUtc bs then ret bs else fail e_lib.

(* ParseBitString: (bytes without the padding octet, bit length) *)
Definition parse_bit_string : M (bytes * Z) :=
  tl <- read_tag_length ;;
  expect_tag TAG_BITS (t_tag tl) ;;;
  bs <- read_value tl ;;
  match bs with
  | [] => fail e_value
  | pad :: body =>
    let lastb := last bs 0%N in
    if (7 <? pad)%N then fail e_value
    else if (Nat.eqb (length bs) 1 && (0 <? pad)%N) then fail e_value
    else if negb (N.eqb (N.land lastb (N.shiftl 1 pad - 1)) 0) then fail e_value
    else ret (body, (Z.of_nat (length body) * 8 - Z.of_N pad)%Z)
  end.

Definition parse_octet_string : M bytes :=
  tl <- read_tag_length ;;
  expect_tag TAG_OCTETS (t_tag tl) ;;;
  read_value tl.

(* ReadBigInt: unsigned big-endian (big.Int.SetBytes) *)
Definition read_big_int : M Z :=
  tl <- read_tag_length ;;
  expect_tag TAG_INT (t_tag tl) ;;;
  bs <- read_value tl ;;
  ret (be_decode bs).

End WithLib.
