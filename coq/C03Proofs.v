From Verif Require Import Base Validator.
From Verif.gen Require GenFacts.
Open Scope string_scope.

Lemma assoc_none_notin {A} (s : string) (l : list (string * A)) :
  ~ In s (map fst l) -> assoc s l = None.
Proof.
  induction l as [|[k v] l IH]; simpl; intros H; [reflexivity|].
  destruct (String.eqb_spec s k) as [->|Hne]; [exfalso; apply H; left; reflexivity|].
  apply IH. intros Hin. apply H. right. exact Hin.
Qed.

Lemma C03_table_proof :
  parse_mode "" = Some (Some PreferOCSP) /\
  parse_mode "prefer_ocsp" = Some (Some PreferOCSP) /\
  parse_mode "prefer_crl" = Some (Some PreferCRL) /\
  parse_mode "ocsp_only" = Some (Some OCSPOnly) /\
  parse_mode "crl_only" = Some (Some CRLOnly) /\
  parse_mode "disabled" = Some (Some Disabled) /\
  (forall s, ~ In s [""; "prefer_ocsp"; "prefer_crl"; "ocsp_only"; "crl_only"; "disabled"] ->
             parse_mode s = Some None).
Proof.
  repeat split; try (vm_compute; reflexivity).
  intros s Hs. unfold parse_mode.
  destruct s as [|a s]; [exfalso; apply Hs; left; reflexivity|].
  cbn [String.length Nat.eqb].
  rewrite assoc_none_notin.
  - vm_compute. reflexivity.
  - intros Hin. apply Hs. right.
    (* the generated table's keys are exactly the documented strings (as a set) *)
    assert (Hk : forall x, In x (map fst GenFacts.mode_table) ->
                  In x ["prefer_ocsp"; "prefer_crl"; "ocsp_only"; "crl_only"; "disabled"]).
    { vm_compute. intros x Hx. repeat (destruct Hx as [<-|Hx]; [tauto|]). destruct Hx. }
    apply Hk. exact Hin.
Qed.

Lemma C03_enabled_proof :
  (ocsp_enabled PreferOCSP, crl_enabled PreferOCSP) = (true, true) /\
  (ocsp_enabled PreferCRL, crl_enabled PreferCRL) = (true, true) /\
  (ocsp_enabled OCSPOnly, crl_enabled OCSPOnly) = (true, false) /\
  (ocsp_enabled CRLOnly, crl_enabled CRLOnly) = (false, true) /\
  (ocsp_enabled Disabled, crl_enabled Disabled) = (false, false).
Proof. repeat split; vm_compute; reflexivity. Qed.

(* verify_client depends on ans only through its two values *)
Definition ans_of (o c : outcome) : mech -> outcome := fun k => match k with MOcsp => o | MCrl => c end.

Lemma run_stages_ext st m a b : (forall k, a k = b k) -> run_stages st m a = run_stages st m b.
Proof.
  intros H. induction st as [|[[[g c] e] r] st IH]; simpl; [reflexivity|].
  destruct (guard_fn g), (checker_mech c); try reflexivity.
  rewrite IH, H. reflexivity.
Qed.

Lemma ans_eta ans : forall k, ans k = ans_of (ans MOcsp) (ans MCrl) k.
Proof. intros [|]; reflexivity. Qed.

Definition all_outcomes := [NotRevoked; Revoked; Failed].

Definition outcome_eqb (a b : outcome) :=
  match a, b with NotRevoked, NotRevoked | Revoked, Revoked | Failed, Failed => true | _, _ => false end.
Definition mech_in (k : mech) (t : list mech) :=
  existsb (fun x => match k, x with MOcsp, MOcsp | MCrl, MCrl => true | _, _ => false end) t.

Lemma mech_in_spec k t : mech_in k t = true <-> In k t.
Proof.
  unfold mech_in. rewrite existsb_exists. split.
  - intros [x [Hx H]]. destruct k, x; try discriminate; exact Hx.
  - intros H. exists k. split; [exact H|destruct k; reflexivity].
Qed.

(* the finite table, decided by computation on the generated stages *)
Definition iff_check (m : mode) (o c : outcome) : bool :=
  match verify_client true m (ans_of o c) with
  | Some (t, v) =>
    let rej := (ocsp_enabled m && negb (outcome_eqb o NotRevoked)) || (crl_enabled m && negb (outcome_eqb c NotRevoked)) in
    (match v with Reject => rej | Accept => negb rej end)
    && (negb (mech_in MOcsp t) || ocsp_enabled m)
    && (negb (mech_in MCrl t) || crl_enabled m)
    && (match m with Disabled => match t with [] => true | _ => false end | _ => true end)
    && (match v with Accept => (negb (ocsp_enabled m) || mech_in MOcsp t) && (negb (crl_enabled m) || mech_in MCrl t) | Reject => true end)
  | None => false
  end.

Lemma iff_check_all : forallb (fun m => forallb (fun o => forallb (fun c => iff_check m o c) all_outcomes) all_outcomes) all_modes = true.
Proof. vm_compute. reflexivity. Qed.

Lemma iff_check_each m o c : iff_check m o c = true.
Proof.
  pose proof iff_check_all as H. rewrite forallb_forall in H.
  assert (Hm : In m all_modes) by (destruct m; simpl; tauto).
  specialize (H m Hm). rewrite forallb_forall in H.
  assert (Ho : In o all_outcomes) by (destruct o; simpl; tauto).
  specialize (H o Ho). rewrite forallb_forall in H.
  apply H. destruct c; simpl; tauto.
Qed.

Lemma outcome_neq o : o <> NotRevoked <-> negb (outcome_eqb o NotRevoked) = true.
Proof. destruct o; simpl; split; intros; try congruence; try discriminate. Qed.

Lemma C03_iff_proof : forall m ans,
  exists t v, verify_client true m ans = Some (t, v) /\
  (v = Reject <->
     (ocsp_enabled m = true /\ ans MOcsp <> NotRevoked) \/
     (crl_enabled m = true /\ ans MCrl <> NotRevoked)).
Proof.
  intros m ans.
  assert (E : verify_client true m ans = verify_client true m (ans_of (ans MOcsp) (ans MCrl))).
  { unfold verify_client. apply run_stages_ext, ans_eta. }
  pose proof (iff_check_each m (ans MOcsp) (ans MCrl)) as H. unfold iff_check in H.
  rewrite <- E in H. destruct (verify_client true m ans) as [[t v]|]; [|discriminate].
  exists t, v. split; [reflexivity|].
  apply andb_prop in H; destruct H as [H _].
  apply andb_prop in H; destruct H as [H _].
  apply andb_prop in H; destruct H as [H _].
  apply andb_prop in H; destruct H as [H _].
  rewrite !outcome_neq.
  destruct v.
  - apply negb_true_iff in H. apply orb_false_iff in H. destruct H as [Ha Hb].
    split; [discriminate|]. intros [[A B]|[A B]]; rewrite A, B in *; discriminate.
  - split; [intros _|reflexivity]. apply orb_prop in H.
    destruct H as [H|H]; apply andb_prop in H; tauto.
Qed.

Lemma C03_effects_proof : forall m ans t v,
  verify_client true m ans = Some (t, v) ->
  (In MOcsp t -> ocsp_enabled m = true) /\
  (In MCrl t -> crl_enabled m = true) /\
  (m = Disabled -> t = []) /\
  (v = Accept -> (ocsp_enabled m = true -> In MOcsp t) /\ (crl_enabled m = true -> In MCrl t)).
Proof.
  intros m ans t v Hv.
  assert (E : verify_client true m ans = verify_client true m (ans_of (ans MOcsp) (ans MCrl))).
  { unfold verify_client. apply run_stages_ext, ans_eta. }
  pose proof (iff_check_each m (ans MOcsp) (ans MCrl)) as H. unfold iff_check in H.
  rewrite <- E, Hv in H.
  apply andb_prop in H; destruct H as [H He].
  apply andb_prop in H; destruct H as [H Hd].
  apply andb_prop in H; destruct H as [H Hc].
  apply andb_prop in H; destruct H as [_ Hb].
  rewrite <- !mech_in_spec.
  repeat split.
  - intros Hi. rewrite Hi in Hb. simpl in Hb. exact Hb.
  - intros Hi. rewrite Hi in Hc. simpl in Hc. exact Hc.
  - intros ->. destruct t; [reflexivity|discriminate].
  - subst v. intros Hen. rewrite Hen in He. simpl in He. apply andb_prop in He. tauto.
  - subst v. intros Hen. rewrite Hen in He. apply andb_prop in He. destruct He as [_ He]. simpl in He. exact He.
Qed.
