(* OcspPrune.v — the OCSP cache as the code has it since the cache2go timers are not used any more: a map (adding
   a key replaces its item), items carry their absolute expiry, and every pruneInterval-th addition removes the
   items that have expired (pruneExpiredResponses).  Theorem: for every history of checks at non-decreasing times,
   for every prune interval and every state of the add counter, the verdicts are those of the simple cache of
   Ocsp.v (a list that is only ever consed to and never pruned) — pruning and replacement are invisible, so the
   C02/C05/C14 theorems about `ocsp_check` are theorems about the pruned cache too. *)
From Verif Require Import Base Ocsp OcspProofs.
From Verif.gen Require GenFacts.

Definition other_key (k : ckey) (p : ckey * centry) : bool := negb (ckey_eqb k (fst p)).
(* cache2go Add on an existing key replaces the item *)
Definition cache_put (c : cache) (k : ckey) (e : centry) : cache := (k, e) :: filter (other_key k) c.
Definition alive (now : Z) (p : ckey * centry) : bool := (now <? ce_expires (snd p))%Z.
(* pruneExpiredResponses: items with !now.Before(expiresAt) are deleted *)
Definition cache_prune (c : cache) (now : Z) : cache := filter (alive now) c.

Definition two64 : N := 18446744073709551616%N.

(* IsRevoked with the map, the add counter (uint64, wraps) and the pruning *)
Definition ocsp_check_p (interval : N) (cfg : ocfg) (cs : cache * N) (k : ckey) (now : Z) (next_update : option Z)
  (responders : list rbeh) : overdict * (cache * N) :=
  let '(c, adds) := cs in
  match cache_get c k now with
  | Some st => (verdict_of st, cs)
  | None =>
    let http := filter_http responders in
    match first_answer http with
    | Some st =>
      let life := lifetime now next_update (o_default_life cfg) in
      if (life >? 0)%Z then
        let c1 := cache_put c k {| ce_status := st; ce_expires := (now + life)%Z |} in
        let adds' := ((adds + 1) mod two64)%N in
        (verdict_of st, (if N.eqb (adds' mod interval) 0 then cache_prune c1 now else c1, adds'))
      else (verdict_of st, cs)
    | None => (match http with [] => OAccept | _ => if o_strict cfg then OError else OAccept end, cs)
    end
  end.

(* one item per key *)
Fixpoint uniq (c : cache) : Prop :=
  match c with [] => True | (k, _) :: t => cache_find t k = None /\ uniq t end.

Lemma find_filter_none f c k : cache_find c k = None -> cache_find (filter f c) k = None.
Proof.
  induction c as [|[k' e] t IH]; simpl; [reflexivity|].
  destruct (ckey_eqb k k') eqn:E; [discriminate|]. intros H.
  destruct (f (k', e)); simpl; [rewrite E|]; apply IH; exact H.
Qed.

Lemma uniq_filter f c : uniq c -> uniq (filter f c).
Proof.
  induction c as [|[k e] t IH]; simpl; [trivial|]. intros [Hn Hu].
  destruct (f (k, e)); simpl; [split; [apply find_filter_none; exact Hn|apply IH; exact Hu]|apply IH; exact Hu].
Qed.

Lemma find_remove_same c k : cache_find (filter (other_key k) c) k = None.
Proof.
  induction c as [|[k' e] t IH]; simpl; [reflexivity|]. unfold other_key at 1. simpl.
  destruct (ckey_eqb k k') eqn:E; simpl; [exact IH|rewrite E; exact IH].
Qed.

Lemma find_remove_other c k k' : k' <> k -> cache_find (filter (other_key k) c) k' = cache_find c k'.
Proof.
  intros Hne. induction c as [|[k0 e] t IH]; simpl; [reflexivity|]. unfold other_key at 1. simpl.
  destruct (ckey_eqb k k0) eqn:E; simpl.
  - apply ckey_eqb_eq in E. subst k0.
    destruct (ckey_eqb k' k) eqn:E2; [apply ckey_eqb_eq in E2; congruence|exact IH].
  - rewrite IH. reflexivity.
Qed.

Lemma uniq_put c k e : uniq c -> uniq (cache_put c k e).
Proof. intros H. unfold cache_put. simpl. split; [apply find_remove_same|apply uniq_filter; exact H]. Qed.

Lemma uniq_prune c now : uniq c -> uniq (cache_prune c now).
Proof. apply uniq_filter. Qed.

(* replacing instead of shadowing is invisible *)
Lemma get_put c k e k' t : cache_get (cache_put c k e) k' t = cache_get ((k, e) :: c) k' t.
Proof.
  unfold cache_get, cache_put. simpl. destruct (ckey_eqb k' k) eqn:E; [reflexivity|].
  rewrite find_remove_other; [reflexivity|]. intros ->. rewrite (proj2 (ckey_eqb_eq k k) eq_refl) in E. discriminate.
Qed.

(* pruning at time now is invisible to every lookup at now or later *)
Lemma get_prune c now k t : uniq c -> (now <= t)%Z -> cache_get (cache_prune c now) k t = cache_get c k t.
Proof.
  intros Hu Ht. unfold cache_get, cache_prune. induction c as [|[k0 e0] tl IH]; simpl; [reflexivity|].
  destruct Hu as [Hn Hu]. unfold alive at 1. simpl.
  destruct (Z.ltb_spec now (ce_expires e0)) as [Hal|Hex]; simpl.
  - destruct (ckey_eqb k k0); [reflexivity|apply IH; exact Hu].
  - destruct (ckey_eqb k k0) eqn:E.
    + apply ckey_eqb_eq in E. subst k0. rewrite (find_filter_none _ _ _ Hn).
      destruct (Z.ltb_spec t (ce_expires e0)); [lia|reflexivity].
    + apply IH; exact Hu.
Qed.

(* the simulation relation at time T: the map has one item per key and answers every lookup from T on like the list *)
Definition sim (T : Z) (c1 c2 : cache) : Prop :=
  uniq c1 /\ forall k t, (T <= t)%Z -> cache_get c1 k t = cache_get c2 k t.

Lemma sim_later T T' c1 c2 : (T <= T')%Z -> sim T c1 c2 -> sim T' c1 c2.
Proof. intros Hle [Hu H]. split; [exact Hu|]. intros k t Ht. apply H. lia. Qed.

Lemma step_sim interval cfg c1 adds c2 k now nu l T :
  sim T c1 c2 -> (T <= now)%Z ->
  fst (ocsp_check_p interval cfg (c1, adds) k now nu l) = fst (ocsp_check cfg c2 k now nu l) /\
  sim now (fst (snd (ocsp_check_p interval cfg (c1, adds) k now nu l))) (snd (ocsp_check cfg c2 k now nu l)).
Proof.
  intros [Hu H] Hle. unfold ocsp_check_p, ocsp_check. rewrite (H k now Hle).
  assert (S0 : sim now c1 c2) by (split; [exact Hu|intros k' t Ht; apply H; lia]).
  destruct (cache_get c2 k now) as [st|]; [split; [reflexivity|exact S0]|].
  destruct (first_answer (filter_http l)) as [st|]; [|split; [reflexivity|exact S0]].
  unfold cache_add. destruct (lifetime now nu (o_default_life cfg) >? 0)%Z; [|split; [reflexivity|exact S0]].
  split; [reflexivity|]. cbn [fst snd].
  set (e := {| ce_status := st; ce_expires := (now + lifetime now nu (o_default_life cfg))%Z |}).
  assert (Hput : forall k' t, (now <= t)%Z -> cache_get (cache_put c1 k e) k' t = cache_get ((k, e) :: c2) k' t).
  { intros k' t Ht. rewrite get_put. unfold cache_get. simpl. destruct (ckey_eqb k' k); [reflexivity|].
    apply (H k' t). lia. }
  destruct (N.eqb _ 0).
  - split; [apply uniq_prune, uniq_put; exact Hu|]. intros k' t Ht.
    rewrite get_prune; [apply Hput; exact Ht|apply uniq_put; exact Hu|exact Ht].
  - split; [apply uniq_put; exact Hu|exact Hput].
Qed.

(* a history of checks: (key, time, nextUpdate of the answer, responders) *)
Definition call := (ckey * Z * option Z * list rbeh)%type.
Definition time_of (q : call) : Z := snd (fst (fst q)).

Fixpoint run_p (interval : N) (cfg : ocfg) (cs : cache * N) (h : list call) : list overdict :=
  match h with
  | [] => []
  | (k, now, nu, l) :: h' =>
    let r := ocsp_check_p interval cfg cs k now nu l in fst r :: run_p interval cfg (snd r) h'
  end.
Fixpoint run_simple (cfg : ocfg) (c : cache) (h : list call) : list overdict :=
  match h with
  | [] => []
  | (k, now, nu, l) :: h' =>
    let r := ocsp_check cfg c k now nu l in fst r :: run_simple cfg (snd r) h'
  end.

Fixpoint monotone_from (T : Z) (h : list call) : Prop :=
  match h with [] => True | q :: h' => (T <= time_of q)%Z /\ monotone_from (time_of q) h' end.

Lemma run_p_cons interval cfg cs k now nu l h :
  run_p interval cfg cs ((k, now, nu, l) :: h) =
  fst (ocsp_check_p interval cfg cs k now nu l) :: run_p interval cfg (snd (ocsp_check_p interval cfg cs k now nu l)) h.
Proof. reflexivity. Qed.
Lemma run_simple_cons cfg c k now nu l h :
  run_simple cfg c ((k, now, nu, l) :: h) =
  fst (ocsp_check cfg c k now nu l) :: run_simple cfg (snd (ocsp_check cfg c k now nu l)) h.
Proof. reflexivity. Qed.

Theorem pruned_cache_refines interval cfg : forall h T c1 adds c2,
  sim T c1 c2 -> monotone_from T h -> run_p interval cfg (c1, adds) h = run_simple cfg c2 h.
Proof.
  induction h as [|[[[k now] nu] l] h IH]; intros T c1 adds c2 Hs Hm; [reflexivity|].
  destruct Hm as [Hle Hm]. unfold time_of in Hle, Hm. cbn [fst snd] in Hle, Hm.
  destruct (step_sim interval cfg c1 adds c2 k now nu l T Hs Hle) as [Hv Hs'].
  rewrite run_p_cons, run_simple_cons, Hv. f_equal.
  destruct (ocsp_check_p interval cfg (c1, adds) k now nu l) as [v [c1' adds']]. cbn [fst snd] in *.
  apply (IH now c1' adds' _ Hs' Hm).
Qed.

Corollary pruned_cache_from_empty interval cfg h T adds :
  monotone_from T h -> run_p interval cfg ([], adds) h = run_simple cfg [] h.
Proof. intros Hm. apply (pruned_cache_refines interval cfg h T [] adds []); [split; [exact I|reflexivity]|exact Hm]. Qed.

(* non-vacuity and a pruning that really removes something: interval 2, the second addition prunes the first,
   expired, item; the map holds one item where the list holds two; the verdicts agree *)
Example prune_example :
  let cfg := {| o_strict := true; o_default_life := 10 |} in
  let h : list call := [((1%N, 5%Z), 0%Z, None, [Answer SGood true]); ((2%N, 6%Z), 20%Z, None, [Answer SRevoked true]);
                        ((1%N, 5%Z), 21%Z, None, [Silent])] in
  monotone_from 0 h /\ run_p 2 cfg ([], 0%N) h = [OAccept; ORevoked; OError] /\
  length (fst (snd (ocsp_check_p 2 cfg (snd (ocsp_check_p 2 cfg ([], 0%N) (1%N, 5%Z) 0 None [Answer SGood true])) (2%N, 6%Z) 20 None [Answer SRevoked true]))) = 1.
Proof. vm_compute. repeat split; discriminate. Qed.
