(* C06Core.v — what the reader primitives do, as functions of the observable core of the
   parser state (the chunk schedule and the allocation log are not observable). *)
From Verif Require Import Base Bytes Reader Asn1Parser Pem CrlReader CrlSpec.
From Verif.gen Require GenFacts.

Record core := {
  c_rest : bytes; c_hashing : bool; c_hashed : bytes; c_nread : Z;
  c_evs : list event; c_nev : nat; c_fail : option nat }.

Definition core_of (s : ps) : core :=
  {| c_rest := rest (rdr s); c_hashing := hashing (rdr s); c_hashed := hashed (rdr s);
     c_nread := nread (rdr s); c_evs := frev (evs_rev s); c_nev := nev s; c_fail := fail_at s |}.

(* consuming X, with tail left *)
Definition adv (c : core) (X tail : bytes) : core :=
  {| c_rest := tail; c_hashing := c_hashing c;
     c_hashed := c_hashed c ++ (if c_hashing c then X else []);
     c_nread := (c_nread c + Z.of_nat (length X))%Z;
     c_evs := c_evs c; c_nev := c_nev c; c_fail := c_fail c |}.

Definition runs {A} (m : M A) (s : ps) (v : A) (c' : core) : Prop :=
  exists s', m s = (Ok v, s') /\ core_of s' = c'.

Lemma runs_bind {A B} (m : M A) (f : A -> M B) s a c1 b c2 :
  runs m s a c1 -> (forall s1, core_of s1 = c1 -> runs (f a) s1 b c2) -> runs (bindM m f) s b c2.
Proof.
  intros (s1 & E1 & H1) Hf. destruct (Hf s1 H1) as (s2 & E2 & H2).
  exists s2. unfold bindM. rewrite E1. auto.
Qed.

(* the same for an arbitrary final outcome (used for rejections) *)
Definition outcome {A} (m : M A) (s : ps) (r : res A) (c' : core) : Prop :=
  exists s', m s = (r, s') /\ core_of s' = c'.

Lemma outcome_bind {A B} (m : M A) (f : A -> M B) s a c1 (r : res B) c2 :
  runs m s a c1 -> (forall s1, core_of s1 = c1 -> outcome (f a) s1 r c2) -> outcome (bindM m f) s r c2.
Proof.
  intros (s1 & E1 & H1) Hf. destruct (Hf s1 H1) as (s2 & E2 & H2).
  exists s2. unfold bindM. rewrite E1. auto.
Qed.

Lemma outcome_bind_err {A B} (m : M A) (f : A -> M B) s e c1 :
  outcome m s (Err e) c1 -> outcome (bindM m f) s (Err e) c1.
Proof. intros (s1 & E1 & H1). exists s1. unfold bindM. rewrite E1. auto. Qed.

Lemma runs_outcome {A} (m : M A) s v c : runs m s v c -> outcome m s (Ok v) c.
Proof. exact (fun H => H). Qed.

Lemma runs_ret {A} (a : A) s c : core_of s = c -> runs (ret a) s a c.
Proof. intros H. exists s. auto. Qed.

Lemma runs_ignore {A} (m : M A) s v c : runs m s v c -> runs (ignore_err m) s tt c.
Proof. intros (s1 & E & H). exists s1. unfold ignore_err. rewrite E. auto. Qed.

Lemma runs_peek_bool {A} (m : M A) f s v c : runs m s v c -> runs (peek_bool m f) s (f v) c.
Proof. intros (s1 & E & H). exists s1. unfold peek_bool. rewrite E. auto. Qed.

(* ---------------------------------------------------------------- rd_read *)
Lemma hashed_cons r chunk :
  concat (frev (chunk :: hashed_rev r)) = hashed r ++ chunk.
Proof.
  unfold hashed. rewrite !frev_rev. simpl. rewrite concat_app. simpl. rewrite app_nil_r. reflexivity.
Qed.

Lemma firstn_app_le {A} n (a b : list A) : n <= length a -> firstn n (a ++ b) = firstn n a.
Proof. intros H. rewrite firstn_app. replace (n - length a) with 0 by lia. simpl. apply app_nil_r. Qed.
Lemma skipn_app_le {A} n (a b : list A) : n <= length a -> skipn n (a ++ b) = skipn n a ++ b.
Proof. intros H. rewrite skipn_app. replace (n - length a) with 0 by lia. reflexivity. Qed.

Lemma read_loop_ok fuel : forall need r acc X tail,
  rest r = X ++ tail -> length X = need -> need < fuel ->
  exists r', read_loop fuel need r acc = (Ok (acc ++ X), r') /\
    rest r' = tail /\ hashing r' = hashing r /\
    hashed r' = hashed r ++ (if hashing r then X else []) /\
    nread r' = (nread r + Z.of_nat need)%Z.
Proof.
  induction fuel as [|f IH]; intros need r acc X tail Hr Hx Hf; [lia|].
  cbn [read_loop]. destruct need as [|n].
  - destruct X; [|discriminate]. simpl in Hr. eexists. split; [rewrite app_nil_r; reflexivity|].
    simpl. rewrite Hr. repeat split; auto. + destruct (hashing r); rewrite app_nil_r; reflexivity. + lia.
  - assert (Hrw : rest (with_alloc r (Z.of_nat (S n))) = rest r) by reflexivity.
    rewrite Hrw.
    assert (Hne : exists b0 l0, rest r = b0 :: l0) by (rewrite Hr; destruct X; [discriminate|simpl; eauto]).
    destruct Hne as (b0 & l0 & Er). rewrite Er. cbv iota. clear b0 l0 Er.
    unfold take_chunk. cbn [sched with_alloc rest hashing hashed_rev nread allocs].
    set (want := chunk_want (S n) (sched r)).
    assert (Hw : want <= S n) by (unfold want, chunk_want; destruct (sched r); lia).
    assert (Hw1 : 1 <= want) by (unfold want, chunk_want; destruct (sched r); lia).
    rewrite Hr. rewrite firstn_app_le by lia. rewrite skipn_app_le by lia.
    assert (Hl : length (firstn want X) = want) by (rewrite firstn_length; lia).
    rewrite Hl.
    destruct (Nat.eqb want (S n)) eqn:E.
    + apply Nat.eqb_eq in E. rewrite E in *.
      assert (firstn (S n) X = X) by (apply firstn_all2; lia).
      assert (skipn (S n) X = []) by (apply skipn_all2; lia).
      rewrite H, H0. eexists. split; [reflexivity|]. cbn [rest hashing nread].
      repeat split; auto.
      unfold hashed at 1. cbn [hashed_rev]. destruct (hashing r); [apply hashed_cons|rewrite app_nil_r; reflexivity].
    + apply Nat.eqb_neq in E.
      set (r1 := {| rest := skipn want X ++ tail; sched := tl (sched r); hashing := hashing r;
                    hashed_rev := if hashing r then firstn want X :: hashed_rev r else hashed_rev r;
                    nread := nread r + Z.of_nat want; allocs := Z.of_nat (S n) :: allocs r |}).
      destruct (IH (S n - want) r1 (acc ++ firstn want X) (skipn want X) tail) as (r' & E' & R1 & R2 & R3 & R4).
      * reflexivity.
      * rewrite skipn_length. lia.
      * lia.
      * exists r'. split.
        { rewrite E'. rewrite <- app_assoc. rewrite firstn_skipn. reflexivity. }
        rewrite R1, R2, R3, R4. cbn [r1 hashing nread]. repeat split; auto.
        -- unfold hashed at 1. cbn [r1 hashed_rev]. destruct (hashing r).
           ++ rewrite hashed_cons. rewrite <- app_assoc. rewrite firstn_skipn. reflexivity.
           ++ rewrite !app_nil_r. reflexivity.
        -- lia.
Qed.

Lemma core_lift s r' :
  core_of {| rdr := r'; evs_rev := evs_rev s; nev := nev s; fail_at := fail_at s |} =
  {| c_rest := rest r'; c_hashing := hashing r'; c_hashed := hashed r'; c_nread := nread r';
     c_evs := c_evs (core_of s); c_nev := c_nev (core_of s); c_fail := c_fail (core_of s) |}.
Proof. reflexivity. Qed.

Lemma read_bytes_ok s c X tail :
  core_of s = c -> c_rest c = X ++ tail ->
  runs (read_bytes (Z.of_nat (length X))) s X (adv c X tail).
Proof.
  intros Hc Hr. subst c. unfold read_bytes, lift_rd, rd_read.
  destruct (Z.of_nat (length X) <? 0)%Z eqn:E; [apply Z.ltb_lt in E; lia|].
  rewrite Nat2Z.id.
  destruct (read_loop_ok (S (length X)) (length X) (with_alloc (rdr s) (Z.of_nat (length X))) [] X tail)
    as (r' & E' & R1 & R2 & R3 & R4); [exact Hr|reflexivity|lia|].
  exists {| rdr := r'; evs_rev := evs_rev s; nev := nev s; fail_at := fail_at s |}.
  rewrite E'. split; [reflexivity|]. rewrite core_lift. unfold adv. rewrite R1, R2, R3, R4. reflexivity.
Qed.

Lemma peek_bytes_ok s c n off P tail :
  core_of s = c -> c_rest c = P ++ tail -> length P = n + off ->
  runs (peek_bytes n off) s (skipn off P) c.
Proof.
  intros Hc Hr Hl. subst c. unfold runs, peek_bytes, lift_rd, rd_peek. cbn [c_rest core_of] in Hr.
  rewrite Hr. rewrite firstn_app_le by lia. rewrite firstn_all2 by lia. rewrite Hl, Nat.eqb_refl.
  eexists. split; [reflexivity|]. reflexivity.
Qed.

(* ---------------------------------------------------------------- lengths *)
Lemma be_decode_app l b : be_decode (l ++ [b]) = (be_decode l * 256 + Z.of_N b)%Z.
Proof. unfold be_decode. rewrite fold_left_app. reflexivity. Qed.

Lemma be_bytes_length k n : length (be_bytes k n) = k.
Proof. revert n. induction k as [|k IH]; intros n; simpl; [reflexivity|]. rewrite app_length, IH. simpl. lia. Qed.

Lemma be_decode_bytes k : forall n, (0 <= n < 256 ^ Z.of_nat k)%Z -> be_decode (be_bytes k n) = n.
Proof.
  induction k as [|k IH]; intros n Hn.
  - simpl in *. unfold be_decode. simpl. lia.
  - cbn [be_bytes]. rewrite be_decode_app. rewrite IH.
    + rewrite Z2N.id by (apply Z.mod_pos_bound; lia). pose proof (Z.div_mod n 256). lia.
    + rewrite Nat2Z.inj_succ, Z.pow_succ_r in Hn by lia.
      split; [apply Z.div_pos; lia|apply Z.div_lt_upper_bound; lia].
Qed.

Lemma be_size_bound n : (0 <= n < two63)%Z -> (n < 256 ^ Z.of_nat (be_size n))%Z /\ 1 <= be_size n <= 8.
Proof.
  intros Hn. unfold be_size, two63 in *.
  repeat match goal with |- context [(n <? ?k)%Z] => destruct (Z.ltb_spec n k) end; simpl; lia.
Qed.

Definition hdr_ok (n : Z) : Prop := (0 <= n < two63)%Z.

Lemma enc_len_length n : hdr_ok n -> 1 <= length (enc_len n) <= 9.
Proof.
  intros H. unfold enc_len. destruct (n <? 128)%Z; simpl; [lia|].
  rewrite be_bytes_length. pose proof (be_size_bound n H). lia.
Qed.

(* the first length octet of a long form: bit 8 set, low nibble = number of octets *)
Lemma long_first_byte k : 1 <= k <= 8 ->
  N.eqb (N.land (N.of_nat (128 + k)) 128) 0 = false /\ N.land (N.of_nat (128 + k)) 15 = N.of_nat k.
Proof.
  intros H. assert (k = 1 \/ k = 2 \/ k = 3 \/ k = 4 \/ k = 5 \/ k = 6 \/ k = 7 \/ k = 8) as D by lia.
  repeat (destruct D as [->|D]; [split; reflexivity|]). subst. split; reflexivity.
Qed.

Lemma masks : GenFacts.read_length_long_bit = 128%N /\ GenFacts.read_length_size_mask = 15%N /\
              GenFacts.peek_length_long_bit = 128%N /\ GenFacts.peek_length_size_mask = 15%N.
Proof. repeat split; reflexivity. Qed.

Lemma small_byte n : (0 <= n < 128)%Z -> N.eqb (N.land (Z.to_N n) 128) 0 = true /\ Z.of_N (Z.to_N n) = n.
Proof.
  intros H. split; [|apply Z2N.id; lia].
  apply N.eqb_eq. apply N.bits_inj_0. intros i. rewrite N.land_spec.
  destruct (N.eq_dec i 7) as [->|Hi].
  - (* bit 7 of a number below 128 is 0 *)
    replace (N.testbit (Z.to_N n) 7) with false; [reflexivity|].
    symmetry. apply N.bits_above_log2. destruct (N.eq_dec (Z.to_N n) 0) as [->|Hz]; [reflexivity|].
    apply N.log2_lt_pow2; [lia|]. change (2 ^ 7)%N with 128%N. lia.
  - replace (N.testbit 128 i) with false; [apply andb_false_r|].
    symmetry. change 128%N with (2 ^ 7)%N. apply N.pow2_bits_false. congruence.
Qed.

Lemma read_length_ok s c n tail :
  core_of s = c -> hdr_ok n -> c_rest c = enc_len n ++ tail ->
  runs read_length s (n, length (enc_len n)) (adv c (enc_len n) tail).
Proof.
  intros Hc Hn Hr. unfold read_length, enc_len in *. destruct masks as (M1 & M2 & _). rewrite M1, M2.
  destruct (Z.ltb_spec n 128) as [Hs|Hs].
  - eapply runs_bind; [apply (read_bytes_ok s c [Z.to_N n] tail Hc Hr)|].
    intros s1 H1. cbn [hd]. destruct (small_byte n) as [E1 E2]; [unfold hdr_ok in Hn; lia|].
    rewrite E1, E2. apply runs_ret. exact H1.
  - pose proof (be_size_bound n Hn) as [Hb Hk].
    eapply runs_bind; [apply (read_bytes_ok s c [N.of_nat (128 + be_size n)] (be_bytes (be_size n) n ++ tail) Hc Hr)|].
    intros s1 H1. cbn [hd]. destruct (long_first_byte (be_size n) Hk) as [E1 E2]. rewrite E1, E2.
    rewrite nat_N_Z. rewrite <- (be_bytes_length (be_size n) n) at 1.
    eapply runs_bind; [apply (read_bytes_ok s1 _ (be_bytes (be_size n) n) tail H1); reflexivity|].
    intros s2 H2. rewrite be_decode_bytes by (unfold hdr_ok in Hn; lia). rewrite Nat2N.id.
    cbn [length]. rewrite be_bytes_length. apply runs_ret. rewrite H2. unfold adv. cbn.
    f_equal; [destruct (c_hashing c); [rewrite <- app_assoc; reflexivity|rewrite !app_nil_r; reflexivity]|].
    rewrite be_bytes_length. lia.
Qed.

Lemma peek_length_ok s c off pre n tail :
  core_of s = c -> hdr_ok n -> length pre = off -> c_rest c = pre ++ enc_len n ++ tail ->
  runs (peek_length off) s (n, length (enc_len n)) c.
Proof.
  intros Hc Hn Hp Hr. unfold peek_length, enc_len in *. destruct masks as (_ & _ & M1 & M2). rewrite M1, M2.
  destruct (Z.ltb_spec n 128) as [Hs|Hs].
  - eapply runs_bind.
    { apply (peek_bytes_ok s c 1 off (pre ++ [Z.to_N n]) tail Hc).
      - rewrite Hr, <- app_assoc. reflexivity.
      - rewrite app_length. simpl. lia. }
    intros s1 H1. rewrite skipn_app_le by lia. rewrite <- Hp, skipn_all. cbn [app hd].
    destruct (small_byte n) as [E1 E2]; [unfold hdr_ok in Hn; lia|].
    rewrite E1, E2. apply runs_ret. exact H1.
  - pose proof (be_size_bound n Hn) as [Hb Hk].
    eapply runs_bind.
    { apply (peek_bytes_ok s c 1 off (pre ++ [N.of_nat (128 + be_size n)]) (be_bytes (be_size n) n ++ tail) Hc).
      - rewrite Hr, <- app_assoc. reflexivity.
      - rewrite app_length. simpl. lia. }
    intros s1 H1. rewrite skipn_app_le by lia. rewrite <- Hp, skipn_all. cbn [app hd].
    destruct (long_first_byte (be_size n) Hk) as [E1 E2]. rewrite E1, E2. rewrite Nat2N.id.
    eapply runs_bind.
    { apply (peek_bytes_ok s1 c (be_size n) (S (length pre)) ((pre ++ [N.of_nat (128 + be_size n)]) ++ be_bytes (be_size n) n) tail H1).
      - rewrite Hr, <- !app_assoc. reflexivity.
      - rewrite !app_length, be_bytes_length. simpl. lia. }
    intros s2 H2.
    replace (S (length pre)) with (length (pre ++ [N.of_nat (128 + be_size n)])) by (rewrite app_length; simpl; lia).
    rewrite skipn_app_le by lia. rewrite skipn_all. cbn [app].
    rewrite be_decode_bytes by (unfold hdr_ok in Hn; lia).
    cbn [length]. rewrite be_bytes_length. apply runs_ret. exact H2.
Qed.

Lemma read_tl_ok s c tag n tail :
  core_of s = c -> hdr_ok n -> c_rest c = tag :: enc_len n ++ tail ->
  runs read_tag_length s {| t_tag := tag; t_len := n; t_lsize := length (enc_len n) |}
       (adv c (tag :: enc_len n) tail).
Proof.
  intros Hc Hn Hr. unfold read_tag_length.
  eapply runs_bind; [apply (read_bytes_ok s c [tag] (enc_len n ++ tail) Hc Hr)|].
  intros s1 H1. eapply runs_bind; [apply (read_length_ok s1 _ n tail H1 Hn); reflexivity|].
  intros s2 H2. cbn [hd fst snd]. apply runs_ret. rewrite H2. unfold adv. cbn.
  f_equal; [destruct (c_hashing c); [rewrite <- app_assoc; reflexivity|rewrite !app_nil_r; reflexivity]|].
  rewrite ?app_length; cbn [length]; lia.
Qed.

Lemma peek_tl_ok s c tag n tail :
  core_of s = c -> hdr_ok n -> c_rest c = tag :: enc_len n ++ tail ->
  runs (peek_tag_length 0) s {| t_tag := tag; t_len := n; t_lsize := length (enc_len n) |} c.
Proof.
  intros Hc Hn Hr. unfold peek_tag_length.
  eapply runs_bind; [apply (peek_bytes_ok s c 1 0 [tag] (enc_len n ++ tail) Hc Hr); reflexivity|].
  intros s1 H1. eapply runs_bind; [apply (peek_length_ok s1 c 1 [tag] n tail H1 Hn); [reflexivity|exact Hr]|].
  intros s2 H2. cbn [skipn hd fst snd]. apply runs_ret. exact H2.
Qed.

Lemma expect_tag_ok s c t : core_of s = c -> runs (expect_tag t t) s tt c.
Proof. intros H. unfold expect_tag. rewrite N.eqb_refl. apply runs_ret. exact H. Qed.

Lemma expect_len_ok s c limit l : core_of s = c -> (l <= limit)%Z -> runs (expect_len_le limit l) s tt c.
Proof.
  intros H Hl. unfold expect_len_le. destruct (l >? limit)%Z eqn:E; [rewrite Z.gtb_ltb in E; apply Z.ltb_lt in E; lia|].
  apply runs_ret. exact H.
Qed.

Lemma to_int64_id z : (0 <= z < two63)%Z -> to_int64 z = z.
Proof. intros H. unfold to_int64. rewrite Z.mod_small; unfold two63 in *; lia. Qed.

Lemma fits_hdr c : fits c -> hdr_ok (Z.of_nat (length c)).
Proof. unfold fits, hdr_ok, two63. change GenFacts.struct_limit with 81920%Z. lia. Qed.

Lemma tlv_length tag c : length (tlv tag c) = 1 + length (enc_len (Z.of_nat (length c))) + length c.
Proof. unfold tlv. simpl. rewrite app_length. lia. Qed.

Section WithLib.
Variable L : lib.

(* ReadStruct on a well-formed element the library accepts *)
Lemma read_struct_ok k s c content tail :
  core_of s = c -> fits content -> lib_ok L k (tlv TAG_SEQ content) = true ->
  c_rest c = tlv TAG_SEQ content ++ tail ->
  runs (read_struct L k) s (tlv TAG_SEQ content) (adv c (tlv TAG_SEQ content) tail).
Proof.
  intros Hc Hf Hl Hr. unfold read_struct. pose proof (fits_hdr _ Hf) as Hh.
  eapply runs_bind.
  { apply (peek_tl_ok s c TAG_SEQ (Z.of_nat (length content)) (content ++ tail) Hc Hh).
    rewrite Hr. unfold tlv. simpl. rewrite <- app_assoc. reflexivity. }
  intros s1 H1. cbn [t_tag t_len t_lsize].
  eapply runs_bind; [apply expect_tag_ok; exact H1|]. intros s2 H2.
  eapply runs_bind; [apply expect_len_ok; [exact H2|exact Hf]|]. intros s3 H3.
  rewrite to_int64_id by exact Hh.
  replace (Z.of_nat (length content) + Z.of_nat (length (enc_len (Z.of_nat (length content)))) + 1)%Z
    with (Z.of_nat (length (tlv TAG_SEQ content))) by (rewrite tlv_length; lia).
  eapply runs_bind; [apply (read_bytes_ok s3 c (tlv TAG_SEQ content) tail H3 Hr)|]. intros s4 H4.
  rewrite Hl. apply runs_ret. exact H4.
Qed.

Lemma read_value_ok s c n X tail :
  core_of s = c -> Z.of_nat (length X) = n -> fits X -> c_rest c = X ++ tail ->
  runs (read_value {| t_tag := 0; t_len := n; t_lsize := 0 |}) s X (adv c X tail) /\
  forall tg ls, read_value {| t_tag := tg; t_len := n; t_lsize := ls |} = read_value {| t_tag := 0; t_len := n; t_lsize := 0 |}.
Proof.
  intros Hc Hn Hf Hr. split; [|reflexivity]. unfold read_value. cbn [t_len]. subst n.
  eapply runs_bind; [apply expect_len_ok; [exact Hc|exact Hf]|]. intros s1 H1.
  rewrite to_int64_id by (apply fits_hdr; exact Hf).
  apply (read_bytes_ok s1 c X tail H1 Hr).
Qed.

Lemma adv_adv c X Y tail : adv (adv c X (Y ++ tail)) Y tail = adv c (X ++ Y) tail.
Proof.
  unfold adv. cbn. f_equal.
  - destruct (c_hashing c); [rewrite <- app_assoc; reflexivity|rewrite !app_nil_r; reflexivity].
  - rewrite app_length. lia.
Qed.

Lemma read_utc_ok s c content tail :
  core_of s = c -> fits content -> lib_ok L KUtc content = true ->
  c_rest c = tlv TAG_UTC content ++ tail ->
  runs (read_utc_time L) s content (adv c (tlv TAG_UTC content) tail).
Proof.
  intros Hc Hf Hl Hr. unfold read_utc_time. pose proof (fits_hdr _ Hf) as Hh.
  eapply runs_bind.
  { apply (read_tl_ok s c TAG_UTC (Z.of_nat (length content)) (content ++ tail) Hc Hh).
    rewrite Hr. unfold tlv. simpl. rewrite <- app_assoc. reflexivity. }
  intros s1 H1. cbn [t_tag].
  eapply runs_bind; [apply expect_tag_ok; exact H1|]. intros s2 H2.
  destruct (read_value_ok s2 _ (Z.of_nat (length content)) content tail H2 eq_refl Hf eq_refl) as [Hv Heq].
  rewrite Heq. eapply runs_bind; [exact Hv|]. intros s3 H3.
  rewrite Hl. apply runs_ret. rewrite H3. unfold tlv.
  change (TAG_UTC :: enc_len (Z.of_nat (length content)) ++ content)
    with ((TAG_UTC :: enc_len (Z.of_nat (length content))) ++ content).
  apply adv_adv.
Qed.

Lemma parse_bits_ok s c body tail :
  core_of s = c -> fits (0%N :: body) -> c_rest c = tlv TAG_BITS (0%N :: body) ++ tail ->
  runs parse_bit_string s (body, (Z.of_nat (length body) * 8)%Z) (adv c (tlv TAG_BITS (0%N :: body)) tail).
Proof.
  intros Hc Hf Hr. unfold parse_bit_string. pose proof (fits_hdr _ Hf) as Hh.
  eapply runs_bind.
  { apply (read_tl_ok s c TAG_BITS (Z.of_nat (length (0%N :: body))) ((0%N :: body) ++ tail) Hc Hh).
    rewrite Hr. unfold tlv. simpl. rewrite <- app_assoc. reflexivity. }
  intros s1 H1. cbn [t_tag].
  eapply runs_bind; [apply expect_tag_ok; exact H1|]. intros s2 H2.
  destruct (read_value_ok s2 _ (Z.of_nat (length (0%N :: body))) (0%N :: body) tail H2 eq_refl Hf eq_refl) as [Hv Heq].
  rewrite Heq. eapply runs_bind; [exact Hv|]. intros s3 H3.
  change (7 <? 0)%N with false. cbv iota.
  replace (Nat.eqb (length (0%N :: body)) 1 && (0 <? 0)%N) with false by (rewrite andb_false_r; reflexivity).
  change (N.shiftl 1 0 - 1)%N with 0%N. rewrite N.land_0_r. cbn [N.eqb negb].
  rewrite Z.sub_0_r. apply runs_ret. rewrite H3. unfold tlv.
  change (TAG_BITS :: enc_len (Z.of_nat (length (0%N :: body))) ++ 0%N :: body)
    with ((TAG_BITS :: enc_len (Z.of_nat (length (0%N :: body)))) ++ 0%N :: body).
  apply adv_adv.
Qed.

Lemma emit_ok s c e :
  core_of s = c -> c_fail c = None ->
  runs (emit e) s tt {| c_rest := c_rest c; c_hashing := c_hashing c; c_hashed := c_hashed c; c_nread := c_nread c;
                        c_evs := c_evs c ++ [e]; c_nev := S (c_nev c); c_fail := None |}.
Proof.
  intros Hc Hf. subst c. unfold runs, emit. cbn [c_fail core_of] in Hf. cbv beta. rewrite Hf.
  eexists. split; [reflexivity|]. unfold core_of. cbn.
  f_equal; try reflexivity. unfold frev. rewrite !rev_append_rev. rewrite app_nil_r. reflexivity.
Qed.

Lemma bytes_read_ok s c : core_of s = c -> runs bytes_read s (c_nread c) c.
Proof. intros H. subst c. exists s. auto. Qed.

End WithLib.
