(* Bytes.v — strings as byte lists, decimal text of integers (Go big.Int.String), FNV-1a
   (core/hashing/hashes.go), the store key (crl/crlstore/map.go, leveldb.go). *)
From Coq Require Import DecimalString DecimalZ.
From Verif Require Import Base.
From Verif.gen Require GenFacts.

Definition byte_of_ascii (a : ascii) : N := N_of_ascii a.

Fixpoint bytes_of_string (s : string) : bytes :=
  match s with EmptyString => [] | String a r => byte_of_ascii a :: bytes_of_string r end.

(* Go: big.Int.String() — optional '-', decimal digits, "0" for zero *)
Definition dec_string (z : Z) : string := NilZero.string_of_int (Z.to_int z).
Definition dec_bytes (z : Z) : bytes := bytes_of_string (dec_string z).

(* hashing.Sum64: hash ^= byte; hash *= prime64 (uint64 wrap-around written out) *)
Definition two64 : N := 18446744073709551616%N.
Definition fnv_step (h b : N) : N := ((N.lxor h b) * GenFacts.fnv_prime64) mod two64.
Definition fnv1a64 (s : bytes) : N := fold_left fnv_step s GenFacts.fnv_offset64.

(* binary.LittleEndian.PutUint64 *)
Fixpoint le_bytes (n : nat) (h : N) : bytes :=
  match n with O => [] | S k => (h mod 256)%N :: le_bytes k (h / 256)%N end.
Definition sum64 (s : bytes) : bytes := le_bytes 8 (fnv1a64 s).

(* issuer.String() + sep + serial.String() *)
Definition key_with (sep : string) (issuer : bytes) (serial : Z) : bytes :=
  issuer ++ bytes_of_string sep ++ dec_bytes serial.

(* hex text (as written by the harness) -> bytes *)
Definition hex_val (a : ascii) : N :=
  let n := N_of_ascii a in
  if (n <? 58)%N then (n - 48)%N else if (n <? 71)%N then (n - 55)%N else (n - 87)%N.
Fixpoint hex_decode (s : string) : bytes :=
  match s with
  | String a (String b r) => (hex_val a * 16 + hex_val b)%N :: hex_decode r
  | _ => []
  end.
