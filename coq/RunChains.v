From Verif Require Import Base Chains.

Inductive signer_kind := KIssuer | KEndEntity | KEndEntityKey | KUnrelatedKey | KSibling | KTrusted | KStranger | KRootKey | KNoCrlSign.
Inductive aki_form := AkiAbsent | AkiKeyId | AkiIssuerSerial | AkiBoth.
Record chcase := mk_ch { ch_idx : nat; ch_signer : signer_kind; ch_aki : aki_form; ch_in_force : bool }.

Definition mkc key subj iss ser ee kup crl : kcert :=
  {| k_key := key; k_subject := subj; k_issuer := iss; k_serial := ser; k_ski := key; k_alg := 1;
     k_end_entity := ee; k_ku_present := kup; k_ku_crlsign := crl |}.
(* names: 1 CA, 9 root, 10 leaf, 3 stranger; keys likewise; sibling has name 1 and key 4 *)
Definition c_root := mkc 9 9 9 900 false true true.
Definition c_ca (crlsign : bool) := mkc 1 1 9 100 false true crlsign.
Definition c_leaf := mkc 10 10 1 7000 false true false.
Definition c_stranger := mkc 3 3 3 300 false true true.
Definition c_sibling := mkc 4 1 9 101 false true true.

(* the CRL a signer kind produces: (issuing certificate whose name/AKI it carries, signing key) *)
Definition crl_of (k : signer_kind) (a : aki_form) : csig :=
  let '(named, key) :=
    match k with
    | KIssuer => (c_ca true, 1) | KEndEntity => (c_leaf, 10) | KEndEntityKey => (c_ca true, 10)
    | KUnrelatedKey => (c_ca true, 3) | KSibling => (c_sibling, 4) | KTrusted => (c_stranger, 3)
    | KStranger => (c_stranger, 3) | KRootKey => (c_ca true, 9) | KNoCrlSign => (c_ca false, 1)
    end%N in
  (* the harness always writes the named certificate's SKI into the AKI *)
  let kid := k_ski named in
  {| s_issuer := k_subject named;
     s_aki_keyid := match a with AkiKeyId | AkiBoth => Some kid | _ => None end;
     s_aki_issuer_serial := match a with AkiIssuerSerial | AkiBoth => Some (k_issuer named, k_serial named) | _ => None end;
     s_alg := 1; s_signed_by := key; s_intact := true |}.

Definition chains_of (k : signer_kind) : chains :=
  new_chains [[c_leaf; c_ca (match k with KNoCrlSign => false | _ => true end); c_root]]
             (match k with KTrusted => [c_stranger] | _ => [] end).

Definition ch_agrees (c : chcase) : bool :=
  Bool.eqb (match verify_crl_sig (crl_of (ch_signer c) (ch_aki c)) (chains_of (ch_signer c)) with Some _ => true | None => false end)
           (ch_in_force c).
Definition chains_mismatches (l : list chcase) : list nat := map ch_idx (filter (fun c => negb (ch_agrees c)) l).
