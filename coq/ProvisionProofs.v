(* ProvisionProofs.v — provisioning of configured CRLs: when it returns without error every configured
   location holds, in force, the list its location serves, accepted under the signature policy; and
   provisioning preserves the repository invariant (so every theorem over reachable states also holds for
   histories that start with a provisioning). *)
From Verif Require Import Base Repo RepoProofs RepoProps.

Lemma intake_some cfg ev p id e avail f e' l sg :
  intake cfg ev p id e avail f = (e', Some (l, sg)) ->
  exists loc rest, e_locs e = loc :: rest /\ ev loc = Serve l /\ list_ok cfg l /\
    (r_sigmode cfg = SigVerify -> verified l avail = true) /\
    e' = {| e_locs := e_locs e; e_list := Some l; e_loaded := true; e_chain := []; e_signer := sg |}.
Proof.
  unfold intake. destruct (e_locs e) as [|loc rest] eqn:El; [intros [= _ ?]; discriminate|].
  destruct (accepts cfg p (ev loc) avail f) as [[l0 sg0]|] eqn:Ea; [|intros [= _ ?]; discriminate].
  intros [= <- <- <-]. apply accepts_ok in Ea. destruct Ea as (Hs & Hok & Hv).
  exists loc, rest. auto.
Qed.

(* every entry is filed under its own locations *)
Definition locs_ok (st : rstate) : Prop := forall id e, lookup id (entries st) = Some e -> e_locs e = id.

Lemma lookup_app_none {A} id (l l' : list (ident * A)) : lookup id l = None -> lookup id (l ++ l') = lookup id l'.
Proof. induction l as [|[k w] l IH]; simpl; [reflexivity|]. destruct (ident_eqb id k); [discriminate|exact IH]. Qed.

Lemma added_state_locs cfg st id c : locs_ok st -> locs_ok (added_state cfg st id c).
Proof.
  intros H. unfold added_state. destruct (lookup id (entries st)) eqn:E; [exact H|].
  intros id' e'. simpl. destruct (lookup id' (entries st)) eqn:E'.
  - rewrite (lookup_app_some _ _ _ _ E'). intros [= <-]. apply H. exact E'.
  - rewrite lookup_app_none by exact E'. simpl. destruct (ident_eqb id' id) eqn:Ei; [|discriminate].
    intros [= <-]. apply ident_eqb_eq in Ei. subst. reflexivity.
Qed.

Lemma update_locs id e' st d m :
  locs_ok st -> e_locs e' = id -> locs_ok {| entries := update id e' (entries st); disk := d; marks := m |}.
Proof.
  intros H He id' e0. simpl. destruct (ident_eqb id' id) eqn:Ei.
  - apply ident_eqb_eq in Ei. subst id'. rewrite lookup_update_same. intros [= <-]. exact He.
  - rewrite lookup_update_other by exact Ei. apply H.
Qed.

(* the list a location holds in force is the one it serves *)
Definition serves_in_force (cfg : rcfg) (ev : env) (avail : list N) (st : rstate) (loc : N) : Prop :=
  exists e l, lookup [loc] (entries st) = Some e /\ e_loaded e = true /\ e_list e = Some l /\
              ev loc = Serve l /\ list_ok cfg l /\ (r_sigmode cfg = SigVerify -> verified l avail = true).

Lemma one_lookup_same_ident (a b : N) : ident_eqb [a] [b] = N.eqb a b.
Proof. unfold ident_eqb. simpl. rewrite andb_true_r. reflexivity. Qed.

(* one configured location *)
Lemma configure_one_spec cfg ev trusted st loc st' :
  locs_ok st -> configure_one cfg ev trusted st loc = Some st' ->
  locs_ok st' /\ serves_in_force cfg ev trusted st' loc /\
  (forall loc', loc' <> loc -> lookup [loc'] (entries st') = lookup [loc'] (entries st) \/
                               (lookup [loc'] (entries st) = None /\ lookup [loc'] (entries st') = None)).
Proof.
  intros Hl. unfold configure_one.
  set (st1 := added_state cfg st [loc] (config_cert trusted)).
  assert (Hl1 : locs_ok st1) by (apply added_state_locs; exact Hl).
  assert (Hother1 : forall loc', loc' <> loc -> lookup [loc'] (entries st1) = lookup [loc'] (entries st)).
  { intros loc' Hne. unfold st1, added_state. destruct (lookup [loc] (entries st)) eqn:E; [reflexivity|]. simpl.
    destruct (lookup [loc'] (entries st)) eqn:E'; [apply lookup_app_some; exact E'|].
    rewrite lookup_app_none by exact E'. simpl. rewrite one_lookup_same_ident.
    destruct (N.eqb_spec loc' loc); [congruence|reflexivity]. }
  (* the state after AddCRL *)
  assert (H2 : forall st2,
    (match r_fetch cfg, lookup [loc] (entries st1) with
     | Active, Some e =>
       if e_loaded e then Some st1
       else let '(e', r) := intake cfg ev FirstLoad [loc] e trusted NoFault in
            match r with
            | Some _ => Some {| entries := update [loc] e' (entries st1); disk := persist cfg [loc] r (disk st1); marks := marks st1 |}
            | None => None
            end
     | _, _ => Some st1
     end) = Some st2 ->
    locs_ok st2 /\ (forall loc', loc' <> loc -> lookup [loc'] (entries st2) = lookup [loc'] (entries st))).
  { intros st2. destruct (r_fetch cfg); [|intros [= <-]; auto].
    destruct (lookup [loc] (entries st1)) as [e|] eqn:E1; [|intros [= <-]; auto].
    destruct (e_loaded e); [intros [= <-]; auto|].
    destruct (intake cfg ev FirstLoad [loc] e trusted NoFault) as [e' [[l sg]|]] eqn:Ei; [|discriminate].
    intros [= <-]. apply intake_some in Ei. destruct Ei as (lc & rest & Hlocs & _ & _ & _ & ->).
    split.
    - apply update_locs; [exact Hl1|]. simpl. apply Hl1. exact E1.
    - intros loc' Hne. simpl. rewrite lookup_update_other; [apply Hother1; exact Hne|].
      rewrite one_lookup_same_ident. destruct (N.eqb_spec loc' loc); [congruence|reflexivity]. }
  destruct (match r_fetch cfg, lookup [loc] (entries st1) with | Active, Some e => _ | _, _ => Some st1 end) as [st2|] eqn:E2; [|discriminate].
  destruct (H2 st2 eq_refl) as [Hl2 Hother2].
  destruct (lookup [loc] (entries st2)) as [e|] eqn:Ee; [|discriminate].
  destruct (intake cfg ev Refresh [loc] e trusted NoFault) as [e' [[l sg]|]] eqn:Ei; [|discriminate].
  intros [= <-]. apply intake_some in Ei. destruct Ei as (lc & rest & Hlocs & Hev & Hok & Hv & ->).
  pose proof (Hl2 _ _ Ee) as Hid. rewrite Hlocs in Hid. injection Hid as -> ->.
  split; [|split].
  - apply update_locs; [exact Hl2|]. simpl. apply Hl2. exact Ee.
  - eexists _, l. simpl. rewrite lookup_update_same. split; [reflexivity|]. simpl. split; [reflexivity|]. split; [reflexivity|]. split; [exact Hev|]. split; [exact Hok|exact Hv].
  - intros loc' Hne. left. simpl. rewrite lookup_update_other; [apply Hother2; exact Hne|].
    rewrite one_lookup_same_ident. destruct (N.eqb_spec loc' loc); [congruence|reflexivity].
Qed.

Lemma serves_kept cfg ev trusted st st' loc loc' :
  serves_in_force cfg ev trusted st loc' -> loc' <> loc ->
  (lookup [loc'] (entries st') = lookup [loc'] (entries st) \/ (lookup [loc'] (entries st) = None /\ lookup [loc'] (entries st') = None)) ->
  serves_in_force cfg ev trusted st' loc'.
Proof.
  intros (e & l & Hlk & H) _ [Heq|[Hn _]]; [|congruence]. exists e, l. rewrite Heq. auto.
Qed.

(* all of them *)
Theorem provision_in_force cfg ev trusted locs : forall st st',
  locs_ok st -> provision cfg ev trusted locs st = Some st' ->
  locs_ok st' /\ forall loc, In loc locs -> serves_in_force cfg ev trusted st' loc.
Proof.
  induction locs as [|loc locs IH]; intros st st' Hl; simpl.
  - intros [= <-]. split; [exact Hl|intros ? []].
  - destruct (configure_one cfg ev trusted st loc) as [st1|] eqn:E1; [|discriminate]. intros Hp.
    destruct (configure_one_spec _ _ _ _ _ _ Hl E1) as (Hl1 & Hs1 & _).
    destruct (IH st1 st' Hl1 Hp) as [Hl' Hrest]. split; [exact Hl'|].
    intros x [<-|Hin]; [|apply Hrest; exact Hin].
    (* the head location is still served in force after the remaining ones have been configured *)
    clear IH Hrest E1 Hl Hl'. revert st1 st' Hl1 Hs1 Hp.
    induction locs as [|y ys IHy]; intros st1 st' Hl1 Hs1; simpl; [intros [= <-]; exact Hs1|].
    destruct (configure_one cfg ev trusted st1 y) as [st2|] eqn:E2; [|discriminate]. intros Hp.
    destruct (configure_one_spec _ _ _ _ _ _ Hl1 E2) as (Hl2 & Hsy & Hoth).
    apply (IHy st2 st' Hl2); [|exact Hp].
    destruct (N.eq_dec loc y) as [->|Hne]; [exact Hsy|].
    eapply serves_kept; [exact Hs1|exact Hne|apply Hoth; exact Hne].
Qed.

(* provisioning starts from the state a (re)start leaves *)
Corollary provision_after_restart cfg ev trusted locs st st' :
  provision cfg ev trusted locs (restart cfg st) = Some st' ->
  forall loc, In loc locs -> serves_in_force cfg ev trusted st' loc.
Proof.
  intros H. apply (provision_in_force cfg ev trusted locs (restart cfg st) st'); [|exact H].
  intros id e. simpl. discriminate.
Qed.

(* and a certificate on a configured list is rejected by the very first handshake, whether or not it names
   a distribution point of its own (strictness can only add a rejection) *)
Corollary provision_then_first_handshake cfg ev trusted locs st st' loc c l :
  provision cfg ev trusted locs (restart cfg st) = Some st' -> In loc locs -> ev loc = Serve l -> listed c l = true ->
  snd (handshake cfg ev st' c) <> VAccept.
Proof.
  intros Hp Hin Hev Hc. destruct (provision_after_restart _ _ _ _ _ _ Hp loc Hin) as (e & l' & Hlk & Hld & Hli & Hev' & _).
  rewrite Hev in Hev'. injection Hev' as <-.
  eapply handshake_sound; [exists e; eauto|exact Hc].
Qed.

(* ---- provisioning preserves the repository invariant (either instance) *)
Section Generic.
Variable D : rcfg -> crl * option N -> Prop.
Hypothesis D_accepts : forall cfg p a avail f l sg, accepts cfg p a avail f = Some (l, sg) -> D cfg (l, sg).
Hypothesis D_adopt : forall cfg l sg chain, D cfg (l, sg) -> adopt_counts cfg sg chain = true -> list_ok cfg l.

Lemma intake_state_inv cfg ev p id e avail st :
  InvG D cfg st -> lookup id (entries st) = Some e ->
  forall m, InvG D cfg {| entries := update id (fst (intake cfg ev p id e avail NoFault)) (entries st);
                disk := persist cfg id (snd (intake cfg ev p id e avail NoFault)) (disk st); marks := m |}.
Proof.
  intros H El m. pose proof (inv_lookup D _ _ _ _ H El) as Hok.
  pose proof (intake_entry_ok D D_accepts cfg ev p id e avail NoFault Hok) as Hi.
  pose proof (intake_result_ok D D_accepts cfg ev p id e avail NoFault) as Hr.
  destruct (intake cfg ev p id e avail NoFault) as [e' r]. simpl in *.
  destruct H as [He Hd]. split; simpl.
  - apply update_forall; [exact He|]. intros k _. exact Hi.
  - apply (persist_ok D); [exact Hd|]. intros l sg ->. eapply Hr. reflexivity.
Qed.

Lemma configure_one_inv cfg ev trusted st loc st' :
  InvG D cfg st -> configure_one cfg ev trusted st loc = Some st' -> InvG D cfg st'.
Proof.
  intros H. unfold configure_one.
  set (st1 := added_state cfg st [loc] (config_cert trusted)).
  assert (H1 : InvG D cfg st1) by (apply (added_state_inv D D_adopt); exact H).
  assert (H2 : forall st2,
    (match r_fetch cfg, lookup [loc] (entries st1) with
     | Active, Some e =>
       if e_loaded e then Some st1
       else let '(e', r) := intake cfg ev FirstLoad [loc] e trusted NoFault in
            match r with
            | Some _ => Some {| entries := update [loc] e' (entries st1); disk := persist cfg [loc] r (disk st1); marks := marks st1 |}
            | None => None
            end
     | _, _ => Some st1
     end) = Some st2 -> InvG D cfg st2).
  { intros st2. destruct (r_fetch cfg); [|intros [= <-]; exact H1].
    destruct (lookup [loc] (entries st1)) as [e|] eqn:E1; [|intros [= <-]; exact H1].
    destruct (e_loaded e); [intros [= <-]; exact H1|].
    pose proof (intake_state_inv cfg ev FirstLoad [loc] e trusted st1 H1 E1 (marks st1)) as Hi.
    destruct (intake cfg ev FirstLoad [loc] e trusted NoFault) as [e' [v|]]; [|discriminate].
    intros [= <-]. exact Hi. }
  destruct (match r_fetch cfg, lookup [loc] (entries st1) with | Active, Some e => _ | _, _ => Some st1 end) as [st2|] eqn:E2; [|discriminate].
  specialize (H2 st2 eq_refl).
  destruct (lookup [loc] (entries st2)) as [e|] eqn:Ee; [|discriminate].
  pose proof (intake_state_inv cfg ev Refresh [loc] e trusted st2 H2 Ee (remove_id [loc] (marks st2))) as Hi.
  destruct (intake cfg ev Refresh [loc] e trusted NoFault) as [e' [v|]]; [|discriminate].
  intros [= <-]. exact Hi.
Qed.

Lemma provision_inv cfg ev trusted locs : forall st st',
  InvG D cfg st -> provision cfg ev trusted locs st = Some st' -> InvG D cfg st'.
Proof.
  induction locs as [|loc locs IH]; intros st st' H; simpl; [intros [= <-]; exact H|].
  destruct (configure_one cfg ev trusted st loc) as [st1|] eqn:E; [|discriminate].
  apply IH. eapply configure_one_inv; eassumption.
Qed.
End Generic.

(* under verify: provisioning succeeds only with lists that verify under a trusted signer *)
Corollary provision_verify cfg ev trusted locs st st' loc :
  r_sigmode cfg = SigVerify -> provision cfg ev trusted locs (restart cfg st) = Some st' -> In loc locs ->
  exists l, ev loc = Serve l /\ l_parse_ok l = true /\ l_sig_ok l = true /\ existsb (N.eqb (l_signer l)) trusted = true.
Proof.
  intros Hm Hp Hin. destruct (provision_after_restart _ _ _ _ _ _ Hp loc Hin) as (e & l & _ & _ & _ & Hev & [Hpo _] & Hv).
  specialize (Hv Hm). unfold verified in Hv. apply andb_prop in Hv. exists l. tauto.
Qed.

(* non-vacuity *)
Definition good_list : crl := {| l_issuer := 1; l_serials := [103%Z]; l_signer := 1; l_sig_ok := true; l_parse_ok := true |}.
Example provision_example :
  let cfg := {| r_storage := Memory; r_sigmode := SigVerify; r_fetch := Background; r_strict := false |} in
  let ev := set_env (fun _ => Down) 5 (Serve good_list) in
  (exists st', provision cfg ev [1%N] [5%N] (restart cfg (snd init_state)) = Some st' /\
     snd (handshake cfg ev st' {| c_issuer := 1; c_serial := 103; c_cdps := []; c_chain := [1%N; 9%N] |}) = VRevoked) /\
  provision cfg ev [] [5%N] (restart cfg (snd init_state)) = None.
Proof. split; [eexists; split; vm_compute; reflexivity|vm_compute; reflexivity]. Qed.
