(* Ticker.v — discrete-time model of the periodic refresh (crlrevocationchecker.go:
   initCRLUpdateTicker, updateCRLs, updateWasRecentlyFinished) for any number of validator
   instances in one process.  Time is an integer. *)
From Verif Require Import Base.
From Verif.gen Require GenFacts.

(* what can happen at an instant: a tick of instance i, or a forced pass of instance i
   (background first load); every pass takes d time units and refreshes every CRL known to
   THAT instance *)
Inductive tev := Tick (i : nat) | Forced (i : nat).

Record tstate := {
  stamps : list (nat * Z);      (* instance -> finish time of the last pass whose stamp it reads (0 = never) *)
  passes : list (nat * Z * Z) }. (* log: (instance, start, finish) of every pass performed *)

Definition stamp_key (i : nat) : nat := if GenFacts.refresh_stamp_per_instance then i else 0.

Fixpoint get_stamp (l : list (nat * Z)) (k : nat) : Z :=
  match l with [] => 0%Z | (k', v) :: t => if Nat.eqb k k' then v else get_stamp t k end.
Definition set_stamp (l : list (nat * Z)) (k : nat) (v : Z) := (k, v) :: l.

(* updateWasRecentlyFinished for an instance with interval T at time now *)
Definition recently (st : tstate) (i : nat) (T now : Z) : bool :=
  let s := get_stamp (stamps st) (stamp_key i) in
  negb (Z.eqb s 0) && (now - s <? T / GenFacts.skip_divisor)%Z.

Definition do_pass (st : tstate) (i : nat) (now d : Z) : tstate :=
  {| stamps := set_stamp (stamps st) (stamp_key i) (now + d)%Z; passes := (i, now, (now + d)%Z) :: passes st |}.

(* updateCRLs(forceUpdate) *)
Definition tstep (interval : nat -> Z) (d : Z) (st : tstate) (x : Z * tev) : tstate :=
  let '(now, e) := x in
  match e with
  | Tick i => if recently st i (interval i) now then st else do_pass st i now d
  | Forced i => do_pass st i now d
  end.

Definition trun (interval : nat -> Z) (d : Z) (xs : list (Z * tev)) : tstate :=
  fold_left (tstep interval d) xs {| stamps := []; passes := [] |}.

(* did instance i complete a pass with finish time in (lo, hi] ? *)
Definition passed_in (st : tstate) (i : nat) (lo hi : Z) : bool :=
  existsb (fun p => Nat.eqb (fst (fst p)) i && (lo <? snd p)%Z && (snd p <=? hi)%Z) (passes st).
