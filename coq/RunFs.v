From Verif Require Import Base Bytes FsNames.
Inductive fscase :=
| mk_fn (idx : nat) (digest : bytes) (hexname : bytes)     (* Go's hex(sha256(x)) vs the model's hex *)
| mk_tn (idx : nat) (name : bytes) (swept : bool).          (* was the name removed by the start-up sweep? *)
Definition fs_idx (c : fscase) := match c with mk_fn i _ _ | mk_tn i _ _ => i end.
Definition fs_agrees (c : fscase) : bool :=
  match c with
  | mk_fn _ d h => bytes_eqb (hex_of_bytes d) h && negb (matches_temp h)
  | mk_tn _ n s => Bool.eqb (matches_temp n) s
  end.
Definition fs_mismatches (l : list fscase) : list nat := map fs_idx (filter (fun c => negb (fs_agrees c)) l).
