(* RunReader.v — evaluation of CRL files read by the real streaming reader against the model. *)
From Verif Require Import Base Bytes Reader Asn1Parser Pem CrlReader RunStore.
From Verif.gen Require GenFacts.
From Coq Require Import Uint63.

(* byte strings are written by the harness as 7 bytes per primitive 63-bit integer
   (parsing string or N literals of this size is two orders of magnitude slower) *)
Definition byte_at (w sh : Uint63.int) : N :=
  Z.to_N (Uint63.to_Z (Uint63.land (Uint63.lsr w sh) 255%uint63)).
Definition word_bytes (w : Uint63.int) : bytes :=
  [ byte_at w 48%uint63; byte_at w 40%uint63; byte_at w 32%uint63; byte_at w 24%uint63;
    byte_at w 16%uint63; byte_at w 8%uint63; byte_at w 0%uint63 ].
Definition pk (n : N) (ws : list Uint63.int) : bytes := firstn (N.to_nat n) (flat_map word_bytes ws).

Inductive oev :=
| OStart (issuer this_update : bytes) (next_update : option bytes)
| OInsert (entry : bytes)
| OExt (crl_number : option Z).

Record robs := mk_ro {
  o_class : N;                 (* 0 ok, 1 error, 2 panic *)
  o_inserts : nat;             (* number of entries handed to the consumer *)
  o_detail : bool;             (* compare the event list below field by field *)
  o_events : list oev;
  o_digest : option (nat * nat); (* ok only: the digest reported equals H(stream[start, start+len)) *)
  o_sig : bytes;               (* ok only: signature bytes *)
  o_hash : string }.           (* ok only: hash name *)

Record rcase := mk_rc {
  rc_idx : nat;
  rc_file : bytes;
  rc_lib_default : bool;                                (* library verdict for TLVs not listed *)
  rc_lib : list (N * bytes * bool);                     (* (kind, TLV, accepted) *)
  rc_exts : list (bytes * list (string * bool * bytes)); (* TLV of SEQUENCE OF Extension -> decoded *)
  rc_algs : list (bytes * string);                      (* AlgorithmIdentifier TLV -> OID text *)
  rc_fail_at : option nat;
  rc_obs : robs }.

Definition kind_code (k : kind) : N :=
  match k with KRdn => 0 | KAlgId => 1 | KRevoked => 2 | KExts => 3 | KUtc => 4 end.

Definition lib_of (c : rcase) : lib :=
  let tbl := rc_lib c in
  let exts := rc_exts c in
  let algs := rc_algs c in
  {| lib_ok := fun k bs =>
       match find (fun x => N.eqb (fst (fst x)) (kind_code k) && bytes_eqb (snd (fst x)) bs) tbl with
       | Some x => snd x | None => rc_lib_default c end;
     lib_exts := fun bs => match find (fun x => bytes_eqb (fst x) bs) exts with Some x => snd x | None => [] end;
     lib_alg_oid := fun bs => match find (fun x => bytes_eqb (fst x) bs) algs with Some x => snd x | None => ""%string end |}.

Definition oev_eqb (e : event) (o : oev) : bool :=
  match e, o with
  | EvStart i t n, OStart i' t' n' =>
    bytes_eqb i i' && bytes_eqb t t'
    && match n, n' with None, None => true | Some a, Some b => bytes_eqb a b | _, _ => false end
  | EvInsert x, OInsert x' => bytes_eqb x x'
  | EvExtMeta a, OExt b => match a, b with None, None => true | Some x, Some y => Z.eqb x y | _, _ => false end
  | _, _ => false
  end.

Fixpoint list_eqb2 {A B} (eqb : A -> B -> bool) (a : list A) (b : list B) : bool :=
  match a, b with
  | [], [] => true
  | x :: a', y :: b' => eqb x y && list_eqb2 eqb a' b'
  | _, _ => false
  end.

Definition is_insert (e : event) := match e with EvInsert _ => true | _ => false end.

Definition alloc_bound : Z := (GenFacts.struct_limit + 17)%Z.

Definition rc_agrees (c : rcase) : bool :=
  let file := rc_file c in
  let stream := stream_of_file file in
  let '(evs, r, al) := read_stream (lib_of c) stream [] [] (rc_fail_at c) in
  let o := rc_obs c in
  forallb (fun a => (0 <=? a)%Z && (a <=? alloc_bound)%Z) al
  && Nat.eqb (length (filter is_insert evs)) (o_inserts o)
  && (negb (o_detail o) || list_eqb2 oev_eqb evs (o_events o))
  && match r with
     | Ok res =>
       N.eqb (o_class o) 0
       && bytes_eqb (r_sig res) (o_sig o)
       && String.eqb (r_hash res) (o_hash o)
       && match o_digest o with
          | Some (st, ln) => bytes_eqb (r_digest_input res) (firstn ln (skipn st stream))
          | None => false
          end
     | Err _ => N.eqb (o_class o) 1
     | Panic _ => N.eqb (o_class o) 2
     | OutOfFuel => false
     end.

Definition reader_mismatches (l : list rcase) : list nat :=
  map rc_idx (filter (fun c => negb (rc_agrees c)) l).

(* PEM layer on its own: the bytes the real PemReader + base64 decoder deliver *)
Record pemcase := mk_pc { pc_idx : nat; pc_file : bytes; pc_is_pem : bool; pc_stream : bytes }.
Definition pc_agrees (c : pemcase) : bool :=
  let file := pc_file c in
  Bool.eqb (is_pem_file file) (pc_is_pem c)
  && (negb (pc_is_pem c) || bytes_eqb (b64_decode (pem_payload file)) (pc_stream c)).
Definition pem_mismatches (l : list pemcase) : list nat := map pc_idx (filter (fun c => negb (pc_agrees c)) l).
