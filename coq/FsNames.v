(* FsNames.v — names of everything the validator creates in work_dir: store directories
   (hex of SHA-256 of the normalised location, crlloader.calculateHashHexString), temporary
   files (os.CreateTemp pattern) and temporary directories (createRandomFileName), the start-up
   sweep (deleteIfTempFileOrDir), and the file-system effect of one intake. *)
From Verif Require Import Base Bytes.
From Verif.gen Require GenFacts.

Definition hex_digit (n : N) : N := if (n <? 10)%N then (48 + n)%N else (87 + n)%N.
Fixpoint hex_of_bytes (bs : bytes) : bytes :=
  match bs with [] => [] | b :: t => hex_digit (b / 16) :: hex_digit (b mod 16) :: hex_of_bytes t end.

Definition is_hex_char (c : N) : bool := ((48 <=? c) && (c <=? 57))%N || ((97 <=? c) && (c <=? 102))%N.

Fixpoint starts_with (p s : bytes) : bool :=
  match p, s with
  | [], _ => true
  | a :: p', b :: s' => N.eqb a b && starts_with p' s'
  | _, _ => false
  end.
Definition ends_with (p s : bytes) : bool := starts_with (frev p) (frev s).

Definition NL : N := 10.
(* the sweep regex ^crl_.*\_tmp$ as a recogniser (Go: '.' does not match a newline) *)
Definition matches_temp (name : bytes) : bool :=
  let pre := bytes_of_string GenFacts.temp_dir_prefix in
  let suf := bytes_of_string GenFacts.temp_dir_suffix in
  (length pre + length suf <=? length name)%nat && starts_with pre name && ends_with suf name
  && forallb (fun c => negb (N.eqb c NL)) name.
Definition temp_regex_modelled : string := "^crl_.*\_tmp$".

(* a temporary name as os.CreateTemp("crl_*_tmp") / createRandomFileName produce it *)
Definition temp_name (random : bytes) : bytes :=
  bytes_of_string GenFacts.temp_dir_prefix ++ random ++ bytes_of_string GenFacts.temp_dir_suffix.

(* ---- file-system effect of one intake (first load or refresh) *)
Inductive outcome :=
| FetchFails | StagingCreateFails | ParseFails | VerifyFails | Succeeds.

Record fs := { temp_files : list bytes; temp_dirs : list bytes; live_dirs : list bytes }.

Definition remove (x : bytes) (l : list bytes) : list bytes := filter (fun y => negb (bytes_eqb x y)) l.

(* tf / td / aside: the fresh temporary names used; id: the live directory *)
Definition intake_fs (o : outcome) (tf td aside id : bytes) (s : fs) : fs :=
  let s1 := {| temp_files := tf :: temp_files s; temp_dirs := temp_dirs s; live_dirs := live_dirs s |} in
  let drop_tf x := {| temp_files := remove tf (temp_files x); temp_dirs := temp_dirs x; live_dirs := live_dirs x |} in
  match o with
  | FetchFails | StagingCreateFails => drop_tf s1
  | ParseFails | VerifyFails =>
    (* staging directory created, then closed and deleted by the deferred cleanup *)
    let s2 := {| temp_files := temp_files s1; temp_dirs := td :: temp_dirs s1; live_dirs := live_dirs s1 |} in
    drop_tf {| temp_files := temp_files s2; temp_dirs := remove td (temp_dirs s2); live_dirs := live_dirs s2 |}
  | Succeeds =>
    (* live -> aside, staging -> live, aside deleted *)
    let s2 := {| temp_files := temp_files s1; temp_dirs := td :: temp_dirs s1; live_dirs := live_dirs s1 |} in
    let s3 := {| temp_files := temp_files s2; temp_dirs := aside :: temp_dirs s2; live_dirs := remove id (live_dirs s2) |} in
    let s4 := {| temp_files := temp_files s3; temp_dirs := remove td (temp_dirs s3); live_dirs := id :: live_dirs s3 |} in
    drop_tf {| temp_files := temp_files s4; temp_dirs := remove aside (temp_dirs s4); live_dirs := live_dirs s4 |}
  end.
