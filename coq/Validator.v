(* Validator.v — model of revocation.go (VerifyClientCertificate, mode predicates)
   and of parseMode in configparser.go.  Every table comes from gen/GenFacts.v,
   which tools/srcfacts regenerates from the Go source on every run. *)
From Verif Require Import Base.
From Verif.gen Require GenFacts.
Open Scope string_scope.

Inductive mode := PreferOCSP | PreferCRL | CRLOnly | OCSPOnly | Disabled.

Definition mode_eqb (a b : mode) : bool :=
  match a, b with
  | PreferOCSP, PreferOCSP | PreferCRL, PreferCRL | CRLOnly, CRLOnly
  | OCSPOnly, OCSPOnly | Disabled, Disabled => true
  | _, _ => false
  end.

Definition all_modes := [PreferOCSP; PreferCRL; CRLOnly; OCSPOnly; Disabled].

Definition mode_of_const (s : string) : option mode :=
  if s =? "RevocationCheckModePreferOCSP" then Some PreferOCSP
  else if s =? "RevocationCheckModePreferCRL" then Some PreferCRL
  else if s =? "RevocationCheckModeCRLOnly" then Some CRLOnly
  else if s =? "RevocationCheckModeOCSPOnly" then Some OCSPOnly
  else if s =? "RevocationCheckModeDisabled" then Some Disabled
  else None.

(* parseMode: Some (Some m) = parsed, Some None = rejected with an error,
   None = the generated table names a constant the model does not know. *)
Definition parse_mode (s : string) : option (option mode) :=
  if (String.length s =? 0)%nat then option_map Some (mode_of_const GenFacts.mode_default)
  else match assoc s GenFacts.mode_table with
       | Some c => option_map Some (mode_of_const c)
       | None => if GenFacts.mode_unknown_rejected then Some None
                 else option_map Some (mode_of_const (hd "" GenFacts.mode_enum)) (* Go zero value *)
       end.

Definition enabled_by (consts : list string) (m : mode) : bool :=
  existsb (fun c => match mode_of_const c with Some m' => mode_eqb m m' | None => false end) consts.
Definition ocsp_enabled := enabled_by GenFacts.ocsp_enabled_consts.
Definition crl_enabled := enabled_by GenFacts.crl_enabled_consts.

Inductive mech := MOcsp | MCrl.
Inductive outcome := NotRevoked | Revoked | Failed. (* Failed = IsRevoked returned an error *)
Inductive verdict := Accept | Reject.

Definition guard_fn (g : string) : option (mode -> bool) :=
  if g =? "isOCSPCheckingEnabled" then Some ocsp_enabled
  else if g =? "isCRLCheckingEnabled" then Some crl_enabled else None.
Definition checker_mech (c : string) : option mech :=
  if c =? "ocspRevocationChecker" then Some MOcsp
  else if c =? "crlRevocationChecker" then Some MCrl else None.

(* The body of VerifyClientCertificate as translated by srcfacts: a sequence of
   guarded stages.  Result: the mechanisms consulted (effect trace) and the verdict. *)
Fixpoint run_stages (st : list (string * string * bool * bool)) (m : mode) (ans : mech -> outcome)
  : option (list mech * verdict) :=
  match st with
  | [] => Some ([], Accept)
  | (g, c, err_ret, rev_ret) :: rest =>
    match guard_fn g, checker_mech c with
    | Some gf, Some mc =>
      if gf m then
        let continue := option_map (fun '(t, v) => (mc :: t, v)) (run_stages rest m ans) in
        match ans mc with
        | Failed => if err_ret then Some ([mc], Reject) else continue
        | Revoked => if rev_ret then Some ([mc], Reject) else continue
        | NotRevoked => continue
        end
      else run_stages rest m ans
    | _, _ => None
    end
  end.

(* has_chain = len(verifiedChains) > 0 *)
Definition verify_client (has_chain : bool) (m : mode) (ans : mech -> outcome) : option (list mech * verdict) :=
  if has_chain then run_stages GenFacts.verify_stages m ans else Some ([], Accept).
