From Verif Require Import Base Ocsp.
From Verif.gen Require GenFacts.

(* ---- which answers count *)
Fixpoint erase_unauthentic (l : list rbeh) : list rbeh :=
  match l with
  | [] => []
  | Answer st false :: t => Silent :: erase_unauthentic t
  | b :: t => b :: erase_unauthentic t
  end.

Lemma first_answer_erase l : first_answer (erase_unauthentic l) = first_answer l.
Proof. induction l as [|[| |st [|]] l IH]; simpl; auto. Qed.

Lemma filter_http_erase l : filter_http (erase_unauthentic l) = erase_unauthentic (filter_http l).
Proof. induction l as [|[| |st [|]] l IH]; simpl; try rewrite IH; reflexivity. Qed.

Lemma filter_nil_erase l : (match erase_unauthentic l with [] => true | _ => false end) = (match l with [] => true | _ => false end).
Proof. destruct l as [|[| |st [|]] l]; reflexivity. Qed.

(* answers that are not authentic are exactly as good as no answer: verdict and cache are the same *)
Lemma unauthentic_is_no_answer cfg c k now nu l :
  ocsp_check cfg c k now nu (erase_unauthentic l) = ocsp_check cfg c k now nu l.
Proof.
  unfold ocsp_check. destruct (cache_get c k now); [reflexivity|].
  rewrite filter_http_erase, first_answer_erase.
  destruct (first_answer (filter_http l)); [reflexivity|].
  pose proof (filter_nil_erase (filter_http l)) as H.
  destruct (erase_unauthentic (filter_http l)), (filter_http l); try discriminate; reflexivity.
Qed.

(* the first authentic answer, in responder order, decides *)
Lemma first_answer_app_silent pre st post :
  Forall (fun b => match b with Answer _ true => False | _ => True end) pre ->
  first_answer (pre ++ Answer st true :: post) = Some st.
Proof.
  induction pre as [|b pre IH]; intros H; simpl; [reflexivity|].
  inversion H; subst. destruct b as [| |s [|]]; try contradiction; apply IH; assumption.
Qed.

Lemma filter_http_app a b : filter_http (a ++ b) = filter_http a ++ filter_http b.
Proof. unfold filter_http. apply filter_app. Qed.

Lemma forall_filter_http pre :
  Forall (fun b => match b with Answer _ true => False | _ => True end) pre ->
  Forall (fun b => match b with Answer _ true => False | _ => True end) (filter_http pre).
Proof.
  induction pre as [|b pre IH]; intros H; simpl; [constructor|]. inversion H; subst.
  destruct (is_http b); [constructor; auto|auto].
Qed.

Lemma revoked_first cfg c k now nu pre post :
  cache_get c k now = None ->
  Forall (fun b => match b with Answer _ true => False | _ => True end) pre ->
  fst (ocsp_check cfg c k now nu (pre ++ Answer SRevoked true :: post)) = ORevoked.
Proof.
  intros Hc Hp. unfold ocsp_check. rewrite Hc, filter_http_app. simpl.
  rewrite first_answer_app_silent by (apply forall_filter_http; exact Hp). reflexivity.
Qed.

Lemma cached_revoked cfg c k now nu l :
  cache_get c k now = Some SRevoked -> fst (ocsp_check cfg c k now nu l) = ORevoked.
Proof. intros H. unfold ocsp_check. rewrite H. reflexivity. Qed.

Lemma first_answer_none_iff l : first_answer l = None <-> Forall (fun b => match b with Answer _ true => False | _ => True end) l.
Proof.
  induction l as [|b l IH]; simpl; [split; [constructor|reflexivity]|].
  destruct b as [| |st [|]]; try (rewrite IH; split; [intros H; constructor; [exact I|exact H]|intros H; inversion H; assumption]).
  split; [discriminate|intros H; inversion H; contradiction].
Qed.

(* strict: accepted only with an authentic answer or a live cache entry *)
Lemma strict_needs_answer cfg c k now nu l :
  o_strict cfg = true -> filter_http l <> [] -> fst (ocsp_check cfg c k now nu l) = OAccept ->
  (exists st, cache_get c k now = Some st /\ st <> SRevoked) \/
  (exists st, first_answer (filter_http l) = Some st /\ st <> SRevoked).
Proof.
  intros Hs Hne. unfold ocsp_check. destruct (cache_get c k now) as [st|].
  - intros H. left. exists st. split; [reflexivity|]. destruct st; simpl in H; congruence.
  - destruct (first_answer (filter_http l)) as [st|].
    + intros H. right. exists st. split; [reflexivity|]. destruct st; simpl in H; congruence.
    + rewrite Hs. destruct (filter_http l); [congruence|]. simpl. discriminate.
Qed.

(* lenient: unavailability alone never rejects *)
Lemma lenient_never_error cfg c k now nu l : o_strict cfg = false -> fst (ocsp_check cfg c k now nu l) <> OError.
Proof.
  intros Hs. unfold ocsp_check. destruct (cache_get c k now) as [[| |]|]; simpl; try discriminate.
  destruct (first_answer (filter_http l)) as [[| |]|]; simpl; try discriminate.
  rewrite Hs. destruct (filter_http l); discriminate.
Qed.

Lemma no_responder_accepts cfg c k now nu l :
  cache_get c k now = None -> filter_http l = [] -> fst (ocsp_check cfg c k now nu l) = OAccept.
Proof. intros Hc Hf. unfold ocsp_check. rewrite Hc, Hf. reflexivity. Qed.

(* ---- cache *)
Lemma ckey_eqb_eq a b : ckey_eqb a b = true <-> a = b.
Proof.
  destruct a as [i z], b as [i' z']. unfold ckey_eqb. simpl. split.
  - intros H. apply andb_prop in H. destruct H as [A B]. apply N.eqb_eq in A. apply Z.eqb_eq in B. congruence.
  - intros [= -> ->]. rewrite N.eqb_refl, Z.eqb_refl. reflexivity.
Qed.

Lemma cache_find_add_other c k k' now life st : k <> k' -> cache_find (cache_add c k' now life st) k = cache_find c k.
Proof.
  intros H. unfold cache_add. destruct (life >? 0)%Z; [|reflexivity]. simpl.
  destruct (ckey_eqb k k') eqn:E; [apply ckey_eqb_eq in E; congruence|reflexivity].
Qed.

(* only a query of exactly this (issuer, serial) can create or change its cache entry *)
Lemma cache_only_same_key cfg c k k' now nu l :
  k <> k' -> cache_find (snd (ocsp_check cfg c k' now nu l)) k = cache_find c k.
Proof.
  intros H. unfold ocsp_check. destruct (cache_get c k' now); [reflexivity|].
  destruct (first_answer (filter_http l)); [apply cache_find_add_other; exact H|reflexivity].
Qed.

(* a hit returns a status only before the absolute expiry instant, which no read moves *)
Definition entries_expire_by (c : cache) (k : ckey) (deadline : Z) : Prop :=
  forall e, cache_find c k = Some e -> (ce_expires e <= deadline)%Z.

Lemma no_hit_after_deadline c k deadline now : entries_expire_by c k deadline -> (deadline <= now)%Z -> cache_get c k now = None.
Proof.
  intros H Hn. unfold cache_get. destruct (cache_find c k) as [e|] eqn:E; [|reflexivity].
  specialize (H e E). destruct (Z.ltb_spec now (ce_expires e)); [lia|reflexivity].
Qed.

Lemma read_keeps_cache cfg c k now nu l st : cache_get c k now = Some st -> snd (ocsp_check cfg c k now nu l) = c.
Proof. intros H. unfold ocsp_check. rewrite H. reflexivity. Qed.

(* reads (hits) never extend the life of the entry: after any number of reads at any times the
   expiry of the entry is what it was *)
Lemma reads_do_not_extend cfg c k nu l times :
  let c' := fold_left (fun cc t => match cache_get cc k t with Some _ => snd (ocsp_check cfg cc k t nu l) | None => cc end) times c in
  cache_find c' k = cache_find c k.
Proof.
  simpl. revert c. induction times as [|t ts IH]; intros c; simpl; [reflexivity|].
  destruct (cache_get c k t) as [st|] eqn:E; [rewrite (read_keeps_cache _ _ _ _ _ _ _ E)|]; apply IH.
Qed.

(* the lifetime of a fresh entry *)
Lemma lifetime_spec now nu default :
  lifetime now nu default =
  match nu with
  | Some n => if (n - now >? 0)%Z then (n - now + GenFacts.max_clock_skew_ns)%Z else default
  | None => default end.
Proof. reflexivity. Qed.

Lemma fresh_entry_expiry cfg c k now nu l :
  cache_get c k now = None ->
  forall e, cache_find (snd (ocsp_check cfg c k now nu l)) k = Some e ->
  cache_find c k = Some e \/ (ce_expires e = now + lifetime now nu (o_default_life cfg) /\ (lifetime now nu (o_default_life cfg) > 0))%Z.
Proof.
  intros Hc e. unfold ocsp_check. rewrite Hc.
  destruct (first_answer (filter_http l)) as [st|]; [|simpl; auto].
  unfold cache_add. destruct (lifetime now nu (o_default_life cfg) >? 0)%Z eqn:El; simpl; [|auto].
  assert (Hk : ckey_eqb k k = true) by (apply ckey_eqb_eq; reflexivity). rewrite Hk.
  intros [= <-]. right. simpl. split; [reflexivity|]. apply Z.gtb_lt in El. lia.
Qed.

Lemma zero_default_no_next_caches_nothing cfg c k now l :
  (o_default_life cfg <= 0)%Z -> snd (ocsp_check cfg c k now None l) = c.
Proof.
  intros H. unfold ocsp_check. destruct (cache_get c k now); [reflexivity|].
  destruct (first_answer (filter_http l)); [|reflexivity].
  unfold cache_add, lifetime. destruct (o_default_life cfg >? 0)%Z eqn:E; [apply Z.gtb_lt in E; lia|reflexivity].
Qed.

Lemma failed_query_not_cached cfg c k now nu l :
  first_answer (filter_http l) = None -> snd (ocsp_check cfg c k now nu l) = c.
Proof. intros H. unfold ocsp_check. destruct (cache_get c k now); [reflexivity|]. rewrite H. reflexivity. Qed.
