(* RepoProps.v — the repository-level property lemmas (C01, C08, C10, C11, C12, C16). *)
From Verif Require Import Base Repo RepoProofs.
From Verif.gen Require GenFacts.

(* the list in force for a distribution-point set *)
Definition in_force (st : rstate) (id : ident) (l : crl) : Prop :=
  exists e, lookup id (entries st) = Some e /\ e_loaded e = true /\ e_list e = Some l.

(* ---------------------------------------------------------------- lookups *)
Lemma is_revoked_sound cfg st c id l :
  in_force st id l -> listed c l = true -> is_revoked cfg st c <> VAccept.
Proof.
  intros (e & Hlk & Hl & Hli) Hc. unfold is_revoked.
  destruct (match c_cdps c with [] => false | _ => _ end); [discriminate|].
  replace (existsb _ (entries st)) with true; [discriminate|].
  symmetry. apply existsb_exists. exists (id, e). split; [apply lookup_in; exact Hlk|]. simpl. rewrite Hl, Hli, Hc. reflexivity.
Qed.

Lemma is_revoked_precise cfg st c :
  is_revoked cfg st c = VRevoked ->
  exists id e l, In (id, e) (entries st) /\ e_loaded e = true /\ e_list e = Some l /\ listed c l = true.
Proof.
  unfold is_revoked. destruct (match c_cdps c with [] => false | _ => _ end); [discriminate|].
  destruct (existsb _ (entries st)) eqn:E; [|discriminate]. intros _.
  apply existsb_exists in E. destruct E as ([id e] & Hin & H). simpl in H.
  apply andb_prop in H. destruct H as [Hl H]. destruct (e_list e) as [l|] eqn:El; [|discriminate].
  exists id, e, l. auto.
Qed.

Lemma is_revoked_lenient cfg st c : r_strict cfg = false -> is_revoked cfg st c <> VError.
Proof.
  intros H. unfold is_revoked. rewrite H.
  destruct (c_cdps c); simpl; destruct (existsb _ _); discriminate.
Qed.

Lemma is_revoked_strict cfg st c :
  r_strict cfg = true -> c_cdps c <> [] -> is_revoked cfg st c = VAccept ->
  exists e, lookup (http_locs c) (entries st) = Some e /\ e_loaded e = true.
Proof.
  intros Hs Hc. unfold is_revoked. rewrite Hs. destruct (c_cdps c) as [|cd cds]; [congruence|].
  cbn [andb]. destruct (http_locs c) as [|h hs]; [discriminate|].
  destruct (lookup (h :: hs) (entries st)) as [e|]; [|discriminate].
  destruct (e_loaded e) eqn:El; [|discriminate]. intros _. exists e. auto.
Qed.

Lemma handshake_verdict cfg ev st c : snd (handshake cfg ev st c) = is_revoked cfg (lookup_state cfg ev st c) c.
Proof.
  unfold handshake, lookup_state.
  destruct (c_cdps c) as [|cd cds]; [reflexivity|]. destruct (http_locs c) as [|h hs]; reflexivity.
Qed.

Lemma lookup_app_some {A} id (l l' : list (ident * A)) v : lookup id l = Some v -> lookup id (l ++ l') = Some v.
Proof.
  induction l as [|[k w] l IH]; simpl; [discriminate|]. destruct (ident_eqb id k); auto.
Qed.

Lemma in_force_kept cfg ev st c id l :
  in_force st id l -> in_force (lookup_state cfg ev st c) id l.
Proof.
  intros (e & Hlk & Hl & Hli). unfold lookup_state.
  destruct (c_cdps c) as [|cd cds]; [exists e; auto|]. destruct (http_locs c) as [|h hs]; [exists e; auto|].
  set (cid := h :: hs).
  assert (H1 : lookup id (entries (added_state cfg st cid c)) = Some e).
  { unfold added_state. destruct (lookup cid (entries st)); [exact Hlk|]. simpl. apply lookup_app_some. exact Hlk. }
  unfold loaded_state. destruct (r_fetch cfg); [|exists e; auto].
  destruct (lookup cid (entries (added_state cfg st cid c))) as [e1|] eqn:E1; [|exists e; auto].
  destruct (e_loaded e1) eqn:Ld; [exists e; auto|].
  destruct (intake cfg ev FirstLoad cid e1 (c_chain c) NoFault) as [e' r]. simpl.
  destruct (ident_eqb id cid) eqn:Eid.
  - apply ident_eqb_eq in Eid. subst id. rewrite H1 in E1. injection E1 as <-. congruence.
  - exists e. split; [cbn [entries]; rewrite lookup_update_other by exact Eid; exact H1|auto].
Qed.

(* C01 at repository level: a list in force that lists the certificate makes the handshake fail *)
Lemma handshake_sound cfg ev st c id l :
  in_force st id l -> listed c l = true -> snd (handshake cfg ev st c) <> VAccept.
Proof.
  intros H Hl. rewrite handshake_verdict. eapply is_revoked_sound; [apply in_force_kept; exact H|exact Hl].
Qed.

(* the lookup state of a reachable state satisfies the invariant *)
Lemma lookup_state_inv cfg ev st c : Inv cfg st -> Inv cfg (lookup_state cfg ev st c).
Proof. apply (RepoProofs.lookup_state_inv D_cfg D_cfg_accepts D_cfg_adopt). Qed.

(* C11: a verdict "revoked" comes from an accepted list in force that lists issuer and serial *)
Lemma handshake_precise cfg ev st c :
  Inv cfg st -> snd (handshake cfg ev st c) = VRevoked ->
  exists id e l, In (id, e) (entries (lookup_state cfg ev st c)) /\ e_loaded e = true /\ e_list e = Some l /\
                 l_issuer l = c_issuer c /\ In (c_serial c) (l_serials l) /\ list_ok cfg l.
Proof.
  intros HI H. rewrite handshake_verdict in H. apply is_revoked_precise in H.
  destruct H as (id & e & l & Hin & Hl & Hli & Hc). exists id, e, l.
  unfold listed in Hc. apply andb_prop in Hc. destruct Hc as [Hi Hs]. apply N.eqb_eq in Hi.
  apply existsb_exists in Hs. destruct Hs as (z & Hz & Ez). apply Z.eqb_eq in Ez. subst z.
  split; [exact Hin|]. split; [exact Hl|]. split; [exact Hli|]. split; [exact Hi|]. split; [exact Hz|].
  pose proof (lookup_state_inv cfg ev st c HI) as [He _]. rewrite Forall_forall in He.
  destruct (He _ Hin) as [_ Hok]. apply Hok. exact Hli.
Qed.

(* C10 *)
Lemma handshake_strict cfg ev st c :
  Inv cfg st -> r_strict cfg = true -> c_cdps c <> [] -> snd (handshake cfg ev st c) = VAccept ->
  exists e l, lookup (http_locs c) (entries (lookup_state cfg ev st c)) = Some e /\ e_loaded e = true /\
              e_list e = Some l /\ list_ok cfg l.
Proof.
  intros HI Hs Hc H. rewrite handshake_verdict in H.
  destruct (is_revoked_strict _ _ _ Hs Hc H) as (e & Hlk & Hl).
  pose proof (lookup_state_inv cfg ev st c HI) as HI'. pose proof (inv_lookup _ _ _ _ _ HI' Hlk) as [Hiff Hok].
  destruct (e_list e) as [l|] eqn:El; [|exfalso; apply Hiff in Hl; apply Hl; reflexivity].
  exists e, l. auto.
Qed.

Lemma handshake_lenient cfg ev st c : r_strict cfg = false -> snd (handshake cfg ev st c) <> VError.
Proof. intros H. rewrite handshake_verdict. apply is_revoked_lenient. exact H. Qed.

(* ---------------------------------------------------------------- C08: refresh *)
Definition unacceptable (cfg : rcfg) (ev : env) (f : fault) (e : entry) : Prop :=
  forall p avail, match e_locs e with [] => True | loc :: _ => accepts cfg p (ev loc) avail f = None end.

Lemma intake_unacceptable cfg ev p id e avail f : unacceptable cfg ev f e -> intake cfg ev p id e avail f = (e, None).
Proof.
  intros H. unfold intake. specialize (H p avail). destruct (e_locs e); [reflexivity|]. rewrite H. reflexivity.
Qed.

(* what lookups, refreshes' inputs and restarts depend on: the entries and the disk (the marks only record which
   list failed verification last, for tryUpdateSignatureCertFromChain) *)
Definition same_visible (a b : rstate) : Prop := entries a = entries b /\ disk a = disk b.

Lemma update_one_failed cfg ev f st id e :
  lookup id (entries st) = Some e -> unacceptable cfg ev f e -> same_visible (update_one cfg ev f st id e) st.
Proof.
  intros Hlk Hu. unfold update_one, same_visible.
  destruct (e_loaded e); rewrite intake_unacceptable by exact Hu; cbn [entries disk];
    rewrite update_same by exact Hlk; unfold persist; destruct (r_storage cfg); auto.
Qed.

(* a refresh in which nothing acceptable can be obtained leaves every entry — list, loaded flag, signer — and the
   disk untouched *)
Lemma refresh_failed_keeps cfg ev f st :
  (forall id e, In (id, e) (entries st) -> unacceptable cfg ev f e) -> same_visible (refresh_all cfg ev f st) st.
Proof.
  intros H. unfold refresh_all.
  assert (G : forall (ids : list (ident * entry)) s, same_visible s st ->
     same_visible (fold_left (fun s ide => match lookup (fst ide) (entries s) with
                          | Some e => update_one cfg ev f s (fst ide) e | None => s end) ids s) st).
  { induction ids as [|[id e0] ids IH]; intros s Hs; simpl; [exact Hs|]. apply IH.
    destruct (lookup id (entries s)) as [e|] eqn:El; [|exact Hs].
    destruct Hs as [He Hd].
    destruct (update_one_failed cfg ev f s id e El) as [He' Hd'].
    { apply (H id e). apply lookup_in. rewrite <- He. exact El. }
    split; congruence. }
  apply G. split; reflexivity.
Qed.

(* all or nothing: after an intake the entry holds its previous list or the whole new one *)
Lemma intake_all_or_nothing cfg ev p id e avail f :
  let e' := fst (intake cfg ev p id e avail f) in
  e' = e \/ (exists l loc, ev loc = Serve l /\ e_list e' = Some l /\ e_loaded e' = true /\ list_ok cfg l).
Proof.
  pose proof (intake_spec D_cfg D_cfg_accepts cfg ev p id e avail f) as H. destruct (intake cfg ev p id e avail f) as [e' r]. simpl.
  destruct H as [[_ ->]|(l & sg & loc & _ & Hs & Hok & _ & ->)]; [left; reflexivity|right; exists l, loc; auto].
Qed.

(* a later successful refresh still takes effect *)
Lemma refresh_succeeds cfg ev id e l avail :
  e_locs e = id -> id <> [] -> ev (hd 0%N id) = Serve l -> l_parse_ok l = true ->
  (r_sigmode cfg = SigVerify -> verified l avail = true) ->
  e_list (fst (intake cfg ev Refresh id e avail NoFault)) = Some l.
Proof.
  intros Hl Hne Hev Hp Hv. unfold intake. rewrite Hl. destruct id as [|loc locs]; [congruence|]. simpl in Hev.
  unfold accepts. rewrite Hev, Hp. cbn [andb].
  destruct (r_sigmode cfg) eqn:Em.
  - rewrite policy_lenient by discriminate. reflexivity.
  - rewrite policy_lenient by discriminate. reflexivity.
  - rewrite policy_verify, (Hv eq_refl). reflexivity.
Qed.

(* key rollover: the last refresh failed verification (the list is signed by a certificate the entry does not know);
   a handshake whose chain verifies that list makes the repository adopt the signer, and the next refresh takes
   the list in — "a later successful refresh still takes effect" also across a change of the signing key *)
Lemma rollover_refresh cfg ev st id c e l loc rest :
  r_sigmode cfg = SigVerify -> lookup id (marks st) = Some l -> lookup id (entries st) = Some e ->
  e_loaded e = true -> e_locs e = loc :: rest -> ev loc = Serve l -> l_parse_ok l = true ->
  verified l (c_chain c) = true ->
  exists e1, lookup id (entries (resigned_state cfg st id c)) = Some e1 /\
             e_signer e1 = Some (l_signer l) /\ e_list e1 = e_list e /\
             e_list (fst (intake cfg ev Refresh id e1 (match e_signer e1 with Some s => [s] | None => [] end) NoFault)) = Some l.
Proof.
  intros Hm Hmk Hlk Hld Hlocs Hev Hp Hv. unfold resigned_state. rewrite Hmk, Hlk, Hm, Hld, Hv. cbn [andb].
  eexists. cbn [entries]. rewrite lookup_update_same. split; [reflexivity|]. cbn [e_signer e_list]. split; [reflexivity|]. split; [reflexivity|].
  unfold intake. cbn [e_locs]. rewrite Hlocs, Hev. unfold accepts. rewrite Hp. cbn [andb].
  rewrite Hm, policy_verify.
  assert (Hv' : verified l [l_signer l] = true).
  { unfold verified in *. apply andb_prop in Hv. destruct Hv as [Hs _]. rewrite Hs. cbn. rewrite N.eqb_refl. reflexivity. }
  rewrite Hv'. reflexivity.
Qed.

(* the whole story on a concrete history: old list in force; the CA rolls its key and publishes a list signed with
   the new one: the refresh fails and the old list keeps answering; a client whose chain contains the new
   certificate shakes hands; the next refresh brings the new list into force *)
Definition l_old : crl := {| l_issuer := 1; l_serials := [101; 103]%Z; l_signer := 1; l_sig_ok := true; l_parse_ok := true |}.
Definition l_rolled : crl := {| l_issuer := 1; l_serials := [102; 103]%Z; l_signer := 2; l_sig_ok := true; l_parse_ok := true |}.
Definition cert_of (issuer : N) (serial : Z) : cert := {| c_issuer := issuer; c_serial := serial; c_cdps := [(1%N, true)]; c_chain := [issuer; 9%N] |}.
Lemma rollover_example :
  snd (run_steps {| r_storage := Disk; r_sigmode := SigVerify; r_fetch := Active; r_strict := true |} init_state
        [SServe 1 (Serve l_old); SHandshake (cert_of 1 101); SServe 1 (Serve l_rolled); SRefresh NoFault;
         SHandshake (cert_of 1 101); SHandshake (cert_of 1 102); SHandshake (cert_of 2 900); SRefresh NoFault;
         SHandshake (cert_of 1 101); SHandshake (cert_of 1 102)]) =
  [None; Some VRevoked; None; None; Some VRevoked; Some VAccept; Some VAccept; None; Some VAccept; Some VRevoked].
Proof. vm_compute. reflexivity. Qed.

(* ---------------------------------------------------------------- C16 *)
Lemma accepts_uniform cfg p q a avail f :
  option_map fst (accepts cfg p a avail f) = option_map fst (accepts cfg q a avail f) /\
  accepts cfg p a avail f = accepts cfg q a avail f.
Proof.
  assert (E : accepts cfg p a avail f = accepts cfg q a avail f).
  { unfold accepts. destruct f, a; try reflexivity;
      rewrite (policy_uniform p q), (policy_signer_uniform p q); reflexivity. }
  rewrite E. auto.
Qed.

Lemma accepts_meaning cfg p l avail :
  accepts cfg p (Serve l) avail NoFault <> None <->
  l_parse_ok l = true /\ (r_sigmode cfg = SigVerify -> verified l avail = true).
Proof.
  unfold accepts. destruct (l_parse_ok l); cbn [andb]; [|split; [congruence|intros [? _]; discriminate]].
  destruct (r_sigmode cfg) eqn:Em.
  - rewrite policy_lenient by discriminate. split; [intros _; split; [reflexivity|discriminate]|discriminate].
  - rewrite policy_lenient by discriminate. split; [intros _; split; [reflexivity|discriminate]|discriminate].
  - rewrite policy_verify. destruct (verified l avail); split; try discriminate; try congruence; auto.
    intros [_ H]. specialize (H eq_refl). discriminate.
Qed.

(* never in force without verification under 'verify' — in every reachable state, also on disk *)
Lemma verify_never_unverified cfg xs :
  r_sigmode cfg = SigVerify ->
  let st := snd (fst (run_steps cfg init_state xs)) in
  (forall id e l, In (id, e) (entries st) -> e_list e = Some l -> l_sig_ok l = true /\ l_parse_ok l = true) /\
  (forall id l sg, In (id, (l, sg)) (disk st) -> l_sig_ok l = true /\ l_parse_ok l = true).
Proof.
  intros Hm. pose proof (reachable_inv cfg xs) as [He Hd]. split.
  - intros id e l Hin Hl. rewrite Forall_forall in He. destruct (He _ Hin) as [_ Hok].
    destruct (Hok l Hl) as [Hp Hs]. auto.
  - intros id l sg Hin. rewrite Forall_forall in Hd. destruct (Hd _ Hin) as [Hp Hs]. auto.
Qed.

(* the same when the configuration changes between restarts: whatever earlier configurations accepted and
   left on disk, under 'verify' nothing unverified is in force afterwards *)
Lemma verify_after_reconfiguration segs cfg xs :
  r_sigmode cfg = SigVerify ->
  let s := run_segments segs init_state in
  let st := snd (fst (run_steps cfg (fst s, restart cfg (snd s)) xs)) in
  forall id e l, In (id, e) (entries st) -> e_list e = Some l -> l_sig_ok l = true /\ l_parse_ok l = true.
Proof.
  intros Hm s st id e l Hin Hl. pose proof (reachable_segments_inv segs cfg xs) as [He _].
  fold s in He. fold st in He. rewrite Forall_forall in He. destruct (He _ Hin) as [_ Hok].
  destruct (Hok l Hl) as [Hp Hs]. auto.
Qed.

(* non-vacuity, and the situation the adoption check repairs: a list whose signer is unknown is accepted on
   disk under verify_log; after a restart under verify it is not in force (the strict handshake is refused);
   after a restart under verify_log again it is *)
Definition unknown_signer_list : crl :=
  {| l_issuer := 1; l_serials := [501%Z]; l_signer := 7; l_sig_ok := true; l_parse_ok := true |}.
Definition cert_103 : cert := {| c_issuer := 1; c_serial := 103; c_cdps := [(1%N, true)]; c_chain := [1%N; 9%N] |}.
Definition cfg_disk (m : sigmode) : rcfg := {| r_storage := Disk; r_sigmode := m; r_fetch := Active; r_strict := true |}.
Definition seg_log : rcfg * list rstep := (cfg_disk SigVerifyLog, [SServe 1 (Serve unknown_signer_list); SHandshake cert_103; SServe 1 Down]).
Lemma reconfiguration_example :
  snd (run_steps (cfg_disk SigVerifyLog) (fst (run_segments [seg_log] init_state), restart (cfg_disk SigVerifyLog) (snd (run_segments [seg_log] init_state))) [SHandshake cert_103]) = [Some VAccept] /\
  snd (run_steps (cfg_disk SigVerify) (fst (run_segments [seg_log] init_state), restart (cfg_disk SigVerify) (snd (run_segments [seg_log] init_state))) [SHandshake cert_103]) = [Some VError].
Proof. split; vm_compute; reflexivity. Qed.

(* ---------------------------------------------------------------- C12: crash images of the disk *)
(* the atomic file-system actions of one intake on disk storage, in order *)
Inductive phase :=
| PFetched            (* CRL downloaded into a temp file *)
| PStaging (k : nat)  (* staging directory created, k records written into it *)
| PAccepted           (* parsed and accepted; signer record written into staging *)
| PSwapClosed         (* both databases closed *)
| PSwapAside          (* live directory renamed to a temp name *)
| PSwapIn             (* staging directory renamed to the live name *)
| PSwapDeleted        (* old directory deleted *)
| PSwapReopened.      (* live database reopened *)

Record image := { live_dir : option (crl * option N); temp_dirs : nat; temp_files : nat }.

(* what is on disk if the process dies right after phase ph of an intake that replaces `old` by `new` *)
Definition crash_image (old : option (crl * option N)) (new : crl * option N) (ph : phase) : image :=
  match ph with
  | PFetched => {| live_dir := old; temp_dirs := 0; temp_files := 1 |}
  | PStaging _ | PAccepted | PSwapClosed => {| live_dir := old; temp_dirs := 1; temp_files := 1 |}
  | PSwapAside => {| live_dir := None; temp_dirs := 2; temp_files := 1 |}
  | PSwapIn => {| live_dir := Some new; temp_dirs := 1; temp_files := 1 |}
  | PSwapDeleted | PSwapReopened => {| live_dir := Some new; temp_dirs := 0; temp_files := 1 |}
  end.

(* start-up: temp artefacts are swept, the entry counts as loaded iff the live directory holds a list *)
Definition after_restart (i : image) : option (crl * option N) * nat := (live_dir i, 0).

Lemma crash_consistent cfg old new ph :
  (forall o, old = Some o -> list_ok cfg (fst o)) -> list_ok cfg (fst new) ->
  let '(l, temps) := after_restart (crash_image old new ph) in
  temps = 0 /\ (l = old \/ l = None \/ l = Some new) /\ (forall x, l = Some x -> list_ok cfg (fst x)).
Proof.
  intros Ho Hn. destruct ph; simpl; (split; [reflexivity|]); split; auto; intros x Hx; try (apply Ho; exact Hx);
    try discriminate; injection Hx as <-; exact Hn.
Qed.

Lemma failures_unacceptable cfg p avail l k :
  accepts cfg p Down avail NoFault = None /\ accepts cfg p Garbage avail NoFault = None /\
  accepts cfg p (Serve l) avail StagingCreateFails = None /\
  ((k < 2 + length (l_serials l))%nat -> accepts cfg p (Serve l) avail (InsertFails k) = None) /\
  (l_parse_ok l = false -> accepts cfg p (Serve l) avail NoFault = None) /\
  (r_sigmode cfg = SigVerify -> verified l avail = false -> accepts cfg p (Serve l) avail NoFault = None).
Proof.
  repeat split; try reflexivity.
  - intros H. unfold accepts. apply Nat.ltb_lt in H. rewrite H. reflexivity.
  - intros H. unfold accepts. rewrite H. reflexivity.
  - intros Hm Hv. unfold accepts. rewrite Hm, policy_verify, Hv. rewrite andb_false_r. reflexivity.
Qed.

Lemma old_then_new cfg ev f st c (before after : nat) :
  let st' := refresh_all cfg ev f st in
  map (fun _ => is_revoked cfg st c) (seq 0 before) ++ map (fun _ => is_revoked cfg st' c) (seq 0 after) =
  repeat (is_revoked cfg st c) before ++ repeat (is_revoked cfg st' c) after.
Proof.
  intros st'. f_equal.
  - generalize 0. induction before; intros n; simpl; [reflexivity|]. f_equal. apply IHbefore.
  - generalize 0. induction after; intros n; simpl; [reflexivity|]. f_equal. apply IHafter.
Qed.
