From Verif Require Import Base Validator Config.
From Verif.gen Require GenFacts.
Open Scope string_scope.

(* an assignment as the harness made it and the effective (parsed) configuration the real
   validator reported: (mode, storage, interval ns, sigmode, fetch, cdp_strict, cache ns, aia_strict);
   enums are compared by their position in the Go iota declaration *)
Record cfcase := mk_cf {
  cf_idx : nat;
  cf_mode : option string; cf_storage : option string; cf_interval : option string; cf_sig : option string;
  cf_fetch : option string; cf_cdp : option bool; cf_cache : option string; cf_aia : option bool;
  cf_eff : Z * Z * Z * Z * Z * bool * Z * bool }.

Fixpoint index_of (s : string) (l : list string) (n : Z) : Z :=
  match l with [] => (-1)%Z | x :: t => if String.eqb s x then n else index_of s t (n + 1)%Z end.
Definition enum_ix (o : option string) (enum : list string) : Z :=
  match o with Some c => index_of c enum 0 | None => (-1)%Z end.

Definition occs (c : cfcase) : list occ :=
  (match cf_mode c with Some v => [OMode v] | None => [] end) ++
  (match cf_storage c with Some v => [OStorage v] | None => [] end) ++
  (match cf_interval c with Some v => [OInterval v] | None => [] end) ++
  (match cf_sig c with Some v => [OSigMode v] | None => [] end) ++
  (match cf_fetch c with Some v => [OFetch v] | None => [] end) ++
  (match cf_cdp c with Some v => [OCdpStrict v] | None => [] end) ++
  (match cf_cache c with Some v => [OCache v] | None => [] end) ++
  (match cf_aia c with Some v => [OAiaStrict v] | None => [] end).

Definition cf_agrees (c : cfcase) : bool :=
  match cf_all raw_empty (occs c) with
  | Some r =>
    let '(m, st, iv, sg, f, cdp, ca, aia) := cf_eff c in
    Z.eqb (enum_ix (eff_mode r) GenFacts.mode_enum) m
    (* the CRL block is only observable when the mode enables CRL checking *)
    && ((Z.eqb m 3 || Z.eqb m 4)
        || (Z.eqb (enum_ix (eff_storage r) GenFacts.storage_enum) st
            && Z.eqb (enum_ix (eff_sigmode r) GenFacts.sigmode_enum) sg
            && Z.eqb (enum_ix (eff_fetch r) GenFacts.fetchmode_enum) f
            && Bool.eqb (eff_cdp_strict r) cdp
            && (match w_interval r with None => Z.eqb iv GenFacts.default_update_interval_ns | Some _ => true end)))
    && Bool.eqb (eff_aia_strict r) aia
    && (match w_cache r with None => Z.eqb ca 0 | Some _ => true end)
  | None => false
  end.
Definition config_mismatches (l : list cfcase) : list nat := map cf_idx (filter (fun c => negb (cf_agrees c)) l).
