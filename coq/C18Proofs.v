From Verif Require Import Base Bytes KeyFacts Store StoreSpec RunStore.

Lemma backends_agree ops :
  no_collision (keys_of ops) -> snd (run MapB init ops) = snd (run LevelB init ops).
Proof. intros H. rewrite !refinement by exact H. reflexivity. Qed.

Lemma spec_meaning :
  (forall l p, a_find l p = None <-> forall e, ~ In (p, e) l) /\
  (forall l p e, a_find l p = Some e -> In (p, e) l) /\
  (forall l p e, a_find ((p, e) :: l) p = Some e) /\
  (forall l p q e, p <> q -> a_find ((q, e) :: l) p = a_find l p) /\
  (forall st, alive (fst (astep st OSwap)) = astaging st).
Proof.
  repeat split.
  - apply a_find_none_notin.
  - intros H. destruct (a_find l p) eqn:E; [|reflexivity].
    exfalso. apply (H n). apply a_find_some_in. exact E.
  - apply a_find_some_in.
  - intros. apply a_find_cons_same.
  - intros. apply a_find_cons_other. assumption.
Qed.

Lemma key_injective n i z i' z' : (n < 4)%nat ->
  key_with (sep_at n) i z = key_with (sep_at n) i' z' -> i = i' /\ z = z'.
Proof. intros Hn. rewrite (seps_are_us n Hn), !key_with_us. apply ukey_inj. Qed.

Lemma key_not_reserved n i z r : (n < 4)%nat -> In r reserved -> key_with (sep_at n) i z <> r.
Proof. intros Hn. rewrite (seps_are_us n Hn), key_with_us. apply reserved_ne_key. Qed.

Lemma nocoll_b_sound K : nocoll_b K = true -> no_collision K.
Proof.
  unfold nocoll_b. induction K as [|k K IH]; intros H k1 k2 H1 H2 E; [destruct H1|].
  simpl in H. apply andb_prop in H. destruct H as [Hk HK]. rewrite forallb_forall in Hk.
  assert (Hp : forall k', In k' K -> fnv1a64 k = fnv1a64 k' -> k = k').
  { intros k' Hin Heq. specialize (Hk (fnv1a64 k', k')).
    assert (Hi : In (fnv1a64 k', k') (map (fun k0 => (fnv1a64 k0, k0)) K)) by (apply in_map_iff; eauto).
    specialize (Hk Hi). simpl in Hk. rewrite Heq, N.eqb_refl in Hk. simpl in Hk. apply bytes_eqb_eq. exact Hk. }
  destruct H1 as [<-|H1], H2 as [<-|H2].
  - reflexivity.
  - apply Hp; assumption.
  - symmetry. apply Hp; [assumption|symmetry; assumption].
  - apply IH; assumption.
Qed.

Definition issA : bytes := bytes_of_string "CN=CA_1,O=verif".
Definition issB : bytes := bytes_of_string "CN=CA".
Definition example_ops : list op :=
  [ OStart Live 1; OInsert Live issA 5 1; OInsert Live issB 5 2; OInsert Live issA (-5) 3;
    OInsert Live issB 1461501637330902918203684832716283019655932542975 4; OLookup issA 5; OLookup issB 15;
    OInsert Staging issA 6 5; OLoc Staging 1; OSwap; OLookup issA 5; OLookup issA 6 ]%Z.

Lemma example_nonvacuous : no_collision (keys_of example_ops) /\ List.length example_ops = 12%nat.
Proof. split; [apply nocoll_b_sound; vm_compute; reflexivity|reflexivity]. Qed.
