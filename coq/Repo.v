(* Repo.v — the repository / entry state machine of crl/crlrepository/crlrepository.go and
   crl/crlrevocationchecker.go, at the level of whole CRLs: which list is in force for which
   distribution-point set, when a list is taken in, what a lookup answers, what survives a
   restart.  (How a list gets from bytes into a store is Reader/Store; C06 and C18 link them.) *)
From Verif Require Import Base.
From Verif.gen Require GenFacts.

Inductive sigmode := SigNone | SigVerifyLog | SigVerify.
Inductive storage := Memory | Disk.
Inductive fetchmode := Active | Background.
Record rcfg := { r_storage : storage; r_sigmode : sigmode; r_fetch : fetchmode; r_strict : bool }.

(* a CRL as far as the repository is concerned *)
Record crl := {
  l_issuer : N;            (* issuer name *)
  l_serials : list Z;
  l_signer : N;            (* certificate whose key made the signature *)
  l_sig_ok : bool;         (* the signature verifies under that key *)
  l_parse_ok : bool }.     (* parses and carries no unhandled critical extension *)

Inductive answer := Down | Garbage | Serve (l : crl).

Record cert := {
  c_issuer : N; c_serial : Z;
  c_cdps : list (N * bool);   (* distribution points: (location, is an http(s) URL) *)
  c_chain : list N }.         (* certificates usable as CRL signers for this handshake *)

(* ---- signature policy of the two intake paths, from the source (srcfacts) *)
Definition policy_accepts (p : bool * string) (m : sigmode) (verified : bool) : bool :=
  let '(guard_none, fatal) := p in
  match m with
  | SigNone => if guard_none then true else (verified || negb (String.eqb fatal "always"))
  | SigVerifyLog => verified || negb (String.eqb fatal "always")
  | SigVerify => verified || String.eqb fatal "never"
  end.
(* is the signer certificate recorded with the list? only after a successful verification *)
Definition policy_records_signer (p : bool * string) (m : sigmode) (verified : bool) : bool :=
  let '(guard_none, _) := p in
  match m with SigNone => if guard_none then false else verified | _ => verified end.

Inductive path := FirstLoad | Refresh.
Definition policy_of (p : path) : bool * string :=
  match p with FirstLoad => GenFacts.sigpolicy_loadCRL | Refresh => GenFacts.sigpolicy_updateCrlEntry end.

Definition verified (l : crl) (avail : list N) : bool := l_sig_ok l && existsb (N.eqb (l_signer l)) avail.

(* storage-level faults that can hit an intake *)
Inductive fault := NoFault | StagingCreateFails | InsertFails (k : nat).

Definition accepts (cfg : rcfg) (p : path) (a : answer) (avail : list N) (f : fault) : option (crl * option N) :=
  match f, a with
  | NoFault, Serve l =>
    if l_parse_ok l && policy_accepts (policy_of p) (r_sigmode cfg) (verified l avail)
    then Some (l, if policy_records_signer (policy_of p) (r_sigmode cfg) (verified l avail) then Some (l_signer l) else None)
    else None
  | InsertFails k, Serve l =>
    (* the consumer fails at event k: only harmless if the list has fewer events *)
    if (k <? 2 + length (l_serials l))%nat then None
    else if l_parse_ok l && policy_accepts (policy_of p) (r_sigmode cfg) (verified l avail)
    then Some (l, if policy_records_signer (policy_of p) (r_sigmode cfg) (verified l avail) then Some (l_signer l) else None)
    else None
  | _, _ => None
  end.

Record entry := {
  e_locs : list N;           (* http locations, in order *)
  e_list : option crl;       (* content of the live store: a whole list or nothing *)
  e_loaded : bool;
  e_chain : list N;          (* chains of the handshake that created the entry, kept until loaded *)
  e_signer : option N }.     (* signer certificate stored with the list *)

Definition ident := list N.
Definition ident_eqb (a b : ident) : bool := (Nat.eqb (length a) (length b)) && forallb (fun p => N.eqb (fst p) (snd p)) (combine a b).

Record rstate := {
  entries : list (ident * entry);                 (* Repository.crlRepository *)
  disk : list (ident * (crl * option N));          (* store directories (disk storage only) *)
  marks : list (ident * crl) }.                    (* Entry.LastUpdateSignature(VerifyFailed): the list whose signature the
                                                      last refresh of the entry could not verify (in memory only) *)

Fixpoint lookup {A} (id : ident) (l : list (ident * A)) : option A :=
  match l with [] => None | (k, v) :: t => if ident_eqb id k then Some v else lookup id t end.
Fixpoint update {A} (id : ident) (v : A) (l : list (ident * A)) : list (ident * A) :=
  match l with
  | [] => [(id, v)]
  | (k, w) :: t => if ident_eqb id k then (k, v) :: t else (k, w) :: update id v t
  end.

Fixpoint remove_id {A} (id : ident) (l : list (ident * A)) : list (ident * A) :=
  match l with [] => [] | (k, w) :: t => if ident_eqb id k then remove_id id t else (k, w) :: remove_id id t end.

Definition http_locs (c : cert) : ident := map fst (filter snd (c_cdps c)).

Definition env := N -> answer.

(* one intake attempt for an entry: fetch the first location (every scripted location answers
   the download), stage, accept or not, swap *)
Definition intake (cfg : rcfg) (ev : env) (p : path) (id : ident) (e : entry) (avail : list N) (f : fault)
  : entry * option (crl * option N) :=
  match e_locs e with
  | [] => (e, None)
  | loc :: _ =>
    match accepts cfg p (ev loc) avail f with
    | Some (l, sg) =>
      ({| e_locs := e_locs e; e_list := Some l; e_loaded := true; e_chain := []; e_signer := sg |}, Some (l, sg))
    | None => (e, None)
    end
  end.

Definition persist (cfg : rcfg) (id : ident) (r : option (crl * option N)) (d : list (ident * (crl * option N))) :=
  match r_storage cfg, r with
  | Disk, Some v => update id v d
  | _, _ => d
  end.

(* updateCRL on one entry: first load if not loaded, refresh otherwise *)
(* did the intake get as far as the signature check and fail there under 'verify'?  (setLastSignatureVerifyFailed) *)
Definition verify_failed (cfg : rcfg) (a : answer) (avail : list N) (f : fault) : option crl :=
  let fails l := match r_sigmode cfg with
                 | SigVerify => if l_parse_ok l && negb (verified l avail) then Some l else None
                 | _ => None end in
  match f, a with
  | NoFault, Serve l => fails l
  | InsertFails k, Serve l => if (k <? 2 + length (l_serials l))%nat then None else fails l
  | _, _ => None
  end.

(* the bookkeeping of updateCrlEntry: a verified update clears the mark, a failed verification sets it;
   loadCRL (first load) touches neither *)
Definition marks_after (cfg : rcfg) (ev : env) (f : fault) (id : ident) (e : entry) (avail : list N)
           (r : option (crl * option N)) (m : list (ident * crl)) : list (ident * crl) :=
  match r with
  | Some _ => remove_id id m
  | None => match e_locs e with
            | loc :: _ => match verify_failed cfg (ev loc) avail f with Some l => update id l m | None => m end
            | [] => m
            end
  end.

Definition update_one (cfg : rcfg) (ev : env) (f : fault) (st : rstate) (id : ident) (e : entry) : rstate :=
  if e_loaded e then
    let avail := match e_signer e with Some s => [s] | None => [] end in
    let '(e', r) := intake cfg ev Refresh id e avail f in
    {| entries := update id e' (entries st); disk := persist cfg id r (disk st);
       marks := marks_after cfg ev f id e avail r (marks st) |}
  else
    let '(e', r) := intake cfg ev FirstLoad id e (e_chain e) f in
    {| entries := update id e' (entries st); disk := persist cfg id r (disk st); marks := marks st |}.

Definition refresh_all (cfg : rcfg) (ev : env) (f : fault) (st : rstate) : rstate :=
  fold_left (fun s ide => match lookup (fst ide) (entries s) with
                          | Some e => update_one cfg ev f s (fst ide) e
                          | None => s end) (entries st) st.

Inductive verdict := VAccept | VRevoked | VError.

Definition listed (c : cert) (l : crl) : bool :=
  N.eqb (l_issuer l) (c_issuer c) && existsb (Z.eqb (c_serial c)) (l_serials l).

(* Repository.IsRevoked *)
Definition is_revoked (cfg : rcfg) (st : rstate) (c : cert) : verdict :=
  let id := http_locs c in
  let strict_fail :=
    match c_cdps c with
    | [] => false
    | _ => r_strict cfg &&
           (match id with [] => true | _ =>
              match lookup id (entries st) with Some e => negb (e_loaded e) | None => true end end)
    end in
  if strict_fail then VError
  else if existsb (fun ide => e_loaded (snd ide) && match e_list (snd ide) with Some l => listed c l | None => false end) (entries st)
  then VRevoked else VAccept.

(* addNewEmptyEntry: may a list found in a persistent store be used without being loaded again?
   (persistedCRLCounts; whether the check exists at all is read from the source: GenFacts) *)
Definition adopt_counts (cfg : rcfg) (sg : option N) (chain : list N) : bool :=
  if GenFacts.persisted_adoption_checked then
    match r_sigmode cfg with
    | SigVerify => match sg with Some s => existsb (N.eqb s) chain | None => false end
    | _ => true
    end
  else true.

Definition new_entry (cfg : rcfg) (st : rstate) (id : ident) (c : cert) : entry :=
  let from_disk := match r_storage cfg with Disk => lookup id (disk st) | Memory => None end in
  let adopted := match from_disk with
                 | Some (l, s) => if adopt_counts cfg s (c_chain c) then Some (l, s) else None
                 | None => None end in
  {| e_locs := id; e_list := option_map fst adopted;
     e_loaded := match adopted with Some _ => true | None => false end;
     e_chain := c_chain c;
     e_signer := match adopted with Some (_, s) => s | None => None end |}.

(* getOrAddEntry *)
Definition added_state (cfg : rcfg) (st : rstate) (id : ident) (c : cert) : rstate :=
  match lookup id (entries st) with
  | Some _ => st
  | None => {| entries := entries st ++ [(id, new_entry cfg st id c)]; disk := disk st; marks := marks st |}
  end.

(* loadActively *)
Definition loaded_state (cfg : rcfg) (ev : env) (st1 : rstate) (id : ident) (c : cert) : rstate :=
  match r_fetch cfg, lookup id (entries st1) with
  | Active, Some e =>
    if e_loaded e then st1
    else let '(e', r) := intake cfg ev FirstLoad id e (c_chain c) NoFault in
         {| entries := update id e' (entries st1); disk := persist cfg id r (disk st1); marks := marks st1 |}
  | _, _ => st1
  end.

(* tryUpdateSignatureCertFromChain: the last refresh of a loaded entry failed verification; if the chain of this
   handshake verifies that list, its signer certificate is stored with the entry (and its store) and the mark is
   cleared — the next refresh can then succeed (key rollover) *)
Definition resigned_state (cfg : rcfg) (st : rstate) (id : ident) (c : cert) : rstate :=
  match lookup id (marks st), lookup id (entries st) with
  | Some l, Some e =>
    (* a mark is only ever set under 'verify' *)
    if match r_sigmode cfg with SigVerify => true | _ => false end && e_loaded e && verified l (c_chain c) then
      let e' := {| e_locs := e_locs e; e_list := e_list e; e_loaded := e_loaded e; e_chain := e_chain e;
                   e_signer := Some (l_signer l) |} in
      {| entries := update id e' (entries st);
         disk := match e_list e with Some l0 => persist cfg id (Some (l0, Some (l_signer l))) (disk st) | None => disk st end;
         marks := remove_id id (marks st) |}
    else st
  | _, _ => st
  end.

(* the state the handshake's own lookup sees *)
Definition lookup_state (cfg : rcfg) (ev : env) (st : rstate) (c : cert) : rstate :=
  match c_cdps c, http_locs c with
  | [], _ | _, [] => st
  | _, id => loaded_state cfg ev (added_state cfg st id c) id c
  end.

(* CRLRevocationChecker.IsRevoked: AddCRL for the certificate's CDPs, then the lookup, then
   (background mode, new entry) the forced refresh *)
Definition handshake (cfg : rcfg) (ev : env) (st : rstate) (c : cert) : rstate * verdict :=
  let id := http_locs c in
  match c_cdps c, id with
  | [], _ | _, [] => (st, is_revoked cfg st c)
  | _, _ =>
    let added := match lookup id (entries st) with Some _ => false | None => true end in
    let st2 := loaded_state cfg ev (added_state cfg st id c) id c in
    let v := is_revoked cfg st2 c in
    (* AddCRL ends with tryUpdateSignatureCertFromChain; it changes no list and no loaded flag, so the verdict does
       not depend on it *)
    let st2' := if added then st2 else resigned_state cfg st2 id c in
    let st3 := match r_fetch cfg with Background => if added then refresh_all cfg ev NoFault st2' else st2' | Active => st2' end in
    (st3, v)
  end.

(* ---- provisioning: every configured location (crl_urls / crl_files) is added and then updated synchronously,
   with the trusted signer certificates as the only chains; any failure fails provisioning
   (CRLRevocationChecker.Provision -> addCrlUrlsFromConfig / addCrlFilesFromConfig -> AddCRL, UpdateCRL).
   A configured location is identified by itself; the harness never uses one location both ways. *)
Definition config_cert (trusted : list N) : cert := {| c_issuer := 0; c_serial := 0; c_cdps := []; c_chain := trusted |}.

Definition configure_one (cfg : rcfg) (ev : env) (trusted : list N) (st : rstate) (loc : N) : option rstate :=
  let id := [loc] in
  let st1 := added_state cfg st id (config_cert trusted) in
  (* AddCRL: in active mode an entry that is not loaded is loaded now *)
  let st2o :=
    match r_fetch cfg, lookup id (entries st1) with
    | Active, Some e =>
      if e_loaded e then Some st1
      else let '(e', r) := intake cfg ev FirstLoad id e trusted NoFault in
           match r with
           | Some _ => Some {| entries := update id e' (entries st1); disk := persist cfg id r (disk st1); marks := marks st1 |}
           | None => None
           end
    | _, _ => Some st1
    end in
  match st2o with
  | None => None
  | Some st2 =>
    (* UpdateCRL: a synchronous update, whatever the state of the entry *)
    match lookup id (entries st2) with
    | None => None
    | Some e =>
      let '(e', r) := intake cfg ev Refresh id e trusted NoFault in
      match r with
      | Some _ => Some {| entries := update id e' (entries st2); disk := persist cfg id r (disk st2); marks := remove_id id (marks st2) |}
      | None => None
      end
    end
  end.

Fixpoint provision (cfg : rcfg) (ev : env) (trusted : list N) (locs : list N) (st : rstate) : option rstate :=
  match locs with
  | [] => Some st
  | loc :: r => match configure_one cfg ev trusted st loc with
                | Some st' => provision cfg ev trusted r st'
                | None => None
                end
  end.

Definition restart (cfg : rcfg) (st : rstate) : rstate := {| entries := []; disk := disk st; marks := [] |}.

Inductive rstep := SServe (loc : N) (a : answer) | SHandshake (c : cert) | SRefresh (f : fault) | SRestart.

Definition set_env (ev : env) (loc : N) (a : answer) : env := fun x => if N.eqb x loc then a else ev x.

Definition rstep_run (cfg : rcfg) (s : env * rstate) (x : rstep) : (env * rstate) * option verdict :=
  let '(ev, st) := s in
  match x with
  | SServe loc a => ((set_env ev loc a, st), None)
  | SHandshake c => let '(st', v) := handshake cfg ev st c in ((ev, st'), Some v)
  | SRefresh f => ((ev, refresh_all cfg ev f st), None)
  | SRestart => ((ev, restart cfg st), None)
  end.

Fixpoint run_steps (cfg : rcfg) (s : env * rstate) (xs : list rstep) : (env * rstate) * list (option verdict) :=
  match xs with
  | [] => (s, [])
  | x :: r => let '(s1, o) := rstep_run cfg s x in let '(s2, os) := run_steps cfg s1 r in (s2, o :: os)
  end.

Definition init_state : env * rstate := (fun _ => Down, {| entries := []; disk := []; marks := [] |}).
