(* StoreSpec.v — the abstract map both backends are meant to implement, and the proof that
   the hashed store refines it on every operation sequence whose keys do not collide. *)
From Verif Require Import Base Bytes KeyFacts Store.
From Verif.gen Require GenFacts.

Record aspec := { a_ents : list ((bytes * Z) * N); a_meta : option N; a_ext : option N;
                  a_sig : option N; a_loc : option N }.
Definition a_empty : aspec := {| a_ents := []; a_meta := None; a_ext := None; a_sig := None; a_loc := None |}.

Definition pair_eqb (p q : bytes * Z) : bool := bytes_eqb (fst p) (fst q) && Z.eqb (snd p) (snd q).
Fixpoint a_find (l : list ((bytes * Z) * N)) (p : bytes * Z) : option N :=
  match l with [] => None | (q, v) :: t => if pair_eqb p q then Some v else a_find t p end.

Record astate := { alive : aspec; astaging : aspec }.
Definition asel (st : astate) (t : tgt) := match t with Live => alive st | Staging => astaging st end.
Definition aupd (st : astate) (t : tgt) (s : aspec) : astate :=
  match t with Live => {| alive := s; astaging := astaging st |} | Staging => {| alive := alive st; astaging := s |} end.

Definition aget (o : option N) : res N := match o with Some m => Ok m | None => Err e_notfound end.

Definition astep (st : astate) (o : op) : astate * obs :=
  match o with
  | OStart t m => let a := asel st t in
      (aupd st t {| a_ents := a_ents a; a_meta := Some m; a_ext := a_ext a; a_sig := a_sig a; a_loc := a_loc a |}, BUnit)
  | OInsert t i z e => let a := asel st t in
      (aupd st t {| a_ents := ((i, z), e) :: a_ents a; a_meta := a_meta a; a_ext := a_ext a; a_sig := a_sig a; a_loc := a_loc a |}, BUnit)
  | OExt t x => let a := asel st t in
      (aupd st t {| a_ents := a_ents a; a_meta := a_meta a; a_ext := Some x; a_sig := a_sig a; a_loc := a_loc a |}, BUnit)
  | OSigner t c => let a := asel st t in
      (aupd st t {| a_ents := a_ents a; a_meta := a_meta a; a_ext := a_ext a; a_sig := Some c; a_loc := a_loc a |}, BUnit)
  | OLoc t l => let a := asel st t in
      (aupd st t {| a_ents := a_ents a; a_meta := a_meta a; a_ext := a_ext a; a_sig := a_sig a; a_loc := Some l |}, BUnit)
  | OLookup i z => (st, BLookup (Ok (a_find (a_ents (alive st)) (i, z))))
  | OGetMeta => (st, BGet (aget (a_meta (alive st))))
  | OGetExt => (st, BGet (aget (a_ext (alive st))))
  | OGetSigner => (st, BGet (aget (a_sig (alive st))))
  | OGetLoc => (st, BGet (aget (a_loc (alive st))))
  | OSwap => ({| alive := astaging st; astaging := a_empty |}, BUnit)
  | OReopen => (st, BUnit)
  end.

Fixpoint arun (st : astate) (ops : list op) : astate * list obs :=
  match ops with
  | [] => (st, [])
  | o :: r => let '(st1, x) := astep st o in let '(st2, xs) := arun st1 r in (st2, x :: xs)
  end.
Definition ainit : astate := {| alive := a_empty; astaging := a_empty |}.

(* key strings an operation sequence touches (besides the reserved ones) *)
Definition op_keys (o : op) : list bytes :=
  match o with OInsert _ i z _ | OLookup i z => [ukey i z] | _ => [] end.
Definition keys_of (ops : list op) : list bytes := reserved ++ flat_map op_keys ops.

Definition no_collision (K : list bytes) : Prop :=
  forall k1 k2, In k1 K -> In k2 K -> fnv1a64 k1 = fnv1a64 k2 -> k1 = k2.

Lemma pair_eqb_spec p q : pair_eqb p q = true <-> p = q.
Proof.
  destruct p as [i z], q as [i' z']. unfold pair_eqb. simpl. split.
  - intros H. apply andb_prop in H. destruct H as [A B]. apply bytes_eqb_eq in A. apply Z.eqb_eq in B. congruence.
  - intros [= -> ->]. rewrite bytes_eqb_refl, Z.eqb_refl. reflexivity.
Qed.

(* abstract-map facts used by the property file *)
Lemma a_find_cons_same l p v : a_find ((p, v) :: l) p = Some v.
Proof. simpl. assert (pair_eqb p p = true) by (apply pair_eqb_spec; reflexivity). rewrite H. reflexivity. Qed.

Lemma a_find_cons_other l p q v : p <> q -> a_find ((q, v) :: l) p = a_find l p.
Proof.
  intros H. simpl. destruct (pair_eqb p q) eqn:E; [apply pair_eqb_spec in E; congruence|reflexivity].
Qed.

Lemma a_find_some_in l p v : a_find l p = Some v -> In (p, v) l.
Proof.
  induction l as [|[q w] l IH]; simpl; [discriminate|].
  destruct (pair_eqb p q) eqn:E.
  - apply pair_eqb_spec in E. intros [= ->]. subst. auto.
  - auto.
Qed.

Lemma a_find_none_notin l p : a_find l p = None -> forall v, ~ In (p, v) l.
Proof.
  induction l as [|[q w] l IH]; simpl; [tauto|].
  destruct (pair_eqb p q) eqn:E; [discriminate|].
  intros H v [[= -> ->]|Hin].
  - assert (pair_eqb p p = true) by (apply pair_eqb_spec; reflexivity). congruence.
  - exact (IH H v Hin).
Qed.

(* ---------------------------------------------------------------- refinement *)
Section Refine.
Variable b : backend.
Variable K : list bytes.
Hypothesis HK : no_collision K.
Hypothesis Hres : incl reserved K.

Lemma ins_sep_us : ins_sep b = "_"%string.
Proof. destruct b; apply seps_are_us; lia. Qed.
Lemma look_sep_us : look_sep b = "_"%string.
Proof. destruct b; apply seps_are_us; lia. Qed.

Definition R (s : store) (a : aspec) : Prop :=
  (forall i z, In (ukey i z) K -> get s (hkey (ukey i z)) = option_map VEntry (a_find (a_ents a) (i, z))) /\
  get s (rkey GenFacts.key_meta) = option_map VMeta (a_meta a) /\
  get s (rkey GenFacts.key_extmeta) = option_map VExt (a_ext a) /\
  get s (rkey GenFacts.key_sigcert) = option_map VSigner (a_sig a) /\
  get s (rkey GenFacts.key_locations) = option_map VLoc (a_loc a).

Lemma R_empty : R [] a_empty.
Proof. unfold R; cbn; auto. Qed.

Arguments put : simpl never.
Arguments get : simpl never.
Arguments hkey : simpl never.
Arguments rkey : simpl never.

Lemma get_put s k0 v k : get (put s k0 v) k = if N.eqb k k0 then Some v else get s k.
Proof. reflexivity. Qed.

Lemma hkey_eqb k k0 : In k K -> In k0 K -> k <> k0 -> N.eqb (hkey k) (hkey k0) = false.
Proof.
  intros A B C. apply N.eqb_neq. intros E. apply C. apply HK; assumption.
Qed.

Lemma res_in n : (n < 4)%nat -> In (nth n reserved []) K.
Proof. intros H. apply Hres. apply nth_In. exact H. Qed.


Ltac res_neq :=
  match goal with
  | |- N.eqb (rkey ?x) (rkey ?y) = false =>
    apply hkey_eqb; [ (apply (res_in 0) || apply (res_in 1) || apply (res_in 2) || apply (res_in 3)); lia
                    | (apply (res_in 0) || apply (res_in 1) || apply (res_in 2) || apply (res_in 3)); lia
                    | vm_compute; discriminate ]
  end.

Ltac res_goal :=
  first [ reflexivity
        | rewrite N.eqb_refl; reflexivity
        | match goal with
          | |- context [N.eqb (rkey ?x) (rkey ?y)] =>
            replace (N.eqb (rkey x) (rkey y)) with false by (symmetry; res_neq); assumption
          end ].

Lemma key_vs_res i z n : (n < 4)%nat -> In (ukey i z) K ->
  N.eqb (hkey (ukey i z)) (hkey (nth n reserved [])) = false.
Proof.
  intros Hn Hk. apply hkey_eqb; [exact Hk|apply res_in; exact Hn|].
  apply reserved_ne_key. apply nth_In. exact Hn.
Qed.

Lemma res_vs_key i z n : (n < 4)%nat -> In (ukey i z) K ->
  N.eqb (hkey (nth n reserved [])) (hkey (ukey i z)) = false.
Proof. intros. rewrite N.eqb_sym. apply key_vs_res; assumption. Qed.

Lemma R_start s a m : R s a ->
  R (st_start s m) {| a_ents := a_ents a; a_meta := Some m; a_ext := a_ext a; a_sig := a_sig a; a_loc := a_loc a |}.
Proof.
  intros (He & Hm & Hx & Hs & Hl). unfold st_start, R. cbn [a_ents a_meta a_ext a_sig a_loc].
  split; [intros i z Hk; rewrite get_put|repeat split; rewrite get_put; res_goal].
  change (rkey GenFacts.key_meta) with (hkey (nth 0 reserved [])).
  rewrite key_vs_res by (auto; lia). apply He. exact Hk.
Qed.

Lemma R_ext s a m : R s a ->
  R (st_extmeta s m) {| a_ents := a_ents a; a_meta := a_meta a; a_ext := Some m; a_sig := a_sig a; a_loc := a_loc a |}.
Proof.
  intros (He & Hm & Hx & Hs & Hl). unfold st_extmeta, R. cbn [a_ents a_meta a_ext a_sig a_loc].
  split; [intros i z Hk; rewrite get_put|repeat split; rewrite get_put; res_goal].
  change (rkey GenFacts.key_extmeta) with (hkey (nth 1 reserved [])).
  rewrite key_vs_res by (auto; lia). apply He. exact Hk.
Qed.

Lemma R_signer s a m : R s a ->
  R (st_signer s m) {| a_ents := a_ents a; a_meta := a_meta a; a_ext := a_ext a; a_sig := Some m; a_loc := a_loc a |}.
Proof.
  intros (He & Hm & Hx & Hs & Hl). unfold st_signer, R. cbn [a_ents a_meta a_ext a_sig a_loc].
  split; [intros i z Hk; rewrite get_put|repeat split; rewrite get_put; res_goal].
  change (rkey GenFacts.key_sigcert) with (hkey (nth 2 reserved [])).
  rewrite key_vs_res by (auto; lia). apply He. exact Hk.
Qed.

Lemma R_loc s a m : R s a ->
  R (st_locations s m) {| a_ents := a_ents a; a_meta := a_meta a; a_ext := a_ext a; a_sig := a_sig a; a_loc := Some m |}.
Proof.
  intros (He & Hm & Hx & Hs & Hl). unfold st_locations, R. cbn [a_ents a_meta a_ext a_sig a_loc].
  split; [intros i z Hk; rewrite get_put|repeat split; rewrite get_put; res_goal].
  change (rkey GenFacts.key_locations) with (hkey (nth 3 reserved [])).
  rewrite key_vs_res by (auto; lia). apply He. exact Hk.
Qed.

Lemma R_insert s a i0 z0 e : In (ukey i0 z0) K -> R s a ->
  R (st_insert b s i0 z0 e) {| a_ents := ((i0, z0), e) :: a_ents a; a_meta := a_meta a; a_ext := a_ext a; a_sig := a_sig a; a_loc := a_loc a |}.
Proof.
  intros Hk0 (He & Hm & Hx & Hs & Hl). unfold st_insert, R. rewrite ins_sep_us, key_with_us. cbn [a_ents a_meta a_ext a_sig a_loc].
  split; [|repeat split]; [intros i z Hk|..]; rewrite get_put.
  - destruct (pair_eqb (i, z) (i0, z0)) eqn:E.
    + apply pair_eqb_spec in E. injection E as -> ->. rewrite N.eqb_refl. rewrite a_find_cons_same. reflexivity.
    + rewrite hkey_eqb; auto; [rewrite a_find_cons_other; [apply He; exact Hk|]|].
      { intros Heq. injection Heq as -> ->. assert (pair_eqb (i0, z0) (i0, z0) = true) by (apply pair_eqb_spec; reflexivity). congruence. }
      intros Heq. apply ukey_inj in Heq. destruct Heq as [-> ->].
      assert (pair_eqb (i0, z0) (i0, z0) = true) by (apply pair_eqb_spec; reflexivity). congruence.
  - change (rkey GenFacts.key_meta) with (hkey (nth 0 reserved [])). rewrite res_vs_key by (auto; lia). exact Hm.
  - change (rkey GenFacts.key_extmeta) with (hkey (nth 1 reserved [])). rewrite res_vs_key by (auto; lia). exact Hx.
  - change (rkey GenFacts.key_sigcert) with (hkey (nth 2 reserved [])). rewrite res_vs_key by (auto; lia). exact Hs.
  - change (rkey GenFacts.key_locations) with (hkey (nth 3 reserved [])). rewrite res_vs_key by (auto; lia). exact Hl.
Qed.

Definition RR (st : sstate) (ast : astate) : Prop := R (live st) (alive ast) /\ R (staging st) (astaging ast).

Lemma RR_upd st ast t s a : RR st ast -> R s a -> RR (upd st t s) (aupd ast t a).
Proof. intros [A B] C. destruct t; split; simpl; assumption. Qed.

Lemma RR_sel st ast t : RR st ast -> R (sel st t) (asel ast t).
Proof. intros [A B]. destruct t; assumption. Qed.

Lemma step_refines st ast o :
  incl (op_keys o) K -> RR st ast ->
  RR (fst (step b st o)) (fst (astep ast o)) /\ snd (step b st o) = snd (astep ast o).
Proof.
  intros Hk HR. destruct o; simpl; try (split; [|reflexivity]).
  - apply RR_upd; [exact HR|]. apply R_start. apply RR_sel. exact HR.
  - apply RR_upd; [exact HR|]. apply R_insert; [apply Hk; simpl; auto|]. apply RR_sel. exact HR.
  - apply RR_upd; [exact HR|]. apply R_ext. apply RR_sel. exact HR.
  - apply RR_upd; [exact HR|]. apply R_signer. apply RR_sel. exact HR.
  - apply RR_upd; [exact HR|]. apply R_loc. apply RR_sel. exact HR.
  - split; [exact HR|]. destruct HR as [(He & _) _]. unfold st_lookup.
    rewrite look_sep_us, key_with_us.
    assert (Hin : In (ukey issuer serial) K) by (apply Hk; simpl; auto).
    destruct b; rewrite (He _ _ Hin); destruct (a_find _ _); reflexivity.
  - split; [exact HR|]. destruct HR as [(_ & Hm & _) _]. unfold st_get_meta. rewrite Hm.
    destruct (a_meta _); reflexivity.
  - split; [exact HR|]. destruct HR as [(_ & _ & Hm & _) _]. unfold st_get_ext. rewrite Hm.
    destruct (a_ext _); reflexivity.
  - split; [exact HR|]. destruct HR as [(_ & _ & _ & Hm & _) _]. unfold st_get_signer. rewrite Hm.
    destruct (a_sig _); reflexivity.
  - split; [exact HR|]. destruct HR as [(_ & _ & _ & _ & Hm) _]. unfold st_get_locations. rewrite Hm.
    destruct (a_loc _); reflexivity.
  - destruct HR as [_ B]. split; simpl; [exact B|apply R_empty].
  - exact HR.
Qed.

Lemma run_refines ops : forall st ast,
  incl (flat_map op_keys ops) K -> RR st ast ->
  snd (run b st ops) = snd (arun ast ops).
Proof.
  induction ops as [|o ops IH]; intros st ast Hk HR; simpl; [reflexivity|].
  assert (Ho : incl (op_keys o) K) by (intros x Hx; apply Hk; simpl; apply in_or_app; auto).
  assert (Hr : incl (flat_map op_keys ops) K) by (intros x Hx; apply Hk; simpl; apply in_or_app; auto).
  destruct (step_refines st ast o Ho HR) as [HR' Hobs].
  destruct (step b st o) as [st1 x]. destruct (astep ast o) as [ast1 x']. simpl in *.
  specialize (IH st1 ast1 Hr HR').
  destruct (run b st1 ops). destruct (arun ast1 ops). simpl in *. congruence.
Qed.
End Refine.

Lemma refinement b ops :
  no_collision (keys_of ops) -> snd (run b init ops) = snd (arun ainit ops).
Proof.
  intros H. apply (run_refines b (keys_of ops) H).
  - unfold keys_of. apply incl_appl, incl_refl.
  - unfold keys_of. apply incl_appr, incl_refl.
  - split; apply R_empty.
Qed.


(* ---- soundness of lookups without any collision hypothesis: an inserted pair is never
   reported "not revoked" (a colliding key can only turn the answer into another entry or an
   error) *)
Lemma get_put_mono s k k' v : get s k <> None -> get (put s k' v) k <> None.
Proof. intros H. rewrite get_put. destruct (N.eqb k k'); [discriminate|exact H]. Qed.

Definition insert_all (b : backend) (s : store) (ins : list (bytes * Z * N)) : store :=
  fold_left (fun s x => st_insert b s (fst (fst x)) (snd (fst x)) (snd x)) ins s.

Lemma insert_all_mono b ins : forall s k, get s k <> None -> get (insert_all b s ins) k <> None.
Proof.
  induction ins as [|x ins IH]; intros s k H; simpl; [exact H|].
  apply IH. unfold st_insert. apply get_put_mono. exact H.
Qed.

Lemma inserted_found b ins : forall s i z e,
  In (i, z, e) ins -> get (insert_all b s ins) (hkey (key_with (ins_sep b) i z)) <> None.
Proof.
  induction ins as [|x ins IH]; intros s i z e Hin; [destruct Hin|]. simpl.
  destruct Hin as [->|Hin].
  - apply insert_all_mono. cbn [fst snd]. unfold st_insert. rewrite get_put, N.eqb_refl. discriminate.
  - eapply IH. exact Hin.
Qed.

Lemma inserted_never_not_revoked b ins s i z e f :
  In (i, z, e) ins -> st_lookup b (insert_all b s ins) f i z <> Ok None.
Proof.
  intros Hin. pose proof (inserted_found b ins s i z e Hin) as H.
  assert (Es : look_sep b = ins_sep b) by (destruct b; unfold look_sep, ins_sep; rewrite !seps_are_us by lia; reflexivity).
  unfold st_lookup. rewrite Es.
  destruct b, f; try discriminate; destruct (get _ _) as [[| | | | |]|]; try discriminate; exfalso; apply H; reflexivity.
Qed.
