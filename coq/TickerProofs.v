From Verif Require Import Base Ticker.
From Verif.gen Require GenFacts.

Lemma per_instance : GenFacts.refresh_stamp_per_instance = true. Proof. reflexivity. Qed.
Lemma divisor : GenFacts.skip_divisor = 2%Z. Proof. reflexivity. Qed.

(* every stamp an instance reads is the finish time of one of ITS OWN passes *)
Definition stamps_own (st : tstate) : Prop :=
  forall i, get_stamp (stamps st) i <> 0%Z ->
            exists start, In (i, start, get_stamp (stamps st) i) (passes st).

Lemma stamp_key_id i : stamp_key i = i.
Proof. unfold stamp_key. rewrite per_instance. reflexivity. Qed.

Lemma do_pass_own st i now d : stamps_own st -> stamps_own (do_pass st i now d).
Proof.
  intros H j Hj. unfold do_pass in *. simpl in *. rewrite stamp_key_id in *. unfold set_stamp in *. simpl in *.
  destruct (Nat.eqb j i) eqn:E.
  - apply Nat.eqb_eq in E. subst j. exists now. left. reflexivity.
  - destruct (H j Hj) as [s Hs]. exists s. right. exact Hs.
Qed.

Lemma tstep_own interval d st x : stamps_own st -> stamps_own (tstep interval d st x).
Proof.
  intros H. destruct x as [now [i|i]]; simpl; [destruct (recently st i (interval i) now); [exact H|]|]; apply do_pass_own; exact H.
Qed.

Lemma trun_own interval d xs : stamps_own (trun interval d xs).
Proof.
  unfold trun. assert (G : forall st, stamps_own st -> stamps_own (fold_left (tstep interval d) xs st)).
  { induction xs as [|x xs IH]; intros st H; simpl; [exact H|]. apply IH. apply tstep_own. exact H. }
  apply G. intros i Hi. simpl in Hi. congruence.
Qed.

(* a tick either performs a pass or is skipped because a pass OF THE SAME INSTANCE finished less
   than half an interval ago *)
Lemma tick_or_recent_own_pass interval d st i now :
  stamps_own st -> (0 <= d)%Z ->
  let st' := tstep interval d st (now, Tick i) in
  In (i, now, (now + d)%Z) (passes st') \/
  (exists start fin, In (i, start, fin) (passes st') /\ (now - fin < interval i / 2)%Z /\ st' = st).
Proof.
  intros Hown Hd. simpl. destruct (recently st i (interval i) now) eqn:E.
  - right. unfold recently in E. rewrite stamp_key_id, divisor in E. apply andb_prop in E. destruct E as [Hz Hlt].
    apply negb_true_iff in Hz. apply Z.eqb_neq in Hz. apply Z.ltb_lt in Hlt.
    destruct (Hown i Hz) as [s Hs]. exists s, (get_stamp (stamps st) i). split; [exact Hs|split; [exact Hlt|reflexivity]].
  - left. simpl. left. reflexivity.
Qed.

(* passes are never forgotten *)
Lemma passes_grow interval d xs : forall st p, In p (passes st) -> In p (passes (fold_left (tstep interval d) xs st)).
Proof.
  induction xs as [|x xs IH]; intros st p H; simpl; [exact H|]. apply IH.
  destruct x as [now [i|i]]; simpl; [destruct (recently st i (interval i) now); [exact H|]|]; simpl; right; exact H.
Qed.

(* schedules respect the update mutex: an event happens when every earlier pass has finished *)
Fixpoint well_timed (interval : nat -> Z) (d : Z) (st : tstate) (xs : list (Z * tev)) : Prop :=
  match xs with
  | [] => True
  | (now, e) :: r => (forall p, In p (passes st) -> (snd p <= now)%Z) /\ well_timed interval d (tstep interval d st (now, e)) r
  end.

Lemma well_timed_app interval d pre : forall st x post,
  well_timed interval d st (pre ++ x :: post) ->
  forall p, In p (passes (fold_left (tstep interval d) pre st)) -> (snd p <= fst x)%Z.
Proof.
  induction pre as [|[now e] pre IH]; intros st x post H p Hp; simpl in *.
  - destruct x as [t e]. destruct H as [H _]. apply H. exact Hp.
  - destruct H as [_ H]. eapply IH; eassumption.
Qed.

(* liveness at every tick: whatever the other instances do and whenever forced passes happen,
   at a tick of instance i at time t a pass of instance i finishes in (t - T_i/2, t + d] *)
Theorem tick_liveness interval d pre post i t :
  (0 <= d)%Z -> (0 <= interval i)%Z ->
  well_timed interval d {| stamps := []; passes := [] |} (pre ++ (t, Tick i) :: post) ->
  let st := trun interval d (pre ++ (t, Tick i) :: post) in
  exists start fin, In (i, start, fin) (passes st) /\ (t - interval i / 2 <= fin <= t + d)%Z.
Proof.
  intros Hd HT Hwt. unfold trun. rewrite fold_left_app. simpl.
  assert (Hhalf : (0 <= interval i / 2)%Z) by (apply Z.div_pos; lia).
  set (st0 := fold_left (tstep interval d) pre {| stamps := []; passes := [] |}).
  assert (Hown : stamps_own st0) by (apply (trun_own interval d pre)).
  pose proof (well_timed_app interval d pre _ _ _ Hwt) as Hb. fold st0 in Hb. simpl in Hb.
  destruct (tick_or_recent_own_pass interval d st0 i t Hown Hd) as [H|(s & f & Hin & Hlt & Heq)].
  - exists t, (t + d)%Z. split; [apply passes_grow; exact H|lia].
  - exists s, f. split; [apply passes_grow; exact Hin|].
    rewrite Heq in Hin. specialize (Hb _ Hin). simpl in Hb. lia.
Qed.

Fixpoint well_timed_b (interval : nat -> Z) (d : Z) (st : tstate) (xs : list (Z * tev)) : bool :=
  match xs with
  | [] => true
  | (now, e) :: r => forallb (fun p => (snd p <=? now)%Z) (passes st) && well_timed_b interval d (tstep interval d st (now, e)) r
  end.
Lemma well_timed_b_sound interval d xs : forall st, well_timed_b interval d st xs = true -> well_timed interval d st xs.
Proof.
  induction xs as [|[now e] xs IH]; intros st H; simpl in *; [exact I|].
  apply andb_prop in H. destruct H as [Ha Hb]. split; [|apply IH; exact Hb].
  intros p Hp. rewrite forallb_forall in Ha. apply Z.leb_le. apply Ha. exact Hp.
Qed.

(* non-vacuity, and the situation the per-instance stamp repairs: two instances with the same
   interval 100, B ticking 25 after A, passes of length 1 — B still passes at every tick *)
Definition two_instances : list (Z * tev) :=
  [(0, Forced 0); (1, Forced 1); (100, Tick 0); (125, Tick 1); (200, Tick 0); (225, Tick 1); (300, Tick 0); (325, Tick 1)]%Z.
Lemma two_instances_ok :
  well_timed (fun _ => 100%Z) 1 {| stamps := []; passes := [] |} two_instances /\
  passed_in (trun (fun _ => 100%Z) 1 two_instances) 1 124 126 = true /\
  passed_in (trun (fun _ => 100%Z) 1 two_instances) 1 224 226 = true /\
  passed_in (trun (fun _ => 100%Z) 1 two_instances) 1 324 326 = true.
Proof.
  split; [apply well_timed_b_sound; vm_compute; reflexivity|]. repeat split; vm_compute; reflexivity.
Qed.
