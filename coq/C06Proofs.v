(* C06Proofs.v — the streaming reader, run on the DER encoding of any document of the
   supported profile, hands its consumer exactly the reference events and hashes exactly
   the DER tbsCertList; for every chunk schedule. *)
From Verif Require Import Base Bytes Reader Asn1Parser Pem CrlReader CrlSpec C06Core.
From Verif.gen Require GenFacts.

Definition adv_ev (c : core) (X tail : bytes) (es : list event) : core :=
  {| c_rest := tail; c_hashing := c_hashing c;
     c_hashed := c_hashed c ++ (if c_hashing c then X else []);
     c_nread := (c_nread c + Z.of_nat (length X))%Z;
     c_evs := c_evs c ++ es; c_nev := c_nev c + length es; c_fail := c_fail c |}.

Lemma adv_is_adv_ev c X tail : adv c X tail = adv_ev c X tail [].
Proof. unfold adv, adv_ev. rewrite app_nil_r, Nat.add_0_r. reflexivity. Qed.

Lemma adv_ev_compose c X Y tail es fs :
  adv_ev (adv_ev c X (Y ++ tail) es) Y tail fs = adv_ev c (X ++ Y) tail (es ++ fs).
Proof.
  unfold adv_ev. cbn. f_equal.
  - destruct (c_hashing c); [rewrite <- app_assoc; reflexivity|rewrite !app_nil_r; reflexivity].
  - rewrite app_length. lia.
  - rewrite app_assoc. reflexivity.
  - rewrite app_length. lia.
Qed.

Lemma adv_ev_nil c es : c_fail c = c_fail c ->
  adv_ev c [] (c_rest c) es =
  {| c_rest := c_rest c; c_hashing := c_hashing c; c_hashed := c_hashed c; c_nread := c_nread c;
     c_evs := c_evs c ++ es; c_nev := c_nev c + length es; c_fail := c_fail c |}.
Proof.
  intros _. unfold adv_ev. cbn. f_equal; [destruct (c_hashing c); apply app_nil_r|lia].
Qed.

Ltac solve_adv :=
  unfold adv_ev, adv; cbn [c_rest c_hashing c_hashed c_nread c_evs c_nev c_fail];
  f_equal;
  try (match goal with |- context [c_hashing ?c] => destruct (c_hashing c) end);
  rewrite ?app_nil_r, <- ?app_assoc; cbn [app];
  try reflexivity; try (cbn [length]; rewrite ?app_length; cbn [length]; rewrite ?app_length; cbn [length]; lia); try (cbn; lia); try (cbn; reflexivity).

(* an element header can be peeked at the front of a byte string *)
Definition peekable (bs : bytes) (tag : N) : Prop :=
  exists n tail, bs = tag :: enc_len n ++ tail /\ hdr_ok n.

Lemma peekable_tlv tag c tail : hdr_ok (Z.of_nat (length c)) -> peekable (tlv tag c ++ tail) tag.
Proof. intros H. exists (Z.of_nat (length c)), (c ++ tail). split; [|exact H]. unfold tlv. simpl. rewrite <- app_assoc. reflexivity. Qed.

Lemma peek_tag_ok s c tag :
  core_of s = c -> peekable (c_rest c) tag ->
  exists tl, runs (peek_tag_length 0) s tl c /\ t_tag tl = tag /\ (0 <= t_len tl)%Z.
Proof.
  intros Hc (n & tail & Hr & Hn). eexists. split; [apply (peek_tl_ok s c tag n tail Hc Hn Hr)|].
  split; [reflexivity|]. cbn. unfold hdr_ok in Hn. lia.
Qed.

Lemma discard_ok s c X tail :
  core_of s = c -> c_rest c = X ++ tail ->
  runs (lift_rd (rd_discard (Z.of_nat (length X)))) s tt
       {| c_rest := tail; c_hashing := c_hashing c; c_hashed := c_hashed c; c_nread := c_nread c;
          c_evs := c_evs c; c_nev := c_nev c; c_fail := c_fail c |}.
Proof.
  intros Hc Hr. subst c. unfold runs, lift_rd, rd_discard. cbn [c_rest core_of] in Hr.
  destruct (Z.of_nat (length X) <? 0)%Z eqn:E; [apply Z.ltb_lt in E; lia|].
  rewrite Hr, app_length.
  destruct (Z.of_nat (length X + length tail) <? Z.of_nat (length X))%Z eqn:E2; [apply Z.ltb_lt in E2; lia|].
  rewrite Nat2Z.id. eexists. split; [reflexivity|].
  unfold core_of. cbn. rewrite skipn_app_le by lia. rewrite skipn_all. reflexivity.
Qed.

Section WithLib.
Variable L : lib.

(* ---------------------------------------------------------------- the entry loop *)
Lemma entry_loop_ok : forall (l : list bytes) fuel s c tail list_end,
  core_of s = c -> c_fail c = None ->
  Forall (fun x => fits x /\ lib_ok L KRevoked (tlv TAG_SEQ x) = true) l ->
  c_rest c = concat (map (tlv TAG_SEQ) l) ++ tail ->
  list_end = (c_nread c + Z.of_nat (length (concat (map (tlv TAG_SEQ) l))))%Z ->
  length l < fuel ->
  runs (entry_loop L fuel list_end) s tt
       (adv_ev c (concat (map (tlv TAG_SEQ) l)) tail (map (fun x => EvInsert (tlv TAG_SEQ x)) l)).
Proof.
  induction l as [|x l IH]; intros fuel s c tail list_end Hc Hf Hwf Hr He Hfu.
  - destruct fuel as [|f]; [simpl in Hfu; lia|]. cbn [entry_loop].
    eapply runs_bind; [apply bytes_read_ok; exact Hc|]. intros s1 H1.
    simpl in He. rewrite He, Z.add_0_r, Z.ltb_irrefl. apply runs_ret.
    rewrite H1. cbn [concat map]. simpl in Hr. rewrite <- Hr. symmetry.
    rewrite adv_ev_nil by reflexivity. destruct c; cbn. rewrite app_nil_r, Nat.add_0_r. reflexivity.
  - destruct fuel as [|f]; [simpl in Hfu; lia|]. cbn [entry_loop].
    inversion Hwf as [|? ? [Hfx Hlx] Hwf']; subst.
    cbn [map concat] in *.
    eapply runs_bind; [apply bytes_read_ok; reflexivity|]. intros s1 H1.
    assert (Hpos : (c_nread (core_of s) <? c_nread (core_of s) + Z.of_nat (length (tlv TAG_SEQ x ++ concat (map (tlv TAG_SEQ) l))))%Z = true).
    { apply Z.ltb_lt. rewrite app_length, tlv_length. lia. }
    rewrite Hpos.
    rewrite <- app_assoc in Hr.
    eapply runs_bind.
    { apply (peek_tl_ok s1 _ TAG_SEQ (Z.of_nat (length x)) (x ++ concat (map (tlv TAG_SEQ) l) ++ tail) H1 (fits_hdr _ Hfx)).
      rewrite Hr. unfold tlv. simpl. rewrite <- app_assoc. reflexivity. }
    intros s2 H2. cbn [t_tag]. rewrite N.eqb_refl. cbn [negb].
    eapply runs_bind; [apply (read_struct_ok L KRevoked s2 _ x (concat (map (tlv TAG_SEQ) l) ++ tail) H2 Hfx Hlx Hr)|].
    intros s3 H3.
    eapply runs_bind; [apply (emit_ok s3 _ (EvInsert (tlv TAG_SEQ x)) H3 Hf)|]. intros s4 H4.
    set (c4 := {| c_rest := _ |}) in H4.
    assert (E4 : c4 = adv_ev (core_of s) (tlv TAG_SEQ x) (concat (map (tlv TAG_SEQ) l) ++ tail) [EvInsert (tlv TAG_SEQ x)]).
    { unfold c4, adv_ev, adv. cbn. f_equal; try reflexivity; try lia; try (symmetry; exact Hf). }
    change (EvInsert (tlv TAG_SEQ x) :: map (fun x0 => EvInsert (tlv TAG_SEQ x0)) l)
      with ([EvInsert (tlv TAG_SEQ x)] ++ map (fun x0 => EvInsert (tlv TAG_SEQ x0)) l).
    rewrite <- adv_ev_compose. rewrite <- E4.
    apply (IH f s4 c4 tail _ H4).
    + rewrite E4. cbn. exact Hf.
    + exact Hwf'.
    + rewrite E4. reflexivity.
    + rewrite E4. cbn. rewrite app_length. lia.
    + simpl in Hfu. lia.
Qed.

(* ---------------------------------------------------------------- phases of read_main *)
(* an unknown version is rejected at the version field, before anything is handed to the consumer:
   whatever follows, for every version byte other than 0 (v1) and 1 (v2) *)
Lemma header_rejects_version s c (v : N) rest :
  core_of s = c -> c_rest c = ([2; 1; v]%N ++ rest) -> (2 <= v)%N ->
  exists s', read_tbs_header L s = (Err e_version, s') /\ c_evs (core_of s') = c_evs c.
Proof.
  intros Hc Hr Hv. unfold read_tbs_header.
  assert (Hstep : runs (has_v <- version_exists ;; version <- (if has_v then parse_version else ret 1%Z) ;; ret version) s
                       (Z.of_N v + 1)%Z (adv c [2; 1; v]%N rest)).
  { eapply runs_bind.
    { eapply runs_peek_bool. apply (peek_tl_ok s c TAG_INT 1 (v :: rest) Hc); [unfold hdr_ok, two63; lia|exact Hr]. }
    intros s1 H1. cbn [t_tag t_len]. rewrite N.eqb_refl, Z.eqb_refl. cbn [andb].
    eapply runs_bind; [|intros s3 H3; apply runs_ret; exact H3].
    unfold parse_version.
    eapply runs_bind; [eapply runs_ignore; apply (read_tl_ok s1 c TAG_INT 1 (v :: rest) H1); [unfold hdr_ok, two63; lia|exact Hr]|].
    intros s2 H2.
    eapply runs_bind; [apply (read_bytes_ok s2 _ [v] rest H2); reflexivity|]. intros s3 H3.
    cbn [hd]. apply runs_ret. rewrite H3. solve_adv. }
  destruct Hstep as (s1 & E1 & H1). unfold bindM in E1.
  unfold bindM at 1.
  destruct (version_exists s) as [[hv| | |] sv] eqn:Eve; try discriminate.
  unfold bindM at 1.
  destruct ((if hv then parse_version else ret 1%Z) sv) as [[ver| | |] s1'] eqn:Epv; try discriminate.
  cbn in E1. injection E1 as -> ->.
  assert (Hver : (2 <? Z.of_N v + 1)%Z = true) by (apply Z.ltb_lt; lia).
  unfold bindM at 1. rewrite Hver. unfold fail. exists s1. split; [reflexivity|].
  rewrite H1. unfold adv. cbn. reflexivity.
Qed.

Definition hdr_bytes (d : crl_doc) : bytes :=
  enc_version d ++ tlv TAG_SEQ (d_inner_alg d) ++ tlv TAG_SEQ (d_issuer d) ++ tlv TAG_UTC (d_this d)
  ++ opt_bytes (option_map (tlv TAG_UTC) (d_next d)).

Variable d : crl_doc.
Variable number : option Z.
Variables hash verifier : string.
Hypothesis WF : wf_profile L d number hash verifier.

Lemma header_ok s c tail tg :
  core_of s = c -> c_fail c = None -> c_rest c = hdr_bytes d ++ tail ->
  peekable tail tg -> tg <> TAG_UTC ->
  runs (read_tbs_header L) s ((if d_v2 d then 2 else 1)%Z, tlv TAG_SEQ (d_issuer d))
       (adv_ev c (hdr_bytes d) tail [EvStart (tlv TAG_SEQ (d_issuer d)) (d_this d) (d_next d)]).
Proof.
  intros Hc Hf Hr Hpk Htg. destruct WF as [[Hai Hail] _ [Hii Hiil] [Hti Htil] Hnx _ _ _ _ _ _ _].
  unfold read_tbs_header, hdr_bytes in *.
  (* version *)
  set (rest1 := tlv TAG_SEQ (d_inner_alg d) ++ tlv TAG_SEQ (d_issuer d) ++ tlv TAG_UTC (d_this d)
                ++ opt_bytes (option_map (tlv TAG_UTC) (d_next d)) ++ tail).
  assert (Hr1 : c_rest c = enc_version d ++ rest1) by (rewrite Hr; unfold rest1; rewrite <- !app_assoc; reflexivity).
  assert (Hstep1 : forall s0, core_of s0 = c ->
     exists v, runs (has_v <- version_exists ;; version <- (if has_v then parse_version else ret 1%Z) ;; ret version) s0 v
                    (adv c (enc_version d) rest1) /\ v = (if d_v2 d then 2 else 1)%Z).
  { intros s0 H0. unfold enc_version in *. destruct (d_v2 d).
    - exists 2%Z. split; [|reflexivity].
      eapply runs_bind.
      { eapply runs_peek_bool. apply (peek_tl_ok s0 c TAG_INT 1 (1%N :: rest1) H0); [unfold hdr_ok, two63; lia|exact Hr1]. }
      intros s1 H1. cbn [t_tag t_len]. rewrite N.eqb_refl, Z.eqb_refl. cbn [andb].
      eapply runs_bind; [|intros s3 H3; apply runs_ret; exact H3].
      unfold parse_version.
      eapply runs_bind; [eapply runs_ignore; apply (read_tl_ok s1 c TAG_INT 1 (1%N :: rest1) H1); [unfold hdr_ok, two63; lia|exact Hr1]|].
      intros s2 H2.
      eapply runs_bind; [apply (read_bytes_ok s2 _ [1%N] rest1 H2); reflexivity|]. intros s3 H3.
      cbn [hd]. apply runs_ret. rewrite H3. solve_adv.
    - exists 1%Z. split; [|reflexivity].
      eapply runs_bind.
      { eapply runs_peek_bool. apply (peek_tl_ok s0 c TAG_SEQ (Z.of_nat (length (d_inner_alg d))) (d_inner_alg d ++ tlv TAG_SEQ (d_issuer d) ++ tlv TAG_UTC (d_this d)
                ++ opt_bytes (option_map (tlv TAG_UTC) (d_next d)) ++ tail) H0 (fits_hdr _ Hai)).
        rewrite Hr1. unfold rest1, tlv. simpl. rewrite <- app_assoc. reflexivity. }
      intros s1 H1. cbn [t_tag t_len]. change (N.eqb TAG_SEQ TAG_INT) with false. cbn [andb].
      eapply runs_bind; [apply runs_ret; exact H1|]. intros s2 H2. apply runs_ret. rewrite H2.
      unfold adv. clear - Hr1. destruct c as [cr ch chd cn ce cv cf]. cbn in Hr1 |- *. rewrite Hr1.
      f_equal; [destruct ch; rewrite app_nil_r; reflexivity|lia]. }
  (* run the version part through the real term *)
  destruct (Hstep1 s Hc) as (v & (s1 & E1 & H1) & Hv).
  unfold bindM in E1.
  unfold runs. unfold bindM at 1.
  destruct (version_exists s) as [[hv| | |] sv] eqn:Eve; try discriminate.
  unfold bindM at 1.
  destruct ((if hv then parse_version else ret 1%Z) sv) as [[ver| | |] s1'] eqn:Epv; try discriminate.
  cbn in E1. injection E1 as -> ->. subst v.
  assert (Hver : (2 <? (if d_v2 d then 2 else 1))%Z = false) by (destruct (d_v2 d); reflexivity).
  unfold bindM at 1. rewrite Hver. cbn [ret].
  (* inner algorithm, issuer, thisUpdate *)
  assert (Hrun : runs (ignore_err (read_struct L KAlgId);;;
      issuer <- read_struct L KRdn;;
      this_update <- read_utc_time L;;
      has_next <- next_update_exists;;
      next_update <- (if has_next then t <- read_utc_time L;; ret (Some t) else ret None);;
      emit (EvStart issuer this_update next_update);;; ret ((if d_v2 d then 2 else 1)%Z, issuer)) s1
      ((if d_v2 d then 2 else 1)%Z, tlv TAG_SEQ (d_issuer d))
      (adv_ev c (enc_version d ++ tlv TAG_SEQ (d_inner_alg d) ++ tlv TAG_SEQ (d_issuer d) ++ tlv TAG_UTC (d_this d)
                 ++ opt_bytes (option_map (tlv TAG_UTC) (d_next d))) tail
              [EvStart (tlv TAG_SEQ (d_issuer d)) (d_this d) (d_next d)])).
  { set (R4 := opt_bytes (option_map (tlv TAG_UTC) (d_next d)) ++ tail).
    set (R3 := tlv TAG_UTC (d_this d) ++ R4).
    set (R2 := tlv TAG_SEQ (d_issuer d) ++ R3).
    eapply runs_bind; [eapply runs_ignore; apply (read_struct_ok L KAlgId s1 _ (d_inner_alg d) R2 H1 Hai Hail); reflexivity|].
    intros s2 H2.
    eapply runs_bind; [apply (read_struct_ok L KRdn s2 _ (d_issuer d) R3 H2 Hii Hiil); reflexivity|].
    intros s3 H3.
    eapply runs_bind; [apply (read_utc_ok L s3 _ (d_this d) R4 H3 Hti Htil); reflexivity|].
    intros s4 H4. unfold R2, R3, R4 in *. clear R2 R3 R4.
    destruct (d_next d) as [t|] eqn:En; cbn [option_map opt_bytes] in *.
    - destruct (Hnx t eq_refl) as [Hfn Hln].
      eapply runs_bind.
      { eapply runs_peek_bool. apply (peek_tl_ok s4 _ TAG_UTC (Z.of_nat (length t)) (t ++ tail) H4 (fits_hdr _ Hfn)).
        cbn. unfold tlv. simpl. rewrite <- app_assoc. reflexivity. }
      intros s5 H5. cbn [t_tag]. rewrite N.eqb_refl.
      eapply runs_bind.
      { eapply runs_bind; [apply (read_utc_ok L s5 _ t tail H5 Hfn Hln); reflexivity|]. intros s6 H6. apply runs_ret. exact H6. }
      intros s6 H6.
      eapply runs_bind; [apply (emit_ok s6 _ _ H6); cbn; exact Hf|]. intros s7 H7.
      apply runs_ret. rewrite H7. solve_adv. symmetry; exact Hf.
    - destruct Hpk as (n & tail' & Htl & Hn).
      eapply runs_bind.
      { eapply runs_peek_bool. apply (peek_tl_ok s4 _ tg n tail' H4 Hn). cbn. exact Htl. }
      intros s5 H5. cbn [t_tag].
      assert (Hne : N.eqb tg TAG_UTC = false) by (apply N.eqb_neq; exact Htg). rewrite Hne.
      eapply runs_bind; [apply runs_ret; exact H5|]. intros s6 H6.
      eapply runs_bind; [apply (emit_ok s6 _ _ H6); cbn; exact Hf|]. intros s7 H7.
      apply runs_ret. rewrite H7. solve_adv. symmetry; exact Hf. }
  destruct Hrun as (sf & Ef & Hcf). exists sf. split; [exact Ef|exact Hcf].
Qed.


(* ---- revokedCertificates *)
Lemma tlv_hdr_ok tag x : hdr_ok (Z.of_nat (length x)) -> hdr_ok (Z.of_nat (length x)) /\ length (tlv tag x) = 1 + length (enc_len (Z.of_nat (length x))) + length x.
Proof. intros H. split; [exact H|apply tlv_length]. Qed.

Lemma list_ok fuel s c tail tbs_end :
  core_of s = c -> c_fail c = None ->
  c_rest c = enc_list d ++ enc_exts d ++ tail ->
  tbs_end = (c_nread c + Z.of_nat (length (enc_list d ++ enc_exts d)))%Z ->
  hdr_ok (Z.of_nat (length (concat (map (tlv TAG_SEQ) (entries_of d))))) ->
  length (entries_of d) < fuel ->
  runs (read_list_opt L fuel tbs_end) s tt
       (adv_ev c (enc_list d) (enc_exts d ++ tail) (map (fun x => EvInsert (tlv TAG_SEQ x)) (entries_of d))).
Proof.
  intros Hc Hf Hr He Hh Hfu. destruct WF as [_ _ _ _ _ Hent Hv2 Hex _ _ _ _].
  unfold read_list_opt, enc_list, entries_of, enc_exts in *.
  eapply runs_bind; [apply bytes_read_ok; exact Hc|]. intros s1 H1.
  destruct (d_list d) as [l|] eqn:El.
  - (* list present *)
    set (body := concat (map (tlv TAG_SEQ) l)) in *.
    assert (Hlt : (c_nread c <? tbs_end)%Z = true).
    { apply Z.ltb_lt. rewrite He, app_length, tlv_length. lia. }
    rewrite Hlt.
    eapply runs_bind.
    { eapply runs_peek_bool. apply (peek_tl_ok s1 c TAG_SEQ (Z.of_nat (length body)) (body ++ opt_bytes (option_map (fun x => tlv TAG_CTX0 (tlv TAG_SEQ x)) (d_exts d)) ++ tail) H1 Hh).
      rewrite Hr. unfold tlv. simpl. rewrite <- !app_assoc. destruct (d_exts d); reflexivity. }
    intros s2 H2. cbn [t_tag]. rewrite N.eqb_refl.
    unfold parse_revoked_list.
    eapply runs_bind.
    { apply (read_tl_ok s2 c TAG_SEQ (Z.of_nat (length body)) (body ++ match d_exts d with Some x => tlv TAG_CTX0 (tlv TAG_SEQ x) | None => [] end ++ tail) H2 Hh).
      rewrite Hr. unfold tlv. simpl. rewrite <- !app_assoc. reflexivity. }
    intros s3 H3. cbn [t_tag t_len].
    eapply runs_bind; [apply expect_tag_ok; exact H3|]. intros s4 H4.
    assert (Hi : is_int64 (Z.of_nat (length body)) = true).
    { unfold is_int64, hdr_ok, two63 in *. apply andb_true_intro. split; [apply Z.leb_le; lia|apply Z.ltb_lt; lia]. }
    rewrite Hi.
    eapply runs_bind; [apply runs_ret; exact H4|]. intros s5 H5.
    eapply runs_bind; [apply bytes_read_ok; exact H5|]. intros s6 H6.
    set (tailX := match d_exts d with Some x => tlv TAG_CTX0 (tlv TAG_SEQ x) | None => [] end ++ tail) in *.
    set (c6 := adv c (TAG_SEQ :: enc_len (Z.of_nat (length body))) (body ++ tailX)) in *.
    match goal with |- runs ?m ?s0 ?v ?cc =>
      replace cc with (adv_ev c6 body tailX (map (fun x => EvInsert (tlv TAG_SEQ x)) l))
        by (unfold c6, tailX, tlv; solve_adv) end.
    apply (entry_loop_ok l fuel s6 c6 tailX _ H6); try assumption; try reflexivity.
  - (* list absent *)
    cbn [app] in *. destruct (d_exts d) as [x|] eqn:Ex.
    + destruct (Hex x eq_refl) as (Hfx & _).
      assert (Hlt : (c_nread c <? tbs_end)%Z = true).
      { apply Z.ltb_lt. rewrite He, tlv_length. lia. }
      rewrite Hlt.
      eapply runs_bind.
      { eapply runs_peek_bool.
        apply (peek_tl_ok s1 c TAG_CTX0 (Z.of_nat (length (tlv TAG_SEQ x))) (tlv TAG_SEQ x ++ tail) H1).
        - pose proof (fits_hdr _ Hfx) as Hx. pose proof (enc_len_length _ Hx). unfold hdr_ok, fits, two63 in *.
          change GenFacts.struct_limit with 81920%Z in Hfx. rewrite tlv_length. lia.
        - rewrite Hr. unfold tlv at 1. simpl. rewrite <- app_assoc. reflexivity. }
      intros s2 H2. cbn [t_tag]. change (N.eqb TAG_CTX0 TAG_SEQ) with false.
      apply runs_ret. rewrite H2. cbn [map]. clear - Hr.
      unfold adv_ev. destruct c as [cr ch chd cn ce cv cf]; cbn in *. rewrite Hr. f_equal; try (destruct ch; rewrite app_nil_r; reflexivity); try lia; try (rewrite app_nil_r; reflexivity).
    + assert (Hlt : (c_nread c <? tbs_end)%Z = false).
      { apply Z.ltb_ge. rewrite He. simpl. lia. }
      rewrite Hlt.
      eapply runs_bind; [apply runs_ret; exact H1|]. intros s2 H2.
      apply runs_ret. rewrite H2. cbn [map]. clear - Hr.
      unfold adv_ev. destruct c as [cr ch chd cn ce cv cf]; cbn in *. rewrite Hr. f_equal; try (destruct ch; rewrite app_nil_r; reflexivity); try lia; try (rewrite app_nil_r; reflexivity).
Qed.

(* ---- crlExtensions *)
Lemma exts_ok s c tail tbs_end :
  core_of s = c -> c_rest c = enc_exts d ++ tail ->
  tbs_end = (c_nread c + Z.of_nat (length (enc_exts d)))%Z ->
  runs (read_exts_opt L tbs_end (if d_v2 d then 2 else 1)%Z) s (option_map (tlv TAG_SEQ) (d_exts d))
       (adv c (enc_exts d) tail).
Proof.
  intros Hc Hr He. destruct WF as [_ _ _ _ _ _ Hv2 Hex _ _ _ _].
  unfold read_exts_opt, enc_exts in *.
  eapply runs_bind; [apply bytes_read_ok; exact Hc|]. intros s1 H1.
  destruct (d_exts d) as [x|] eqn:Ex.
  - destruct (Hex x eq_refl) as (Hfx & Hlx).
    rewrite (Hv2 ltac:(discriminate)).
    assert (Hhx : hdr_ok (Z.of_nat (length (tlv TAG_SEQ x)))).
    { pose proof (fits_hdr _ Hfx) as Hx. pose proof (enc_len_length _ Hx). unfold hdr_ok, fits, two63 in *.
      change GenFacts.struct_limit with 81920%Z in Hfx. rewrite tlv_length. lia. }
    assert (Hlt : (c_nread c <? tbs_end)%Z = true).
    { apply Z.ltb_lt. rewrite He, tlv_length. lia. }
    rewrite Hlt.
    eapply runs_bind.
    { eapply runs_peek_bool. apply (peek_tl_ok s1 c TAG_CTX0 (Z.of_nat (length (tlv TAG_SEQ x))) (tlv TAG_SEQ x ++ tail) H1 Hhx).
      rewrite Hr. unfold tlv at 1. simpl. rewrite <- app_assoc. reflexivity. }
    intros s2 H2. cbn [t_tag]. rewrite N.eqb_refl. change (1 <? 2)%Z with true. cbn [andb].
    eapply runs_bind.
    { eapply runs_ignore. apply (read_tl_ok s2 c TAG_CTX0 (Z.of_nat (length (tlv TAG_SEQ x))) (tlv TAG_SEQ x ++ tail) H2 Hhx).
      rewrite Hr. unfold tlv at 1. simpl. rewrite <- app_assoc. reflexivity. }
    intros s3 H3.
    eapply runs_bind; [apply (read_struct_ok L KExts s3 _ x tail H3 Hfx Hlx); reflexivity|]. intros s4 H4.
    apply runs_ret. rewrite H4. cbn [option_map]. rewrite adv_adv. reflexivity.
  - assert (Hlt : (c_nread c <? tbs_end)%Z = false).
    { apply Z.ltb_ge. rewrite He. simpl. lia. }
    rewrite Hlt.
    eapply runs_bind; [apply runs_ret; exact H1|]. intros s2 H2.
    apply runs_ret. rewrite H2. cbn [option_map]. clear - Hr.
    unfold adv. destruct c as [cr ch chd cn ce cv cf]; cbn in *. rewrite Hr. f_equal; try (destruct ch; rewrite app_nil_r; reflexivity); try lia.
Qed.

(* ---- UpdateExtendedMetaInfo, critical gate *)
Lemma meta_ok s c :
  core_of s = c -> c_fail c = None ->
  outcome (finish_meta L (option_map (tlv TAG_SEQ) (d_exts d))) s
          (if crit_of L d then Err e_critical else Ok tt)
       {| c_rest := c_rest c; c_hashing := c_hashing c; c_hashed := c_hashed c; c_nread := c_nread c;
          c_evs := c_evs c ++ [EvExtMeta number]; c_nev := S (c_nev c); c_fail := None |}.
Proof.
  intros Hc Hf. destruct WF as [_ _ _ _ _ _ _ Hex Hnum _ _ _]. unfold finish_meta, crit_of.
  destruct (d_exts d) as [x|] eqn:Ex; cbn [option_map].
  - eapply outcome_bind; [exists s; split; [apply (Hnum s)|exact Hc]|]. intros s1 H1.
    eapply outcome_bind; [apply (emit_ok s1 c _ H1 Hf)|]. intros s2 H2.
    destruct (critical_unhandled _); exists s2; split; try reflexivity; exact H2.
  - pose proof (Hnum s) as Hn. cbn in Hn. subst number.
    eapply outcome_bind; [apply runs_ret; exact Hc|]. intros s1 H1.
    eapply outcome_bind; [apply (emit_ok s1 c _ H1 Hf)|]. intros s2 H2.
    apply runs_ret. exact H2.
Qed.

(* ---- outer algorithm and signature *)
Lemma tail_ok s c tail :
  core_of s = c -> c_rest c = tail_content d ++ tail ->
  runs (read_tail L) s (d_sig d, (Z.of_nat (length (d_sig d)) * 8)%Z) (adv c (tail_content d) tail).
Proof.
  intros Hc Hr. destruct WF as [_ [Hao Haol] _ _ _ _ _ _ _ Hsig _ _]. unfold read_tail, tail_content in *.
  rewrite <- app_assoc in Hr.
  eapply runs_bind; [eapply runs_ignore; apply (read_struct_ok L KAlgId s c (d_outer_alg d) _ Hc Hao Haol Hr)|].
  intros s1 H1.
  destruct (parse_bits_ok s1 _ (d_sig d) tail H1 Hsig eq_refl) as (s2 & E2 & H2).
  exists s2. split; [exact E2|]. rewrite H2. solve_adv.
Qed.

(* ---------------------------------------------------------------- the whole reader *)
Lemma start_hash_ok s c : core_of s = c ->
  runs start_hash s tt {| c_rest := c_rest c; c_hashing := true; c_hashed := []; c_nread := c_nread c;
                          c_evs := c_evs c; c_nev := c_nev c; c_fail := c_fail c |}.
Proof. intros H. subst c. eexists. split; reflexivity. Qed.

Lemma finish_hash_ok s c : core_of s = c ->
  runs finish_hash s (c_hashed c) {| c_rest := c_rest c; c_hashing := false; c_hashed := c_hashed c; c_nread := c_nread c;
                                     c_evs := c_evs c; c_nev := c_nev c; c_fail := c_fail c |}.
Proof. intros H. subst c. eexists. split; reflexivity. Qed.

Lemma tbs_split : tbs_content d = hdr_bytes d ++ enc_list d ++ enc_exts d.
Proof. unfold tbs_content, hdr_bytes. rewrite <- !app_assoc. reflexivity. Qed.

Lemma entries_len (l : list bytes) : length l <= length (concat (map (tlv TAG_SEQ) l)).
Proof. induction l as [|x l IH]; cbn [map concat length]; [lia|]. rewrite app_length, tlv_length. lia. Qed.

Lemma sizes :
  hdr_ok (Z.of_nat (length (encode_tbs d ++ tail_content d))) /\
  hdr_ok (Z.of_nat (length (tbs_content d))) /\
  hdr_ok (Z.of_nat (length (concat (map (tlv TAG_SEQ) (entries_of d))))) /\
  length (entries_of d) <= length (encode_crl d).
Proof.
  destruct WF as [_ _ _ _ _ _ _ _ _ _ _ Hsz].
  assert (A : length (encode_tbs d ++ tail_content d) <= length (encode_crl d)) by (unfold encode_crl; rewrite tlv_length; lia).
  assert (B : length (tbs_content d) <= length (encode_tbs d ++ tail_content d)) by (rewrite app_length; unfold encode_tbs; rewrite tlv_length; lia).
  assert (C : length (concat (map (tlv TAG_SEQ) (entries_of d))) <= length (tbs_content d)).
  { rewrite tbs_split, !app_length. unfold enc_list, entries_of. destruct (d_list d); [rewrite tlv_length; lia|simpl; lia]. }
  pose proof (entries_len (entries_of d)) as D.
  unfold hdr_ok. repeat split; lia.
Qed.

Lemma peekable_after_header :
  exists tg, peekable (enc_list d ++ enc_exts d ++ tail_content d) tg /\ tg <> TAG_UTC.
Proof.
  destruct sizes as (_ & _ & Hb & _). destruct WF as [_ [Hao _] _ _ _ _ _ Hex _ _ _ _].
  unfold enc_list, enc_exts, entries_of in *. destruct (d_list d) as [l|].
  - exists TAG_SEQ. split; [apply peekable_tlv; exact Hb|discriminate].
  - destruct (d_exts d) as [x|] eqn:Ex.
    + exists TAG_CTX0. split; [|discriminate]. cbn [app]. apply peekable_tlv.
      destruct (Hex x eq_refl) as (Hfx & _). pose proof (fits_hdr _ Hfx) as Hx. pose proof (enc_len_length _ Hx).
      unfold hdr_ok, fits, two63 in *. change GenFacts.struct_limit with 81920%Z in Hfx. rewrite tlv_length. lia.
    + exists TAG_SEQ. split; [|discriminate]. cbn [app]. unfold tail_content.
      apply peekable_tlv. apply fits_hdr. exact Hao.
Qed.

Lemma find_alg_ok s :
  c_rest (core_of s) = encode_crl d ->
  exists s', find_alg L s = (Ok (tlv TAG_SEQ (d_outer_alg d)), s').
Proof.
  intros Hr. destruct sizes as (H0 & HT & _ & _). destruct WF as [_ [Hao Haol] _ _ _ _ _ _ _ _ _ _].
  assert (R : runs (find_alg L) s (tlv TAG_SEQ (d_outer_alg d))
                   (adv {| c_rest := tail_content d; c_hashing := c_hashing (core_of s); c_hashed := c_hashed (adv (core_of s) (TAG_SEQ :: enc_len (Z.of_nat (length (encode_tbs d ++ tail_content d)))) (encode_tbs d ++ tail_content d));
                           c_nread := c_nread (adv (core_of s) (TAG_SEQ :: enc_len (Z.of_nat (length (encode_tbs d ++ tail_content d)))) (encode_tbs d ++ tail_content d));
                           c_evs := c_evs (core_of s); c_nev := c_nev (core_of s); c_fail := c_fail (core_of s) |}
                        (tlv TAG_SEQ (d_outer_alg d)) (tlv TAG_BITS (0%N :: d_sig d)))).
  { unfold find_alg.
    eapply runs_bind; [apply (read_tl_ok s _ TAG_SEQ _ (encode_tbs d ++ tail_content d) eq_refl H0); exact Hr|]. intros s1 H1.
    cbn [t_tag]. eapply runs_bind; [apply expect_tag_ok; exact H1|]. intros s2 H2.
    eapply runs_bind.
    { apply (peek_tl_ok s2 _ TAG_SEQ (Z.of_nat (length (tbs_content d))) (tbs_content d ++ tail_content d) H2 HT).
      cbn. unfold encode_tbs, tlv. simpl. rewrite <- app_assoc. reflexivity. }
    intros s3 H3. cbn [t_len t_lsize].
    assert (E : to_int64 (1 + Z.of_nat (length (enc_len (Z.of_nat (length (tbs_content d))))) + Z.of_nat (length (tbs_content d))) = Z.of_nat (length (encode_tbs d))).
    { assert (Hlen : length (encode_tbs d) = 1 + length (enc_len (Z.of_nat (length (tbs_content d)))) + length (tbs_content d))
        by (unfold encode_tbs; apply tlv_length).
      assert (Hle : length (encode_tbs d) <= length (encode_tbs d ++ tail_content d)) by (rewrite app_length; lia).
      rewrite to_int64_id; [lia|]. unfold hdr_ok, two63 in *. lia. }
    rewrite E.
    eapply runs_bind; [apply (discard_ok s3 _ (encode_tbs d) (tail_content d) H3); reflexivity|]. intros s4 H4.
    apply (read_struct_ok L KAlgId s4 _ (d_outer_alg d) (tlv TAG_BITS (0%N :: d_sig d)) H4 Hao Haol). reflexivity. }
  destruct R as (s' & E & _). exists s'. exact E.
Qed.

Lemma read_main_ok fuel s :
  core_of s = {| c_rest := encode_crl d; c_hashing := false; c_hashed := []; c_nread := 0;
                 c_evs := []; c_nev := 0; c_fail := None |} ->
  length (entries_of d) < fuel ->
  exists s', read_main L fuel (tlv TAG_SEQ (d_outer_alg d)) s =
               (if crit_of L d then Err e_critical else Ok (result_of d hash verifier), s') /\
             frev (evs_rev s') = events_of number d.
Proof.
  intros Hc Hfu. destruct sizes as (H0 & HT & Hb & _).
  pose proof WF as WF'. destruct WF' as [_ _ _ _ _ _ _ _ _ _ Hstrat _].
  destruct peekable_after_header as (tg & Hpk & Htg).
  set (N0 := Z.of_nat (length (encode_tbs d ++ tail_content d))) in *.
  set (T := Z.of_nat (length (tbs_content d))) in *.
  set (c0 := {| c_rest := encode_crl d; c_hashing := false; c_hashed := []; c_nread := 0;
                c_evs := []; c_nev := 0; c_fail := None |}) in *.
  set (p0 := Z.of_nat (length (TAG_SEQ :: enc_len N0))).
  (* state after start_hash *)
  set (c1 := {| c_rest := encode_tbs d ++ tail_content d; c_hashing := true; c_hashed := []; c_nread := p0;
                c_evs := []; c_nev := 0; c_fail := None |}).
  set (c2 := adv c1 (TAG_SEQ :: enc_len T) (tbs_content d ++ tail_content d)).
  set (ev1 := [EvStart (tlv TAG_SEQ (d_issuer d)) (d_this d) (d_next d)]).
  set (c3 := adv_ev c2 (hdr_bytes d) (enc_list d ++ enc_exts d ++ tail_content d) ev1).
  set (ev2 := map (fun x => EvInsert (tlv TAG_SEQ x)) (entries_of d)).
  set (c4 := adv_ev c3 (enc_list d) (enc_exts d ++ tail_content d) ev2).
  set (c5 := adv c4 (enc_exts d) (tail_content d)).
  assert (Hhash5 : c_hashed c5 = encode_tbs d).
  { unfold c5, c4, c3, c2, c1, adv, adv_ev. cbn [c_hashed c_hashing]. unfold encode_tbs, tlv. fold T. rewrite tbs_split.
    cbn [app]. rewrite <- !app_assoc. reflexivity. }
  assert (Hevs5 : c_evs c5 = ev1 ++ ev2) by reflexivity.
  set (cm := {| c_rest := c_rest c5; c_hashing := c_hashing c5; c_hashed := c_hashed c5; c_nread := c_nread c5;
                c_evs := c_evs c5 ++ [EvExtMeta number]; c_nev := S (c_nev c5); c_fail := None |}).
  set (cfin := adv {| c_rest := c_rest cm; c_hashing := false; c_hashed := c_hashed cm; c_nread := c_nread cm;
                      c_evs := c_evs cm; c_nev := c_nev cm; c_fail := c_fail cm |} (tail_content d) []).
  assert (R : exists cf, outcome (read_main L fuel (tlv TAG_SEQ (d_outer_alg d))) s
                                 (if crit_of L d then Err e_critical else Ok (result_of d hash verifier)) cf /\
                         c_evs cf = (ev1 ++ ev2) ++ [EvExtMeta number]).
  { exists (if crit_of L d then cm else cfin). split.
    - unfold read_main.
      eapply outcome_bind; [apply (read_tl_ok s c0 TAG_SEQ N0 (encode_tbs d ++ tail_content d) Hc H0); reflexivity|]. intros s1 H1.
      cbn [t_tag]. eapply outcome_bind; [apply expect_tag_ok; exact H1|]. intros s2 H2.
      eapply outcome_bind; [exists s2; split; [apply Hstrat|exact H2]|]. intros s3 H3.
      eapply outcome_bind; [apply start_hash_ok; exact H3|]. intros s4 H4.
      assert (H4' : core_of s4 = c1) by (rewrite H4; reflexivity).
      eapply outcome_bind.
      { apply (read_tl_ok s4 c1 TAG_SEQ T (tbs_content d ++ tail_content d) H4' HT).
        cbn. unfold encode_tbs, tlv. simpl. rewrite <- app_assoc. reflexivity. }
      intros s5 H5. cbn [t_tag t_len].
      eapply outcome_bind; [apply expect_tag_ok; exact H5|]. intros s6 H6.
      assert (Hi : is_int64 T = true).
      { unfold is_int64, hdr_ok, two63 in *. apply andb_true_intro. split; [apply Z.leb_le; lia|apply Z.ltb_lt; lia]. }
      rewrite Hi. eapply outcome_bind; [apply runs_ret; exact H6|]. intros s7 H7.
      eapply outcome_bind; [apply bytes_read_ok; exact H7|]. intros s8 H8.
      fold c2 in H8.
      eapply outcome_bind.
      { apply (header_ok s8 c2 (enc_list d ++ enc_exts d ++ tail_content d) tg H8); [reflexivity| |exact Hpk|exact Htg].
        cbn. rewrite tbs_split, <- !app_assoc. reflexivity. }
      intros s9 H9. fold ev1 c3 in H9. cbn [fst snd].
      eapply outcome_bind.
      { apply (list_ok fuel s9 c3 (tail_content d) _ H9); [reflexivity|reflexivity| |exact Hb|exact Hfu].
        unfold c3, c2, adv_ev, adv. cbn [c_nread]. unfold T. rewrite tbs_split, !app_length. lia. }
      intros s10 H10. fold ev2 c4 in H10.
      eapply outcome_bind.
      { apply (exts_ok s10 c4 (tail_content d) _ H10); [reflexivity|].
        unfold c4, c3, c2, adv_ev, adv. cbn [c_nread]. unfold T. rewrite tbs_split, !app_length. lia. }
      intros s11 H11. fold c5 in H11.
      pose proof (meta_ok s11 c5 H11 eq_refl) as HM. fold cm in HM.
      destruct (crit_of L d).
      { apply outcome_bind_err. exact HM. }
      eapply outcome_bind; [exact HM|]. intros s12 H12.
      eapply outcome_bind; [apply finish_hash_ok; exact H12|]. intros s13 H13. cbn [c_hashed].
      eapply outcome_bind.
      { apply (tail_ok s13 _ [] H13). cbn. rewrite app_nil_r. reflexivity. }
      intros s14 H14. cbn [fst snd].
      change (c_hashed cm) with (c_hashed c5). rewrite Hhash5. apply runs_ret. exact H14.
    - destruct (crit_of L d); unfold cfin, cm, adv; cbn [c_evs]; rewrite Hevs5; reflexivity. }
  destruct R as (cf & (s' & E & Hcf) & Hev). exists s'. split; [exact E|].
  assert (frev (evs_rev s') = c_evs cf) by (rewrite <- Hcf; reflexivity).
  rewrite H, Hev. unfold ev1, ev2, events_of. cbn [app]. reflexivity.
Qed.

(* ReadCRL on the encoding of a document of the profile, for every pair of chunk schedules *)
Theorem read_stream_encode s1 s2 :
  exists al, read_stream L (encode_crl d) s1 s2 None =
             (events_of number d, (if crit_of L d then Err e_critical else Ok (result_of d hash verifier)), al).
Proof.
  unfold read_stream.
  destruct (find_alg_ok {| rdr := mk_rd (encode_crl d) s1; evs_rev := []; nev := 0; fail_at := None |}) as (s1' & E1); [reflexivity|].
  rewrite E1.
  destruct sizes as (_ & _ & _ & Hl).
  destruct (read_main_ok (S (length (encode_crl d))) {| rdr := mk_rd (encode_crl d) s2; evs_rev := []; nev := 0; fail_at := None |})
    as (s2' & E2 & Hev); [reflexivity|lia|].
  rewrite E2. rewrite Hev. eexists. reflexivity.
Qed.

End WithLib.

(* ---------------------------------------------------------------- a concrete instance *)
Definition ex_lib : lib :=
  {| lib_ok := fun _ _ => true;
     lib_exts := fun _ => [("2.5.29.20"%string, false, [2; 1; 7]%N)];
     lib_alg_oid := fun _ => "1.2.840.10045.4.3.2"%string |}.
Definition ex_doc : crl_doc :=
  {| d_v2 := true; d_inner_alg := [6; 1; 42]%N; d_issuer := [49; 0]%N; d_this := [50; 52]%N;
     d_next := Some [50; 53]%N; d_list := Some [[2; 1; 5; 23; 1; 48]%N; [2; 1; 6; 23; 1; 49]%N];
     d_exts := Some [48; 3; 1; 2; 3]%N; d_outer_alg := [6; 1; 42]%N; d_sig := [1; 2; 3]%N |}.

Lemma C06_example : exists L d number hash verifier,
  wf_profile L d number hash verifier /\ length (entries_of d) = 2 /\ d_exts d <> None /\ crit_of L d = false.
Proof.
  exists ex_lib, ex_doc, (Some 7%Z), "SHA256"%string, "ECDSASignatureVerifyStrategy"%string.
  split; [|repeat split; try discriminate; reflexivity].
  constructor; try (split; [unfold fits; vm_compute; discriminate|reflexivity]).
  - intros t [= <-]. split; [unfold fits; vm_compute; discriminate|reflexivity].
  - repeat constructor; unfold fits; vm_compute; discriminate.
  - reflexivity.
  - intros x [= <-]. split; [unfold fits; vm_compute; discriminate|reflexivity].
  - intros s0. reflexivity.
  - unfold fits. vm_compute. discriminate.
  - intros s0. reflexivity.
  - vm_compute. reflexivity.
Qed.
