(* Config.v — configuration: the JSON form, the Caddyfile adapter (caddyfile.go) and the
   parsing with defaults (configparser.go).  The Caddyfile handler table and the way the
   entry parsers receive their struct (pointer or value) are regenerated from the source. *)
From Verif Require Import Base Validator.
From Verif.gen Require GenFacts.
Open Scope string_scope.

(* the raw (unparsed) option values, as both adapters fill them *)
Record raw := {
  w_mode : option string; w_storage : option string; w_interval : option string; w_sigmode : option string;
  w_fetch : option string; w_cdp_strict : option bool; w_cache : option string; w_aia_strict : option bool;
  w_work_dir : option string; w_crl_urls : list string; w_crl_files : list string;
  w_trusted_sig : list string; w_trusted_resp : list string }.

Definition raw_empty : raw :=
  {| w_mode := None; w_storage := None; w_interval := None; w_sigmode := None; w_fetch := None; w_cdp_strict := None;
     w_cache := None; w_aia_strict := None; w_work_dir := None; w_crl_urls := []; w_crl_files := []; w_trusted_sig := []; w_trusted_resp := [] |}.

(* one option occurrence *)
Inductive occ :=
| OMode (v : string) | OStorage (v : string) | OInterval (v : string) | OSigMode (v : string) | OFetch (v : string)
| OCdpStrict (b : bool) | OCache (v : string) | OAiaStrict (b : bool) | OWorkDir (v : string)
| OCrlUrl (v : string) | OCrlFile (v : string) | OTrustedSig (v : string) | OTrustedResp (v : string).

(* JSON: every documented key sets its field (lists: every element in order) *)
Definition json_set (r : raw) (o : occ) : raw :=
  match o with
  | OMode v => {| w_mode := Some v; w_storage := w_storage r; w_interval := w_interval r; w_sigmode := w_sigmode r; w_fetch := w_fetch r; w_cdp_strict := w_cdp_strict r; w_cache := w_cache r; w_aia_strict := w_aia_strict r; w_work_dir := w_work_dir r; w_crl_urls := w_crl_urls r; w_crl_files := w_crl_files r; w_trusted_sig := w_trusted_sig r; w_trusted_resp := w_trusted_resp r |}
  | OStorage v => {| w_mode := w_mode r; w_storage := Some v; w_interval := w_interval r; w_sigmode := w_sigmode r; w_fetch := w_fetch r; w_cdp_strict := w_cdp_strict r; w_cache := w_cache r; w_aia_strict := w_aia_strict r; w_work_dir := w_work_dir r; w_crl_urls := w_crl_urls r; w_crl_files := w_crl_files r; w_trusted_sig := w_trusted_sig r; w_trusted_resp := w_trusted_resp r |}
  | OInterval v => {| w_mode := w_mode r; w_storage := w_storage r; w_interval := Some v; w_sigmode := w_sigmode r; w_fetch := w_fetch r; w_cdp_strict := w_cdp_strict r; w_cache := w_cache r; w_aia_strict := w_aia_strict r; w_work_dir := w_work_dir r; w_crl_urls := w_crl_urls r; w_crl_files := w_crl_files r; w_trusted_sig := w_trusted_sig r; w_trusted_resp := w_trusted_resp r |}
  | OSigMode v => {| w_mode := w_mode r; w_storage := w_storage r; w_interval := w_interval r; w_sigmode := Some v; w_fetch := w_fetch r; w_cdp_strict := w_cdp_strict r; w_cache := w_cache r; w_aia_strict := w_aia_strict r; w_work_dir := w_work_dir r; w_crl_urls := w_crl_urls r; w_crl_files := w_crl_files r; w_trusted_sig := w_trusted_sig r; w_trusted_resp := w_trusted_resp r |}
  | OFetch v => {| w_mode := w_mode r; w_storage := w_storage r; w_interval := w_interval r; w_sigmode := w_sigmode r; w_fetch := Some v; w_cdp_strict := w_cdp_strict r; w_cache := w_cache r; w_aia_strict := w_aia_strict r; w_work_dir := w_work_dir r; w_crl_urls := w_crl_urls r; w_crl_files := w_crl_files r; w_trusted_sig := w_trusted_sig r; w_trusted_resp := w_trusted_resp r |}
  | OCdpStrict b => {| w_mode := w_mode r; w_storage := w_storage r; w_interval := w_interval r; w_sigmode := w_sigmode r; w_fetch := w_fetch r; w_cdp_strict := Some b; w_cache := w_cache r; w_aia_strict := w_aia_strict r; w_work_dir := w_work_dir r; w_crl_urls := w_crl_urls r; w_crl_files := w_crl_files r; w_trusted_sig := w_trusted_sig r; w_trusted_resp := w_trusted_resp r |}
  | OCache v => {| w_mode := w_mode r; w_storage := w_storage r; w_interval := w_interval r; w_sigmode := w_sigmode r; w_fetch := w_fetch r; w_cdp_strict := w_cdp_strict r; w_cache := Some v; w_aia_strict := w_aia_strict r; w_work_dir := w_work_dir r; w_crl_urls := w_crl_urls r; w_crl_files := w_crl_files r; w_trusted_sig := w_trusted_sig r; w_trusted_resp := w_trusted_resp r |}
  | OAiaStrict b => {| w_mode := w_mode r; w_storage := w_storage r; w_interval := w_interval r; w_sigmode := w_sigmode r; w_fetch := w_fetch r; w_cdp_strict := w_cdp_strict r; w_cache := w_cache r; w_aia_strict := Some b; w_work_dir := w_work_dir r; w_crl_urls := w_crl_urls r; w_crl_files := w_crl_files r; w_trusted_sig := w_trusted_sig r; w_trusted_resp := w_trusted_resp r |}
  | OWorkDir v => {| w_mode := w_mode r; w_storage := w_storage r; w_interval := w_interval r; w_sigmode := w_sigmode r; w_fetch := w_fetch r; w_cdp_strict := w_cdp_strict r; w_cache := w_cache r; w_aia_strict := w_aia_strict r; w_work_dir := Some v; w_crl_urls := w_crl_urls r; w_crl_files := w_crl_files r; w_trusted_sig := w_trusted_sig r; w_trusted_resp := w_trusted_resp r |}
  | OCrlUrl v => {| w_mode := w_mode r; w_storage := w_storage r; w_interval := w_interval r; w_sigmode := w_sigmode r; w_fetch := w_fetch r; w_cdp_strict := w_cdp_strict r; w_cache := w_cache r; w_aia_strict := w_aia_strict r; w_work_dir := w_work_dir r; w_crl_urls := w_crl_urls r ++ [v]; w_crl_files := w_crl_files r; w_trusted_sig := w_trusted_sig r; w_trusted_resp := w_trusted_resp r |}
  | OCrlFile v => {| w_mode := w_mode r; w_storage := w_storage r; w_interval := w_interval r; w_sigmode := w_sigmode r; w_fetch := w_fetch r; w_cdp_strict := w_cdp_strict r; w_cache := w_cache r; w_aia_strict := w_aia_strict r; w_work_dir := w_work_dir r; w_crl_urls := w_crl_urls r; w_crl_files := w_crl_files r ++ [v]; w_trusted_sig := w_trusted_sig r; w_trusted_resp := w_trusted_resp r |}
  | OTrustedSig v => {| w_mode := w_mode r; w_storage := w_storage r; w_interval := w_interval r; w_sigmode := w_sigmode r; w_fetch := w_fetch r; w_cdp_strict := w_cdp_strict r; w_cache := w_cache r; w_aia_strict := w_aia_strict r; w_work_dir := w_work_dir r; w_crl_urls := w_crl_urls r; w_crl_files := w_crl_files r; w_trusted_sig := w_trusted_sig r ++ [v]; w_trusted_resp := w_trusted_resp r |}
  | OTrustedResp v => {| w_mode := w_mode r; w_storage := w_storage r; w_interval := w_interval r; w_sigmode := w_sigmode r; w_fetch := w_fetch r; w_cdp_strict := w_cdp_strict r; w_cache := w_cache r; w_aia_strict := w_aia_strict r; w_work_dir := w_work_dir r; w_crl_urls := w_crl_urls r; w_crl_files := w_crl_files r; w_trusted_sig := w_trusted_sig r; w_trusted_resp := w_trusted_resp r ++ [v] |}
  end.

(* the Caddyfile key of an occurrence and the block it lives in *)
Definition cf_key (o : occ) : string * string :=  (* (block, subdirective) *)
  match o with
  | OMode _ => ("top", "mode") | OStorage _ => ("crl", "storage_type") | OInterval _ => ("crl", "update_interval")
  | OSigMode _ => ("crl", "signature_validation_mode") | OFetch _ => ("cdp", "crl_fetch_mode")
  | OCdpStrict _ => ("cdp", "crl_cdp_strict") | OCache _ => ("ocsp", "default_cache_duration")
  | OAiaStrict _ => ("ocsp", "ocsp_aia_strict") | OWorkDir _ => ("crl", "work_dir") | OCrlUrl _ => ("crl", "crl_url")
  | OCrlFile _ => ("crl", "crl_file") | OTrustedSig _ => ("crl", "trusted_signature_cert_file")
  | OTrustedResp _ => ("ocsp", "trusted_responder_cert_file")
  end.

(* what the handler of a subdirective does with its argument, from the source:
   "val" assign d.Val(), "append" append d.Val(), "parsebool" assign ParseBool(d.Val()), "const" assign a constant *)
Definition handler_kind (o : occ) : option string :=
  let '(blk, k) := cf_key o in
  match assoc blk GenFacts.caddyfile_handlers with
  | Some tbl => option_map snd (assoc k tbl)
  | None => None
  end.
Definition handler_field (o : occ) : option string :=
  let '(blk, k) := cf_key o in
  match assoc blk GenFacts.caddyfile_handlers with
  | Some tbl => option_map fst (assoc k tbl)
  | None => None
  end.

Definition expected_kind (o : occ) : string :=
  match o with
  | OCdpStrict _ | OAiaStrict _ => "parsebool"
  | OCrlUrl _ | OCrlFile _ | OTrustedSig _ | OTrustedResp _ => "append"
  | _ => "val"
  end.
Definition expected_field (o : occ) : string :=
  match o with
  | OMode _ => "Mode" | OStorage _ => "StorageType" | OInterval _ => "UpdateInterval" | OSigMode _ => "SignatureValidationMode"
  | OFetch _ => "CRLFetchMode" | OCdpStrict _ => "CRLCDPStrict" | OCache _ => "DefaultCacheDuration" | OAiaStrict _ => "OCSPAIAStrict"
  | OWorkDir _ => "WorkDir" | OCrlUrl _ => "CRLUrls" | OCrlFile _ => "CRLFiles" | OTrustedSig _ => "TrustedSignatureCertsFiles"
  | OTrustedResp _ => "TrustedResponderCertsFiles"
  end.

(* the blocks whose entry parser receives its struct by value lose every assignment *)
Definition by_pointer (blk : string) : bool :=
  match assoc blk GenFacts.caddyfile_by_pointer with Some b => b | None => true end.
(* an option survives if every entry parser on its path assigns through a pointer *)
Definition block_kept (blk : string) : bool :=
  if String.eqb blk "top" then by_pointer "top"
  else if String.eqb blk "ocsp" then by_pointer "top"
  else by_pointer "top" && by_pointer "crl".

(* the Caddyfile adapter on one occurrence: None = rejected / not understood *)
Definition cf_set (r : raw) (o : occ) : option raw :=
  match handler_kind o, handler_field o with
  | Some k, Some f =>
    if negb (String.eqb f (expected_field o)) then None
    else if negb (block_kept (fst (cf_key o))) then Some r   (* assignment made to a copy *)
    else if String.eqb k (expected_kind o) then Some (json_set r o)
    else if String.eqb k "const" then Some r
    else None
  | _, _ => None
  end.

Fixpoint cf_all (r : raw) (os : list occ) : option raw :=
  match os with [] => Some r | o :: t => match cf_set r o with Some r' => cf_all r' t | None => None end end.
Definition json_all (r : raw) (os : list occ) : raw := fold_left json_set os r.

(* ---- parsing with defaults (configparser.go), tables from the source *)
Definition parse_enum (tbl : list (string * string)) (def : string) (rejected : bool) (v : option string) : option string :=
  match v with
  | None => Some def
  | Some s => if (String.length s =? 0)%nat then Some def
              else match assoc s tbl with Some c => Some c | None => if rejected then None else Some "" end
  end.
Definition eff_mode r := parse_enum GenFacts.mode_table GenFacts.mode_default GenFacts.mode_unknown_rejected (w_mode r).
Definition eff_storage r := parse_enum GenFacts.storage_table GenFacts.storage_default GenFacts.storage_unknown_rejected (w_storage r).
Definition eff_sigmode r := parse_enum GenFacts.sigmode_table GenFacts.sigmode_default GenFacts.sigmode_unknown_rejected (w_sigmode r).
Definition eff_fetch r := parse_enum GenFacts.fetchmode_table GenFacts.fetchmode_default GenFacts.fetchmode_unknown_rejected (w_fetch r).
Definition eff_cdp_strict r := match w_cdp_strict r with Some b => b | None => false end.
Definition eff_aia_strict r := match w_aia_strict r with Some b => b | None => false end.
