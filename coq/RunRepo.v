(* RunRepo.v — evaluation of repository histories observed on the real validator. *)
From Verif Require Import Base Repo.

Record hcase := mk_hc { hc_idx : nat; hc_cfg : rcfg; hc_steps : list rstep; hc_obs : list N }.
(* observation codes: 0 none, 1 accept, 2 revoked, 3 error *)

Definition obs_code (o : option verdict) : N :=
  match o with None => 0 | Some VAccept => 1 | Some VRevoked => 2 | Some VError => 3 end.

(* accept vs. reject must agree; "revoked" and "error" are both rejections (which reason the
   implementation reports first when both apply is not part of any property) — but the
   implementation may say revoked only if the model, with strictness off, says revoked *)
Definition lenient (c : rcfg) : rcfg :=
  {| r_storage := r_storage c; r_sigmode := r_sigmode c; r_fetch := r_fetch c; r_strict := false |}.

Fixpoint obs_agree (m ml : list N) (o : list N) : bool :=
  match m, ml, o with
  | [], [], [] => true
  | a :: m', al :: ml', b :: o' =>
    ((N.eqb a b) || ((N.eqb a 2 || N.eqb a 3) && (N.eqb b 2 || N.eqb b 3) && (negb (N.eqb b 2) || N.eqb al 2)))
    && obs_agree m' ml' o'
  | _, _, _ => false
  end.

Definition hc_agrees (c : hcase) : bool :=
  let m := map obs_code (snd (run_steps (hc_cfg c) init_state (hc_steps c))) in
  let ml := map obs_code (snd (run_steps (lenient (hc_cfg c)) init_state (hc_steps c))) in
  obs_agree m ml (hc_obs c).

Definition repo_mismatches (l : list hcase) : list nat := map hc_idx (filter (fun c => negb (hc_agrees c)) l).

(* ---- histories over several configurations (a restart between the segments) *)
Record scase := mk_sc { sc_idx : nat; sc_segs : list (rcfg * list rstep); sc_obs : list N }.

Fixpoint run_segments_obs (segs : list (rcfg * list rstep)) (s : env * rstate) : list N :=
  match segs with
  | [] => []
  | (cfg, xs) :: r =>
    let '(s', o) := run_steps cfg (fst s, restart cfg (snd s)) xs in
    map obs_code o ++ run_segments_obs r s'
  end.
Definition lenient_segs (segs : list (rcfg * list rstep)) := map (fun p => (lenient (fst p), snd p)) segs.

Definition sc_agrees (c : scase) : bool :=
  obs_agree (run_segments_obs (sc_segs c) init_state) (run_segments_obs (lenient_segs (sc_segs c)) init_state) (sc_obs c).
Definition seg_mismatches (l : list scase) : list nat := map sc_idx (filter (fun c => negb (sc_agrees c)) l).

(* ---- provisioning of one configured location (number 5) that answers with a, trusted signers t *)
Record pcase := mk_pc { pc_idx : nat; pc_cfg : rcfg; pc_trusted : list N; pc_answer : answer; pc_probe : cert;
                        pc_ok : bool; pc_verdict : N }.
Definition pc_agrees (c : pcase) : bool :=
  let ev := set_env (fun _ => Down) 5%N (pc_answer c) in
  match provision (pc_cfg c) ev (pc_trusted c) [5%N] (restart (pc_cfg c) (snd init_state)) with
  | Some st' => pc_ok c && N.eqb (obs_code (Some (snd (handshake (pc_cfg c) ev st' (pc_probe c))))) (pc_verdict c)
  | None => negb (pc_ok c)
  end.
Definition prov_mismatches (l : list pcase) : list nat := map pc_idx (filter (fun c => negb (pc_agrees c)) l).

(* ---- C12: crash images *)
From Verif Require Import RepoProofs RepoProps.
Record ccase := mk_cc {
  cc_idx : nat; cc_old : option N; cc_new : N; cc_phase : phase;
  cc_loaded : bool;          (* after restart from the image: is the location treated as loaded? *)
  cc_content : option N;     (* and which list answers (by id), if any *)
  cc_temps : nat }.          (* temporary artefacts left after start-up *)

Definition mk_list (id : N) : crl * option N :=
  ({| l_issuer := 1; l_serials := [Z.of_N id]; l_signer := 1; l_sig_ok := true; l_parse_ok := true |}, Some 1%N).
Definition list_id (v : crl * option N) : N := match l_serials (fst v) with z :: _ => Z.to_N z | [] => 0 end.

Definition cc_agrees (c : ccase) : bool :=
  let '(l, temps) := after_restart (crash_image (option_map mk_list (cc_old c)) (mk_list (cc_new c)) (cc_phase c)) in
  Nat.eqb temps (cc_temps c)
  && Bool.eqb (match l with Some _ => true | None => false end) (cc_loaded c)
  && match l, cc_content c with
     | Some v, Some i => N.eqb (list_id v) i
     | None, None => true
     | _, _ => false
     end.
Definition crash_mismatches (l : list ccase) : list nat := map cc_idx (filter (fun c => negb (cc_agrees c)) l).
