(* CrlReader.v — model of crl/crlreader/crlreader.go (StreamingCRLFileReader.ReadCRL) and of
   extensionsupport.CheckForCriticalUnhandledCRLExtensions / FindExtension. *)
From Verif Require Import Base Bytes Reader Asn1Parser Pem.
From Verif.gen Require GenFacts.

Record read_result := {
  r_hash : string;           (* name of the hash selected from the outer AlgorithmIdentifier *)
  r_verifier : string;       (* verify strategy *)
  r_alg : bytes;             (* outer AlgorithmIdentifier TLV *)
  r_sig : bytes;             (* signature BIT STRING bytes *)
  r_sig_bits : Z;
  r_digest_input : bytes;    (* bytes fed to the hash between Start and Finish *)
  r_issuer : bytes;          (* issuer TLV *)
  r_exts : option bytes      (* SEQUENCE OF Extension TLV, None when absent (nil pointer) *)
}.

Section WithLib.
Variable L : lib.

Definition TAG_CTX0 : N := 160.

Fixpoint has_prefix (p s : string) : bool :=
  match p, s with
  | EmptyString, _ => true
  | String a p', String b s' => Ascii.eqb a b && has_prefix p' s'
  | _, _ => false
  end.

(* LookupHashAndVerifyStrategies (OIDs are digit strings, so EqualFold is equality) *)
Definition lookup_strategies (alg_tlv : bytes) : M (string * string) :=
  let oid := lib_alg_oid L alg_tlv in
  match assoc oid GenFacts.oid_hash_table with
  | None => fail e_alg
  | Some h =>
    let v := match find (fun p => has_prefix (fst p) oid) GenFacts.oid_prefix_verifier_table with
             | Some p => snd p | None => "RSASignatureVerifyStrategy"%string end in
    ret (h, v)
  end.

(* findAlgorithmIdentifierInCRL: first pass over a fresh reader *)
Definition find_alg : M bytes :=
  outer <- read_tag_length ;;
  expect_tag TAG_SEQ (t_tag outer) ;;;
  tbs <- peek_tag_length 0 ;;
  lift_rd (rd_discard (to_int64 (1 + Z.of_nat (t_lsize tbs) + t_len tbs))) ;;;
  read_struct L KAlgId.

Definition version_exists : M bool :=
  peek_bool (peek_tag_length 0) (fun tl => N.eqb (t_tag tl) TAG_INT && Z.eqb (t_len tl) 1).
Definition parse_version : M Z :=
  ignore_err read_tag_length ;;;
  b <- read_bytes 1 ;;
  ret (Z.of_N (hd 0%N b) + 1)%Z.   (* int(readUint8) + 1: no wrap at 255 *)
Definition next_update_exists : M bool := peek_bool (peek_tag_length 0) (fun tl => N.eqb (t_tag tl) TAG_UTC).
Definition revoked_list_exists : M bool := peek_bool (peek_tag_length 0) (fun tl => N.eqb (t_tag tl) TAG_SEQ).
(* IsContextSpecificTagWithId(0, tl): (tag & 0xF0) == 0xa0 && (tag & 0x0F) == 0 *)
Definition extensions_exist (version : Z) : M bool :=
  peek_bool (peek_tag_length 0) (fun tl => (1 <? version)%Z && N.eqb (t_tag tl) TAG_CTX0).

Definition bytes_read : M Z := fun s => (Ok (nread (rdr s)), s).

(* parseRevokedCertificateList *)
Fixpoint entry_loop (fuel : nat) (list_end : Z) : M unit :=
  match fuel with
  | O => fun s => (OutOfFuel, s)
  | S f =>
    pos <- bytes_read ;;
    if (pos <? list_end)%Z then
      tl <- peek_tag_length 0 ;;
      if negb (N.eqb (t_tag tl) TAG_SEQ) then ret tt
      else
        e <- read_struct L KRevoked ;;
        emit (EvInsert e) ;;;
        entry_loop f list_end
    else ret tt
  end.

Definition parse_revoked_list (fuel : nat) : M unit :=
  tl <- read_tag_length ;;
  expect_tag TAG_SEQ (t_tag tl) ;;;
  (if is_int64 (t_len tl) then ret tt else fail e_limit) ;;;
  pos <- bytes_read ;;
  entry_loop fuel (pos + t_len tl).

(* parseExtensions + parseCRlNumberIfExists *)
Definition find_ext (oid : string) (xs : list (string * bool * bytes)) : option bytes :=
  option_map snd (find (fun x => String.eqb (fst (fst x)) oid) xs).

Definition crl_number_of (ext_tlv : bytes) : M (option Z) :=
  match find_ext GenFacts.oid_crl_number (lib_exts L ext_tlv) with
  | None => ret None
  | Some v => fun s =>
      (* a fresh bufio reader over the extension value *)
      match read_big_int {| rdr := mk_rd v []; evs_rev := []; nev := 0; fail_at := None |} with
      | (Ok z, _) => (Ok (Some z), s)
      | (Err e, _) => (Err e, s)
      | (Panic p, _) => (Panic p, s)
      | (OutOfFuel, _) => (OutOfFuel, s)
      end
  end.

Definition critical_unhandled (xs : list (string * bool * bytes)) : bool :=
  existsb (fun x => snd (fst x) && negb (existsb (String.eqb (fst (fst x))) GenFacts.handled_crl_extensions)) xs.

Definition start_hash : M unit := fun s =>
  (Ok tt, {| rdr := rd_start_hash (rdr s); evs_rev := evs_rev s; nev := nev s; fail_at := fail_at s |}).
Definition finish_hash : M bytes := fun s =>
  let '(h, r) := rd_finish_hash (rdr s) in
  (Ok h, {| rdr := r; evs_rev := evs_rev s; nev := nev s; fail_at := fail_at s |}).

(* ---- ReadCRL after the algorithm identifier has been found, cut into its phases *)

(* version, inner algorithm, issuer, thisUpdate, nextUpdate; StartUpdateCrl *)
Definition read_tbs_header : M (Z * bytes) :=
  has_v <- version_exists ;;
  version <- (if has_v then parse_version else ret 1%Z) ;;
  (if (2 <? version)%Z then fail e_version else ret tt) ;;;
  ignore_err (read_struct L KAlgId) ;;;
  issuer <- read_struct L KRdn ;;
  this_update <- read_utc_time L ;;
  has_next <- next_update_exists ;;
  next_update <- (if has_next then (t <- read_utc_time L ;; ret (Some t)) else ret None) ;;
  emit (EvStart issuer this_update next_update) ;;;
  ret (version, issuer).

(* revokedCertificates, looked for only before the end of tbsCertList *)
Definition read_list_opt (fuel : nat) (tbs_end : Z) : M unit :=
  pos1 <- bytes_read ;;
  has_list <- (if (pos1 <? tbs_end)%Z then revoked_list_exists else ret false) ;;
  if has_list then parse_revoked_list fuel else ret tt.

(* crlExtensions *)
Definition read_exts_opt (tbs_end version : Z) : M (option bytes) :=
  pos2 <- bytes_read ;;
  has_exts <- (if (pos2 <? tbs_end)%Z then extensions_exist version else ret false) ;;
  if has_exts then
    ignore_err read_tag_length ;;;
    x <- read_struct L KExts ;;
    ret (Some x)
  else ret None.

(* UpdateExtendedMetaInfo and the critical-extension gate *)
Definition finish_meta (exts : option bytes) : M unit :=
  number <- (match exts with Some x => crl_number_of x | None => ret None end) ;;
  emit (EvExtMeta number) ;;;
  match exts with
  | Some x => if critical_unhandled (lib_exts L x) then fail e_critical else ret tt
  | None => ret tt
  end.

(* outer signatureAlgorithm (skipped) and signatureValue *)
Definition read_tail : M (bytes * Z) :=
  ignore_err (read_struct L KAlgId) ;;;
  parse_bit_string.

Definition read_main (fuel : nat) (alg_tlv : bytes) : M read_result :=
  outer <- read_tag_length ;;
  expect_tag TAG_SEQ (t_tag outer) ;;;
  strat <- lookup_strategies alg_tlv ;;
  start_hash ;;;
  tbs <- read_tag_length ;;
  expect_tag TAG_SEQ (t_tag tbs) ;;;
  (if is_int64 (t_len tbs) then ret tt else fail e_limit) ;;;
  pos0 <- bytes_read ;;
  let tbs_end := (pos0 + t_len tbs)%Z in
  hdr <- read_tbs_header ;;
  read_list_opt fuel tbs_end ;;;
  exts <- read_exts_opt tbs_end (fst hdr) ;;
  finish_meta exts ;;;
  digest_input <- finish_hash ;;
  sig <- read_tail ;;
  ret {| r_hash := fst strat; r_verifier := snd strat; r_alg := alg_tlv; r_sig := fst sig; r_sig_bits := snd sig;
         r_digest_input := digest_input; r_issuer := snd hdr; r_exts := exts |}.

(* ReadCRL on the decoded byte stream; s1/s2 are the chunk schedules of the two passes *)
Definition read_stream (stream : bytes) (s1 s2 : list nat) (fail : option nat) : list event * res read_result * list Z :=
  let st1 := {| rdr := mk_rd stream s1; evs_rev := []; nev := 0; fail_at := None |} in
  match find_alg st1 with
  | (Ok alg, st1') =>
    let st2 := {| rdr := mk_rd stream s2; evs_rev := []; nev := 0; fail_at := fail |} in
    let '(r, st2') := read_main (S (length stream)) alg st2 in
    (frev (evs_rev st2'), r, allocs (rdr st2') ++ allocs (rdr st1'))
  | (Err e, st1') => ([], Err e, allocs (rdr st1'))
  | (Panic p, st1') => ([], Panic p, allocs (rdr st1'))
  | (OutOfFuel, st1') => ([], OutOfFuel, allocs (rdr st1'))
  end.

Definition read_crl (file : bytes) (s1 s2 : list nat) (fail : option nat) :=
  read_stream (stream_of_file file) s1 s2 fail.

End WithLib.
