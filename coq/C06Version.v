(* C06Version.v — an unknown version is rejected for WHOLE documents: for every CertificateList whose
   tbsCertList starts with a version INTEGER other than 0 (v1) or 1 (v2) — whatever follows it inside
   tbsCertList, profile or not — both passes of ReadCRL are followed from the first byte of the stream to
   the rejection, for every pair of chunk schedules, and the consumer has been handed nothing. *)
From Verif Require Import Base Bytes Reader Asn1Parser Pem CrlReader CrlSpec C06Core C06Proofs.
From Verif.gen Require GenFacts.

(* CertificateList ::= SEQUENCE { tbsCertList SEQUENCE { <tbs> }, signatureAlgorithm, signatureValue } for an
   arbitrary content <tbs> of tbsCertList *)
Definition raw_tail (outer_alg sig : bytes) : bytes := tlv TAG_SEQ outer_alg ++ tlv TAG_BITS (0%N :: sig).
Definition encode_crl_raw (tbs outer_alg sig : bytes) : bytes :=
  tlv TAG_SEQ (tlv TAG_SEQ tbs ++ raw_tail outer_alg sig).

Lemma ex_bind {A B} (m : M A) (f : A -> M B) s a c1 (r : res B) (P : ps -> Prop) :
  runs m s a c1 -> (forall s1, core_of s1 = c1 -> exists s', f a s1 = (r, s') /\ P s') ->
  exists s', bindM m f s = (r, s') /\ P s'.
Proof.
  intros (s1 & E1 & H1) Hf. destruct (Hf s1 H1) as (s2 & E2 & H2).
  exists s2. unfold bindM. rewrite E1. auto.
Qed.

Lemma ex_bind_err {A B} (m : M A) (f : A -> M B) s e (P : ps -> Prop) :
  (exists s', m s = (Err e, s') /\ P s') -> exists s', bindM m f s = (Err e, s') /\ P s'.
Proof. intros (s1 & E1 & H1). exists s1. unfold bindM. rewrite E1. auto. Qed.

Section WithLib.
Variable L : lib.
Variables (v : N) (rest outer_alg sig : bytes).
Hypothesis Hv : (2 <= v)%N.
Hypothesis Hfit : fits outer_alg.
Hypothesis Hlib : lib_ok L KAlgId (tlv TAG_SEQ outer_alg) = true.

Let X : bytes := ([2; 1; v]%N ++ rest).
Let doc : bytes := encode_crl_raw X outer_alg sig.
Hypothesis Hsize : (Z.of_nat (length doc) < two63)%Z.

Lemma raw_sizes :
  hdr_ok (Z.of_nat (length (tlv TAG_SEQ X ++ raw_tail outer_alg sig))) /\ hdr_ok (Z.of_nat (length X)).
Proof.
  assert (A : length (tlv TAG_SEQ X ++ raw_tail outer_alg sig) <= length doc)
    by (unfold doc, encode_crl_raw; rewrite (tlv_length TAG_SEQ (tlv TAG_SEQ X ++ raw_tail outer_alg sig)); lia).
  assert (B : length X <= length (tlv TAG_SEQ X ++ raw_tail outer_alg sig)) by (rewrite app_length, tlv_length; lia).
  unfold hdr_ok. split; lia.
Qed.

(* first pass: the outer signatureAlgorithm is found behind tbsCertList, whatever tbsCertList contains *)
Lemma raw_find_alg_ok s :
  c_rest (core_of s) = doc -> exists s', find_alg L s = (Ok (tlv TAG_SEQ outer_alg), s').
Proof.
  intros Hr. destruct raw_sizes as (H0 & HT).
  assert (R : exists c', runs (find_alg L) s (tlv TAG_SEQ outer_alg) c').
  { eexists. unfold find_alg.
    eapply runs_bind; [apply (read_tl_ok s _ TAG_SEQ _ (tlv TAG_SEQ X ++ raw_tail outer_alg sig) eq_refl H0); exact Hr|]. intros s1 H1.
    cbn [t_tag]. eapply runs_bind; [apply expect_tag_ok; exact H1|]. intros s2 H2.
    eapply runs_bind.
    { apply (peek_tl_ok s2 _ TAG_SEQ (Z.of_nat (length X)) (X ++ raw_tail outer_alg sig) H2 HT).
      cbn [adv c_rest]. unfold tlv at 1. cbn [app]. rewrite <- app_assoc. reflexivity. }
    intros s3 H3. cbn [t_len t_lsize].
    assert (E : to_int64 (1 + Z.of_nat (length (enc_len (Z.of_nat (length X)))) + Z.of_nat (length X)) = Z.of_nat (length (tlv TAG_SEQ X))).
    { pose proof (tlv_length TAG_SEQ X) as Hlen.
      assert (Hle : length (tlv TAG_SEQ X) <= length (tlv TAG_SEQ X ++ raw_tail outer_alg sig)) by (rewrite app_length; lia).
      rewrite to_int64_id; [lia|]. unfold hdr_ok, two63 in *. lia. }
    rewrite E.
    eapply runs_bind; [apply (discard_ok s3 _ (tlv TAG_SEQ X) (raw_tail outer_alg sig) H3); reflexivity|]. intros s4 H4.
    apply (read_struct_ok L KAlgId s4 _ outer_alg (tlv TAG_BITS (0%N :: sig)) H4 Hfit Hlib). reflexivity. }
  destruct R as (c' & s' & E & _). exists s'. exact E.
Qed.

Definition raw_error : N :=
  match assoc (lib_alg_oid L (tlv TAG_SEQ outer_alg)) GenFacts.oid_hash_table with Some _ => e_version | None => e_alg end.

(* second pass: rejected at the version field (or, for an algorithm this implementation does not know, before
   tbsCertList is entered), with no event *)
Lemma raw_read_main fuel s :
  core_of s = {| c_rest := doc; c_hashing := false; c_hashed := []; c_nread := 0;
                 c_evs := []; c_nev := 0; c_fail := None |} ->
  exists s', read_main L fuel (tlv TAG_SEQ outer_alg) s = (Err raw_error, s') /\ frev (evs_rev s') = [].
Proof.
  intros Hc. destruct raw_sizes as (H0 & HT).
  set (N0 := Z.of_nat (length (tlv TAG_SEQ X ++ raw_tail outer_alg sig))) in *.
  set (T := Z.of_nat (length X)) in *.
  set (c0 := {| c_rest := doc; c_hashing := false; c_hashed := []; c_nread := 0;
                c_evs := []; c_nev := 0; c_fail := None |}) in *.
  change (exists s', read_main L fuel (tlv TAG_SEQ outer_alg) s = (Err raw_error, s') /\ (fun s' => c_evs (core_of s') = []) s').
  unfold read_main, raw_error, lookup_strategies.
  destruct (assoc (lib_alg_oid L (tlv TAG_SEQ outer_alg)) GenFacts.oid_hash_table) as [h|].
  - eapply ex_bind; [apply (read_tl_ok s c0 TAG_SEQ N0 (tlv TAG_SEQ X ++ raw_tail outer_alg sig) Hc H0); reflexivity|]. intros s1 H1.
    cbn [t_tag]. eapply ex_bind; [apply expect_tag_ok; exact H1|]. intros s2 H2.
    eapply ex_bind; [apply runs_ret; exact H2|]. intros s3 H3.
    eapply ex_bind; [apply start_hash_ok; exact H3|]. intros s4 H4.
    eapply ex_bind.
    { apply (read_tl_ok s4 _ TAG_SEQ T (X ++ raw_tail outer_alg sig) H4 HT).
      cbn [adv c_rest c0]. unfold tlv at 1. cbn [app]. rewrite <- app_assoc. reflexivity. }
    intros s5 H5. cbn [t_tag t_len].
    eapply ex_bind; [apply expect_tag_ok; exact H5|]. intros s6 H6.
    assert (Hi : is_int64 T = true).
    { unfold is_int64, hdr_ok, two63 in *. apply andb_true_intro. split; [apply Z.leb_le; lia|apply Z.ltb_lt; lia]. }
    rewrite Hi. eapply ex_bind; [apply runs_ret; exact H6|]. intros s7 H7.
    eapply ex_bind; [apply bytes_read_ok; exact H7|]. intros s8 H8.
    apply ex_bind_err.
    destruct (header_rejects_version L s8 _ v (rest ++ raw_tail outer_alg sig) H8) as (s9 & E9 & Hev9);
      [cbn [adv c_rest]; unfold X; rewrite <- app_assoc; reflexivity|exact Hv|].
    exists s9. split; [exact E9|]. rewrite Hev9. reflexivity.
  - eapply ex_bind; [apply (read_tl_ok s c0 TAG_SEQ N0 (tlv TAG_SEQ X ++ raw_tail outer_alg sig) Hc H0); reflexivity|]. intros s1 H1.
    cbn [t_tag]. eapply ex_bind; [apply expect_tag_ok; exact H1|]. intros s2 H2.
    apply ex_bind_err. exists s2. split; [reflexivity|]. rewrite H2. reflexivity.
Qed.

Theorem read_stream_rejects_version s1 s2 :
  exists al, read_stream L doc s1 s2 None = ([], Err raw_error, al).
Proof.
  unfold read_stream.
  destruct (raw_find_alg_ok {| rdr := mk_rd doc s1; evs_rev := []; nev := 0; fail_at := None |}) as (s1' & E1); [reflexivity|].
  rewrite E1.
  destruct (raw_read_main (S (length doc)) {| rdr := mk_rd doc s2; evs_rev := []; nev := 0; fail_at := None |})
    as (s2' & E2 & Hev); [reflexivity|].
  rewrite E2, Hev. eexists. reflexivity.
Qed.

End WithLib.
