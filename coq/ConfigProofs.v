From Verif Require Import Base Validator Config.
From Verif.gen Require GenFacts.
Open Scope string_scope.

Lemma cf_set_is_json r o : cf_set r o = Some (json_set r o).
Proof. destruct o; reflexivity. Qed.

Lemma caddyfile_eq_json os : forall r, cf_all r os = Some (json_all r os).
Proof.
  induction os as [|o os IH]; intros r; simpl; [reflexivity|]. rewrite cf_set_is_json. apply IH.
Qed.

Lemma defaults :
  eff_mode raw_empty = Some "RevocationCheckModePreferOCSP" /\
  eff_storage raw_empty = Some "Disk" /\
  eff_sigmode raw_empty = Some "SignatureValidationModeVerify" /\
  eff_fetch raw_empty = Some "CRLFetchModeActively" /\
  eff_cdp_strict raw_empty = false /\ eff_aia_strict raw_empty = false /\
  GenFacts.default_update_interval_ns = (30 * 60 * 1000000000)%Z.
Proof. repeat split; reflexivity. Qed.

Lemma assoc_notin {A} (s : string) (l : list (string * A)) : ~ In s (map fst l) -> assoc s l = None.
Proof.
  induction l as [|[k v] l IH]; simpl; intros H; [reflexivity|].
  destruct (String.eqb_spec s k) as [->|Hne]; [exfalso; apply H; left; reflexivity|].
  apply IH. intros Hin. apply H. right. exact Hin.
Qed.

Lemma unknown_values_rejected r s :
  s <> "" ->
  (~ In s ["prefer_crl"; "prefer_ocsp"; "ocsp_only"; "crl_only"; "disabled"] -> eff_mode (json_set r (OMode s)) = None) /\
  (~ In s ["memory"; "disk"] -> eff_storage (json_set r (OStorage s)) = None) /\
  (~ In s ["none"; "verify_log"; "verify"] -> eff_sigmode (json_set r (OSigMode s)) = None) /\
  (~ In s ["fetch_actively"; "fetch_background"] -> eff_fetch (json_set r (OFetch s)) = None).
Proof.
  intros Hne.
  assert (Hl : (String.length s =? 0)%nat = false) by (destruct s; [congruence|reflexivity]).
  repeat split; intros H; unfold eff_mode, eff_storage, eff_sigmode, eff_fetch, parse_enum;
    cbn [json_set w_mode w_storage w_sigmode w_fetch]; rewrite Hl;
    (rewrite assoc_notin; [reflexivity|]); intros Hin; apply H; vm_compute in Hin;
    repeat (destruct Hin as [<-|Hin]; [simpl; tauto|]); destruct Hin.
Qed.

Lemma unknown_keys_rejected : forallb snd GenFacts.caddyfile_unknown_rejected = true /\
  map fst GenFacts.caddyfile_unknown_rejected = ["top"; "crl"; "cdp"; "ocsp"].
Proof. split; reflexivity. Qed.
