import json, os, shutil, sys, glob
P=sys.argv[1]; src=f"/tmp/seed5/{P}/out"; ran=sys.argv[2]
m=json.load(open(f"{src}/meta.json"))
if isinstance(m,list): m=m[0]
dst=f"/verif/seeded/{P}-r1"; os.makedirs(dst,exist_ok=True)
shutil.copyfile(f"{src}/r1.diff", f"{dst}/patch.diff")
for f in glob.glob(f"{src}/r1_demo*"):
    (shutil.copytree(f, os.path.join(dst,os.path.basename(f)), dirs_exist_ok=True) if os.path.isdir(f) else shutil.copyfile(f, os.path.join(dst,os.path.basename(f))))
m["property"]=P; m["origin"]="round 5: fresh sub-agent given only the property text (plus one-line summaries of the earlier seeds as 'already known') and a scratch worktree"
m["confirmed"]=ran
json.dump(m, open(f"{dst}/meta.json","w"), indent=1); print(dst)
