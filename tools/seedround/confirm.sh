#!/bin/bash
# confirm.sh P pkgdir  — demo test file goes into repo/<pkgdir>
export GOFLAGS=-mod=mod GOPROXY=off GOSUMDB=off GOTOOLCHAIN=local
P=$1; PK=$2; W=/tmp/seed5/$P; R=$W/repo
cd $R && git checkout -- . && git clean -fdq
cp $W/out/r1_demo_test.go $R/$PK/zz_r1_demo_test.go
echo "== clean tree demo"; (cd $R && go test -vet=off -count=1 -run TestR1Demo ./$PK/ 2>&1 | tail -3)
git -C $R apply $W/out/r1.diff || { echo APPLY FAILED; exit 1; }
echo "== mutated demo"; (cd $R && go test -vet=off -count=1 -run TestR1Demo ./$PK/ 2>&1 | tail -5)
rm $R/$PK/zz_r1_demo_test.go
echo "== build"; (cd $R && go build ./... && go build -tags verif ./... && echo build ok)
echo "== tests"; (cd $R && go test -vet=off -count=1 ./... 2>&1 | grep -v "^ok\|no test files" | head; echo tests done)
git -C $R diff --stat | tail -3
