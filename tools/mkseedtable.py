#!/usr/bin/env python3
"""Print the markdown table of DESIGN.md §8.8 from seeded/*/meta.json and result.json."""
import json, glob, os
V = os.path.dirname(os.path.dirname(os.path.abspath(__file__)))
rows = []
for d in sorted(glob.glob(os.path.join(V, "seeded", "*"))):
    try:
        m = json.load(open(os.path.join(d, "meta.json")))
    except Exception:
        continue
    r = {}
    if os.path.exists(os.path.join(d, "result.json")):
        r = json.load(open(os.path.join(d, "result.json")))
    caught = []
    for p, c in sorted(r.get("checks", {}).items()):
        if c["exit"] != 0:
            noinp = any("no-failing-input-found" in l for l in c["lines"])
            caught.append(p + (" (proof/tie broken, no input)" if noinp else ""))
    what = (m.get("summary") or "")
    what = what.replace("|", "/").replace("\n", " ")
    if len(what) > 150:
        what = what[:147] + "..."
    first = m.get("first_run", "")
    note = m.get("status_after_fix", "")
    how = ""
    for p, c in sorted(r.get("checks", {}).items()):
        if c["exit"] != 0 and c.get("what"):
            how = c["what"].replace("|", "/").replace("\n", " ")[:140]
            break
    rows.append("| %s | %s | %s | %s | %s |" % (os.path.basename(d), ", ".join(os.path.basename(f) for f in m.get("files", [])), what,
                                              ", ".join(caught) or "**not caught**", (first + (" " if first and note else "") + ("neutralised: see meta.json" if note else "")) or how))
print("| seed | file(s) | change | caught by | first run / failing input reported |")
print("|---|---|---|---|---|")
print("\n".join(rows))
