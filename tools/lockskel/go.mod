module lockskel

go 1.22
