// lockskel: a syntactic translator from the concurrent parts of caddy-revocation-validator to a
// lock/access skeleton (coq/gen/GenSkel.v) in the language of coq/LockSkel.v.  Every function of
// the listed files becomes a procedure: acquisitions/releases of the four locks (defer moved to
// every exit), reads/writes of the shared fields, calls to functions of the same set, branching
// and loops.  Resolution is by field / method name (no type information); the translator fails
// loudly on statement shapes it does not know.
package main

import (
	"fmt"
	"go/ast"
	"go/parser"
	"go/token"
	"os"
	"path/filepath"
	"sort"
	"strings"
)

var fset = token.NewFileSet()

func die(format string, a ...interface{}) {
	fmt.Fprintf(os.Stderr, "lockskel: "+format+"\n", a...)
	os.Exit(2)
}

var files = []string{
	"crl/crlrepository/crlrepository.go",
	"crl/crlrevocationchecker.go",
	"ocsp/ocsprevocationchecker.go",
	"crl/crlloader/multischemescrlloader.go",
}

// procedures that may run concurrently with each other (handshakes, ticker, background loads, shutdown)
var entryPoints = []string{
	"Repository.AddCRL", "Repository.IsRevoked", "Repository.UpdateCRLs", "Repository.UpdateCRL", "Repository.Close",
	"CRLRevocationChecker.IsRevoked", "CRLRevocationChecker.updateCRLs", "CRLRevocationChecker.Cleanup",
	"RegisterCRLWorkDirUsage", "DeregisterCRLWorkDirUsage",
	"OCSPRevocationChecker.IsRevoked", "OCSPRevocationChecker.Cleanup",
}

var lockFields = map[string]string{"entryLock": "LEntry", "crlRepositoryLock": "LRepo", "crlUpdateMutex": "LUpdate", "workDirInUseMutex": "LWorkdir"}
var entryFields = map[string]bool{"Loaded": true, "CRLStore": true, "LastUpdateSignatureVerifyFailed": true, "LastUpdateSignature": true, "Chains": true}

type proc struct {
	name   string
	params []string
	body   string
}

var procs = map[string]*proc{}
var known = map[string]bool{} // method/function names defined in the files (unqualified)

func q(s string) string { return "\"" + s + "\"" }

func identName(e ast.Expr) string {
	switch x := e.(type) {
	case *ast.Ident:
		return x.Name
	case *ast.ParenExpr:
		return identName(x.X)
	case *ast.UnaryExpr:
		return identName(x.X)
	case *ast.StarExpr:
		return identName(x.X)
	}
	return ""
}

type ctx struct {
	fn       string
	inTopIf  bool
	locals   map[string]bool // variables holding a not yet published composite literal
	deferred []string        // releases to run at every exit, innermost last
}

func seq(cs []string) string {
	var out []string
	for _, c := range cs {
		if c != "" && c != "Skip" {
			out = append(out, c)
		}
	}
	if len(out) == 0 {
		return "Skip"
	}
	s := out[len(out)-1]
	for i := len(out) - 2; i >= 0; i-- {
		s = "Seq (" + out[i] + ") (" + s + ")"
	}
	return s
}

func lockOf(sel *ast.SelectorExpr) (string, bool) {
	// x.entryLock / R.crlRepositoryLock / crlUpdateMutex (package level handled by caller)
	if l, ok := lockFields[sel.Sel.Name]; ok {
		if l == "LEntry" {
			return fmt.Sprintf("(LEntry %s)", q(identName(sel.X))), true
		}
		return l, true
	}
	return "", false
}

// accesses: reads (and writes when lhs) of shared variables inside an expression
func (c *ctx) accesses(e ast.Expr, write bool) []string {
	var out []string
	if e == nil {
		return nil
	}
	switch x := e.(type) {
	case *ast.SelectorExpr:
		recv := identName(x.X)
		switch {
		case entryFields[x.Sel.Name] && recv != "" && !c.locals[recv]:
			k := "Rd"
			if write {
				k = "Wr"
			}
			out = append(out, fmt.Sprintf("%s (VEntryField %s %s)", k, q(x.Sel.Name), q(recv)))
		case x.Sel.Name == "crlRepository" && recv == "R": // the map of the Repository (the checker has a pointer field of the same name)
			k := "Rd"
			if write {
				k = "Wr"
			}
			out = append(out, k+" VRepoMap")
		case x.Sel.Name == "lastCrlUpdateFinishTime":
			k := "Rd"
			if write {
				k = "Wr"
			}
			out = append(out, k+" VLastFinish")
		case x.Sel.Name == "lastSuccessfulLoader":
			k := "Rd"
			if write {
				k = "Wr"
			}
			out = append(out, fmt.Sprintf("%s (VLoaderField %s)", k, q(recv)))
		case x.Sel.Name == "cache" && recv == "c":
			k := "Rd"
			if write {
				k = "Wr"
			}
			out = append(out, k+" VOcspCache")
		default:
			out = append(out, c.accesses(x.X, false)...)
		}
	case *ast.Ident:
		switch x.Name {
		case "workDirsInUse":
			k := "Rd"
			if write {
				k = "Wr"
			}
			out = append(out, k+" VWorkDirs")
		case "lastCrlUpdateFinishTime":
			k := "Rd"
			if write {
				k = "Wr"
			}
			out = append(out, k+" VLastFinish")
		}
	case *ast.IndexExpr:
		out = append(out, c.accesses(x.Index, false)...)
		out = append(out, c.accesses(x.X, write)...)
	case *ast.CallExpr:
		out = append(out, c.call(x)...)
	case *ast.BinaryExpr:
		out = append(out, c.accesses(x.X, false)...)
		out = append(out, c.accesses(x.Y, false)...)
	case *ast.UnaryExpr:
		out = append(out, c.accesses(x.X, false)...)
	case *ast.ParenExpr:
		out = append(out, c.accesses(x.X, write)...)
	case *ast.StarExpr:
		out = append(out, c.accesses(x.X, write)...)
	case *ast.CompositeLit:
		for _, el := range x.Elts {
			if kv, ok := el.(*ast.KeyValueExpr); ok {
				out = append(out, c.accesses(kv.Value, false)...)
			} else {
				out = append(out, c.accesses(el, false)...)
			}
		}
	case *ast.TypeAssertExpr:
		out = append(out, c.accesses(x.X, false)...)
	case *ast.SliceExpr:
		out = append(out, c.accesses(x.X, false)...)
	case *ast.KeyValueExpr:
		out = append(out, c.accesses(x.Value, false)...)
	case *ast.FuncLit:
		// closures run inline (Retry callbacks, deferred cleanups): their accesses count at this point
		out = append(out, c.block(x.Body.List))
	case *ast.BasicLit, *ast.ArrayType, *ast.MapType, *ast.InterfaceType, *ast.StructType, *ast.FuncType, *ast.ChanType:
	default:
		die("%s: unsupported expression %T at %s", c.fn, e, fset.Position(e.Pos()))
	}
	return out
}

func (c *ctx) call(x *ast.CallExpr) []string {
	var out []string
	for _, a := range x.Args {
		out = append(out, c.accesses(a, false)...)
	}
	switch f := x.Fun.(type) {
	case *ast.SelectorExpr:
		// lock operations
		if inner, ok := f.X.(*ast.SelectorExpr); ok {
			if l, ok := lockOf(inner); ok {
				return append(out, lockOp(l, f.Sel.Name, c.fn))
			}
		}
		if id, ok := f.X.(*ast.Ident); ok {
			if l, ok := lockFields[id.Name]; ok { // package-level mutex
				return append(out, lockOp(l, f.Sel.Name, c.fn))
			}
		}
		// the loader of an entry keeps state (lastSuccessfulLoader): entry.CRLLoader.LoadCRL mutates it
		if inner, ok := f.X.(*ast.SelectorExpr); ok && inner.Sel.Name == "CRLLoader" && f.Sel.Name == "LoadCRL" {
			return append(out, fmt.Sprintf("Wr (VLoaderState %s)", q(identName(inner.X))))
		}
		out = append(out, c.accesses(f.X, false)...)
		if known[f.Sel.Name] && (identName(f.X) == "R" || identName(f.X) == "c" || identName(f.X) == "f") {
			var args []string
			for _, a := range x.Args {
				args = append(args, q(identName(a)))
			}
			out = append(out, fmt.Sprintf("Call %s [%s]", q(f.Sel.Name), strings.Join(args, "; ")))
		}
	case *ast.Ident:
		switch f.Name {
		case "delete":
			if len(x.Args) > 0 {
				out = append(out, c.accesses(x.Args[0], true)...)
			}
		case "len", "append", "make", "new", "panic", "recover", "close", "string", "int", "copy":
		default:
			if known[f.Name] {
				var args []string
				for _, a := range x.Args {
					args = append(args, q(identName(a)))
				}
				out = append(out, fmt.Sprintf("Call %s [%s]", q(f.Name), strings.Join(args, "; ")))
			}
		}
	case *ast.FuncLit:
		out = append(out, c.block(f.Body.List))
	case *ast.ParenExpr, *ast.ArrayType, *ast.IndexExpr:
	default:
		die("%s: unsupported call %T", c.fn, x.Fun)
	}
	return out
}

func lockOp(l, method, fn string) string {
	switch method {
	case "Lock":
		return fmt.Sprintf("Acq %s W", l)
	case "RLock":
		return fmt.Sprintf("Acq %s R", l)
	case "Unlock":
		return fmt.Sprintf("Rel %s W", l)
	case "RUnlock":
		return fmt.Sprintf("Rel %s R", l)
	}
	die("%s: unknown lock method %s", fn, method)
	return ""
}

func (c *ctx) exits() string {
	var rel []string
	for i := len(c.deferred) - 1; i >= 0; i-- {
		rel = append(rel, c.deferred[i])
	}
	return seq(append(rel, "Ret"))
}

func (c *ctx) block(stmts []ast.Stmt) string {
	var out []string
	for _, s := range stmts {
		out = append(out, c.stmt(s))
	}
	return seq(out)
}

// body translates a function body including the exit at its end.
func (c *ctx) body(stmts []ast.Stmt) string {
	return c.tr(stmts, func() string { return c.exits() })
}

// tr translates a statement list followed by the continuation k.  A conditional one of whose
// branches registers a defer splits the rest of the function into two paths (the deferred call
// only runs on the path that executed the defer statement); all other statements are
// translated compositionally.
func (c *ctx) tr(stmts []ast.Stmt, k func() string) string {
	if len(stmts) == 0 {
		return k()
	}
	rest := func() string { return c.tr(stmts[1:], k) }
	switch x := stmts[0].(type) {
	case *ast.IfStmt:
		if !containsDefer(x) {
			break
		}
		var pre []string
		if x.Init != nil {
			pre = append(pre, c.stmt(x.Init))
		}
		pre = append(pre, c.accesses(x.Cond, false)...)
		saved := append([]string{}, c.deferred...)
		th := c.tr(x.Body.List, rest)
		c.deferred = append([]string{}, saved...)
		var el string
		switch e := x.Else.(type) {
		case nil:
			el = rest()
		case *ast.BlockStmt:
			el = c.tr(e.List, rest)
		default:
			el = c.tr([]ast.Stmt{e}, rest)
		}
		c.deferred = saved
		return seq(append(pre, fmt.Sprintf("Choice (%s) (%s)", th, el)))
	case *ast.BlockStmt:
		if containsDefer(x) {
			return c.tr(append(append([]ast.Stmt{}, x.List...), stmts[1:]...), k)
		}
	case *ast.ForStmt, *ast.RangeStmt, *ast.SwitchStmt, *ast.SelectStmt:
		if containsDefer(x) {
			die("%s: defer inside a loop or switch", c.fn)
		}
	}
	first := c.stmt(stmts[0])
	return seq([]string{first, rest()})
}

func containsDefer(n ast.Node) bool {
	found := false
	ast.Inspect(n, func(m ast.Node) bool {
		switch m.(type) {
		case *ast.DeferStmt:
			found = true
		case *ast.FuncLit:
			return false
		}
		return true
	})
	return found
}

func (c *ctx) stmt(s ast.Stmt) string {
	switch x := s.(type) {
	case *ast.ExprStmt:
		return seq(c.accesses(x.X, false))
	case *ast.AssignStmt:
		var out []string
		for _, r := range x.Rhs {
			out = append(out, c.accesses(r, false)...)
			if cl, ok := r.(*ast.CompositeLit); ok && len(x.Lhs) == 1 {
				_ = cl
				c.locals[identName(x.Lhs[0])] = true
			}
		}
		for _, l := range x.Lhs {
			out = append(out, c.accesses(l, true)...)
		}
		return seq(out)
	case *ast.DeclStmt:
		var out []string
		if gd, ok := x.Decl.(*ast.GenDecl); ok {
			for _, sp := range gd.Specs {
				if vs, ok := sp.(*ast.ValueSpec); ok {
					for _, v := range vs.Values {
						out = append(out, c.accesses(v, false)...)
					}
				}
			}
		}
		return seq(out)
	case *ast.DeferStmt:
		// a deferred unlock runs at every exit; other deferred calls run their accesses at exit as well
		cmds := c.call(x.Call)
		c.deferred = append(c.deferred, seq(cmds))
		return "Skip"
	case *ast.ReturnStmt:
		var out []string
		for _, r := range x.Results {
			out = append(out, c.accesses(r, false)...)
		}
		out = append(out, c.exits())
		return seq(out)
	case *ast.IfStmt:
		var pre []string
		if x.Init != nil {
			pre = append(pre, c.stmt(x.Init))
		}
		pre = append(pre, c.accesses(x.Cond, false)...)
		th := c.block(x.Body.List)
		el := "Skip"
		if x.Else != nil {
			el = c.stmt(x.Else)
		}
		return seq(append(pre, fmt.Sprintf("Choice (%s) (%s)", th, el)))
	case *ast.BlockStmt:
		return c.block(x.List)
	case *ast.ForStmt:
		var pre []string
		if x.Init != nil {
			pre = append(pre, c.stmt(x.Init))
		}
		body := []string{}
		if x.Cond != nil {
			body = append(body, c.accesses(x.Cond, false)...)
		}
		body = append(body, c.block(x.Body.List))
		if x.Post != nil {
			body = append(body, c.stmt(x.Post))
		}
		return seq(append(pre, "Loop ("+seq(body)+")"))
	case *ast.RangeStmt:
		pre := c.accesses(x.X, false)
		return seq(append(pre, "Loop ("+c.block(x.Body.List)+")"))
	case *ast.SwitchStmt:
		var pre []string
		if x.Init != nil {
			pre = append(pre, c.stmt(x.Init))
		}
		if x.Tag != nil {
			pre = append(pre, c.accesses(x.Tag, false)...)
		}
		alt := "Skip"
		for i := len(x.Body.List) - 1; i >= 0; i-- {
			cc := x.Body.List[i].(*ast.CaseClause)
			alt = fmt.Sprintf("Choice (%s) (%s)", c.block(cc.Body), alt)
		}
		return seq(append(pre, alt))
	case *ast.SelectStmt:
		alt := "Skip"
		for i := len(x.Body.List) - 1; i >= 0; i-- {
			cc := x.Body.List[i].(*ast.CommClause)
			alt = fmt.Sprintf("Choice (%s) (%s)", c.block(cc.Body), alt)
		}
		return alt
	case *ast.GoStmt:
		// a new thread: its body is an entry point of its own (listed in entryPoints); nothing happens here
		if fl, ok := x.Call.Fun.(*ast.FuncLit); ok {
			name := c.fn + ".go"
			cc := &ctx{fn: name, locals: map[string]bool{}}
			procs[name] = &proc{name: name, body: cc.body(fl.Body.List)}
			goProcs = append(goProcs, name)
			return "Skip"
		}
		return "Skip"
	case *ast.IncDecStmt:
		return seq(c.accesses(x.X, true))
	case *ast.BranchStmt, *ast.EmptyStmt:
		return "Skip"
	case *ast.LabeledStmt:
		return c.stmt(x.Stmt)
	}
	die("%s: unsupported statement %T at %s", c.fn, s, fset.Position(s.Pos()))
	return ""
}

var goProcs []string

func main() {
	if len(os.Args) != 3 {
		die("usage: lockskel <repo> <out.v>")
	}
	repo := os.Args[1]
	var decls []*ast.FuncDecl
	recvOf := map[*ast.FuncDecl]string{}
	for _, rel := range files {
		f, err := parser.ParseFile(fset, filepath.Join(repo, rel), nil, 0)
		if err != nil {
			die("cannot parse %s: %v", rel, err)
		}
		for _, d := range f.Decls {
			fd, ok := d.(*ast.FuncDecl)
			if !ok || fd.Body == nil {
				continue
			}
			decls = append(decls, fd)
			known[fd.Name.Name] = true
			if fd.Recv != nil && len(fd.Recv.List) == 1 {
				t := fd.Recv.List[0].Type
				if st, ok := t.(*ast.StarExpr); ok {
					t = st.X
				}
				recvOf[fd] = identName(t)
			}
		}
	}
	// procedures are keyed by bare name; names must be unique across the files except for the listed receivers
	seen := map[string]string{}
	for _, fd := range decls {
		key := fd.Name.Name
		full := key
		if r := recvOf[fd]; r != "" {
			full = r + "." + key
		}
		// disambiguate the few names that exist on several receivers
		switch full {
		case "CRLRevocationChecker.IsRevoked", "OCSPRevocationChecker.IsRevoked", "CRLRevocationChecker.Cleanup", "OCSPRevocationChecker.Cleanup",
			"CRLRevocationChecker.Provision", "OCSPRevocationChecker.Provision", "MultiSchemesCRLLoader.LoadCRL", "MultiSchemesCRLLoader.GetCRLLocationIdentifier", "MultiSchemesCRLLoader.GetDescription":
			key = full
		}
		if prev, dup := seen[key]; dup {
			die("procedure name %s defined twice (%s, %s)", key, prev, full)
		}
		seen[key] = full
		c := &ctx{fn: key, locals: map[string]bool{}}
		// the receivers (the repository, the checkers) are singletons of this analysis: not parameters
		var params []string
		for _, fl := range fd.Type.Params.List {
			for _, n := range fl.Names {
				params = append(params, n.Name)
			}
		}
		procs[key] = &proc{name: key, params: params, body: c.body(fd.Body.List)}
	}
	var names []string
	for n := range procs {
		names = append(names, n)
	}
	sort.Strings(names)
	var sb strings.Builder
	sb.WriteString("(* GENERATED by /verif/tools/lockskel from the working tree of /repo. Do not edit. *)\n")
	sb.WriteString("From Verif Require Import Base LockSkel.\nOpen Scope string_scope.\n\n")
	sb.WriteString("Definition program : list proc := [\n")
	for i, n := range names {
		p := procs[n]
		var ps []string
		for _, x := range p.params {
			ps = append(ps, q(x))
		}
		// receiver parameters are passed positionally: calls list only explicit arguments, so drop the receiver from params of methods
		sep := ";"
		if i == len(names)-1 {
			sep = ""
		}
		fmt.Fprintf(&sb, "  {| p_name := %s; p_params := [%s]; p_body := %s |}%s\n", q(n), strings.Join(ps, "; "), p.body, sep)
	}
	sb.WriteString("].\n\n")
	var eps []string
	for _, e := range entryPoints {
		key := e
		if i := strings.Index(e, "."); i >= 0 {
			bare := e[i+1:]
			if _, ok := procs[e]; !ok {
				key = bare
			}
		}
		if _, ok := procs[key]; !ok {
			die("entry point %s not found", e)
		}
		eps = append(eps, q(key))
	}
	sort.Strings(goProcs)
	for _, g := range goProcs {
		eps = append(eps, q(g))
	}
	fmt.Fprintf(&sb, "Definition entry_points : list string := [%s].\n", strings.Join(eps, "; "))
	if err := os.WriteFile(os.Args[2], []byte(sb.String()), 0644); err != nil {
		die("%v", err)
	}
}
