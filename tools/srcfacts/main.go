// srcfacts: a deliberately narrow, syntactic translator from the Go sources of
// caddy-revocation-validator to a Coq file of decision tables and constants
// (coq/gen/GenFacts.v).  It is re-run by every check; the Coq model imports the
// generated file, so every theorem that depends on one of these facts is
// re-checked by the kernel against what the source says now.
//
// It fails loudly (exit 2, message on stderr) on source shapes it does not know.
package main

import (
	"fmt"
	"go/ast"
	"go/constant"
	"go/parser"
	"go/token"
	"os"
	"path/filepath"
	"sort"
	"strconv"
	"strings"
)

var fset = token.NewFileSet()
var repo string
var out strings.Builder

type dieErr string

// die: the source no longer has the shape this extractor understands.  Inside a section only the facts of that
// section are withheld (see section); elsewhere the translator stops.
func die(format string, a ...interface{}) {
	panic(dieErr(fmt.Sprintf(format, a...)))
}

var unrecognised []string

// section runs one group of extractors.  If one of them does not recognise the source, everything the group has
// written is dropped: the facts are then UNDEFINED in GenFacts.v, so exactly the Coq files that use them stop
// compiling (and the properties that depend on those files report the broken proof), while every other fact and
// every other property is unaffected.
func section(name string, body func()) {
	saved := out.String()
	defer func() {
		if r := recover(); r != nil {
			msg, ok := r.(dieErr)
			if !ok {
				panic(r)
			}
			out.Reset()
			out.WriteString(saved)
			fmt.Fprintf(&out, "(* UNRECOGNISED %s: %s *)\n", name, strings.ReplaceAll(string(msg), "*)", "* )"))
			unrecognised = append(unrecognised, name)
			fmt.Fprintf(os.Stderr, "srcfacts: section %q withheld: %s\n", name, msg)
		}
	}()
	body()
}

func parseFile(rel string) *ast.File {
	f, err := parser.ParseFile(fset, filepath.Join(repo, rel), nil, 0)
	if err != nil {
		die("cannot parse %s: %v", rel, err)
	}
	return f
}

func findFunc(f *ast.File, name string) *ast.FuncDecl {
	for _, d := range f.Decls {
		if fd, ok := d.(*ast.FuncDecl); ok && fd.Name.Name == name {
			return fd
		}
	}
	die("function %s not found", name)
	return nil
}

func coqStr(s string) string {
	return "\"" + strings.ReplaceAll(s, "\"", "\"\"") + "\""
}

func coqStrList(l []string) string {
	q := make([]string, len(l))
	for i, s := range l {
		q[i] = coqStr(s)
	}
	return "[" + strings.Join(q, "; ") + "]"
}

func selName(e ast.Expr) string {
	switch x := e.(type) {
	case *ast.SelectorExpr:
		return x.Sel.Name
	case *ast.Ident:
		return x.Name
	case *ast.ParenExpr:
		return selName(x.X)
	}
	return ""
}

func strLit(e ast.Expr) (string, bool) {
	if bl, ok := e.(*ast.BasicLit); ok && bl.Kind == token.STRING {
		s, err := strconv.Unquote(bl.Value)
		if err == nil {
			return s, true
		}
	}
	return "", false
}

// evalConst evaluates integer constant expressions made of literals, + * / and
// named constants supplied in env.
func evalConst(e ast.Expr, env map[string]constant.Value) constant.Value {
	switch x := e.(type) {
	case *ast.BasicLit:
		return constant.MakeFromLiteral(x.Value, x.Kind, 0)
	case *ast.ParenExpr:
		return evalConst(x.X, env)
	case *ast.BinaryExpr:
		a, b := evalConst(x.X, env), evalConst(x.Y, env)
		if a == nil || b == nil {
			return nil
		}
		if x.Op == token.QUO {
			return constant.BinaryOp(a, token.QUO_ASSIGN, b)
		}
		return constant.BinaryOp(a, x.Op, b)
	case *ast.SelectorExpr:
		if v, ok := env[selName(x)]; ok {
			return v
		}
	case *ast.Ident:
		if v, ok := env[x.Name]; ok {
			return v
		}
	}
	return nil
}

var timeEnv = map[string]constant.Value{
	"Nanosecond":  constant.MakeInt64(1),
	"Microsecond": constant.MakeInt64(1000),
	"Millisecond": constant.MakeInt64(1000000),
	"Second":      constant.MakeInt64(1000000000),
	"Minute":      constant.MakeInt64(60 * 1000000000),
	"Hour":        constant.MakeInt64(3600 * 1000000000),
}

func findConst(f *ast.File, name string) ast.Expr {
	for _, d := range f.Decls {
		gd, ok := d.(*ast.GenDecl)
		if !ok || (gd.Tok != token.CONST && gd.Tok != token.VAR) {
			continue
		}
		for _, sp := range gd.Specs {
			vs := sp.(*ast.ValueSpec)
			for i, n := range vs.Names {
				if n.Name == name && i < len(vs.Values) {
					return vs.Values[i]
				}
			}
		}
	}
	die("constant %s not found", name)
	return nil
}

// ---- string switch tables: `if len(x) > 0 { switch x { case "lit": tgt = pkg.Const ... default: return err } } else { tgt = pkg.Const }`
func switchTable(f *ast.File, fn string, coqName string) {
	fd := findFunc(f, fn)
	var table [][2]string
	def := ""
	unknownRejected := false
	found := false
	ast.Inspect(fd.Body, func(n ast.Node) bool {
		ifs, ok := n.(*ast.IfStmt)
		if !ok || found {
			return true
		}
		// condition len(x) > 0
		be, ok := ifs.Cond.(*ast.BinaryExpr)
		if !ok || be.Op != token.GTR {
			return true
		}
		if len(ifs.Body.List) != 1 {
			return true
		}
		sw, ok := ifs.Body.List[0].(*ast.SwitchStmt)
		if !ok {
			return true
		}
		found = true
		for _, c := range sw.Body.List {
			cc := c.(*ast.CaseClause)
			if cc.List == nil { // default
				if len(cc.Body) == 1 {
					if rs, ok := cc.Body[0].(*ast.ReturnStmt); ok && len(rs.Results) == 1 {
						if ce, ok := rs.Results[0].(*ast.CallExpr); ok && strings.HasSuffix(selName(ce.Fun), "rrorf") {
							unknownRejected = true
							continue
						}
					}
				}
				die("%s: default clause is not `return fmt.Errorf(...)`", fn)
			}
			if len(cc.Body) != 1 {
				die("%s: case body has %d statements", fn, len(cc.Body))
			}
			as, ok := cc.Body[0].(*ast.AssignStmt)
			if !ok || len(as.Rhs) != 1 {
				die("%s: case body is not an assignment", fn)
			}
			for _, l := range cc.List {
				s, ok := strLit(l)
				if !ok {
					die("%s: case label is not a string literal", fn)
				}
				table = append(table, [2]string{s, selName(as.Rhs[0])})
			}
		}
		eb, ok := ifs.Else.(*ast.BlockStmt)
		if !ok || len(eb.List) != 1 {
			die("%s: else branch shape", fn)
		}
		as, ok := eb.List[0].(*ast.AssignStmt)
		if !ok {
			die("%s: else branch is not an assignment", fn)
		}
		def = selName(as.Rhs[0])
		return false
	})
	if !found {
		// the same thing written as ONE switch whose `case "":` clause assigns the default
		for _, st := range fd.Body.List {
			sw, ok := st.(*ast.SwitchStmt)
			if !ok || sw.Init != nil || sw.Tag == nil {
				continue
			}
			var tbl [][2]string
			d, rejected, hasEmpty, okForm := "", false, false, true
			for _, c := range sw.Body.List {
				cc := c.(*ast.CaseClause)
				if cc.List == nil {
					if len(cc.Body) == 1 {
						if rs, ok := cc.Body[0].(*ast.ReturnStmt); ok && len(rs.Results) == 1 {
							if ce, ok := rs.Results[0].(*ast.CallExpr); ok && strings.HasSuffix(selName(ce.Fun), "rrorf") {
								rejected = true
								continue
							}
						}
					}
					okForm = false
					break
				}
				if len(cc.Body) != 1 {
					okForm = false
					break
				}
				as, ok := cc.Body[0].(*ast.AssignStmt)
				if !ok || len(as.Rhs) != 1 {
					okForm = false
					break
				}
				for _, l := range cc.List {
					sl, ok := strLit(l)
					if !ok {
						okForm = false
						break
					}
					if sl == "" {
						if len(cc.List) != 1 {
							okForm = false
							break
						}
						hasEmpty = true
						d = selName(as.Rhs[0])
					} else {
						tbl = append(tbl, [2]string{sl, selName(as.Rhs[0])})
					}
				}
			}
			if okForm && hasEmpty {
				found, table, def, unknownRejected = true, tbl, d, rejected
				break
			}
		}
	}
	if !found {
		die("%s: neither `if len(x) > 0 { switch ... } else {...}` nor a switch with a `case \"\":` default found", fn)
	}
	fmt.Fprintf(&out, "Definition %s_table : list (string * string) := [", coqName)
	for i, p := range table {
		if i > 0 {
			out.WriteString("; ")
		}
		fmt.Fprintf(&out, "(%s, %s)", coqStr(p[0]), coqStr(p[1]))
	}
	out.WriteString("].\n")
	fmt.Fprintf(&out, "Definition %s_default : string := %s.\n", coqName, coqStr(def))
	fmt.Fprintf(&out, "Definition %s_unknown_rejected : bool := %v.\n", coqName, unknownRejected)
}

// ---- enum (iota) order
func enumOrder(f *ast.File, typ string, coqName string) {
	var names []string
	for _, d := range f.Decls {
		gd, ok := d.(*ast.GenDecl)
		if !ok || gd.Tok != token.CONST {
			continue
		}
		match := false
		for i, sp := range gd.Specs {
			vs := sp.(*ast.ValueSpec)
			if i == 0 {
				if id, ok := vs.Type.(*ast.Ident); ok && id.Name == typ {
					match = true
				}
			}
			if match {
				if i > 0 && (vs.Type != nil || len(vs.Values) > 0) {
					die("enum %s: non-iota continuation", typ)
				}
				for _, n := range vs.Names {
					names = append(names, n.Name)
				}
			}
		}
	}
	if names == nil {
		die("enum %s not found", typ)
	}
	fmt.Fprintf(&out, "Definition %s_enum : list string := %s.\n", coqName, coqStrList(names))
}

// ---- disjunction of `c.ModeParsed == config.X`
func disjuncts(e ast.Expr, fn string) []string {
	switch x := e.(type) {
	case *ast.ParenExpr:
		return disjuncts(x.X, fn)
	case *ast.BinaryExpr:
		if x.Op == token.LOR {
			return append(disjuncts(x.X, fn), disjuncts(x.Y, fn)...)
		}
		if x.Op == token.EQL && selName(x.X) == "ModeParsed" {
			return []string{selName(x.Y)}
		}
	}
	die("%s: unsupported boolean shape", fn)
	return nil
}

func enabledPredicate(f *ast.File, fn string, coqName string) {
	fd := findFunc(f, fn)
	// the same predicate written as `switch x { case A, B, C: return true; default: return false }`
	// (or with `return false` after the switch)
	if sw, ok := fd.Body.List[0].(*ast.SwitchStmt); ok && sw.Init == nil && sw.Tag != nil && len(fd.Body.List) <= 2 {
		isRet := func(st ast.Stmt, val string) bool {
			rs, ok := st.(*ast.ReturnStmt)
			return ok && len(rs.Results) == 1 && selName(rs.Results[0]) == val
		}
		var consts []string
		okForm, hasDefault := true, false
		for _, cl := range sw.Body.List {
			cc := cl.(*ast.CaseClause)
			if cc.List == nil {
				hasDefault = true
				okForm = okForm && len(cc.Body) == 1 && isRet(cc.Body[0], "false")
				continue
			}
			okForm = okForm && len(cc.Body) == 1 && isRet(cc.Body[0], "true")
			for _, e := range cc.List {
				consts = append(consts, selName(e))
			}
		}
		if len(fd.Body.List) == 2 {
			okForm = okForm && !hasDefault && isRet(fd.Body.List[1], "false")
		} else {
			okForm = okForm && hasDefault
		}
		if okForm && len(consts) > 0 {
			fmt.Fprintf(&out, "Definition %s : list string := %s.\n", coqName, coqStrList(consts))
			return
		}
		die("%s: switch form not understood", fn)
	}
	if len(fd.Body.List) != 1 {
		die("%s: expected a single return", fn)
	}
	rs, ok := fd.Body.List[0].(*ast.ReturnStmt)
	if !ok || len(rs.Results) != 1 {
		die("%s: expected a single return", fn)
	}
	fmt.Fprintf(&out, "Definition %s : list string := %s.\n", coqName, coqStrList(disjuncts(rs.Results[0], fn)))
}

// ---- VerifyClientCertificate: sequence of guarded stages
//
//	if len(verifiedChains) > 0 { cc := ...; if isXEnabled(c) { revoked, err := c.Y.IsRevoked(..); if err != nil {return err}; if revoked.Revoked {return errors.New(..)} } ... } return nil
func verifyStages(f *ast.File) {
	fd := findFunc(f, "VerifyClientCertificate")
	body := fd.Body.List
	if len(body) != 2 {
		die("VerifyClientCertificate: expected `if len(verifiedChains) > 0 {...}; return nil`")
	}
	rs, ok := body[1].(*ast.ReturnStmt)
	if !ok || len(rs.Results) != 1 || selName(rs.Results[0]) != "nil" {
		die("VerifyClientCertificate: final statement is not `return nil`")
	}
	top, ok := body[0].(*ast.IfStmt)
	if !ok || top.Else != nil {
		die("VerifyClientCertificate: top-level shape")
	}
	be, ok := top.Cond.(*ast.BinaryExpr)
	if !ok || be.Op != token.GTR {
		die("VerifyClientCertificate: top-level condition is not len(..) > 0")
	}
	if ce, ok := be.X.(*ast.CallExpr); !ok || selName(ce.Fun) != "len" {
		die("VerifyClientCertificate: top-level condition is not len(..) > 0")
	}
	if bl, ok := be.Y.(*ast.BasicLit); !ok || bl.Value != "0" {
		die("VerifyClientCertificate: top-level condition is not len(..) > 0")
	}
	type stage struct {
		guard, checker     string
		errRet, revokedRet bool
	}
	var stages []stage
	for i, st := range top.Body.List {
		if i == 0 {
			if _, ok := st.(*ast.AssignStmt); ok {
				continue
			}
		}
		ifs, ok := st.(*ast.IfStmt)
		if !ok || ifs.Else != nil {
			die("VerifyClientCertificate: statement %d is not a guarded stage", i)
		}
		g, ok := ifs.Cond.(*ast.CallExpr)
		if !ok {
			die("VerifyClientCertificate: stage guard is not a call")
		}
		s := stage{guard: selName(g.Fun)}
		for j, in := range ifs.Body.List {
			switch x := in.(type) {
			case *ast.AssignStmt:
				if j != 0 || len(x.Rhs) != 1 {
					die("VerifyClientCertificate: unexpected assignment in stage")
				}
				call, ok := x.Rhs[0].(*ast.CallExpr)
				if !ok || selName(call.Fun) != "IsRevoked" {
					die("VerifyClientCertificate: stage does not call IsRevoked")
				}
				s.checker = selName(call.Fun.(*ast.SelectorExpr).X)
			case *ast.IfStmt:
				if len(x.Body.List) != 1 {
					die("VerifyClientCertificate: inner if body")
				}
				r, ok := x.Body.List[0].(*ast.ReturnStmt)
				if !ok || len(r.Results) != 1 {
					die("VerifyClientCertificate: inner if does not return")
				}
				if c, ok := x.Cond.(*ast.BinaryExpr); ok && c.Op == token.NEQ && selName(c.X) == "err" && selName(c.Y) == "nil" {
					if selName(r.Results[0]) != "err" {
						die("VerifyClientCertificate: `if err != nil` does not return err")
					}
					s.errRet = true
				} else if selName(x.Cond) == "Revoked" {
					if selName(r.Results[0]) == "nil" {
						die("VerifyClientCertificate: revoked branch returns nil")
					}
					s.revokedRet = true
				} else {
					die("VerifyClientCertificate: unknown inner condition")
				}
			default:
				die("VerifyClientCertificate: unknown statement in stage")
			}
		}
		stages = append(stages, s)
	}
	out.WriteString("(* stage = (guard function, checker field, error is returned, revoked is returned) *)\n")
	out.WriteString("Definition verify_stages : list (string * string * bool * bool) := [")
	for i, s := range stages {
		if i > 0 {
			out.WriteString("; ")
		}
		fmt.Fprintf(&out, "(%s, %s, %v, %v)", coqStr(s.guard), coqStr(s.checker), s.errRet, s.revokedRet)
	}
	out.WriteString("].\n")
}

// ---- masks in ReadLength / PeekLength
func lengthMasks(f *ast.File, fn string, coqName string) {
	fd := findFunc(f, fn)
	var longTest, sizeMask string
	ast.Inspect(fd.Body, func(n ast.Node) bool {
		be, ok := n.(*ast.BinaryExpr)
		if !ok || be.Op != token.AND {
			return true
		}
		if selName(be.X) != "lengthOrSizeOfLength" {
			return true
		}
		bl, ok := be.Y.(*ast.BasicLit)
		if !ok {
			die("%s: mask is not a literal", fn)
		}
		v := constant.MakeFromLiteral(bl.Value, bl.Kind, 0).ExactString()
		if longTest == "" {
			longTest = v
		} else if sizeMask == "" {
			sizeMask = v
		} else {
			die("%s: more than two masks", fn)
		}
		return true
	})
	if longTest == "" || sizeMask == "" {
		die("%s: masks not found", fn)
	}
	fmt.Fprintf(&out, "Definition %s_long_bit : N := %s%%N.\nDefinition %s_size_mask : N := %s%%N.\n", coqName, longTest, coqName, sizeMask)
}

func fileConsts(f *ast.File) map[string]constant.Value {
	env := map[string]constant.Value{}
	for _, d := range f.Decls {
		gd, ok := d.(*ast.GenDecl)
		if !ok || gd.Tok != token.CONST {
			continue
		}
		for _, sp := range gd.Specs {
			vs := sp.(*ast.ValueSpec)
			for i, n := range vs.Names {
				if i < len(vs.Values) {
					if v := evalConst(vs.Values[i], env); v != nil {
						env[n.Name] = v
					}
				}
			}
		}
	}
	return env
}

func callArgConst(f *ast.File, fn, callee string, idx int) string {
	fd := findFunc(f, fn)
	res := ""
	env := fileConsts(f)
	ast.Inspect(fd.Body, func(n ast.Node) bool {
		ce, ok := n.(*ast.CallExpr)
		if ok && selName(ce.Fun) == callee && idx < len(ce.Args) {
			if v := evalConst(ce.Args[idx], env); v != nil {
				res = v.ExactString()
			}
		}
		return true
	})
	if res == "" {
		die("%s: constant argument %d of %s not found", fn, idx, callee)
	}
	return res
}

// key construction: x.String() + "_" + y.String()
func keySeparators(f *ast.File, recv string, fns []string) []string {
	var seps []string
	for _, d := range f.Decls {
		fd, ok := d.(*ast.FuncDecl)
		if !ok || fd.Recv == nil {
			continue
		}
		want := false
		for _, n := range fns {
			if fd.Name.Name == n {
				want = true
			}
		}
		if !want {
			continue
		}
		got := false
		ast.Inspect(fd.Body, func(n ast.Node) bool {
			as, ok := n.(*ast.AssignStmt)
			if !ok || len(as.Lhs) != 1 || selName(as.Lhs[0]) != "s" || got {
				return true
			}
			// (A.String() + "sep") + B.String()
			outer, ok := as.Rhs[0].(*ast.BinaryExpr)
			if !ok || outer.Op != token.ADD {
				die("%s.%s: key is not a concatenation", recv, fd.Name.Name)
			}
			inner, ok := outer.X.(*ast.BinaryExpr)
			if !ok || inner.Op != token.ADD {
				die("%s.%s: key shape", recv, fd.Name.Name)
			}
			sep, ok := strLit(inner.Y)
			if !ok {
				die("%s.%s: key separator is not a literal", recv, fd.Name.Name)
			}
			a, okA := inner.X.(*ast.CallExpr)
			b, okB := outer.Y.(*ast.CallExpr)
			if !okA || !okB || selName(a.Fun) != "String" || selName(b.Fun) != "String" {
				die("%s.%s: key parts are not .String() calls", recv, fd.Name.Name)
			}
			ia := selName(a.Fun.(*ast.SelectorExpr).X)
			ib := selName(b.Fun.(*ast.SelectorExpr).X)
			okIss := ia == "Issuer" || ia == "issuer"
			okSer := ib == "SerialNumber" || ib == "certSerial"
			if !okIss || !okSer {
				die("%s.%s: key is not issuer.String()+sep+serial.String() (got %s, %s)", recv, fd.Name.Name, ia, ib)
			}
			seps = append(seps, sep)
			got = true
			return true
		})
		if !got {
			die("%s.%s: key construction not found", recv, fd.Name.Name)
		}
	}
	return seps
}

func mapLiteralStrings(f *ast.File, name string, resolve map[string]string) [][2]string {
	e := findConst(f, name)
	cl, ok := e.(*ast.CompositeLit)
	if !ok {
		die("%s is not a composite literal", name)
	}
	var res [][2]string
	for _, el := range cl.Elts {
		kv := el.(*ast.KeyValueExpr)
		k, ok := strLit(kv.Key)
		if !ok {
			if id, ok2 := kv.Key.(*ast.Ident); ok2 {
				k, ok = resolve[id.Name]
			}
		}
		if !ok {
			die("%s: key is not a string", name)
		}
		v := ""
		switch x := kv.Value.(type) {
		case *ast.Ident:
			v = x.Name
		case *ast.SelectorExpr:
			v = x.Sel.Name
		case *ast.CallExpr: // new(T)
			v = selName(x.Args[0])
		default:
			die("%s: unsupported value", name)
		}
		res = append(res, [2]string{k, v})
	}
	sort.Slice(res, func(i, j int) bool { return res[i][0] < res[j][0] })
	return res
}

func emitPairs(name string, l [][2]string) {
	fmt.Fprintf(&out, "Definition %s : list (string * string) := [", name)
	for i, p := range l {
		if i > 0 {
			out.WriteString("; ")
		}
		fmt.Fprintf(&out, "(%s, %s)", coqStr(p[0]), coqStr(p[1]))
	}
	out.WriteString("].\n")
}

func stringConst(f *ast.File, name string) string {
	e := findConst(f, name)
	s, ok := strLit(e)
	if !ok {
		die("%s is not a string literal", name)
	}
	return s
}

func paramIsPointer(f *ast.File, fn, param string) bool {
	fd := findFunc(f, fn)
	for _, fl := range fd.Type.Params.List {
		for _, n := range fl.Names {
			if n.Name == param {
				_, ok := fl.Type.(*ast.StarExpr)
				return ok
			}
		}
	}
	die("%s: parameter %s not found", fn, param)
	return false
}

// caddyHandlers: the string switch of a Caddyfile block parser: per subdirective the field that is
// assigned and how ("val", "append", "parsebool", "const", "sub"); and whether the default case is an error
func caddyHandlers(f *ast.File, fn string) (hs [][3]string, unknownRejected bool) {
	fd := findFunc(f, fn)
	var sw *ast.SwitchStmt
	ast.Inspect(fd.Body, func(n ast.Node) bool {
		if x, ok := n.(*ast.SwitchStmt); ok && sw == nil {
			sw = x
		}
		return true
	})
	if sw == nil {
		die("%s: no switch", fn)
	}
	for _, cl := range sw.Body.List {
		cc := cl.(*ast.CaseClause)
		if cc.List == nil {
			ast.Inspect(cc, func(n ast.Node) bool {
				if ce, ok := n.(*ast.CallExpr); ok && selName(ce.Fun) == "Errf" {
					unknownRejected = true
				}
				return true
			})
			continue
		}
		key, ok := strLit(cc.List[0])
		if !ok || len(cc.List) != 1 {
			die("%s: case label", fn)
		}
		field, kind := "", ""
		boolVars := map[string]bool{}
		for _, st := range cc.Body {
			as, ok := st.(*ast.AssignStmt)
			if !ok || len(as.Rhs) != 1 {
				continue
			}
			if ce, ok := as.Rhs[0].(*ast.CallExpr); ok && selName(ce.Fun) == "ParseBool" {
				if len(ce.Args) == 1 {
					if c2, ok := ce.Args[0].(*ast.CallExpr); ok && selName(c2.Fun) == "Val" {
						boolVars[selName(as.Lhs[0])] = true
					}
				}
				continue
			}
			sel, ok := as.Lhs[0].(*ast.SelectorExpr)
			if !ok {
				continue
			}
			field = sel.Sel.Name
			switch r := as.Rhs[0].(type) {
			case *ast.CallExpr:
				switch selName(r.Fun) {
				case "Val":
					kind = "val"
				case "append":
					if len(r.Args) == 2 {
						if c2, ok := r.Args[1].(*ast.CallExpr); ok && selName(c2.Fun) == "Val" && selName(r.Args[0]) == field {
							kind = "append"
						}
					}
				}
			case *ast.Ident:
				if boolVars[r.Name] {
					kind = "parsebool"
				} else if r.Name == "true" || r.Name == "false" {
					kind = "const"
				} else {
					kind = "sub"
				}
			case *ast.BasicLit:
				kind = "const"
			}
		}
		if field == "" || kind == "" {
			die("%s: handler of %q not understood", fn, key)
		}
		hs = append(hs, [3]string{key, field, kind})
	}
	return hs, unknownRejected
}

// sigPolicy describes how a function of crlrepository.go applies signature_validation_mode:
//
//	guardNone: verification is skipped under SignatureValidationModeNone
//	fatal: "verify_only" (a verification failure ends the intake only under ...ModeVerify),
//	       "always", "never"
func sigPolicy(f *ast.File, fn string) (guardNone bool, fatal string) {
	fd := findFunc(f, fn)
	var verifyIf *ast.IfStmt
	found := false
	// locate the call of verifyCRLSignature and the enclosing guard
	var walk func(n ast.Node, guarded bool)
	walk = func(n ast.Node, guarded bool) {
		ast.Inspect(n, func(m ast.Node) bool {
			if m == n {
				return true
			}
			switch x := m.(type) {
			case *ast.IfStmt:
				g := guarded
				if be, ok := x.Cond.(*ast.BinaryExpr); ok && be.Op == token.NEQ && selName(be.X) == "SignatureValidationModeParsed" && selName(be.Y) == "SignatureValidationModeNone" {
					g = true
				}
				walk(x.Body, g)
				if x.Else != nil {
					walk(x.Else, guarded)
				}
				return false
			case *ast.AssignStmt:
				if len(x.Rhs) == 1 {
					if ce, ok := x.Rhs[0].(*ast.CallExpr); ok && selName(ce.Fun) == "verifyCRLSignature" {
						if found {
							die("%s: verifyCRLSignature is called more than once", fn)
						}
						found = true
						guardNone = guarded
					}
				}
			}
			return true
		})
	}
	walk(fd.Body, false)
	if !found {
		die("%s: no call of verifyCRLSignature", fn)
	}
	// the `if <err> != nil` that follows it
	ast.Inspect(fd.Body, func(m ast.Node) bool {
		ifs, ok := m.(*ast.IfStmt)
		if !ok || verifyIf != nil {
			return true
		}
		if be, ok := ifs.Cond.(*ast.BinaryExpr); ok && be.Op == token.NEQ && selName(be.Y) == "nil" && (selName(be.X) == "verifyErr") {
			verifyIf = ifs
		}
		return true
	})
	if verifyIf == nil {
		die("%s: no `if verifyErr != nil` after verifyCRLSignature", fn)
	}
	fatal = "never"
	for _, st := range verifyIf.Body.List {
		switch x := st.(type) {
		case *ast.ReturnStmt:
			fatal = "always"
		case *ast.IfStmt:
			be, ok := x.Cond.(*ast.BinaryExpr)
			hasRet := false
			ast.Inspect(x.Body, func(k ast.Node) bool {
				if _, ok := k.(*ast.ReturnStmt); ok {
					hasRet = true
				}
				return true
			})
			if ok && be.Op == token.EQL && selName(be.X) == "SignatureValidationModeParsed" && selName(be.Y) == "SignatureValidationModeVerify" && hasRet {
				if fatal == "never" {
					fatal = "verify_only"
				}
			} else if hasRet {
				die("%s: unknown condition guards the return after a failed verification", fn)
			}
		}
	}
	return guardNone, fatal
}

func main() {
	defer func() {
		if r := recover(); r != nil {
			if msg, ok := r.(dieErr); ok {
				fmt.Fprintf(os.Stderr, "srcfacts: %s\n", string(msg))
				os.Exit(2)
			}
			panic(r)
		}
	}()
	if len(os.Args) != 3 {
		die("usage: srcfacts <repo> <out.v>")
	}
	repo = os.Args[1]
	out.WriteString("(* GENERATED by /verif/tools/srcfacts from the working tree of /repo. Do not edit. *)\n")
	out.WriteString("From Coq Require Import String List ZArith NArith Bool.\nImport ListNotations.\nOpen Scope string_scope.\n\n")

	section("configuration tables and defaults (configparser.go, config/config.go)", func() {
		cp := parseFile("configparser.go")
		switchTable(cp, "parseMode", "mode")
		switchTable(cp, "parseSignatureValidationMode", "sigmode")
		switchTable(cp, "parseStorageType", "storage")
		switchTable(cp, "parseCDPConfig", "fetchmode")
		if v := evalConst(findConst(cp, "defaultCRLUpdateInterval"), timeEnv); v != nil {
			fmt.Fprintf(&out, "Definition default_update_interval_ns : Z := %s%%Z.\n", v.ExactString())
		} else {
			die("defaultCRLUpdateInterval not evaluable")
		}

		cfg := parseFile("config/config.go")
		enumOrder(cfg, "RevocationCheckMode", "mode")
		enumOrder(cfg, "SignatureValidationMode", "sigmode")
		enumOrder(cfg, "StorageType", "storage")
		enumOrder(cfg, "CRLFetchMode", "fetchmode")
	})

	section("mode predicates and verifier stages (revocation.go)", func() {
		rev := parseFile("revocation.go")
		enabledPredicate(rev, "isOCSPCheckingEnabled", "ocsp_enabled_consts")
		enabledPredicate(rev, "isCRLCheckingEnabled", "crl_enabled_consts")
		verifyStages(rev)
	})

	section("asn1 length decoding and limits (asn1parser.go)", func() {
		ap := parseFile("core/asn1parser/asn1parser.go")
		lengthMasks(ap, "ReadLength", "read_length")
		lengthMasks(ap, "PeekLength", "peek_length")
		fmt.Fprintf(&out, "Definition struct_limit : Z := %s%%Z.\n", callArgConst(ap, "ReadStruct", "ReadTVLBytesWithLimit", 2))

		// every primitive value read goes through ReadValueBytesWithLimit with a constant limit
		out.WriteString("Definition value_limit_sites : list (string * Z) := [")
		for i, fn := range []string{"ReadUtcTime", "ParseBitString", "ParseOctetString", "ReadBigInt"} {
			if i > 0 {
				out.WriteString("; ")
			}
			fmt.Fprintf(&out, "(%s, %s%%Z)", coqStr(fn), callArgConst(ap, fn, "ReadValueBytesWithLimit", 2))
			// and the unbounded primitive must not be called directly there
			direct := false
			ast.Inspect(findFunc(ap, fn).Body, func(n ast.Node) bool {
				if ce, ok := n.(*ast.CallExpr); ok && selName(ce.Fun) == "ReadExpectedBytes" {
					direct = true
				}
				return true
			})
			if direct {
				die("%s calls ReadExpectedBytes directly (unbounded length)", fn)
			}
		}
		out.WriteString("].\n")
	})

	section("hash constants (hashes.go)", func() {
		hs := parseFile("core/hashing/hashes.go")
		fmt.Fprintf(&out, "Definition fnv_offset64 : N := %s%%N.\n", evalConst(findConst(hs, "offset64"), nil).ExactString())
		fmt.Fprintf(&out, "Definition fnv_prime64 : N := %s%%N.\n", evalConst(findConst(hs, "prime64"), nil).ExactString())
	})

	section("store keys (crlstore.go, map.go, leveldb.go)", func() {
		cs := parseFile("crl/crlstore/crlstore.go")
		fmt.Fprintf(&out, "Definition key_meta : string := %s.\n", coqStr(stringConst(cs, "MetaInfoKey")))
		fmt.Fprintf(&out, "Definition key_extmeta : string := %s.\n", coqStr(stringConst(cs, "ExtendedMetaInfoKey")))
		fmt.Fprintf(&out, "Definition key_sigcert : string := %s.\n", coqStr(stringConst(cs, "SignatureCertKey")))
		fmt.Fprintf(&out, "Definition key_locations : string := %s.\n", coqStr(stringConst(cs, "CRLLocationKey")))
		seps := keySeparators(parseFile("crl/crlstore/map.go"), "MapStore", []string{"InsertRevokedCert", "GetCertRevocationStatus"})
		seps = append(seps, keySeparators(parseFile("crl/crlstore/leveldb.go"), "LevelDbStore", []string{"InsertRevokedCert", "GetCertRevocationStatus"})...)
		if len(seps) != 4 {
			die("expected 4 key constructions, found %d", len(seps))
		}
		fmt.Fprintf(&out, "(* map insert, map lookup, leveldb insert, leveldb lookup *)\nDefinition key_separators : list string := %s.\n", coqStrList(seps))
	})

	section("CRL extensions and OIDs (extensionsupport.go)", func() {
		es := parseFile("crl/crlreader/extensionsupport/extensionsupport.go")
		oids := map[string]string{}
		for _, n := range []string{"OidCertExtSubjectKeyId", "OidCertExtAuthorityKeyId", "OidCrlExtCrlNumber"} {
			oids[n] = stringConst(es, n)
		}
		handled := mapLiteralStrings(es, "handledCRLExtensions", oids)
		var hl []string
		for _, p := range handled {
			if p[1] != "true" {
				die("handledCRLExtensions: value %s", p[1])
			}
			hl = append(hl, p[0])
		}
		fmt.Fprintf(&out, "Definition handled_crl_extensions : list string := %s.\n", coqStrList(hl))
		fmt.Fprintf(&out, "Definition oid_aki : string := %s.\nDefinition oid_ski : string := %s.\nDefinition oid_crl_number : string := %s.\n",
			coqStr(oids["OidCertExtAuthorityKeyId"]), coqStr(oids["OidCertExtSubjectKeyId"]), coqStr(oids["OidCrlExtCrlNumber"]))
	})

	section("signature algorithm tables (hashandverifystrategieslookup.go)", func() {
		hv := parseFile("core/signatureverify/hashandverifystrategieslookup.go")
		emitPairs("oid_hash_table", mapLiteralStrings(hv, "oidToHashAlgorithmMap", nil))
		emitPairs("oid_prefix_verifier_table", mapLiteralStrings(hv, "oidPrefixToVerifyStrategyMap", nil))
	})

	section("OCSP clock skew (ocsprevocationchecker.go)", func() {
		oc := parseFile("ocsp/ocsprevocationchecker.go")
		if v := evalConst(findConst(oc, "maxClockSkew"), timeEnv); v != nil {
			fmt.Fprintf(&out, "Definition max_clock_skew_ns : Z := %s%%Z.\n", v.ExactString())
		} else {
			die("maxClockSkew not evaluable")
		}
	})

	// updateWasRecentlyFinished: `!last.IsZero() && (time.Since(last) < interval / K)`
	section("refresh ticker (crlrevocationchecker.go)", func() {
		ck := parseFile("crl/crlrevocationchecker.go")
		{
			fd := findFunc(ck, "updateWasRecentlyFinished")
			if len(fd.Body.List) != 1 {
				die("updateWasRecentlyFinished: shape")
			}
			rs, ok := fd.Body.List[0].(*ast.ReturnStmt)
			if !ok {
				die("updateWasRecentlyFinished: shape")
			}
			and, ok := rs.Results[0].(*ast.BinaryExpr)
			if !ok || and.Op != token.LAND {
				die("updateWasRecentlyFinished: not a conjunction")
			}
			neg, ok := and.X.(*ast.UnaryExpr)
			if !ok || neg.Op != token.NOT {
				die("updateWasRecentlyFinished: first conjunct is not !x.IsZero()")
			}
			if c, ok := neg.X.(*ast.CallExpr); !ok || selName(c.Fun) != "IsZero" {
				die("updateWasRecentlyFinished: first conjunct is not !x.IsZero()")
			}
			cmp, ok := and.Y.(*ast.ParenExpr)
			if !ok {
				die("updateWasRecentlyFinished: second conjunct")
			}
			lt, ok := cmp.X.(*ast.BinaryExpr)
			if !ok || lt.Op != token.LSS {
				die("updateWasRecentlyFinished: comparison is not <")
			}
			if c, ok := lt.X.(*ast.CallExpr); !ok || selName(c.Fun) != "Since" {
				die("updateWasRecentlyFinished: lhs is not time.Since")
			}
			div, ok := lt.Y.(*ast.BinaryExpr)
			if !ok || div.Op != token.QUO || selName(div.X) != "UpdateIntervalParsed" {
				die("updateWasRecentlyFinished: rhs is not interval / k")
			}
			fmt.Fprintf(&out, "Definition skip_divisor : Z := %s%%Z.\n", evalConst(div.Y, nil).ExactString())
		}

		// is the "last update finished" stamp a field of the checker (per instance) or a package-level variable?
		{
			perInstance := false
			ast.Inspect(findFunc(ck, "updateWasRecentlyFinished").Body, func(n ast.Node) bool {
				if se, ok := n.(*ast.SelectorExpr); ok && se.Sel.Name == "lastCrlUpdateFinishTime" {
					if id, ok := se.X.(*ast.Ident); ok && id.Name == "c" {
						perInstance = true
					}
				}
				return true
			})
			global := false
			for _, d := range ck.Decls {
				if gd, ok := d.(*ast.GenDecl); ok && gd.Tok == token.VAR {
					for _, sp := range gd.Specs {
						for _, n := range sp.(*ast.ValueSpec).Names {
							if n.Name == "lastCrlUpdateFinishTime" {
								global = true
							}
						}
					}
				}
			}
			fmt.Fprintf(&out, "Definition refresh_stamp_per_instance : bool := %v.\n", perInstance && !global)
			// Cleanup closes the stop channel of the ticker goroutine
			closes := false
			ast.Inspect(findFunc(ck, "Cleanup").Body, func(n ast.Node) bool {
				if ce, ok := n.(*ast.CallExpr); ok && selName(ce.Fun) == "close" && len(ce.Args) == 1 && selName(ce.Args[0]) == "crlUpdateStop" {
					closes = true
				}
				return true
			})
			fmt.Fprintf(&out, "Definition cleanup_closes_stop_channel : bool := %v.\n", closes)
		}
	})

	// does a crl found in a persistent store count without a check (newEntry.Loaded = true), or only after
	// persistedCRLCounts: not under verify unless its verifying certificate is stored and still entitled?
	section("adoption of persisted CRLs (crlrepository.go)", func() {
		{
			rp := parseFile("crl/crlrepository/crlrepository.go")
			checked, found := false, false
			ast.Inspect(findFunc(rp, "addNewEmptyEntry").Body, func(n ast.Node) bool {
				as, ok := n.(*ast.AssignStmt)
				if !ok || len(as.Lhs) != 1 || len(as.Rhs) != 1 || selName(as.Lhs[0]) != "Loaded" {
					return true
				}
				found = true
				switch r := as.Rhs[0].(type) {
				case *ast.Ident:
					if r.Name != "true" {
						die("addNewEmptyEntry: Loaded assigned from %s", r.Name)
					}
				case *ast.CallExpr:
					if selName(r.Fun) != "persistedCRLCounts" {
						die("addNewEmptyEntry: Loaded assigned from an unknown call")
					}
					checked = true
				default:
					die("addNewEmptyEntry: unexpected assignment to Loaded")
				}
				return true
			})
			if !found {
				die("addNewEmptyEntry: no assignment to Loaded")
			}
			if checked {
				// the shape of the check itself: verify-only guard, stored certificate required, entitlement + equality
				fn := findFunc(rp, "persistedCRLCounts")
				var guard, stored, entitled, equal bool
				// the body of the function and of the helpers of the same file that it calls (one level)
				bodies := []*ast.BlockStmt{fn.Body}
				ast.Inspect(fn.Body, func(n ast.Node) bool {
					if ce, ok := n.(*ast.CallExpr); ok {
						for _, d := range rp.Decls {
							if fd, ok := d.(*ast.FuncDecl); ok && fd != fn && fd.Body != nil && fd.Name.Name == selName(ce.Fun) {
								bodies = append(bodies, fd.Body)
							}
						}
					}
					return true
				})
				visit := func(n ast.Node) bool {
					switch x := n.(type) {
					case *ast.BinaryExpr:
						if x.Op == token.NEQ && selName(x.X) == "SignatureValidationModeParsed" && selName(x.Y) == "SignatureValidationModeVerify" {
							guard = true
						}
					case *ast.CallExpr:
						switch selName(x.Fun) {
						case "GetCRLSignatureCert":
							stored = true
						case "IsEntitledCRLSigner":
							entitled = true
						case "Equal":
							equal = true
						}
					}
					return true
				}
				for _, b := range bodies {
					ast.Inspect(b, visit)
				}
				if !(guard && stored && entitled && equal) {
					die("persistedCRLCounts: shape not recognised (guard=%v stored=%v entitled=%v equal=%v)", guard, stored, entitled, equal)
				}
			}
			fmt.Fprintf(&out, "Definition persisted_adoption_checked : bool := %v.\n", checked)
		}
	})

	section("PEM reader constants (pemreader.go)", func() {
		pr := parseFile("core/pemreader/pemreader.go")
		fmt.Fprintf(&out, "Definition pem_max_line_length : nat := %s.\n", evalConst(findConst(pr, "pemMaxLineLength"), nil).ExactString())
		{
			e := findConst(pr, "pemPaddingRegEx")
			ce, ok := e.(*ast.CallExpr)
			if !ok {
				die("pemPaddingRegEx shape")
			}
			bl, ok := ce.Args[0].(*ast.BasicLit)
			if !ok {
				die("pemPaddingRegEx not literal")
			}
			// the Go source text of the literal (escapes kept as written)
			fmt.Fprintf(&out, "Definition pem_armour_regex_src : string := %s.\n", coqStr(strings.Trim(bl.Value, "\"`")))
		}
	})

	section("temporary names and start-up sweep (crlrepository.go, leveldb.go)", func() {
		rp := parseFile("crl/crlrepository/crlrepository.go")
		{
			pat := ""
			ast.Inspect(findFunc(rp, "deleteIfTempFileOrDir").Body, func(n ast.Node) bool {
				if ce, ok := n.(*ast.CallExpr); ok && selName(ce.Fun) == "MatchString" {
					if s, ok := strLit(ce.Args[0]); ok {
						pat = s
					}
				}
				return true
			})
			if pat == "" {
				die("temp regex not found")
			}
			fmt.Fprintf(&out, "Definition temp_sweep_regex : string := %s.\n", coqStr(pat))
			tp := ""
			ast.Inspect(findFunc(rp, "createTempFile").Body, func(n ast.Node) bool {
				if ce, ok := n.(*ast.CallExpr); ok && selName(ce.Fun) == "CreateTemp" {
					if s, ok := strLit(ce.Args[1]); ok {
						tp = s
					}
				}
				return true
			})
			if tp == "" {
				die("CreateTemp pattern not found")
			}
			fmt.Fprintf(&out, "Definition temp_file_pattern : string := %s.\n", coqStr(tp))
		}
		{
			ld := parseFile("crl/crlstore/leveldb.go")
			var parts []string
			ast.Inspect(findFunc(ld, "createRandomFileName").Body, func(n ast.Node) bool {
				if ce, ok := n.(*ast.CallExpr); ok && selName(ce.Fun) == "Join" && len(ce.Args) == 2 {
					ast.Inspect(ce.Args[1], func(m ast.Node) bool {
						if s, ok := m.(*ast.BasicLit); ok {
							v, _ := strconv.Unquote(s.Value)
							parts = append(parts, v)
						}
						return true
					})
				}
				return true
			})
			if len(parts) != 2 {
				die("createRandomFileName: expected prefix and suffix literals")
			}
			fmt.Fprintf(&out, "Definition temp_dir_prefix : string := %s.\nDefinition temp_dir_suffix : string := %s.\n", coqStr(parts[0]), coqStr(parts[1]))
		}
	})

	// Caddyfile adapter
	section("Caddyfile adapter (caddyfile.go)", func() {
		cf := parseFile("caddyfile.go")
		out.WriteString("(* block -> [(subdirective, (field, what the handler does with its argument))] *)\n")
		out.WriteString("Definition caddyfile_handlers : list (string * list (string * (string * string))) := [")
		blocks := [][2]string{{"top", "parseConfigEntryFromCaddyfile"}, {"crl", "parseCaddyFileCrlConfigEntry"}, {"cdp", "parseCaddyfileCRLCDPConfig"}, {"ocsp", "parseCaddyfileOCSPConfig"}}
		var rejects []string
		for i, b := range blocks {
			if i > 0 {
				out.WriteString("; ")
			}
			hs, rej := caddyHandlers(cf, b[1])
			fmt.Fprintf(&out, "(%s, [", coqStr(b[0]))
			for j, h := range hs {
				if j > 0 {
					out.WriteString("; ")
				}
				fmt.Fprintf(&out, "(%s, (%s, %s))", coqStr(h[0]), coqStr(h[1]), coqStr(h[2]))
			}
			out.WriteString("])")
			rejects = append(rejects, fmt.Sprintf("(%s, %v)", coqStr(b[0]), rej))
		}
		out.WriteString("].\n")
		fmt.Fprintf(&out, "Definition caddyfile_unknown_rejected : list (string * bool) := [%s].\n", strings.Join(rejects, "; "))
		// do the entry parsers that assign into a struct of their caller receive it by pointer?
		fmt.Fprintf(&out, "Definition caddyfile_by_pointer : list (string * bool) := [(\"top\", %v); (\"crl\", %v)].\n",
			paramIsPointer(cf, "parseConfigEntryFromCaddyfile", "certRevocationValidatorConfig"), paramIsPointer(cf, "parseCaddyFileCrlConfigEntry", "crlConfig"))
	})

	// signature policy of the two CRL intake paths (first load / refresh)
	section("signature policy of the intake paths (crlrepository.go)", func() {
		rp := parseFile("crl/crlrepository/crlrepository.go")
		for _, fn := range []string{"loadCRL", "updateCrlEntry"} {
			guardNone, fatal := sigPolicy(rp, fn)
			fmt.Fprintf(&out, "Definition sigpolicy_%s : bool * string := (%v, %s).\n", fn, guardNone, coqStr(fatal))
		}
	})
	fmt.Fprintf(&out, "(* sections whose source was not recognised (their facts are undefined above) *)\nDefinition unrecognised_sections : list string := %s.\n", coqStrList(unrecognised))

	if err := os.WriteFile(os.Args[2], []byte(out.String()), 0644); err != nil {
		die("%v", err)
	}
}
