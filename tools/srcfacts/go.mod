module srcfacts

go 1.22
