#!/usr/bin/env python3
"""seedimport.py <PROP>  — copy the deliverables of /tmp/seed/<PROP>/out into /verif/seeded/<PROP>-mN/"""
import json, os, shutil, sys, glob
p = sys.argv[1]; base = sys.argv[2] if len(sys.argv) > 2 else "/tmp/seed"; src = f"{base}/{p}/out"; V = os.path.dirname(os.path.dirname(os.path.abspath(__file__)))
metas = json.load(open(os.path.join(src, "meta.json")))
for m in metas:
    mid = m["id"]; dst = os.path.join(V, "seeded", f"{p}-{mid}"); os.makedirs(dst, exist_ok=True)
    shutil.copyfile(os.path.join(src, f"{mid}.diff"), os.path.join(dst, "patch.diff"))
    for f in glob.glob(os.path.join(src, f"{mid}_demo*")):
        if os.path.isdir(f): shutil.copytree(f, os.path.join(dst, os.path.basename(f)), dirs_exist_ok=True)
        else: shutil.copyfile(f, os.path.join(dst, os.path.basename(f)))
    m2 = dict(m); m2["property"] = p; m2["origin"] = "fresh sub-agent given only the property text and a scratch worktree"
    json.dump(m2, open(os.path.join(dst, "meta.json"), "w"), indent=1)
    print(dst)
