#!/bin/bash
# run every seeded mutation against the check of its property; one line per seed
cd "$(dirname "$0")/.."
for d in seeded/*/; do
  s=$(basename $d)
  out=$(python3 tools/seedtest.py seeded/$s 2>&1 | head -1)
  echo "$s: $out"
done
