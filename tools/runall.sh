#!/bin/bash
# run every claimed check (quick tier by default) and print one line per property
cd "$(dirname "$0")/.."
tier=${1:-quick}
rc=0
for p in $(python3 -c "import json;print(' '.join(c['property_id'] for c in json.load(open('MANIFEST.json'))['checks']))"); do
  if [ "$tier" = thorough ]; then out=$(./check $p --tier thorough 2>&1); else out=$(./check $p 2>&1); fi
  e=$?
  echo "$out" | grep -E "VIOLATION|KNOWN-FINDING|^$p:" 
  [ $e -ne 0 ] && rc=1
done
exit $rc
