#!/usr/bin/env python3
import subprocess, os, re
V = os.path.dirname(os.path.dirname(os.path.abspath(__file__)))
t = subprocess.run(["python3", os.path.join(V, "tools", "mkseedtable.py")], capture_output=True, text=True).stdout
p = os.path.join(V, "DESIGN.md"); s = open(p).read()
s = re.sub(r"<!-- SEEDS-TABLE-BEGIN -->.*?<!-- SEEDS-TABLE-END -->", "<!-- SEEDS-TABLE-BEGIN -->\n" + t.replace("\\", "\\\\") + "<!-- SEEDS-TABLE-END -->", s, flags=re.S)
open(p, "w").write(s)
