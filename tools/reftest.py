#!/usr/bin/env python3
"""reftest.py <patch.diff> [PROP ...] — apply a (supposedly behaviour-preserving) patch to /repo, run the checks of all
(or the named) properties concurrently, undo the patch, print one line per check that did not pass."""
import json, os, subprocess, sys
from concurrent.futures import ThreadPoolExecutor
REPO = "/repo"; V = os.path.dirname(os.path.dirname(os.path.abspath(__file__)))
def sh(cmd, **kw): return subprocess.run(cmd, shell=True, capture_output=True, text=True, **kw)
patch = os.path.abspath(sys.argv[1])
props = sys.argv[2:] or [c["property_id"] for c in json.load(open(os.path.join(V, "MANIFEST.json")))["checks"]]
if sh(f"git -C {REPO} status --porcelain").stdout.strip(): sys.exit("refusing: /repo not clean")
r = sh(f"git -C {REPO} apply {patch}")
if r.returncode: sys.exit("patch does not apply: " + r.stderr)
out = {}
try:
    # one serial run first so that the shared build (translators, coq, harness) happens once
    first = props[0]
    def run(p):
        r = sh(f"{V}/check {p}", cwd=V)
        lines = [l for l in r.stdout.splitlines() if l.startswith("VIOLATION")]
        what = ""
        for l in lines:
            try:
                d = json.load(open(l.split("replay=")[1].split()[0]))
                what = (d.get("what") or "; ".join(d.get("no_longer_checks", [])))[:300]
            except Exception: pass
        return p, r.returncode, lines, what
    out[first] = run(first)
    with ThreadPoolExecutor(max_workers=10) as ex:
        for res in ex.map(run, props[1:]): out[res[0]] = res
finally:
    sh(f"git -C {REPO} checkout -- ."); sh(f"git -C {REPO} clean -fd")
bad = {p: v for p, v in out.items() if v[1] != 0}
print(os.path.basename(os.path.dirname(patch)) + "/" + os.path.basename(patch), "alarms:", len(bad), "of", len(props))
for p, (_, rc, lines, what) in sorted(bad.items()):
    print("  ", p, "no-input" if any("no-failing-input-found" in l for l in lines) else "WITH-INPUT", "|", what.replace("\n", " ")[:220])
json.dump({p: {"exit": v[1], "lines": v[2], "what": v[3]} for p, v in out.items()}, open(patch + ".result.json", "w"), indent=1)
