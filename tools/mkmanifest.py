#!/usr/bin/env python3
"""Regenerates /verif/MANIFEST.json from the table below (kept here so the manifest stays valid)."""
import json, os
VERIF = os.path.dirname(os.path.dirname(os.path.abspath(__file__)))
props = [json.loads(l) for l in open(os.path.join(VERIF, "properties.jsonl"))]

NOTE = ("Trusted: Coq 8.16.1 kernel + vm_compute; no axioms (Print Assumptions recorded per run); tools/srcfacts "
        "(Go AST -> coq/gen/GenFacts.v) and the Go correspondence harness; library behaviour (encoding/asn1, bufio, "
        "base64, crypto, x/crypto/ocsp, cache2go, goleveldb, os) assumed as documented and exercised for real on every run.")

# id -> (claimed?, level text, technique, design_ref, partial note)
CLAIMS = {
 "C18": ("Coq theorem C18_refines: for every operation sequence (any length) over a live and a staging store, both backends' "
         "model returns exactly what the abstract (issuer, serial)-keyed map returns, under the no-hash-collision hypothesis the "
         "property grants; key injectivity and reserved-key disjointness proved from the source-generated separator/keys; plus "
         "operation sequences run on the real MapStore and LevelDbStore and compared with the model (observations and raw key bytes).",
         "Coq refinement proof (hashed store -> abstract map) + op-sequence correspondence on both real backends", "DESIGN.md §3 C18", ""),
 "C09": ("Coq theorems C09_fault_is_error / C09_undecodable_is_error / C09_not_revoked_only_if_absent over the store model; "
         "plus injected lookup-time faults on the real backends (closed DB, corrupted and truncated records, removed directory) "
         "compared with the model and with the property's own wording.",
         "Coq proof over the store model + fault-injection correspondence", "DESIGN.md §3 C09", ""),
 "C06": ("Coq theorems C06_pem_roundtrip (for every byte string and LF/CRLF line ends the PEM path returns exactly that byte string) and C06_pem, C06_reject_unknown_version / C06_reject_unknown_version_document (every version byte >= 2 is rejected before anything reaches the consumer: at the header phase, and for whole documents with arbitrary bytes after the version field, both passes, every chunk schedule), and C06_main: for every document of the profile (any number of entries, any leaf contents, optional fields in "
         "every combination), every library oracle and EVERY pair of chunk schedules, the reader model run on the DER encoding emits "
         "exactly the reference events and hashes exactly the DER tbsCertList (induction over the entry list; C06_sched, C06_digest, "
         "C06_reject_critical are corollaries); the model is tied to the real reader by ~330 generated CRLs (all algorithms, widths, "
         "length classes, DER/PEM-LF/PEM-CRLF, issuer-padding sweeps across the 4096-byte window and the PEM line phase) evaluated in "
         "both and compared event by event, plus a field-by-field comparison with encoding/asn1's whole-document decoding.",
         "Coq proof by induction over entries and chunk schedules + byte-level correspondence with the real reader", "DESIGN.md §3 C06",
         "the PEM line filter and base64 step are modelled and compared on every PEM case but the PEM round-trip theorem is not proved; rejection of version>2 is covered by correspondence cases only."),
 "C07": ("Coq theorem C07_total: for every byte stream, library oracle, chunk schedule and consumer failure point the reader model "
         "never panics, never exhausts the fuel length+1 (no loop without consuming input) and never requests more than limit+17 bytes "
         "at once; tied to the real reader by ~4000 hostile inputs (random, every truncation, every length field rewritten to 19 forms, "
         "tag swaps, PEM framing faults, deep nesting) run in child processes under ulimit -v with a watchdog, outcome class compared with the model.",
         "Coq proof of totality over all byte strings + hostile-input correspondence in sandboxed children", "DESIGN.md §3 C07",
         "Go's encoding/asn1, bufio and base64 are an oracle of the model; that they themselves do not panic or over-allocate on the bounded slices they are given is exercised, not proved."),
 "C01": ("Coq theorems composing four layers, each for all inputs of its layer: C01_reader (from C06_main: every entry of a "
         "profile document reaches the consumer for every list size/position/schedule), C01_store (an inserted pair is never answered "
         "'not revoked', no collision hypothesis), C01_repo (in every reachable state of every history a list in force that lists "
         "issuer+serial makes the handshake fail) and C01_compose (every CRL-enabling mode rejects whatever OCSP said); plus real "
         "end-to-end handshakes through VerifyClientCertificate over sources x encodings x list sizes x positions x serial widths x "
         "storage x mode x OCSP answer.",
         "Coq proofs layered reader/store/repository/verifier + end-to-end correspondence", "DESIGN.md §3 C01", ""),
 "C08": ("Coq theorems over the repository model: C08_failed_refresh_keeps (a refresh that obtains nothing acceptable leaves the whole "
         "state unchanged, for every failure kind incl. storage faults), C08_all_or_nothing, C08_later_success, C08_later_success_after_rollover (the repository learns a new signer from a handshake chain after a refresh failed verification; key rollover is part of the model), C08_old_then_new; "
         "histories with every failure kind, injected staging/consumer faults and key rollovers on both real backends compared with the model; 16 observer goroutines during 36 (thorough: 200) refreshes in a child process (a serial on every version is always rejected, a version never returns once a newer one was seen).",
         "Coq invariant proofs over the repository state machine + fault-injected history correspondence", "DESIGN.md §3 C08",
         "the interleaving statement is proved on the lock-granular model (lookups and the commit are atomic sections); that sync.RWMutex and the LevelDB rename+reopen provide that atomicity is exercised, not proved."),
 "C10": ("Coq theorems C10_strict / C10_strict_denies_unusable / C10_lenient over every history of the repository model "
         "(invariant: loaded <-> a whole accepted list is in force); histories over CDP sets (http, ldap-only, mixed, several URLs) on "
         "all 24 configurations compared with the model and with the property's reference semantics.",
         "Coq invariant proofs over all histories + history correspondence", "DESIGN.md §3 C10", ""),
 "C11": ("Coq theorems C11_precise (a 'revoked' verdict exhibits an accepted list in force listing issuer+serial, over every history), "
         "C11_rejected_leaves_no_trace, C11_superseded, C11_store/C11_key (store refinement, injective keys); histories with "
         "rejected-then-accepted loads, two issuers with overlapping serials and near-miss probes compared with the model.",
         "Coq invariant proofs + store refinement + history correspondence", "DESIGN.md §3 C11", ""),
 "C16": ("Coq theorems C16_uniform / C16_meaning / C16_verify_never_unverified / C16_verify_after_reconfiguration (for every sequence of "
         "earlier deployments, each with its own configuration and history, nothing unverified is in force after a restart under verify) / "
         "C16_provision_verify / C16_provision_keeps_invariant (the provision-time path of configured lists) / C16_lenient_refresh / C16_default over a policy and an adoption check that srcfacts regenerates from loadCRL, updateCrlEntry and "
         "addNewEmptyEntry on every run; the 3x3x4x2 matrix (x fetch mode x strict) run on the real validator, the provision-time crl_urls "
         "path incl. the unset mode, and two-deployment histories (mode or trusted signer changed across the restart) compared with the model "
         "and with a fresh work_dir.",
         "Coq proof over source-generated policy + exhaustive matrix correspondence", "DESIGN.md §3 C16", ""),
 "C12": ("Coq theorems C12_crash_consistent (for every atomic file-system action of an intake — download, each staging write, acceptance, "
         "each of the five swap steps — the image after restart holds the old complete list, nothing, or the new complete accepted list, and "
         "no temp artefact), C12_disk_invariant (every reachable disk state holds only whole accepted lists), C12_restart_loaded; real "
         "copies of the work directory taken at every staging write and at the five hook sites of LevelDbStore.Update, restarted with "
         "origins down and compared with the model.",
         "Coq proof over the crash-point model + crash-image correspondence via hook sites", "DESIGN.md §3 C12",
         "process death is emulated by copying the work directory at the instant (no power-loss semantics); LevelDB's own recovery of a copied directory is library behaviour, exercised not proved."),
 "C02": ("Coq theorems C02_revoked_fetched (for every responder list, position and behaviour of the other responders the first authentic "
         "'revoked' decides), C02_revoked_cached, C02_strict, C02_lenient, C02_no_responder over the OCSP loop model; every responder list of "
         "length <= 2 (thorough: 3) over ten behaviours x strict x cache duration run as real handshakes, second handshake with all "
         "responders down, compared with the model.",
         "Coq proof by induction over responder lists + exhaustive responder-table correspondence", "DESIGN.md §3 C02", ""),
 "C05": ("Coq theorems C05_unauthentic_is_no_answer (a non-authentic response has exactly the effect of no response, on verdict and cache, "
         "anywhere in the list) and C05_cache_only_authentic; the bit 'authentic' is established against the real code for every signer "
         "kind (issuer, delegate with/without OCSPSigning EKU, the client's own certificate, stranger with/without embedded certificate, "
         "sibling CA), wrong serial, all OCSP error statuses and single-byte mutations of authentic responses.",
         "Coq proof over the answer-filter model + forged-response correspondence", "DESIGN.md §3 C05",
         "that RSA/ECDSA verification in x/crypto/ocsp rejects what it should is library behaviour, exercised with real signatures, not proved."),
 "C14": ("Coq theorems C14_key, C14_lifetime(+_value), C14_reads_do_not_extend, C14_expired_never_returned, C14_zero_caches_nothing, "
         "C14_failed_not_cached over the cache model (integer time, skew from the source); real-time runs with 400/700 ms lifetimes read at "
         "3/8 of the lifetime, two issuers with identical subject+serial, future/past nextUpdate, zero duration, two validator instances.",
         "Coq proof over the cache model + timed correspondence", "DESIGN.md §3 C14",
         "wall-clock time and cache2go's timers are runtime behaviour: the model treats time as exact integers, the harness judges only observations at least 20% away from the expiry boundary."),
 "C04": ("Coq theorems over the chain-matcher model: C04_verified_means (an accepted signature exhibits a certificate of the chain / trusted "
         "list that matches by name+algorithm or AKI, is entitled — not the end-entity, cRLSign when key usage is present — and whose key made "
         "the signature over untampered content), C04_end_entity_never, C04_leaf_is_marked, C04_crlsign_required, C04_tampered_never, "
         "C04_foreign_key_never, C04_unsupported_algorithm; with C06_digest (digest input = DER tbsCertList) and C16 (verify admits only "
         "verified lists). Real CRLs: nine signer kinds x four AKI forms, ten algorithms + RSA-PSS/Ed25519, bit flips over a whole CRL.",
         "Coq proof over the chain-matcher model + real-crypto correspondence", "DESIGN.md §3 C04",
         "RSA/ECDSA verification is idealised in the model (valid only under the signing key over the signed bytes); the real primitives are exercised on every case and mutation, not proved."),
 "C19": ("Coq theorems over a configuration model whose Caddyfile handler table, pointer/value passing, enum tables and defaults are "
         "regenerated from caddyfile.go / configparser.go / config.go on every run: C19_caddyfile_eq_json (every sequence of option "
         "occurrences yields the same raw configuration in both syntaxes), C19_defaults, C19_unknown_values_rejected (for every string), "
         "C19_unknown_keys_rejected; ~100 assignments (each option alone, every mode with/without everything, configured CRLs under every "
         "sig x fetch x storage, random subsets, misspelt keys at four levels, invalid values) loaded in both syntaxes and provisioned for real.",
         "Coq proof over source-generated adapter tables + two-syntax load/provision correspondence", "DESIGN.md §3 C19",
         "'every valid combination provisions' is exercised by the harness (with C16/C15 covering the provisioning path), not stated as one theorem."),
 "C15": ("Coq theorems over a discrete-time model of n validator instances whose skip rule (divisor) and stamp placement (per instance or "
         "process-global) are regenerated from the source: C15_tick_liveness (for every interleaving of ticks and forced passes of any number "
         "of instances, at each tick of instance i one of ITS passes finishes within (t - T/2, t + d]), C15_independent (the stamp an instance "
         "reads is the finish time of one of its own passes), C15_configured_in_force / C15_first_handshake_after_provisioning (over the repository model: "
         "when provisioning returns without error every configured location holds in force exactly the list it serves, for every configuration, trusted-signer "
         "set and earlier disk content); real tickers (150..900 ms, 1..3 instances with phase offsets, CDP and crl_urls, "
         "fail-k-then-succeed) observed at the origin and compared with the model tick by tick.",
         "Coq proof over the tick/stamp model + real-ticker correspondence", "DESIGN.md §3 C15",
         "wall-clock time, time.Ticker and goroutine scheduling are runtime behaviour: the model is discrete-time, the harness allows 25% scheduling slack; the provisioning theorem is tied to the code by the C16 provisioning matrix (evaluated in the model) and by the C15 stage that probes the entry state the moment Provision returns."),
 "C20": ("Coq theorems with name patterns generated from the source: C20_store_name (for every location string the store directory is 64 "
         "characters of [0-9a-f] — no separator, dot or underscore), C20_store_not_swept, C20_temps_swept, C20_patterns, C20_intake_clean "
         "(after an intake with any outcome no temp artefact remains and no live directory is lost), C20_cleanup_stops_ticker; a sandbox diff "
         "around a real validator fed 18 hostile locations, restart, start-up sweep with look-alike foreign names, provision/cleanup cycles "
         "with goroutine counting.",
         "Coq proof over naming/sweep/intake file-system model + sandbox-diff correspondence", "DESIGN.md §3 C20",
         "the real file system, database handles and goroutines are runtime objects: exercised (directory diff, LOCK reuse, goroutine count), not proved; failures inside the directory swap are outside the modelled outcomes."),
 "C17": ("Coq theorems C17_allocation_bound (for every document, any number of entries — indeed every byte stream — each allocation request "
         "of the reader is at most 81 937 bytes, a constant from the source) and C17_streamed_in_order (entries reach the consumer one by one, "
         "in order, as they are read); the live heap of a child process is sampled while a real validator with disk storage loads CRLs of "
         "20 000 and 200 000 (thorough: 2 000 000) entries from file and HTTP, DER and PEM.",
         "Coq proof of a constant allocation bound + heap-growth measurement in a child process", "DESIGN.md §3 C17",
         "the Go heap, garbage collector, LevelDB memtables and the HTTP client are runtime: the model shows only that the reader asks for bounded memory and retains nothing; the end-to-end bound is measured, not proved."),
 "C13": ("Coq: C13_deadlock_free (mechanised wait-for argument: in every reachable state of finitely many threads some unfinished thread can step) and a lockset checker for a lock/access skeleton language with a machine-checked soundness theorem (C13_checker_sound: for any "
         "number of threads and every interleaving under reader/writer lock semantics an accepted program has no data race, never re-acquires "
         "a held lock, takes locks in one global order, and ends holding nothing), applied to the skeleton that tools/lockskel regenerates from "
         "crlrepository.go, crlrevocationchecker.go, ocsprevocationchecker.go and multischemescrlloader.go on every run "
         "(C13_skeleton_accepted, C13_no_race_no_relock); plus a race-detector build of the harness stressing handshakes x refreshes x "
         "config updates x cleanup on both backends and fetch modes and OCSP lookups around cache expiry, with watchdogs and verdict checks.",
         "Coq-verified lockset checker on a source-generated skeleton + race-detector stress", "DESIGN.md §3 C13",
         "the Go memory model and scheduler are not modelled; the skeleton is syntactic (fields and locks resolved by name, one abstract instance per receiver variable); freedom from deadlock is proved as no-relock + a global lock order (the classical progress argument is not mechanised); serialisability of verdicts is checked by the stress run (verdicts outside the set some sequential order allows are failures), not proved."),
 "C03": ("Coq theorems C03_table/C03_enabled/C03_iff/C03_effects over a model whose mode table, enable predicates and "
         "VerifyClientCertificate stage list are regenerated from the Go source on every run; plus an exhaustive 1536-cell "
         "table of real handshakes evaluated against the model (vm_compute) and against the property's own wording.",
         "Coq proof over source-generated decision tables + exhaustive correspondence table", "DESIGN.md §3 C03", ""),
}
PENDING = "check not built yet in this round (planned, see DESIGN.md §7); not a claim that the technique cannot apply"

checks, na = [], []
for p in props:
    i = p["id"]
    if i in CLAIMS:
        text, tech, ref, partial = CLAIMS[i]
        checks.append({
            "property_id": i,
            "quick_cmd": "./check %s --tier quick" % i,
            "thorough_cmd": "./check %s --tier thorough" % i,
            "evidence_file": "evidence/%s.json" % i,
            "replay_cmd_template": "./check %s --replay {path}" % i,
            "engine": "coq+harness",
            "level_claimed": {"category": "proof", "text": text + ((" PARTIAL: " + partial) if partial else ""), "design_ref": ref},
            "level_note": NOTE,
            "technique": tech,
        })
    else:
        na.append({"property_id": i, "reason": PENDING})

m = {
 "version": 1,
 "setup_cmd": "./setup.sh",
 "hooks": {
   "guard": "verif",
   "enable": "go build -tags verif (the harness module replaces the dependency with /repo)",
   "baseline_off_cmd": "cd /repo && go build ./... && go test -vet=off -count=1 -timeout 25m ./...",
   "source_commits": ["9db60bf", "9f9cd1b", "d004980", "49e73a7", "3bc6a51"],
   "add_only": True,
 },
 "engines": [
   {"name": "coq", "path": "coq/", "serves_properties": [c["property_id"] for c in checks], "kind_free_text": "Coq 8.16.1 development: executable model + property theorems (props/Cxx.v)"},
   {"name": "srcfacts", "path": "tools/srcfacts/", "serves_properties": [c["property_id"] for c in checks], "kind_free_text": "Go AST translator regenerating coq/gen/GenFacts.v on every run"},
   {"name": "lockskel", "path": "tools/lockskel/", "serves_properties": ["C13"], "kind_free_text": "Go AST translator regenerating coq/gen/GenSkel.v (lock/access skeleton of four source files) on every run"},
   {"name": "harness", "path": "harness/", "serves_properties": [c["property_id"] for c in checks], "kind_free_text": "Go correspondence harness: runs the real implementation, writes Coq case files, direct property oracles"},
 ],
 "checks": checks,
 "not_applicable": na,
 "notes": "Every check: ./check <ID> [--tier quick|thorough]; see DESIGN.md.",
}
json.dump(m, open(os.path.join(VERIF, "MANIFEST.json"), "w"), indent=1)
print("claimed:", [c["property_id"] for c in checks])
