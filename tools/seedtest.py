#!/usr/bin/env python3
"""seedtest.py <seed-dir> [PROP ...]
Apply <seed-dir>/patch.diff to /repo, run the checks of the named properties (default: the
property the seed was written for, from meta.json), undo the patch, and record the outcome in
<seed-dir>/result.json.  Never commits anything in /repo."""
import json, os, subprocess, sys, time
REPO = "/repo"; VERIF = os.path.dirname(os.path.dirname(os.path.abspath(__file__)))
def sh(cmd, **kw): return subprocess.run(cmd, shell=True, capture_output=True, text=True, **kw)
def main():
    sd = os.path.abspath(sys.argv[1]); meta = json.load(open(os.path.join(sd, "meta.json")))
    props = sys.argv[2:] or [meta["property"]]
    if sh(f"git -C {REPO} status --porcelain").stdout.strip():
        sys.exit("refusing: /repo working tree is not clean")
    r = sh(f"git -C {REPO} apply {sd}/patch.diff")
    if r.returncode != 0: sys.exit("patch does not apply: " + r.stderr)
    res = {"seed": os.path.basename(sd), "property": meta["property"], "checks": {}}
    try:
        for p in props:
            t = time.time(); r = sh(f"{VERIF}/check {p}", cwd=VERIF)
            lines = [l for l in r.stdout.splitlines() if l.startswith("VIOLATION") or l.startswith("KNOWN-FINDING")]
            what = None
            for l in lines:
                if l.startswith("VIOLATION"):
                    rp = l.split("replay=")[1].split()[0]
                    try:
                        d = json.load(open(rp)); what = (d.get("what") or "; ".join(d.get("no_longer_checks", [])))[:600]
                    except Exception: pass
            res["checks"][p] = {"exit": r.returncode, "lines": lines, "what": what, "seconds": round(time.time() - t, 1)}
            print(p, "exit", r.returncode, (lines or ["-"])[0][:160]); print("   ", (what or "")[:300])
    finally:
        sh(f"git -C {REPO} checkout -- .")
        sh(f"git -C {REPO} clean -fd")
    res["caught"] = any(c["exit"] != 0 for c in res["checks"].values())
    res["caught_with_input"] = any(c["exit"] != 0 and not any("no-failing-input-found" in l for l in c["lines"]) for c in res["checks"].values())
    old = {}
    rp = os.path.join(sd, "result.json")
    if os.path.exists(rp): old = json.load(open(rp)).get("checks", {})
    old.update(res["checks"]); res["checks"] = old
    json.dump(res, open(rp, "w"), indent=1)
main()
