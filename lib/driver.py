import os, sys, json, time, subprocess, re, shutil, fcntl, hashlib, glob
from concurrent.futures import ThreadPoolExecutor

VERIF = os.path.dirname(os.path.dirname(os.path.abspath(__file__)))
REPO = os.environ.get("VERIF_REPO", "/repo")
COQ = os.path.join(VERIF, "coq")
WORK = os.path.join(VERIF, "_work")
BIN = os.path.join(VERIF, "bin")
GOENV = dict(os.environ, GOFLAGS="-mod=mod", GOPROXY="off", GOSUMDB="off", GOTOOLCHAIN="local",
             CARGO_NET_OFFLINE="true")

TRUSTED_BASE = [
    "Coq 8.16.1 kernel and vm_compute (no native_compute); full .vo build via coq_makefile/make (no -vos)",
    "no axioms declared; Print Assumptions of every property theorem is recorded in coverage.axioms",
    "tools/srcfacts (Go AST -> coq/gen/GenFacts.v), re-run on every check",
    "the Go harness (generators, projections, direct oracles) and lib/driver.py",
    "Go standard library, x/crypto/ocsp, cache2go, goleveldb, bufio, encoding/asn1, encoding/base64: modelled by their documented behaviour and exercised for real by the harness",
]

def log(*a):
    print(*a, file=sys.stderr, flush=True)

def run(cmd, cwd=None, env=None, timeout=None):
    t0 = time.time()
    try:
        p = subprocess.run(cmd, cwd=cwd, env=env, stdout=subprocess.PIPE, stderr=subprocess.STDOUT,
                           timeout=timeout, text=True, errors="replace")
        return p.returncode, p.stdout, time.time() - t0
    except subprocess.TimeoutExpired as e:
        out = e.stdout if isinstance(e.stdout, str) else (e.stdout or b"").decode(errors="replace")
        return 124, out + "\n[timeout]", time.time() - t0

class Lock:
    def __init__(self, name):
        os.makedirs(WORK, exist_ok=True)
        self.path = os.path.join(WORK, name)
    def __enter__(self):
        self.f = open(self.path, "w")
        fcntl.flock(self.f, fcntl.LOCK_EX)
    def __exit__(self, *a):
        fcntl.flock(self.f, fcntl.LOCK_UN)
        self.f.close()

def newer(src_glob, target):
    if not os.path.exists(target):
        return True
    t = os.path.getmtime(target)
    return any(os.path.getmtime(p) > t for p in glob.glob(src_glob, recursive=True))

def replace_if_changed(tmp, dst):
    if os.path.exists(dst) and open(tmp, "rb").read() == open(dst, "rb").read():
        os.remove(tmp)
        return False
    os.replace(tmp, dst)
    return True

# ---------------------------------------------------------------- preparation
TRANSLATORS = [
    # (tool dir, binary, output .v)
    ("srcfacts", "srcfacts", "gen/GenFacts.v"),
    ("lockskel", "lockskel", "gen/GenSkel.v"),
]

def coq_files():
    out = []
    for line in open(os.path.join(COQ, "_CoqProject")):
        line = line.strip()
        if line.endswith(".v"):
            out.append(line)
    return out

def prepare(pid=None):
    """Regenerate gen/*.v, build Coq and the harness.  Returns a status dict."""
    st = {"translator_errors": {}, "coq_log": "", "harness_error": None}
    os.makedirs(BIN, exist_ok=True)
    os.makedirs(os.path.join(COQ, "gen"), exist_ok=True)
    with Lock(".prepare.lock"):
        for tool, binary, outv in TRANSLATORS:
            tdir = os.path.join(VERIF, "tools", tool)
            if not os.path.isdir(tdir):
                continue
            bpath = os.path.join(BIN, binary)
            if newer(os.path.join(tdir, "*.go"), bpath):
                rc, out, _ = run(["go", "build", "-o", bpath, "."], cwd=tdir, env=GOENV, timeout=600)
                if rc != 0:
                    st["translator_errors"][tool] = "build failed: " + out[-2000:]
                    continue
            dst = os.path.join(COQ, outv)
            tmp = dst + ".tmp"
            rc, out, _ = run([bpath, REPO, tmp], timeout=120)
            if rc != 0:
                st["translator_errors"][tool] = out.strip()[-2000:]
                if os.path.exists(tmp):
                    os.remove(tmp)
                continue
            if out.strip():
                st.setdefault("translator_warnings", {})[tool] = out.strip()[-1500:]
            replace_if_changed(tmp, dst)
        # Coq: every source file of the development must be part of the project
        listed = set(l.strip() for l in open(os.path.join(COQ, "_CoqProject")) if l.strip().endswith(".v"))
        present = set()
        for sub in ("", "props", "gen"):
            for f in glob.glob(os.path.join(COQ, sub, "*.v")):
                present.add(os.path.relpath(f, COQ))
        unlisted = sorted(present - listed)
        if unlisted:
            sys.exit("machinery error: Coq sources not listed in coq/_CoqProject: " + " ".join(unlisted))
        mk = os.path.join(COQ, "Makefile")
        if newer(os.path.join(COQ, "_CoqProject"), mk):
            run(["coq_makefile", "-f", "_CoqProject", "-o", "Makefile"], cwd=COQ, timeout=60)
        rc, out, dt = run(["make", "-k", "-j16"], cwd=COQ, timeout=3000)
        st["coq_log"] = out
        st["coq_rc"] = rc
        st["coq_s"] = dt
        # harness
        hdir = os.path.join(VERIF, "harness")
        try:
            shutil.copyfile(os.path.join(REPO, "go.sum"), os.path.join(hdir, "go.sum"))
        except OSError as e:
            st["harness_error"] = str(e)
        rc, out, dt = run(["go", "build", "-tags", "verif", "-o", os.path.join(BIN, "harness"), "."],
                          cwd=hdir, env=GOENV, timeout=1200)
        st["harness_s"] = dt
        if rc != 0:
            st["harness_error"] = out[-4000:]
        elif pid == "C13":
            # the stress part of C13 runs under the race detector
            rc, out, dt = run(["go", "build", "-race", "-tags", "verif", "-o", os.path.join(BIN, "harness-race"), "."],
                              cwd=hdir, env=GOENV, timeout=1800)
            if rc != 0:
                st["harness_error"] = "race-detector build failed: " + out[-3000:]
    return st

DEPS = {}

def dep_cone(prop_file):
    """Files (relative to coq/) that props/<id>.v transitively depends on, via coqdep."""
    rc, out, _ = run(["coqdep", "-f", "_CoqProject"], cwd=COQ, timeout=120)
    deps = DEPS
    for line in out.splitlines():
        if ":" not in line:
            continue
        lhs, rhs = line.split(":", 1)
        tgt = [x for x in lhs.split() if x.endswith(".vo")]
        if not tgt:
            continue
        v = tgt[0][:-1]
        deps[v] = [x[:-1] for x in rhs.split() if x.endswith(".vo") and not x.startswith("/")]
    cone, todo = [], [prop_file]
    while todo:
        f = todo.pop()
        if f in cone:
            continue
        cone.append(f)
        todo += deps.get(f, [])
    return sorted(cone)

STMT = re.compile(r"^\s*(?:Local\s+|Global\s+|#\[[^\]]*\]\s*)*(Theorem|Lemma|Corollary|Fact|Proposition|Example|Remark)\s+([A-Za-z0-9_']+)", re.M)

def count_statements(files):
    names = []
    for f in files:
        p = os.path.join(COQ, f)
        if os.path.exists(p) and not f.startswith("gen/"):
            names += [m.group(2) for m in STMT.finditer(open(p).read())]
    return names

FORBIDDEN = re.compile(r"\b(Admitted|admit|Axiom|Parameter|Conjecture|Admit Obligations|bypass_check)\b|Unset\s+Guard|type-in-type|impredicative-set")

def forbidden_scan():
    bad = []
    for f in coq_files():
        p = os.path.join(COQ, f)
        if not os.path.exists(p):
            continue
        txt = re.sub(r"\(\*.*?\*\)", "", open(p).read(), flags=re.S)
        for m in FORBIDDEN.finditer(txt):
            bad.append("%s: %s" % (f, m.group(0)))
    return bad

def vo_uptodate(f, _memo=None):
    """.vo exists, is newer than its source and than the .vo of every dependency, recursively
    (make -k leaves stale .vo files behind when a proof no longer checks)."""
    memo = _memo if _memo is not None else {}
    if f in memo:
        return memo[f]
    v = os.path.join(COQ, f)
    vo = v + "o"
    ok = os.path.exists(v) and os.path.exists(vo) and os.path.getmtime(vo) >= os.path.getmtime(v)
    if ok:
        for d in DEPS.get(f, []):
            if not vo_uptodate(d, memo) or os.path.getmtime(os.path.join(COQ, d) + "o") > os.path.getmtime(vo):
                ok = False
                break
    memo[f] = ok
    return ok

def first_coq_error(logtxt, files):
    """Return (file, message) of the first error in the make log that concerns one of files."""
    blocks = re.split(r"(?m)^(?=File \")", logtxt)
    for b in blocks:
        m = re.match(r'File "\./([^"]+)", line (\d+)', b)
        if m and (m.group(1) in files) and "Error" in b:
            return m.group(1), b.strip()[:1500]
    return None, None

def enclosing_statement(f, line):
    try:
        txt = open(os.path.join(COQ, f)).read().splitlines()
    except OSError:
        return None
    for i in range(min(line, len(txt)) - 1, -1, -1):
        m = STMT.match(txt[i])
        if m:
            return m.group(2)
    return None

# ---------------------------------------------------------------- model evaluation
def eval_case_file(path):
    d = os.path.dirname(path)
    rc, out, dt = run(["sh", "-c", "ulimit -s unlimited 2>/dev/null; exec coqc -Q %s Verif %s" % (COQ, os.path.basename(path))],
                      cwd=d, timeout=1500, env=dict(os.environ, OCAMLRUNPARAM="i=32M"))
    res = {"file": os.path.basename(path), "rc": rc, "s": dt}
    m = re.search(r"M\s*=\s*(.*?)\s*:\s*list", out, re.S)
    if rc != 0 or not m:
        res["error"] = out[-1500:]
        return res
    body = " ".join(m.group(1).split())
    res["mismatches"] = body
    res["ok"] = (body == "[]")
    return res

# ---------------------------------------------------------------- main
def load_known():
    p = os.path.join(VERIF, "known_findings.json")
    if not os.path.exists(p):
        return []
    return json.load(open(p)).get("findings", [])

def main(argv):
    import argparse
    ap = argparse.ArgumentParser()
    ap.add_argument("id")
    ap.add_argument("--tier", default=os.environ.get("VERIF_TIER", "quick"))
    ap.add_argument("--replay")
    a = ap.parse_args(argv)
    pid = a.id.upper()
    tier = a.tier if a.tier in ("quick", "thorough") else "quick"
    try:
        seed = int(os.environ.get("VERIF_SEED", "1"))
    except ValueError:
        seed = 1
    replay_case = None
    if a.replay:
        rp = json.load(open(a.replay))
        seed = rp.get("seed", seed)
        tier = rp.get("tier", tier)
        replay_case = a.replay
    t0 = time.time()
    wdir = os.path.join(WORK, pid)
    shutil.rmtree(wdir, ignore_errors=True)
    os.makedirs(wdir, exist_ok=True)

    st = prepare(pid)
    prop_file = "props/%s.v" % pid
    cone = dep_cone(prop_file)
    stmts = count_statements(cone)
    built = [f for f in cone if vo_uptodate(f)]
    discharged = len(count_statements(built))
    problems = []      # reasons why the property is not shown (proof / correspondence)
    # translator
    for tool, msg in st["translator_errors"].items():
        outv = [o for (t, b, o) in TRANSLATORS if t == tool][0]
        if outv in cone:
            problems.append({"kind": "translator", "name": "tools/%s -> coq/%s" % (tool, outv), "detail": msg})
    # proofs
    missing = [f for f in cone if not vo_uptodate(f)]
    if missing:
        ef, emsg = first_coq_error(st["coq_log"], cone)
        thm = None
        if ef:
            m = re.search(r"line (\d+)", emsg)
            thm = enclosing_statement(ef, int(m.group(1))) if m else None
        warn = "; ".join("%s: %s" % kv for kv in st.get("translator_warnings", {}).items())
        problems.append({"kind": "proof", "name": "%s%s" % (ef or missing[0], (" : " + thm) if thm else ""),
                         "detail": (emsg or ("not built: " + ", ".join(missing))) + ((" [translator: " + warn + "]") if warn else "")})
    bad = forbidden_scan()
    if bad:
        problems.append({"kind": "proof", "name": "forbidden construct", "detail": "; ".join(bad)})
    # Print Assumptions of the property file (re-checked on every run)
    axioms = []
    if not missing:
        pv = os.path.join(wdir, "Prop_%s.v" % pid)
        shutil.copyfile(os.path.join(COQ, prop_file), pv)
        rc, out, _ = run(["coqc", "-Q", COQ, "Verif", os.path.basename(pv)], cwd=wdir, timeout=1500)
        if rc != 0:
            problems.append({"kind": "proof", "name": prop_file, "detail": out[-1500:]})
        else:
            cur = []
            for line in out.splitlines():
                if line.startswith("Closed under the global context"):
                    axioms.append("closed")
                elif line.startswith("Axioms:"):
                    cur = []
                    axioms.append(cur)
                elif axioms and isinstance(axioms[-1], list) and line.strip():
                    axioms[-1].append(line.strip())
    axiom_names = sorted({x.split(":")[0].strip() for a_ in axioms if isinstance(a_, list) for x in a_ if ":" in x})
    # thorough tier: the independent checker re-checks the compiled property theorems and everything they depend on
    coqchk = None
    if tier == "thorough" and not missing:
        rc, out, dt = run(["coqchk", "-silent", "-o", "-Q", COQ, "Verif", "Verif.props.%s" % pid], cwd=COQ, timeout=5400)
        m = re.search(r"\* Axioms:(.*?)\n\s*\n\* Constants", out, re.S)
        ax = m.group(1).strip() if m else "?"
        coqchk = {"exit": rc, "seconds": round(dt, 1), "axioms": ax,
                  "type_in_type": "type-in-type: <none>" in out, "unsafe_fixpoints": "unsafe (co)fixpoints: <none>" in out,
                  "assumed_positivity": "positivity is assumed: <none>" in out}
        if rc != 0 or ax != "<none>" or not (coqchk["type_in_type"] and coqchk["unsafe_fixpoints"] and coqchk["assumed_positivity"]):
            problems.append({"kind": "proof", "name": "coqchk Verif.props.%s" % pid, "detail": out[-1500:]})

    # harness
    report = None
    evals = []
    if st["harness_error"]:
        problems.append({"kind": "correspondence", "name": "harness build against /repo", "detail": st["harness_error"]})
    else:
        cmd = [os.path.join(BIN, "harness"), pid.lower(), "--out", wdir, "--work", os.path.join(wdir, "w"),
               "--seed", str(seed), "--tier", tier]
        if replay_case:
            cmd += ["--replay", replay_case]
        env = dict(GOENV, VERIF_DIR=VERIF, VERIF_REPO=REPO)
        rc, out, dt = run(cmd, cwd=wdir, env=env, timeout=3000 if tier == "quick" else 14000)
        open(os.path.join(wdir, "harness.log"), "w").write(out)
        rpath = os.path.join(wdir, pid + ".json")
        if rc != 0 or not os.path.exists(rpath):
            problems.append({"kind": "correspondence", "name": "harness run for %s" % pid,
                             "detail": "exit %d: %s" % (rc, out[-3000:])})
        else:
            report = json.load(open(rpath))
            files = [os.path.join(wdir, f) for f in (report.get("coq_case_files") or [])]
            if files and not missing:
                with ThreadPoolExecutor(max_workers=8) as ex:
                    evals = list(ex.map(eval_case_file, files))
                for e in evals:
                    if "error" in e:
                        problems.append({"kind": "correspondence", "name": "model evaluation of " + e["file"], "detail": e["error"]})
                    elif not e["ok"]:
                        problems.append({"kind": "correspondence", "name": "model vs implementation (%s)" % e["file"],
                                         "detail": "differing cases: " + e["mismatches"][:1500]})
            elif files and missing:
                pass  # already reported as a proof problem
    shutil.rmtree(os.path.join(wdir, "w"), ignore_errors=True)

    # ---------------- decision
    known = [k for k in load_known() if k.get("property") == pid]
    open_tags = {k["tag"]: k for k in known if k.get("status") == "open"}
    failures = report["oracle_failures"] if report else []
    unexplained = [f for f in failures if f.get("tag", "") not in open_tags]
    seen_tags = {f.get("tag") for f in failures}
    violations = 0
    lines = []
    for k in known:
        if k.get("status") == "open" and k["tag"] in seen_tags:
            lines.append("KNOWN-FINDING: property=%s %s [%s]" % (pid, k["what"], k["tag"]))
    if unexplained:
        f = unexplained[0]
        rp = os.path.join(wdir, "replay_%s.json" % pid)
        json.dump({"property": pid, "seed": seed, "tier": tier, "kind": "failing-input", "what": f["what"],
                   "tag": f.get("tag", ""), "case": f["replay"], "also": [x["what"] for x in unexplained[1:20]],
                   "broken": problems}, open(rp, "w"), indent=1)
        lines.append("VIOLATION property=%s replay=%s" % (pid, rp))
        violations = len(unexplained)
    elif problems:
        rp = os.path.join(wdir, "replay_%s.json" % pid)
        json.dump({"property": pid, "seed": seed, "tier": tier, "kind": "not-shown",
                   "no_longer_checks": [p["name"] for p in problems], "broken": problems,
                   "searched": "all direct oracles of the %s harness (%d cases) found no failing input" % (pid, report["cases"] if report else 0)},
                  open(rp, "w"), indent=1)
        lines.append("VIOLATION property=%s replay=%s no-failing-input-found" % (pid, rp))
        violations = 1
    for l in lines:
        print(l)
    for p in problems:
        log("[%s] %s: %s" % (p["kind"], p["name"], p["detail"][:600]))

    # ---------------- evidence
    wall = time.time() - t0
    cov = {
        "obligations": len(stmts), "discharged": discharged,
        "checker_cmd": "cd /verif/coq && coq_makefile -f _CoqProject -o Makefile && make -j16  (then coqc -Q /verif/coq Verif props/%s.v and each generated cases_%s_*.v)" % (pid, pid),
        "trusted_base": TRUSTED_BASE,
        "property_theorems": [n for n in count_statements([prop_file])],
        "proof_files": cone,
        "axioms": axiom_names if axiom_names else (["none (Closed under the global context) x%d" % len(axioms)] if axioms else []),
        "evaluations": report["cases"] if report else 0,
        "distinct_nontrivial": report["distinct_nontrivial"] if report else 0,
        "rule": report["rule"] if report else "",
        "samples": (report["samples"] if report and report["samples"] else [{"theorems": count_statements([prop_file])}]),
        "traces_validated_against_impl": sum(1 for e in evals if e.get("ok")) and (report["cases"] if report else 0),
        "model_case_files": [{"file": e["file"], "ok": e.get("ok", False), "s": round(e["s"], 2)} for e in evals],
        "distribution": report["distribution"] if report else {},
        "oracle_failures": len(failures), "unexplained_failures": len(unexplained),
        "known_findings_seen": sorted(t for t in seen_tags if t in open_tags),
        "coqchk": coqchk if coqchk else "thorough tier only",
        "coq_build_s": round(st.get("coq_s", 0), 1), "harness_build_s": round(st.get("harness_s", 0), 1),
    }
    if report and report.get("extra"):
        cov.update(report["extra"])
    ev = {"property_id": pid, "tier": tier, "seed": seed, "level": "proof", "coverage": cov,
          "assumptions": TRUSTED_BASE, "wall_s": round(wall, 2), "violations": violations}
    os.makedirs(os.path.join(VERIF, "evidence"), exist_ok=True)
    json.dump(ev, open(os.path.join(VERIF, "evidence", pid + ".json"), "w"), indent=1)
    log("%s: %s in %.1fs (cases=%s, obligations=%d/%d)" % (pid, "FAIL" if violations else "ok", wall,
        cov["evaluations"], discharged, len(stmts)))
    return 1 if violations else 0
