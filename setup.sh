#!/bin/sh
# Build everything the checks need, offline, from files on disk only.
set -e
cd "$(dirname "$0")"
python3 - <<'PY'
import sys, os
sys.path.insert(0, "lib")
import driver
st = driver.prepare()
for k, v in st["translator_errors"].items():
    print("translator", k, "failed:", v)
print("coq make rc:", st.get("coq_rc"), "in", round(st.get("coq_s", 0), 1), "s")
if st.get("coq_rc"):
    print(st["coq_log"][-3000:])
if st["harness_error"]:
    print("harness build failed:", st["harness_error"])
sys.exit(1 if (st.get("coq_rc") or st["harness_error"] or st["translator_errors"]) else 0)
PY
